//go:build verif && verif_c10

package session

import (
	"bytes"
	"context"
	"errors"
	"fmt"
	"io"
	"math/rand"
	"net"
	"strings"
	"sync"
	"sync/atomic"
	"testing"
	"time"

	vk "tunnox-core/internal/verifkit"
)

// C10 monitor (f) "forward": the real runBidirectionalForward between a local
// connection double (vk.BufPipe: unbounded, half-closable, refuses writes once the
// other end was closed) and a real FrameStream over a loopback *net.TCPConn pair whose
// far end is a second FrameStream (the peer node). Direction-order scripts:
//   remote-first : the peer sends its bytes and half-closes, the local side uploads
//                  AFTER that (chunk k+1 only once the peer holds chunk k), then ends;
//   local-first  : mirror image (request/response order);
//   simultaneous : both directions run concurrently and end independently.
// Oracle, per direction: bytes delivered == bytes written (nobody aborts in these
// scripts), then end-of-stream; no local write is refused; the forwarder returns.

const c10fWatchdog = 25 * time.Second

func c10fTimeout(err error) bool {
	if err == nil {
		return false
	}
	var ne net.Error
	if errors.As(err, &ne) && ne.Timeout() {
		return true
	}
	return strings.Contains(err.Error(), "i/o timeout")
}

// c10fSink collects what one reader receives and lets a writer wait for progress.
type c10fSink struct {
	mu   sync.Mutex
	cond *sync.Cond
	buf  []byte
	done bool
	err  error
}

func c10fNewSink() *c10fSink { s := &c10fSink{}; s.cond = sync.NewCond(&s.mu); return s }

func (s *c10fSink) run(rd io.Reader, r *rand.Rand, limit int) {
	b := make([]byte, 70000)
	for {
		k := 1 + r.Intn(len(b))
		if r.Intn(3) == 0 {
			k = 1 + r.Intn(600)
		}
		n, err := rd.Read(b[:k])
		s.mu.Lock()
		s.buf = append(s.buf, b[:n]...)
		over := len(s.buf) > limit
		if err != nil || over {
			s.done, s.err = true, err
			s.cond.Broadcast()
			s.mu.Unlock()
			return
		}
		s.cond.Broadcast()
		s.mu.Unlock()
	}
}

// waitFor blocks until the sink holds n bytes or has ended (its reader is bounded by
// the connection deadline). It reports whether the n bytes are there.
func (s *c10fSink) waitFor(n int) bool {
	s.mu.Lock()
	defer s.mu.Unlock()
	for len(s.buf) < n && !s.done {
		s.cond.Wait()
	}
	return len(s.buf) >= n
}

func (s *c10fSink) wait() ([]byte, error) {
	s.mu.Lock()
	defer s.mu.Unlock()
	for !s.done {
		s.cond.Wait()
	}
	return s.buf, s.err
}

// finish ends a sink from outside (scripted local end: Close was called, or never).
func (s *c10fSink) finish(err error) {
	s.mu.Lock()
	if !s.done {
		s.done, s.err = true, err
	}
	s.cond.Broadcast()
	s.mu.Unlock()
}

func (s *c10fSink) isDone() bool {
	s.mu.Lock()
	defer s.mu.Unlock()
	return s.done
}

var errC10fLocalReset = errors.New("c10: local connection reset by application")

// c10fLocal is a scripted local connection for the forwarder: its Read hands out the
// upload in seeded chunks and ends it the way real readers may (io.Reader contract):
// the last bytes TOGETHER with io.EOF / with another error, or the error on a separate
// call. Its Write feeds the download sink; Close ends that sink; writes after Close
// are refused.
type c10fLocal struct {
	data     []byte // what the local side delivers before its end
	off      int
	r        *rand.Rand
	gate     chan struct{} // closed when the upload may start
	lockstep *c10fSink     // hand out more only when the peer holds what was handed out
	withData bool
	endErr   error
	ended    bool
	postEnd  atomic.Int64
	sink     *c10fSink
	closed   chan struct{}
	once     sync.Once
	closes   atomic.Int64
}

func (l *c10fLocal) Read(p []byte) (int, error) {
	select {
	case <-l.gate:
	case <-l.closed:
		return 0, io.ErrClosedPipe
	}
	if l.ended {
		l.postEnd.Add(1)
		return 0, l.endErr
	}
	if len(p) == 0 {
		return 0, nil
	}
	if l.lockstep != nil && l.off > 0 {
		l.lockstep.waitFor(l.off)
	}
	if l.off == len(l.data) {
		l.ended = true
		return 0, l.endErr
	}
	k := 1 + l.r.Intn(70000)
	if l.r.Intn(3) == 0 {
		k = 1 + l.r.Intn(5000)
	}
	if k > len(p) {
		k = len(p)
	}
	if k > len(l.data)-l.off {
		k = len(l.data) - l.off
	}
	copy(p, l.data[l.off:l.off+k])
	l.off += k
	if l.off == len(l.data) && l.withData {
		l.ended = true
		return k, l.endErr
	}
	return k, nil
}

func (l *c10fLocal) Write(p []byte) (int, error) {
	select {
	case <-l.closed:
		return 0, io.ErrClosedPipe
	default:
	}
	l.sink.mu.Lock()
	l.sink.buf = append(l.sink.buf, p...)
	l.sink.cond.Broadcast()
	l.sink.mu.Unlock()
	return len(p), nil
}

func (l *c10fLocal) Close() error {
	l.closes.Add(1)
	l.once.Do(func() { close(l.closed); l.sink.finish(io.EOF) })
	return nil
}

type c10fHalfCloser interface {
	io.Writer
	CloseWrite() error
}

type c10fSendRes struct {
	accepted []byte
	errStr   string
	timeout  bool
}

// c10fSend writes data in seeded chunks; in lockstep mode chunk k+1 is written only
// after the receiving sink holds chunk k. Then it half-closes.
func c10fSend(w c10fHalfCloser, data []byte, r *rand.Rand, lockstep *c10fSink, res *c10fSendRes) {
	off := 0
	for off < len(data) {
		k := 1 + r.Intn(70000)
		if r.Intn(3) == 0 {
			k = 1 + r.Intn(5000)
		}
		if k > len(data)-off {
			k = len(data) - off
		}
		n, err := w.Write(data[off : off+k])
		if err != nil || n != k {
			res.errStr = fmt.Sprintf("Write of %d bytes at offset %d: n=%d err=%v", k, off, n, err)
			res.timeout = c10fTimeout(err)
			return
		}
		off += k
		res.accepted = data[:off]
		if lockstep != nil && !lockstep.waitFor(off) {
			// receiver ended before it had what was written: judged by the caller
			continue
		}
	}
	res.accepted = data
	if err := w.CloseWrite(); err != nil {
		res.errStr = "CloseWrite: " + err.Error()
		res.timeout = c10fTimeout(err)
	}
}

func c10fPair(t *testing.T, ln net.Listener) (*net.TCPConn, *net.TCPConn) {
	type acc struct {
		c   net.Conn
		err error
	}
	ch := make(chan acc, 1)
	go func() { c, err := ln.Accept(); ch <- acc{c, err} }()
	d, err := net.DialTimeout("tcp", ln.Addr().String(), 10*time.Second)
	if err != nil {
		t.Fatalf("c10: dial: %v", err)
	}
	var a acc
	select {
	case a = <-ch:
	case <-time.After(10 * time.Second):
		t.Fatalf("c10: accept did not return")
	}
	if a.err != nil {
		t.Fatalf("c10: accept: %v", a.err)
	}
	ta, tb := d.(*net.TCPConn), a.c.(*net.TCPConn)
	dl := time.Now().Add(c10fWatchdog)
	ta.SetDeadline(dl)
	tb.SetDeadline(dl)
	return ta, tb
}

func c10fSize(r *rand.Rand) int {
	switch r.Intn(6) {
	case 0:
		return 0
	case 1:
		return 1 + r.Intn(200)
	case 2:
		return 65536 + r.Intn(3) - 1
	default:
		return 1 + r.Intn(400<<10)
	}
}

func TestVerifC10Forward(t *testing.T) {
	vk.Quiet()
	run := vk.Start(t, "C10", "forward")
	defer run.Finish()
	run.Rule("real runBidirectionalForward(LocalConn = vk.BufPipe end, RemoteConn = FrameStream over loopback TCP, with/without LocalConnCloser and traffic counters); peer node = second FrameStream; orders remote-first (peer sends + CloseWrite/Close, local uploads afterwards in lockstep with the peer's receipt), local-first (mirror), simultaneous; sizes per direction {0, <200, 64K-1..64K+1, ..400K} in seeded chunks; local end = in-memory pipe, or a scripted connection whose Read ends with (n>0, io.EOF), (0, io.EOF) on a separate call, or (n>0, other error) at a seeded offset; traffic counters set in 2/3 of the cases (then also: counters == bytes delivered); distinct = (order, local end, peer ending, counters, upload size class, download size class)")
	r := run.Rand("gen")
	ln, err := net.Listen("tcp", "127.0.0.1:0")
	if err != nil {
		t.Fatalf("c10: listen: %v", err)
	}
	defer ln.Close()
	ctx, cancel := context.WithCancel(context.Background())
	defer cancel()
	n := run.Pick(150, 2500)
	orders := []string{"remote-first", "local-first", "simultaneous"}
	locals := []string{"pipe", "eof-with-data", "pipe", "eof-separate", "err-with-data"}
	for i := 0; i < n; i++ {
		order := orders[i%3]
		up, down := c10fSize(r), c10fSize(r)
		if order == "remote-first" && up == 0 {
			up = 1 + r.Intn(300<<10)
		}
		if order == "local-first" && down == 0 {
			down = 1 + r.Intn(300<<10)
		}
		peerEnd := []string{"closewrite", "close"}[r.Intn(2)]
		withCloser, withCounters := r.Intn(2) == 0, r.Intn(3) != 0
		local := locals[i%len(locals)]
		upData, downData := vk.Pattern(r.Uint64(), 0, up), vk.Pattern(r.Uint64(), 0, down)
		idStr := fmt.Sprintf("tcp-tunnel-%d-%d", int64(1727400000)*1e9+r.Int63n(int64(1e17)), 1024+r.Intn(60000))
		det := map[string]any{"seed": run.Seed, "case": i, "order": order, "upload_bytes": up, "download_bytes": down,
			"peer_ending": peerEnd, "local_conn_closer": withCloser, "counters": withCounters, "tunnel_id": idStr, "local_end": local}
		run.Case(fmt.Sprintf("forward|%d|%s", i, order), det)
		seeds := [4]int64{r.Int63(), r.Int63(), r.Int63(), r.Int63()}

		ta, tb := c10fPair(t, ln)
		id, _ := TunnelIDFromString(idStr)
		nodeStream := NewFrameStream(NewCrossNodeConn(ctx, "c10-node-b", ta, nil), id)
		peerStream := NewFrameStream(NewCrossNodeConn(ctx, "c10-node-a", tb, nil), id)
		app, fwdLocal := vk.BufPipe("c10-app", "c10-fwd")
		app.SetReadDeadline(time.Now().Add(c10fWatchdog))
		fwdLocal.SetReadDeadline(time.Now().Add(c10fWatchdog))
		peerSink, appSink := c10fNewSink(), c10fNewSink() // peer receives the upload, app the download
		var loc *c10fLocal
		wantUp := upData
		cfg := &BidirectionalForwardConfig{TunnelID: idStr, LogPrefix: "C10", LocalConn: fwdLocal, RemoteConn: nodeStream}
		if local != "pipe" {
			loc = &c10fLocal{data: upData, r: rand.New(rand.NewSource(seeds[2])), gate: make(chan struct{}), sink: appSink,
				closed: make(chan struct{}), withData: local != "eof-separate", endErr: io.EOF}
			if local == "err-with-data" {
				// the application aborts after a seeded part of what it had to send
				loc.data = upData[:r.Intn(up+1)]
				loc.endErr = errC10fLocalReset
				wantUp = loc.data
				det["local_aborts_at"] = len(loc.data)
			}
			if order == "remote-first" {
				loc.lockstep = peerSink
			}
			cfg.LocalConn = loc
		}
		if withCloser {
			cfg.LocalConnCloser = cfg.LocalConn.(io.Closer)
		}
		var sent, recv atomic.Int64
		if withCounters {
			cfg.BytesSentCounter, cfg.BytesReceivedCounter = &sent, &recv
		}
		fwdDone := make(chan struct{})
		go func() { defer close(fwdDone); runBidirectionalForward(cfg) }()

		go peerSink.run(peerStream, rand.New(rand.NewSource(seeds[0])), up)
		if loc == nil {
			go appSink.run(app, rand.New(rand.NewSource(seeds[1])), down)
		}
		// sendUp makes the local side deliver its upload (pipe: the application writes and
		// half-closes; scripted: the gate of the scripted reader opens)
		sendUp := func(lockstep *c10fSink, res *c10fSendRes, rr *rand.Rand) {
			if loc != nil {
				close(loc.gate)
				return
			}
			c10fSend(app, upData, rr, lockstep, res)
		}

		var upRes, downRes c10fSendRes
		peerW := c10fHalfCloser(peerStream)
		if peerEnd == "close" {
			peerW = c10fCloseAsHalf{peerStream}
		}
		upR, downR := rand.New(rand.NewSource(seeds[2])), rand.New(rand.NewSource(seeds[3]))
		switch order {
		case "remote-first":
			c10fSend(peerW, downData, downR, nil, &downRes)
			// the application has everything the peer sent; the peer's end-of-stream frame
			// is right behind it on the same connection
			appSink.waitFor(down)
			sendUp(peerSink, &upRes, upR)
		case "local-first":
			sendUp(nil, &upRes, upR)
			peerSink.waitFor(len(wantUp))
			c10fSend(peerW, downData, downR, appSink, &downRes)
		default:
			var wg sync.WaitGroup
			wg.Add(1)
			go func() { defer wg.Done(); c10fSend(peerW, downData, downR, nil, &downRes) }()
			sendUp(nil, &upRes, upR)
			wg.Wait()
		}
		peerGot, peerErr := peerSink.wait()
		returned := true
		if loc != nil {
			// scripted local end: its download sink ends when the forwarder closes it
			select {
			case <-fwdDone:
			case <-time.After(c10fWatchdog):
				returned = false
			}
			if !appSink.isDone() {
				appSink.finish(errors.New("c10: forwarder returned without closing the local connection"))
			}
		}
		appGot, appErr := appSink.wait()
		select {
		case <-fwdDone:
		case <-time.After(c10fWatchdog):
			returned = false
		}
		ta.Close()
		tb.Close()
		app.Close()
		fwdLocal.Close()
		run.Eval(1)
		if !returned || upRes.timeout || downRes.timeout || c10fTimeout(peerErr) || c10fTimeout(appErr) {
			run.Count("watchdog", 1)
			if run.Counter("watchdog") >= 3 {
				break
			}
			continue
		}
		run.Count("order_"+order, 1)
		run.Count("local_"+local, 1)
		if withCounters {
			run.Count("local_"+local+"_with_counters", 1)
		}
		run.Count("bytes_compared", int64(len(peerGot)+len(appGot)))
		run.Distinct(fmt.Sprintf("%s|%s|%s|counters=%v|up=%s|down=%s", order, local, peerEnd, withCounters, c10fClass(len(wantUp)), c10fClass(down)))
		if i < 3 {
			run.Sample(det)
		}
		class := ""
		switch {
		case upRes.errStr != "":
			class = "local-write-refused"
		case downRes.errStr != "":
			class = "peer-write-refused"
		case !bytes.Equal(peerGot, wantUp):
			class = "upload-" + c10fDiff(peerGot, wantUp)
		case peerErr != io.EOF:
			class = "upload-no-eof"
		case !bytes.Equal(appGot, downData):
			class = "download-" + c10fDiff(appGot, downData)
		case appErr != io.EOF:
			class = "download-no-eof"
		}
		if class == "" && withCounters && (sent.Load() != int64(len(peerGot)) || recv.Load() != int64(len(appGot))) {
			// everything was delivered and nobody failed: the traffic counters must show
			// exactly the bytes that were delivered
			class = "counter-mismatch"
			det["bytes_sent_counter"], det["bytes_received_counter"] = sent.Load(), recv.Load()
		}
		if class == "" {
			run.Count("cases_ok", 1)
			continue
		}
		det["upload_delivered"], det["upload_end"] = len(peerGot), fmt.Sprint(peerErr)
		det["download_delivered"], det["download_end"] = len(appGot), fmt.Sprint(appErr)
		det["local_write_error"], det["peer_write_error"] = upRes.errStr, downRes.errStr
		det["local_bytes_accepted"] = len(upRes.accepted)
		run.Violation("C10:forward|"+class+"|order="+order+"|local="+local, det)
		if run.Violations() >= 8 {
			break
		}
	}
	if run.Counter("watchdog") == 0 {
		run.Count("watchdog_free", 1)
	}
	run.Floor("watchdog_free", 1)
	for _, o := range orders {
		run.Floor("order_"+o, int64(n/3*8/10))
	}
	run.Floor("local_pipe", int64(n/5))
	run.Floor("local_eof-with-data_with_counters", int64(n/5/3))
	run.Floor("local_err-with-data_with_counters", int64(n/5/3))
	run.Floor("local_eof-separate", int64(n/5*8/10))
}

// c10fCloseAsHalf ends the peer's direction with a Close frame instead of an EOF frame.
type c10fCloseAsHalf struct{ s *FrameStream }

func (c c10fCloseAsHalf) Write(p []byte) (int, error) { return c.s.Write(p) }
func (c c10fCloseAsHalf) CloseWrite() error           { return c.s.Close() }

func c10fClass(n int) string {
	switch {
	case n == 0:
		return "0"
	case n <= 200:
		return "tiny"
	case n <= 65537:
		return "<=1frame"
	default:
		return "multi"
	}
}

func c10fDiff(got, want []byte) string {
	switch {
	case len(got) < len(want) && bytes.HasPrefix(want, got):
		return "truncated"
	case len(got) > len(want) && bytes.HasPrefix(got, want):
		return "extra-bytes"
	default:
		return "corrupt"
	}
}
