//go:build verif && verif_c02

package tunnel

import (
	"bytes"
	"context"
	"fmt"
	"io"
	"sync/atomic"
	"testing"

	vk "tunnox-core/internal/verifkit"
)

// Monitor "adapter-pipe": the long-poll style end of a tunnel. A stream without a raw reader is
// attached through streamDataForwarderAdapter, whose Read pulls from ReadAvailable; the real
// stream processor's ReadAvailable may hand back bytes TOGETHER with an error (what it had read
// when a read deadline fired, or the last bytes with EOF). The real Bridge.CopyWithControl copies
// from the adapter into a buffer; the script ends with EOF, so the copy returns by itself.
// Oracle: the bytes written to the far side are exactly the scripted bytes, in order, once, and
// the traffic counter equals their number.

type c02aTransient struct{}

func (c02aTransient) Error() string   { return "i/o timeout (scripted)" }
func (c02aTransient) Timeout() bool   { return true }
func (c02aTransient) Temporary() bool { return true }

type c02aItem struct {
	data []byte
	err  error
}

// c02aStream honours maxLength: a longer item is handed out in pieces, its error with the last.
type c02aStream struct {
	items []c02aItem
	calls int
}

func (s *c02aStream) ReadExact(int) ([]byte, error) { return nil, io.EOF }
func (s *c02aStream) ReadAvailable(max int) ([]byte, error) {
	s.calls++
	if len(s.items) == 0 {
		return nil, io.EOF
	}
	it := &s.items[0]
	if len(it.data) > max {
		out := it.data[:max]
		it.data = it.data[max:]
		return out, nil
	}
	out, err := it.data, it.err
	s.items = s.items[1:]
	return out, err
}
func (s *c02aStream) WriteExact([]byte) error { return nil }
func (s *c02aStream) Close()                  {}
func (s *c02aStream) GetConnectionID() string { return "c02a" }

func TestVerifC02AdapterPipe(t *testing.T) {
	run := vk.Start(t, "C02", "adapter-pipe")
	defer run.Finish()
	rounds := run.Pick(1500, 40000)
	run.Rule(fmt.Sprintf("%d seeded scripts of 1-12 ReadAvailable results for a stream attached through streamDataForwarderAdapter: chunks of 0..70000 bytes (unique counter-stamped content) returned alone, together with a transient timeout error, or (last chunk) together with EOF; empty transient timeouts in between; copied by the real Bridge.CopyWithControl into a buffer; far-side bytes must equal the scripted bytes and the traffic counter their number; floor: chunks returned together with a transient error; distinct = script shape", rounds))
	r := run.Rand("adapter")
	ctx, cancel := context.WithCancel(context.Background())
	defer cancel()
	b := NewBridge(ctx, &BridgeConfig{TunnelID: "c02-adapter"})
	defer b.Close()
	stamp := uint32(0)
	for rd := 0; rd < rounds && run.Violations() <= 20; rd++ {
		n := 1 + r.Intn(12)
		st := &c02aStream{}
		var want []byte
		shape := ""
		for i := 0; i < n; i++ {
			size := []int{0, 1, 7, 300, 4096, 32768, 32769, 70000}[r.Intn(8)]
			if size > 1 {
				size = 1 + r.Intn(size)
			}
			data := make([]byte, size)
			for j := range data {
				stamp++
				data[j] = byte(stamp*2654435761>>24) ^ byte(j)
			}
			var err error
			k := "d"
			switch r.Intn(4) {
			case 0:
				err, k = c02aTransient{}, "t"
				if size > 0 {
					run.Count("chunks_returned_with_transient_error", 1)
				}
			case 1:
				if i == n-1 {
					err, k = io.EOF, "e"
					if size > 0 {
						run.Count("last_chunk_returned_with_eof", 1)
					}
				}
			}
			want = append(want, data...)
			st.items = append(st.items, c02aItem{data, err})
			shape += fmt.Sprintf("%s%d,", k, c02aBucket(size))
		}
		run.Case("adapter-script", map[string]any{"round": rd, "shape": shape})
		var got bytes.Buffer
		var counter atomic.Int64
		total := b.CopyWithControl(&got, &streamDataForwarderAdapter{stream: st}, "source->target", &counter)
		run.Eval(1)
		run.Distinct(shape)
		if !bytes.Equal(got.Bytes(), want) {
			at := 0
			for at < got.Len() && at < len(want) && got.Bytes()[at] == want[at] {
				at++
			}
			run.Violation("adapter-pipe:far-side-bytes-differ-from-sent", map[string]any{"round": rd, "shape": shape, "sent": len(want), "delivered": got.Len(), "first_difference_at": at})
		} else if total != int64(len(want)) || counter.Load() != int64(len(want)) {
			run.Violation("adapter-pipe:traffic-count-differs-from-bytes-forwarded", map[string]any{"round": rd, "shape": shape, "sent": len(want), "returned_total": total, "counter": counter.Load()})
		}
	}
	run.Floor("chunks_returned_with_transient_error", int64(rounds))
}

func c02aBucket(n int) int {
	b := 0
	for n > 0 {
		n >>= 3
		b++
	}
	return b
}
