//go:build verif && verif_c02

package tunnel

import (
	"bytes"
	"context"
	"errors"
	"fmt"
	"io"
	"math/rand"
	"net"
	"runtime"
	"sort"
	"strings"
	"sync"
	"sync/atomic"
	"testing"
	"time"

	"tunnox-core/internal/cloud/models"
	"tunnox-core/internal/cloud/stats"
	"tunnox-core/internal/packet"
	"tunnox-core/internal/stream"
	vk "tunnox-core/internal/verifkit"
)

// C02 — a tunnel is a transparent, ordered, loss-free duplex byte pipe.
//
// Monitor "bytepipe": a real Bridge (NewBridge / SetTargetConnection / Start) is spliced
// between two harness clients. Each client writes a position-coded byte stream in seeded
// chunk sizes while reading the peer's stream; transports are net.Pipe, an unbounded
// in-memory pipe, or loopback TCP; the bridge sees the server-side ends through a thin
// wrapper that counts Close calls / bytes and can inject transport failures, short reads
// and read timeouts. Oracle (never wall-clock):
//   - prefix: everything an end receives equals the peer's stream at the same offsets;
//   - completeness: if the bridge ends the tunnel while neither end closed or failed and
//     bytes are still undelivered -> violation; if it parks forever with undelivered
//     bytes (goroutine-state classifier) -> violation;
//   - closure: once the bridge has finished (Start returned) the server-side connection
//     of the end that did not initiate the close must have been closed (otherwise that
//     peer can never observe closure); a bridge that never finishes after a close is
//     classified by goroutine state (parked in Read for ever = violation, else
//     inconclusive).

// ---------------------------------------------------------------------------
// server-side connection wrapper (what the bridge reads/writes/closes)
// ---------------------------------------------------------------------------

type c02Timeout struct{}

func (c02Timeout) Error() string   { return "c02: scripted i/o timeout" }
func (c02Timeout) Timeout() bool   { return true }
func (c02Timeout) Temporary() bool { return true }

var c02ErrScripted = errors.New("c02: scripted transport failure")

// c02NetErr is a scripted read failure of a given net.Error class.
type c02NetErr struct {
	class              string
	timeout, temporary bool
}

func (e *c02NetErr) Error() string   { return "c02: scripted transport failure (" + e.class + ")" }
func (e *c02NetErr) Timeout() bool   { return e.timeout }
func (e *c02NetErr) Temporary() bool { return e.temporary }

var c02ErrClasses = []string{"plain", "timeout-permanent", "temporary-not-timeout", "neterror-neither"}

// c02FailErr returns the sticky read error of a class. Only Timeout()&&Temporary() means
// "try again"; every error here is a permanent failure of the end (a QUIC-style idle
// timeout is Timeout() && !Temporary(), and every later Read returns it again).
func c02FailErr(class string) error {
	switch class {
	case "timeout-permanent":
		return &c02NetErr{class: class, timeout: true}
	case "temporary-not-timeout":
		return &c02NetErr{class: class, temporary: true}
	case "neterror-neither":
		return &c02NetErr{class: class}
	}
	return c02ErrScripted
}

// reads answered after the end has failed for good; beyond this the copy loop is spinning
const c02SpinLimit = 1000

type c02Conn struct {
	net.Conn
	closes       atomic.Int64
	reads        atomic.Int64
	rd, wr       atomic.Int64
	maxRead      int
	readFailAt   int64 // -1 = never; the Read that would pass this offset fails
	readFailErr  error // the (sticky) error of that failure; nil = c02ErrScripted
	postFail     atomic.Int64 // Reads answered after the failure was first reported
	spun         atomic.Bool  // more than c02SpinLimit of them: the reader keeps retrying a dead end
	writeFailAt  int64 // -1 = never
	timeoutEvery int64 // every k-th Read returns a temporary timeout (0 = never)
	dataWithErr  bool  // scripted timeouts / read failures are returned together with the bytes of that Read (n>0, err)
	finAt        int64 // -1 = never; the Read that reaches this offset returns its bytes together with io.EOF
	finGate      chan struct{} // ... once this is closed (the peer of this conn "closes" then)
	finFired     atomic.Bool
	dataErrReads atomic.Int64 // Reads answered with (n>0, err)
	closeGate    chan struct{} // non-nil: Close blocks until this is closed (slow-closing transport)
	closeStarted chan struct{} // closed when the first Close call has begun
	closeOnce    sync.Once
	timeouts     atomic.Int64
	faultFired   atomic.Bool
	maxReadSeen  atomic.Int64
}

func c02Wrap(c net.Conn) *c02Conn { return &c02Conn{Conn: c, readFailAt: -1, writeFailAt: -1, finAt: -1} }

func (c *c02Conn) Read(p []byte) (int, error) {
	k := c.reads.Add(1)
	timeoutNow := false
	if c.timeoutEvery > 0 && k%c.timeoutEvery == 0 {
		c.timeouts.Add(1)
		if !c.dataWithErr {
			return 0, c02Timeout{}
		}
		timeoutNow = true // deliver this Read's bytes together with the timeout
	}
	if c.finAt >= 0 && c.finFired.Load() {
		return 0, io.EOF
	}
	if c.finAt == 0 {
		<-c.finGate
		c.finFired.Store(true)
		c.faultFired.Store(true)
		return 0, io.EOF
	}
	if c.finAt > 0 {
		if rem := c.finAt - c.rd.Load(); int64(len(p)) > rem {
			p = p[:rem]
		}
	}
	if c.readFailAt >= 0 {
		rem := c.readFailAt - c.rd.Load()
		if rem <= 0 {
			return 0, c.failNow()
		}
		if int64(len(p)) > rem {
			p = p[:rem]
		}
	}
	if c.maxRead > 0 && len(p) > c.maxRead {
		p = p[:c.maxRead]
	}
	n, err := c.Conn.Read(p)
	if n > 0 {
		c.rd.Add(int64(n))
		if int64(n) > c.maxReadSeen.Load() {
			c.maxReadSeen.Store(int64(n))
		}
	}
	if err != nil {
		return n, err
	}
	if n > 0 && c.finAt > 0 && c.rd.Load() >= c.finAt {
		// the final bytes of this end's stream arrive together with the end of the stream
		// (legal for an io.Reader; QUIC-style streams do this) - once that end "closes"
		<-c.finGate
		c.finFired.Store(true)
		c.faultFired.Store(true)
		c.dataErrReads.Add(1)
		return n, io.EOF
	}
	if n > 0 && c.dataWithErr && c.readFailAt >= 0 && c.rd.Load() >= c.readFailAt {
		c.dataErrReads.Add(1)
		return n, c.failNow()
	}
	if timeoutNow {
		if n > 0 {
			c.dataErrReads.Add(1)
		}
		return n, c02Timeout{}
	}
	return n, nil
}

// failNow reports the scripted permanent read failure. The failure is sticky (every
// later Read reports it again); a reader that has asked more than c02SpinLimit times
// after the first report is spinning: that is recorded and the spin is cut by answering
// with an error of no retryable class.
func (c *c02Conn) failNow() error {
	if c.faultFired.Swap(true) {
		if c.postFail.Add(1) > c02SpinLimit {
			c.spun.Store(true)
			return c02ErrScripted
		}
	}
	if c.readFailErr != nil {
		return c.readFailErr
	}
	return c02ErrScripted
}

func (c *c02Conn) Write(p []byte) (int, error) {
	if c.writeFailAt >= 0 {
		rem := c.writeFailAt - c.wr.Load()
		if rem < int64(len(p)) {
			c.faultFired.Store(true)
			n := 0
			if rem > 0 {
				n, _ = c.Conn.Write(p[:rem])
				c.wr.Add(int64(n))
			}
			return n, c02ErrScripted
		}
	}
	n, err := c.Conn.Write(p)
	if n > 0 {
		c.wr.Add(int64(n))
	}
	return n, err
}

func (c *c02Conn) Close() error {
	c.closes.Add(1)
	if c.closeGate != nil {
		c.closeOnce.Do(func() { close(c.closeStarted) })
		<-c.closeGate
	}
	return c.Conn.Close()
}

// ---- layered stream over a real TCP connection ----
//
// An end may arrive over a real *net.TCPConn whose stream applies a reversible
// transformation (what StreamFactory encryption/compression does): the bytes the end
// "writes" and "receives" are the ones that went through its stream's writer/reader, so
// the bridge must splice the stream's reader/writer, never the raw socket. The
// transformation here is a position-dependent XOR keystream, applied symmetrically by
// the harness client. (The repository's own encrypting writer buffers up to its chunk size
// and flushes only on Close, so a live duplex tunnel over it stalls by construction; it is
// not used.)
func c02Key(key uint64, off int64) byte {
	x := (uint64(off)+1)*0x9E3779B97F4A7C15 ^ key
	x ^= x >> 31
	return byte(x*0xBF58476D1CE4E5B9>>56) | 1
}

type c02MaskReader struct {
	r   io.Reader
	key uint64
	off int64
}

func (m *c02MaskReader) Read(p []byte) (int, error) {
	n, err := m.r.Read(p)
	for i := 0; i < n; i++ {
		p[i] ^= c02Key(m.key, m.off+int64(i))
	}
	m.off += int64(n)
	return n, err
}

type c02MaskWriter struct {
	w   io.Writer
	key uint64
	off int64
}

func (m *c02MaskWriter) Write(p []byte) (int, error) {
	q := make([]byte, len(p))
	for i := range p {
		q[i] = p[i] ^ c02Key(m.key, m.off+int64(i))
	}
	n, err := m.w.Write(q)
	m.off += int64(n)
	return n, err
}

// c02MaskStream is the server-side stream of such an end (reader/writer layered over the
// counting/fault-injecting wrapper of the socket).
type c02MaskStream struct {
	r io.Reader
	w io.Writer
	c io.Closer
}

func c02NewMaskStream(under *c02Conn, key uint64) *c02MaskStream {
	// server reads what the client wrote with key, writes what the client reads with ^key
	return &c02MaskStream{r: &c02MaskReader{r: under, key: key}, w: &c02MaskWriter{w: under, key: ^key}, c: under}
}

func (s *c02MaskStream) GetReader() io.Reader { return s.r }
func (s *c02MaskStream) GetWriter() io.Writer { return s.w }
func (s *c02MaskStream) Close()               { s.c.Close() }
func (s *c02MaskStream) ReadPacket() (*packet.TransferPacket, int, error) {
	return nil, 0, io.EOF
}
func (s *c02MaskStream) WritePacket(*packet.TransferPacket, bool, int64) (int, error) { return 0, nil }
func (s *c02MaskStream) ReadExact(int) ([]byte, error)                                { return nil, io.EOF }
func (s *c02MaskStream) WriteExact([]byte) error                                      { return nil }

// c02MaskConn is the harness client's view of that end.
type c02MaskConn struct {
	net.Conn
	rd *c02MaskReader
	wr *c02MaskWriter
}

func c02NewMaskConn(c net.Conn, key uint64) *c02MaskConn {
	return &c02MaskConn{Conn: c, rd: &c02MaskReader{r: c, key: ^key}, wr: &c02MaskWriter{w: c, key: key}}
}
func (m *c02MaskConn) Read(p []byte) (int, error)  { return m.rd.Read(p) }
func (m *c02MaskConn) Write(p []byte) (int, error) { return m.wr.Write(p) }

// tunnel-connection double: same Close behaviour as session.TCPTunnelConnection
// (closes the stream, then the connection).
type c02TunnelConn struct {
	id     string
	conn   net.Conn
	st     stream.PackageStreamer
	closed atomic.Bool
}

func (m *c02TunnelConn) GetConnectionID() string { return m.id }
func (m *c02TunnelConn) GetClientID() int64      { return 0 }
func (m *c02TunnelConn) GetMappingID() string    { return "" }
func (m *c02TunnelConn) GetTunnelID() string     { return m.id }
func (m *c02TunnelConn) GetStream() stream.PackageStreamer {
	if m.st == nil {
		return nil // untyped nil, as TCPTunnelConnection does for a nil interface field
	}
	return m.st
}
func (m *c02TunnelConn) GetNetConn() net.Conn { return m.conn }
func (m *c02TunnelConn) Close() error {
	m.closed.Store(true)
	if m.st != nil {
		m.st.Close()
	}
	if m.conn != nil {
		return m.conn.Close()
	}
	return nil
}
func (m *c02TunnelConn) IsClosed() bool { return m.closed.Load() }

// ---------------------------------------------------------------------------
// transports
// ---------------------------------------------------------------------------

type c02Net struct {
	mu sync.Mutex
	ln net.Listener
}

func (n *c02Net) pair(kind string) (cli, srv net.Conn, err error) {
	switch kind {
	case "pipe":
		a, b := net.Pipe()
		return a, b, nil
	case "buf":
		a, b := vk.BufPipe("10.9.0.1:5000", "127.0.0.1:7000")
		// a.RemoteAddr() is the client's address: a is the server end
		return b, a, nil
	case "tcp":
		n.mu.Lock()
		defer n.mu.Unlock()
		type acc struct {
			c   net.Conn
			err error
		}
		ch := make(chan acc, 1)
		go func() { c, e := n.ln.Accept(); ch <- acc{c, e} }()
		c, e := net.DialTimeout("tcp", n.ln.Addr().String(), 5*time.Second)
		if e != nil {
			return nil, nil, e
		}
		select {
		case a := <-ch:
			if a.err != nil {
				c.Close()
				return nil, nil, a.err
			}
			return c, a.c, nil
		case <-time.After(5 * time.Second):
			c.Close()
			return nil, nil, errors.New("accept timeout")
		}
	}
	return nil, nil, fmt.Errorf("unknown transport %q", kind)
}

// ---------------------------------------------------------------------------
// case description
// ---------------------------------------------------------------------------

type c02Cfg struct {
	ID        int    `json:"id"`
	SrcT      string `json:"src_transport"`
	TgtT      string `json:"tgt_transport"`
	Stream    bool   `json:"with_stream_processor"`
	Limit     int64  `json:"bandwidth_limit"`
	S2T       int    `json:"bytes_src_to_tgt"`
	T2S       int    `json:"bytes_tgt_to_src"`
	ChunkS    string `json:"src_write_chunks"`
	ChunkT    string `json:"tgt_write_chunks"`
	MaxReadS  int    `json:"srv_max_read_src"`
	MaxReadT  int    `json:"srv_max_read_tgt"`
	RBufS     int    `json:"cli_read_buf_src"`
	RBufT     int    `json:"cli_read_buf_tgt"`
	Attach    string `json:"attach"` // before | after-start | after-write
	Script    string `json:"script"` // none | timeouts | close | err-read | err-write | bridge-close
	End       string `json:"script_end"`
	On        string `json:"script_on"` // rd | wr (client-side trigger for close / bridge-close)
	At        int64  `json:"script_at"`
	Closer    string `json:"orderly_closer"`
	DataErr   bool   `json:"errors_delivered_with_data"`
	ErrClass  string `json:"read_error_class,omitempty"`
	MaskS     bool   `json:"src_layered_stream_over_tcp,omitempty"`
	MaskT     bool   `json:"tgt_layered_stream_over_tcp,omitempty"`
	SrcT2     string `json:"src2_transport,omitempty"`
	Yield     bool   `json:"yield"`
	Seed      uint64 `json:"pattern_seed"`
	ChunkSeed int64  `json:"chunk_seed"`
}

func c02LimitClass(l int64) string {
	switch {
	case l == 0:
		return "none"
	case 2*l < 32*1024:
		return "burst<32K"
	case l <= 64*1024:
		return "64K"
	case l <= 1<<20:
		return "1M"
	default:
		return "1G"
	}
}

func c02SizeBucket(n int) string {
	switch {
	case n == 0:
		return "0"
	case n <= 32*1024:
		return "<=32K"
	case n <= 1<<20:
		return "<=1M"
	default:
		return ">1M"
	}
}

var c02SizeCands = []int{0, 1, 2, 100, 1000, 4096, 16000, 16001, 20000, 32767, 32768, 32769, 40000, 65536, 100000, 200000, 1 << 20, 1<<20 + 1, 1500000, 3 << 20, 8 << 20}

func c02PickSize(r *rand.Rand, cap int) int {
	if cap <= 0 {
		return 0
	}
	if r.Intn(3) == 0 {
		return r.Intn(cap + 1)
	}
	var ok []int
	for _, c := range c02SizeCands {
		if c <= cap {
			ok = append(ok, c)
		}
	}
	// bias towards the larger candidates: they are the ones that cross buffers
	i := len(ok) - 1 - r.Intn((len(ok)+1)/2)
	if r.Intn(4) == 0 {
		i = r.Intn(len(ok))
	}
	return ok[i]
}

func c02Gen(r *rand.Rand, id int, thorough bool) c02Cfg {
	c := c02Cfg{ID: id, Seed: r.Uint64(), ChunkSeed: r.Int63()}
	tr := func() string {
		switch k := r.Intn(10); {
		case k < 4:
			return "pipe"
		case k < 7:
			return "buf"
		default:
			return "tcp"
		}
	}
	c.SrcT, c.TgtT = tr(), tr()
	c.Stream = r.Intn(2) == 0
	maxUnl := 1500000
	if thorough {
		maxUnl = 8 << 20
	}
	switch k := r.Intn(100); {
	case k < 35:
		c.Limit = 0
	case k < 60:
		c.Limit = []int64{8000, 8000, 1000, 4000, 12000, 16383, int64(500 + r.Intn(15884))}[r.Intn(7)]
	case k < 75:
		c.Limit = 64 * 1024
	case k < 90:
		c.Limit = 1 << 20
	default:
		c.Limit = 1 << 30
	}
	if c.Limit == 0 || c.Limit >= 1<<30 {
		c.S2T = c02PickSize(r, maxUnl)
		c.T2S = c02PickSize(r, maxUnl)
	} else {
		// the token bucket starts full (burst = 2*limit); budget so that a correct
		// transfer needs at most ~1.5 s: total <= 3.5 * limit
		budget := int(c.Limit*7/2)
		if budget > 2*maxUnl {
			budget = 2 * maxUnl
		}
		a := c02PickSize(r, budget)
		b := c02PickSize(r, budget-a)
		if r.Intn(2) == 0 {
			a, b = b, a
		}
		c.S2T, c.T2S = a, b
	}
	chunk := func(total int) string {
		cl := []string{"small", "mid", "big", "whole", "tiny"}
		k := r.Intn(len(cl))
		if cl[k] == "tiny" && total > 256*1024 {
			k = 1
		}
		if cl[k] == "small" && total > 2<<20 {
			k = 2
		}
		return cl[k]
	}
	c.ChunkS, c.ChunkT = chunk(c.S2T), chunk(c.T2S)
	mr := func(total int) int {
		if r.Intn(10) < 7 {
			return 0
		}
		v := []int{1, 7, 512, 4096, 16000}[r.Intn(5)]
		if v == 1 && total > 20000 {
			v = 512
		}
		if v == 7 && total > 200000 {
			v = 4096
		}
		return v
	}
	c.MaxReadS, c.MaxReadT = mr(c.S2T), mr(c.T2S)
	rb := func(total int) int {
		v := []int{1, 100, 4096, 65536, 65536}[r.Intn(5)]
		if v == 1 && total > 20000 {
			v = 100
		}
		if v == 100 && total > 1<<20 {
			v = 4096
		}
		return v
	}
	c.RBufS, c.RBufT = rb(c.T2S), rb(c.S2T)
	c.Attach = []string{"before", "before", "after-start", "after-write"}[r.Intn(4)]
	c.End = []string{"src", "tgt"}[r.Intn(2)]
	c.On = []string{"rd", "wr"}[r.Intn(2)]
	c.Closer = []string{"src", "tgt"}[r.Intn(2)]
	c.Yield = r.Intn(4) == 0
	c.DataErr = r.Intn(2) == 0
	c.ErrClass = c02ErrClasses[r.Intn(len(c02ErrClasses))]
	c.MaskS = c.SrcT == "tcp" && r.Intn(2) == 0
	c.MaskT = c.TgtT == "tcp" && r.Intn(2) == 0
	c.SrcT2 = tr()
	switch k := r.Intn(100); {
	case k < 36:
		c.Script = "none"
	case k < 42:
		c.Script = "timeouts"
	case k < 50:
		c.Script = "fin" // End's last bytes arrive together with io.EOF after a complete exchange
	case k < 55:
		c.Script = "dup-target" // a second target-side attach for the same tunnel while the pipe carries data
	case k < 61:
		c.Script = "reattach" // the source end re-attaches on a new connection mid-stream
	case k < 78:
		c.Script = "close"
	case k < 85:
		c.Script = "err-read"
	case k < 91:
		c.Script = "err-write"
	default:
		c.Script = "bridge-close"
	}
	switch c.Script {
	case "fin":
		// the finishing end must have something to send
		if c.End == "src" && c.S2T == 0 {
			c.S2T = 1 + r.Intn(5000)
		}
		if c.End == "tgt" && c.T2S == 0 {
			c.T2S = 1 + r.Intn(5000)
		}
	case "reattach":
		if c.T2S < 2 {
			c.T2S = 2 + r.Intn(5000)
		}
		c.At = int64(1 + r.Intn(c.T2S-1)) // hand-over offset in the target->source stream: 1..T2S-1
		return c
	}
	// offset of the event within the relevant stream
	rel := 0
	switch c.Script {
	case "close", "bridge-close", "dup-target":
		// trigger counts bytes received (rd) or written (wr) by client End
		if (c.End == "src") == (c.On == "wr") {
			rel = c.S2T
		} else {
			rel = c.T2S
		}
	case "err-read": // server-side Read of End's connection = End's outgoing stream
		if c.End == "src" {
			rel = c.S2T
		} else {
			rel = c.T2S
		}
	case "err-write": // server-side Write towards End = End's incoming stream
		if c.End == "src" {
			rel = c.T2S
		} else {
			rel = c.S2T
		}
	}
	if rel > 0 {
		c.At = int64(r.Intn(rel + 1))
		if c.Script == "err-write" && c.At == int64(rel) {
			c.At = int64(rel - 1)
		}
	}
	return c
}

func c02Chunks(r *rand.Rand, class string, total int) []int {
	switch class {
	case "whole":
		if total == 0 {
			return nil
		}
		return []int{total}
	case "tiny":
		return vk.RandPartition(r, total, 64)
	case "small":
		return vk.RandPartition(r, total, 1500)
	case "mid":
		return vk.RandPartition(r, total, 40000)
	default:
		return vk.RandPartition(r, total, 256*1024)
	}
}

// ---------------------------------------------------------------------------
// harness client end
// ---------------------------------------------------------------------------

type c02Mismatch struct {
	Offset   int64  `json:"offset"`
	Len      int    `json:"chunk_len"`
	FirstBad int64  `json:"first_bad_offset"`
	Kind     string `json:"kind"`
	MatchAt  int64  `json:"chunk_matches_sent_stream_at"`
}

type c02Trigger struct {
	at    int64
	once  sync.Once
	fired atomic.Bool
	fn    func()
}

func (t *c02Trigger) check(n int64) {
	if t == nil || n < t.at {
		return
	}
	t.once.Do(func() { t.fired.Store(true); t.fn() })
}

type c02End struct {
	name   string
	cli    net.Conn
	srv    *c02Conn
	send   []byte
	expect []byte
	chunks []int
	rbuf   int
	yield  bool

	sent   atomic.Int64
	got    atomic.Int64
	wErr   error
	rErr   error
	wDone  chan struct{}
	rDone  chan struct{}
	gotAll chan struct{}
	bad    atomic.Pointer[c02Mismatch]
	badCh  chan struct{}
	onGot  *c02Trigger
	onSent *c02Trigger
	wStart chan struct{}
	// optional barrier: the writer stops after exactly pauseAt bytes (a chunk boundary),
	// closes paused and continues when resume is closed
	pauseAt int
	paused  chan struct{}
	resume  chan struct{}
	// optional milestone: markCh is closed once markAt bytes have been received
	markAt int64
	markCh chan struct{}
}

func (e *c02End) writer() {
	defer close(e.wDone)
	close(e.wStart)
	e.onSent.check(0)
	off := 0
	pause := func() {
		if e.paused != nil && off == e.pauseAt {
			close(e.paused)
			<-e.resume
			e.paused = nil
		}
	}
	defer func() {
		if e.paused != nil {
			close(e.paused)
		}
	}()
	pause()
	for _, n := range e.chunks {
		k, err := e.cli.Write(e.send[off : off+n])
		off += k
		e.sent.Store(int64(off))
		if err != nil {
			e.wErr = err
			return
		}
		e.onSent.check(int64(off))
		pause()
		if e.yield {
			runtime.Gosched()
		}
	}
}

func (e *c02End) reader() {
	defer close(e.rDone)
	if len(e.expect) == 0 {
		close(e.gotAll)
	}
	e.onGot.check(0)
	buf := make([]byte, e.rbuf)
	var got int64
	marked := false
	mark := func() {
		if e.markCh != nil && !marked && got >= e.markAt {
			marked = true
			close(e.markCh)
		}
	}
	mark()
	for {
		n, err := e.cli.Read(buf)
		if n > 0 {
			if e.bad.Load() == nil {
				end := got + int64(n)
				if end > int64(len(e.expect)) || !bytes.Equal(buf[:n], e.expect[got:end]) {
					e.bad.Store(c02Diagnose(e.expect, got, buf[:n]))
					if e.badCh != nil {
						close(e.badCh)
					}
				}
			}
			got += int64(n)
			e.got.Store(got)
			mark()
			if got == int64(len(e.expect)) && e.bad.Load() == nil {
				close(e.gotAll)
			}
			e.onGot.check(got)
			if e.yield {
				runtime.Gosched()
			}
		}
		if err != nil {
			e.rErr = err
			return
		}
	}
}

func c02Diagnose(expect []byte, off int64, chunk []byte) *c02Mismatch {
	m := &c02Mismatch{Offset: off, Len: len(chunk), FirstBad: -1, MatchAt: -1}
	for i := range chunk {
		if off+int64(i) >= int64(len(expect)) || chunk[i] != expect[off+int64(i)] {
			m.FirstBad = off + int64(i)
			break
		}
	}
	if m.FirstBad >= int64(len(expect)) {
		m.Kind = "overrun" // more bytes than the peer ever sent
		// are the extra bytes a replay of earlier data?
	}
	i := int(m.FirstBad - off)
	probe := chunk[i:]
	if len(probe) > 24 {
		probe = probe[:24]
	}
	if len(probe) >= 8 {
		if at := bytes.Index(expect, probe); at >= 0 {
			m.MatchAt = int64(at)
			switch {
			case int64(at) > m.FirstBad:
				m.Kind = "loss" // stream jumped forward: bytes were skipped
			case int64(at) < m.FirstBad:
				if m.Kind == "" {
					m.Kind = "dup"
				} else {
					m.Kind = "overrun-dup"
				}
			}
		}
	}
	if m.Kind == "" {
		m.Kind = "foreign"
	}
	return m
}

// ---------------------------------------------------------------------------
// goroutine-state classifier for "the bridge will never make progress again"
// ---------------------------------------------------------------------------

func c02Tagged(tags []string) (sig string, parkedIO int, other []string) {
	var lines []string
	for _, g := range vk.Goroutines() {
		st := g.Stack
		hit := false
		for _, tg := range tags {
			if strings.Contains(st, tg) {
				hit = true
				break
			}
		}
		if !hit {
			continue
		}
		kind := ""
		switch {
		case strings.Contains(st, "tunnel.(*c02StatsCC).gate("):
			kind = "statsgate" // parked inside the (stalled) statistics backend double
		case strings.Contains(st, "rate.(*Limiter)"), strings.Contains(st, "time.Sleep"):
			kind = "timer"
		case strings.Contains(st, "net.(*pipe).read"), strings.Contains(st, "net.(*pipe).write"),
			strings.Contains(st, "internal/poll.runtime_pollWait"),
			strings.Contains(st, "verifkit.(*BufConn).Read"):
			kind = "io"
		case strings.Contains(st, "sync.(*RWMutex).Lock"), strings.Contains(st, "sync.(*RWMutex).RLock"), strings.Contains(st, "sync.(*Mutex).Lock"):
			kind = "mutex"
		case strings.Contains(st, "sync.(*WaitGroup).Wait"):
			kind = "wgwait"
		default:
			kind = "other:" + g.State
		}
		if kind == "io" || kind == "mutex" || kind == "statsgate" {
			parkedIO++
		} else if kind != "wgwait" {
			other = append(other, kind)
		}
		lines = append(lines, g.ID+"/"+kind)
	}
	sort.Strings(lines)
	return strings.Join(lines, ","), parkedIO, other
}

func c02BridgeTag(b *Bridge) string { return fmt.Sprintf("tunnel.(*Bridge).CopyWithControl(%p", b) }
func c02StartTag(b *Bridge) string  { return fmt.Sprintf("tunnel.(*Bridge).Start(%p", b) }
func c02CloseTag(b *Bridge) string  { return fmt.Sprintf("tunnel.(*Bridge).Close(%p", b) }
func c02ReaderTag(e *c02End) string { return fmt.Sprintf("tunnel.(*c02End).reader(%p", e) }
func c02WriterTag(e *c02End) string { return fmt.Sprintf("tunnel.(*c02End).writer(%p", e) }

// c02PacingIdle: like c02Parked, but goroutines of the bridge may also sit in a timed wait
// (select/sleep - what pacing looks like), provided the bridge's token bucket is FULL at
// each of the three observations. A waiter that has reserved tokens keeps the bucket at
// or below zero until its wake-up time, so a full bucket means no reservation is
// outstanding: a goroutine still in a timed wait then is not waiting for tokens (virtual
// token time, read through Bridge.GetRateLimiter()).
func c02PacingIdle(b *Bridge, ends ...*c02End) (bool, string) {
	lim := b.GetRateLimiter()
	if lim == nil || lim.Burst() <= 0 {
		return false, ""
	}
	tags := []string{c02BridgeTag(b), c02StartTag(b), c02CloseTag(b)}
	for _, e := range ends {
		tags = append(tags, c02ReaderTag(e), c02WriterTag(e))
	}
	progress := func() (n int64) {
		for _, e := range ends {
			n += e.got.Load()
		}
		return
	}
	p0 := progress()
	prev := ""
	for i := 0; i < 3; i++ {
		if lim.TokensAt(time.Now()) < float64(lim.Burst())-0.5 {
			return false, "bucket-not-full"
		}
		sig, parked, others := c02Tagged(tags)
		timed := 0
		for _, o := range others {
			if o == "timer" || o == "other:select" || o == "other:sleep" {
				timed++
			} else {
				return false, sig
			}
		}
		if timed == 0 || parked == 0 || (i > 0 && sig != prev) {
			return false, sig
		}
		prev = sig
		time.Sleep(100 * time.Millisecond)
	}
	if progress() != p0 || lim.TokensAt(time.Now()) < float64(lim.Burst())-0.5 {
		return false, prev
	}
	return true, prev
}

// c02Parked reports whether every goroutine of the bridge (and of the given harness
// readers, which must have nothing left to consume) is parked in a transport read (or
// waiting for such a goroutine) in three consecutive dumps, with no progress of the
// readers in between: a state that cannot change without new external input.
func c02Parked(b *Bridge, readers ...*c02End) (bool, string) {
	tags := []string{c02BridgeTag(b), c02StartTag(b), c02CloseTag(b)}
	for _, e := range readers {
		// a client writer that is still around must be blocked in a transport write
		tags = append(tags, c02ReaderTag(e), c02WriterTag(e))
	}
	progress := func() (n int64) {
		for _, e := range readers {
			n += e.got.Load()
		}
		return
	}
	var prev string
	p0 := progress()
	for i := 0; i < 3; i++ {
		sig, io, other := c02Tagged(tags)
		if io == 0 || len(other) > 0 || sig == "" {
			return false, sig
		}
		// at least one goroutine of the bridge itself must be there and parked
		if bs, bio, _ := c02Tagged(tags[:3]); bs == "" || bio == 0 {
			return false, sig
		}
		if i > 0 && sig != prev {
			return false, sig
		}
		prev = sig
		time.Sleep(100 * time.Millisecond)
	}
	if progress() != p0 {
		return false, prev
	}
	return true, prev
}

// ---------------------------------------------------------------------------
// one case
// ---------------------------------------------------------------------------

const (
	c02WatchTransfer = 25 * time.Second
	c02WatchClose    = 15 * time.Second
)

type c02Outcome struct {
	complete bool
	watchdog bool
	stalled  bool
}

func c02Other(s, t *c02End, name string) *c02End {
	if name == "src" {
		return t
	}
	return s
}

func c02Pick(s, t *c02End, name string) *c02End {
	if name == "src" {
		return s
	}
	return t
}

func c02RunCase(run *vk.Run, nw *c02Net, cfg c02Cfg) (out c02Outcome) {
	if cfg.Script == "reattach" {
		return c02RunReattach(run, nw, cfg)
	}
	if cfg.Script == "bulk-close" {
		return c02RunBulkClose(run, nw, cfg)
	}
	if cfg.Script == "dup-target" {
		// the orderly end is made by the first target (what the pinned forwarder reads);
		// which connections the server closes when the SOURCE ends after a duplicate attach
		// is not judged here
		cfg.Closer = "tgt"
	}
	lc := c02LimitClass(cfg.Limit)
	ctx, cancel := context.WithCancel(context.Background())
	defer cancel()

	cliS, srvSraw, err := nw.pair(cfg.SrcT)
	if err != nil {
		run.Count("harness_transport_error", 1)
		out.watchdog = true
		return
	}
	cliT, srvTraw, err := nw.pair(cfg.TgtT)
	if err != nil {
		cliS.Close()
		srvSraw.Close()
		run.Count("harness_transport_error", 1)
		out.watchdog = true
		return
	}
	srvS, srvT := c02Wrap(srvSraw), c02Wrap(srvTraw)
	srvS.maxRead, srvT.maxRead = cfg.MaxReadS, cfg.MaxReadT
	maskS := cfg.MaskS && cfg.SrcT == "tcp"
	maskT := cfg.MaskT && cfg.TgtT == "tcp"
	if maskS {
		cliS = c02NewMaskConn(cliS, cfg.Seed|1)
	}
	if maskT {
		cliT = c02NewMaskConn(cliT, cfg.Seed<<1|1)
	}

	s2t := vk.Pattern(cfg.Seed, 0, cfg.S2T)
	t2s := vk.Pattern(cfg.Seed^0xA5A5A5A5DEADBEEF, 0, cfg.T2S)
	cr := rand.New(rand.NewSource(cfg.ChunkSeed))
	mk := func(name string, cli net.Conn, srv *c02Conn, send, expect []byte, class string, rbuf int) *c02End {
		return &c02End{name: name, cli: cli, srv: srv, send: send, expect: expect, chunks: c02Chunks(cr, class, len(send)),
			rbuf: rbuf, yield: cfg.Yield, wDone: make(chan struct{}), rDone: make(chan struct{}), gotAll: make(chan struct{}), wStart: make(chan struct{}), badCh: make(chan struct{})}
	}
	S := mk("src", cliS, srvS, s2t, t2s, cfg.ChunkS, cfg.RBufS)
	T := mk("tgt", cliT, srvT, t2s, s2t, cfg.ChunkT, cfg.RBufT)

	maxChunk := 0
	for _, e := range []*c02End{S, T} {
		for _, n := range e.chunks {
			if n > maxChunk {
				maxChunk = n
			}
		}
	}

	var srcStream, tgtStream stream.PackageStreamer
	if cfg.Stream && !maskS {
		srcStream = stream.NewStreamProcessor(srvS, srvS, ctx)
	}
	if cfg.Stream && !maskT {
		tgtStream = stream.NewStreamProcessor(srvT, srvT, ctx)
	}
	// what the bridge is given as the end's net.Conn: the counting wrapper, or - for an end
	// with a layered stream - the raw *net.TCPConn (as in production), while the stream's
	// reader/writer sit on top of the wrapper
	var srcNet, tgtNet net.Conn = srvS, srvT
	if maskS {
		srcNet = srvSraw
		srcStream = c02NewMaskStream(srvS, cfg.Seed|1)
	}
	if maskT {
		tgtNet = srvTraw
		tgtStream = c02NewMaskStream(srvT, cfg.Seed<<1|1)
	}
	bridge := NewBridge(ctx, &BridgeConfig{
		TunnelID:       fmt.Sprintf("c02-%d", cfg.ID),
		SourceConn:     srcNet,
		SourceStream:   srcStream,
		BandwidthLimit: cfg.Limit,
	})
	tgtConn := &c02TunnelConn{id: fmt.Sprintf("c02-%d-tgt", cfg.ID), conn: tgtNet, st: tgtStream}

	// event script
	caseOver := make(chan struct{})
	attached := make(chan struct{})
	var dupCli net.Conn
	var dupSrv *c02Conn
	var dupAttached atomic.Bool
	var induced atomic.Bool     // the harness is about to close/fail an end or close the bridge
	var inducedDone atomic.Bool // ... and that action has returned
	var trig *c02Trigger
	switch cfg.Script {
	case "close":
		e := c02Pick(S, T, cfg.End)
		trig = &c02Trigger{at: cfg.At, fn: func() { induced.Store(true); e.cli.Close(); inducedDone.Store(true) }}
	case "bridge-close":
		// the property speaks about a tunnel whose two ends are attached: the server-side
		// teardown is injected only after the target has been attached
		trig = &c02Trigger{at: cfg.At, fn: func() { <-attached; induced.Store(true); bridge.Close(); inducedDone.Store(true) }}
	case "dup-target":
		// a duplicate TunnelOpen from the target side (client retry / duplicated notification)
		// reaches SetTargetConnection again while source <-> first target carry data. Neither
		// live end closes: the established pipe must keep delivering everything.
		dcli, dsrv := vk.BufPipe("10.9.0.2:5001", "127.0.0.1:7000")
		dupCli, dupSrv = dcli, c02Wrap(dsrv)
		trig = &c02Trigger{at: cfg.At, fn: func() {
			go func() {
				<-attached
				// only once the pipe source <-> first target demonstrably carries data (the
				// bridge has read from or written to the first target's connection): two
				// target attaches racing BEFORE forwarding starts are a different question
				for srvT.rd.Load()+srvT.wr.Load() == 0 {
					select {
					case <-caseOver:
						return
					case <-time.After(200 * time.Microsecond):
					}
				}
				bridge.SetTargetConnection(&c02TunnelConn{id: "dup", conn: dupSrv})
				dupAttached.Store(true)
			}()
		}}
	case "err-read":
		c02Pick(S, T, cfg.End).srv.readFailAt = cfg.At
		c02Pick(S, T, cfg.End).srv.readFailErr = c02FailErr(cfg.ErrClass)
	case "err-write":
		c02Pick(S, T, cfg.End).srv.writeFailAt = cfg.At
	case "timeouts":
		srvS.timeoutEvery = 3
		srvT.timeoutEvery = 5
		srvS.dataWithErr, srvT.dataWithErr = cfg.DataErr, !cfg.DataErr || cfg.Yield
	case "fin":
		e := c02Pick(S, T, cfg.End)
		e.srv.finAt = int64(len(e.send))
		e.srv.finGate = make(chan struct{})
		go func() {
			// End "closes" only after it has written everything and received everything:
			// it does not close early, so its peer is entitled to the whole stream
			select {
			case <-e.gotAll:
			case <-caseOver:
			}
			select {
			case <-e.wDone:
			case <-caseOver:
			}
			close(e.srv.finGate)
		}()
	}
	if cfg.Script == "err-read" {
		c02Pick(S, T, cfg.End).srv.dataWithErr = cfg.DataErr
	}
	if trig != nil {
		e := c02Pick(S, T, cfg.End)
		if cfg.On == "rd" {
			e.onGot = trig
		} else {
			e.onSent = trig
		}
	}
	faultFired := func() bool { return srvS.faultFired.Load() || srvT.faultFired.Load() }

	startDone := make(chan struct{})
	var startErr error
	start := func() {
		go func() { startErr = bridge.Start(); close(startDone) }()
	}
	began := time.Now()
	switch cfg.Attach {
	case "before":
		bridge.SetTargetConnection(tgtConn)
		close(attached)
		start()
		go S.reader()
		go T.reader()
		go S.writer()
		go T.writer()
	case "after-start":
		start()
		go S.reader()
		go T.reader()
		go S.writer()
		go T.writer()
		runtime.Gosched()
		bridge.SetTargetConnection(tgtConn)
		close(attached)
	default: // after-write: the source is already writing when the target attaches
		go S.reader()
		go S.writer()
		<-S.wStart
		start()
		runtime.Gosched()
		go T.reader()
		go T.writer()
		bridge.SetTargetConnection(tgtConn)
		close(attached)
	}

	complete := make(chan struct{})
	go func() {
		for _, ch := range []chan struct{}{S.gotAll, T.gotAll, S.wDone, T.wDone} {
			select {
			case <-ch:
			case <-caseOver:
				return
			}
		}
		close(complete)
	}()

	detail := func(extra map[string]any) map[string]any {
		m := map[string]any{
			"case": cfg, "limit_class": lc, "burst": cfg.Limit * 2, "max_written_chunk": maxChunk,
			"src_sent": S.sent.Load(), "tgt_got": T.got.Load(), "tgt_sent": T.sent.Load(), "src_got": S.got.Load(),
			"srv_src_read": srvS.rd.Load(), "srv_tgt_written": srvT.wr.Load(), "srv_tgt_read": srvT.rd.Load(), "srv_src_written": srvS.wr.Load(),
			"srv_src_max_read": srvS.maxReadSeen.Load(), "srv_tgt_max_read": srvT.maxReadSeen.Load(),
			"srv_src_closes": srvS.closes.Load(), "srv_tgt_closes": srvT.closes.Load(),
			"bridge_bytes_sent": bridge.GetBytesSent(), "bridge_bytes_received": bridge.GetBytesReceived(),
			"elapsed_ms": time.Since(began).Milliseconds(),
		}
		for k, v := range extra {
			m[k] = v
		}
		return m
	}

	// ---- phase A: until the transfer completed or the bridge finished ----
	bridgeDone := false
	selfTerminated := false
	corrupt := false
	wd := time.NewTimer(c02WatchTransfer)
	poll := time.NewTicker(time.Second)
	writersDone := func() bool {
		for _, ch := range []chan struct{}{S.wDone, T.wDone} {
			select {
			case <-ch:
			default:
				return false
			}
		}
		return S.wErr == nil && T.wErr == nil
	}
phaseA:
	for {
		select {
		case <-complete:
			out.complete = S.wErr == nil && T.wErr == nil
			break phaseA
		case <-startDone:
			bridgeDone = true
			break phaseA
		case <-S.badCh:
			corrupt = true
			break phaseA
		case <-T.badCh:
			corrupt = true
			break phaseA
		case <-poll.C:
			// logical stall verdict: both clients have handed over all their bytes, the
			// bridge and both client readers are parked in transport reads, nothing moves
			if induced.Load() || faultFired() {
				// only once the harness action has been carried out completely
				if !(inducedDone.Load() || faultFired()) {
					continue
				}
				if parked, sig := c02Parked(bridge, S, T); parked {
					run.Violation("C02:closure|bridge-hang|script="+cfg.Script, detail(map[string]any{"bridge_goroutines": sig,
						"what": "an end closed/failed but the bridge stays parked in transport reads: the tunnel is never torn down"}))
					out.stalled = true
					break phaseA
				}
			} else if writersDone() {
				undelivered := func() bool {
					return S.got.Load() < int64(len(S.expect)) || T.got.Load() < int64(len(T.expect))
				}
				// (select may pick this branch although `complete` is ready too: re-check
				// after the dumps that bytes are really missing)
				if parked, sig := c02Parked(bridge, S, T); parked && undelivered() {
					run.Violation("C02:stall|limit="+lc, detail(map[string]any{"goroutines": sig,
						"what": "all bytes were handed to the tunnel, neither end closed, the bridge and both readers are parked in transport reads, yet bytes are undelivered: they never will be"}))
					out.stalled = true
					break phaseA
				}
				if cfg.Limit > 0 {
					if idle, sig := c02PacingIdle(bridge, S, T); idle && undelivered() {
						run.Violation("C02:stall|limit="+lc+"|cause=pacing-wait-without-token-debt", detail(map[string]any{"goroutines": sig,
							"what": "all bytes were handed to the tunnel, neither end closed; a copy goroutine sits in a timed wait although the token bucket has been full in three consecutive observations (nothing is owed, so no reservation is pending): the wait is not for tokens that will come and the undelivered bytes never move"}))
						out.stalled = true
						break phaseA
					}
				}
			}
		case <-wd.C:
			run.Count("watchdog", 1)
			sig, _, _ := c02Tagged([]string{c02BridgeTag(bridge), c02StartTag(bridge)})
			run.Observe("watchdog_last", detail(map[string]any{"phase": "transfer", "bridge_goroutines": sig}))
			out.watchdog = true
			break phaseA
		}
	}
	wd.Stop()
	poll.Stop()

	if bridgeDone && !out.complete {
		select {
		case <-complete: // both happened; completeness was reached first or concurrently
			out.complete = S.wErr == nil && T.wErr == nil
		default:
		}
	}
	if bridgeDone && !out.complete && !induced.Load() && !faultFired() {
		selfTerminated = true
		cause := "start-returned"
		if startErr != nil {
			cause = "start-error"
		}
		run.Violation("C02:incomplete|limit="+lc+"|cause=bridge-closed-tunnel", detail(map[string]any{
			"what":      "the bridge ended the tunnel although neither end had closed or failed; bytes written by an end were not delivered",
			"start_err": fmt.Sprint(startErr), "cause": cause,
			"lost_src_to_tgt": int64(cfg.S2T) - T.got.Load(), "lost_tgt_to_src": int64(cfg.T2S) - S.got.Load(),
		}))
	}

	// ---- phase B: closure ----
	initiator := "" // the end whose close/failure ends the tunnel ("" = none/both must see it)
	if !out.watchdog && !out.stalled && !corrupt {
		if !bridgeDone {
			// orderly end: one client closes after everything was exchanged
			initiator = cfg.Closer
			induced.Store(true)
			c02Pick(S, T, cfg.Closer).cli.Close()
			wd2 := time.NewTimer(c02WatchClose)
			poll2 := time.NewTicker(time.Second)
		phaseB:
			for {
				select {
				case <-startDone:
					bridgeDone = true
					break phaseB
				case <-poll2.C:
					if parked, sig := c02Parked(bridge, S, T); parked {
						run.Violation("C02:closure|bridge-hang|script=orderly", detail(map[string]any{"bridge_goroutines": sig, "closed_end": cfg.Closer,
							"what": "one end closed after a complete exchange but the bridge stays parked in transport reads: the other end never observes closure"}))
						out.stalled = true
						break phaseB
					}
				case <-wd2.C:
					run.Count("watchdog", 1)
					sig, _, _ := c02Tagged([]string{c02BridgeTag(bridge), c02StartTag(bridge)})
					run.Observe("watchdog_last", detail(map[string]any{"phase": "close", "bridge_goroutines": sig}))
					out.watchdog = true
					break phaseB
				}
			}
			wd2.Stop()
			poll2.Stop()
		} else if !selfTerminated {
			switch cfg.Script {
			case "close", "err-read", "err-write", "fin":
				initiator = cfg.End
			}
		}
	}
	if bridgeDone && !selfTerminated {
		// the bridge has finished for good; an end that did not initiate the teardown can
		// observe closure only if the server closed its connection
		for _, e := range []*c02End{S, T} {
			if e.name == initiator {
				continue
			}
			run.Count("closure_checks", 1)
			if e.srv.closes.Load() == 0 {
				run.Violation("C02:closure|peer-conn-left-open|script="+cfg.Script, detail(map[string]any{"end_left_open": e.name, "initiator": initiator,
					"what": "bridge finished (Start returned) without closing the other end's connection: that end never observes closure"}))
				continue
			}
			wd3 := time.NewTimer(c02WatchClose)
			select {
			case <-e.rDone:
				run.Count("closure_observed_by_peer", 1)
			case <-wd3.C:
				run.Count("harness_reader_stuck", 1)
				out.watchdog = true
			}
			wd3.Stop()
		}
		if cfg.Script == "fin" {
			// End wrote everything, received everything and only then ended its stream (its
			// last bytes arrived together with io.EOF): the peer is entitled to all of it.
			// The peer's reader has returned, so its byte count is final.
			fe := c02Pick(S, T, cfg.End)
			pe := c02Other(S, T, cfg.End)
			if fe.srv.finFired.Load() {
				run.Count("fin_with_data_fired", 1)
				select {
				case <-pe.rDone:
					if pe.bad.Load() == nil && pe.got.Load() < int64(len(pe.expect)) {
						run.Violation("C02:incomplete|limit="+lc+"|cause=final-bytes-with-eof-dropped", detail(map[string]any{"finishing_end": cfg.End,
							"lost_tail": int64(len(pe.expect)) - pe.got.Load(),
							"what":      "an end finished its stream after a complete exchange, its last Read returned (n>0, io.EOF); the peer saw closure without those bytes"}))
					} else if pe.bad.Load() == nil {
						out.complete = S.wErr == nil && T.wErr == nil
					}
				default:
				}
			}
		}
		if !bridge.IsClosed() {
			run.Count("bridge_not_closed_after_start_returned", 1)
		}
		// conservation (observation only: not part of the property statement)
		if bridge.GetBytesSent() != srvT.wr.Load() || bridge.GetBytesReceived() != srvS.wr.Load() {
			run.Count("counter_mismatch", 1)
			run.Observe("counter_mismatch_last", detail(nil))
		}
	}

	// ---- prefix verdicts ----
	for _, e := range []*c02End{S, T} {
		if m := e.bad.Load(); m != nil {
			dir := "src->tgt"
			if e.name == "src" {
				dir = "tgt->src"
			}
			run.Violation("C02:corrupt|kind="+m.Kind+"|limit="+lc, detail(map[string]any{"direction": dir, "mismatch": m,
				"what": "bytes received are not a prefix of what the peer sent"}))
		}
	}

	// ---- cleanup ----
	close(caseOver)
	if dupCli != nil {
		if dupAttached.Load() {
			run.Count("dup_target_attached_mid_stream", 1)
			if out.complete {
				run.Count("dup_target_pipe_kept_delivering", 1)
			}
			if n := dupSrv.wr.Load(); n > 0 {
				run.Count("dup_target_received_tunnel_bytes", 1)
			}
		}
		dupCli.Close()
		dupSrv.Close()
	}
	cliS.Close()
	cliT.Close()
	bridge.Close()
	srvS.Close()
	srvT.Close()
	if srcStream != nil {
		srcStream.Close()
	}
	if tgtStream != nil {
		tgtStream.Close()
	}
	cw := time.NewTimer(c02WatchClose)
	for _, ch := range []chan struct{}{S.rDone, T.rDone, S.wDone, T.wDone, startDone} {
		select {
		case <-ch:
		case <-cw.C:
			run.Count("harness_cleanup_stuck", 1)
			out.watchdog = true
		}
	}
	cw.Stop()

	// ---- evidence ----
	run.Eval(1)
	if out.complete {
		run.Count("complete_transfers", 1)
		if cfg.Limit > 0 {
			run.Max("limited_complete_max_ms", time.Since(began).Milliseconds())
		}
	}
	run.Count("cases_limit_"+lc, 1)
	run.Count("cases_script_"+cfg.Script, 1)
	if (maskS || maskT) && S.got.Load()+T.got.Load() > 0 {
		run.Count("layered_tcp_stream_cases", 1)
		if maskS != maskT {
			run.Count("layered_tcp_stream_one_end_only", 1)
		}
		if out.complete {
			run.Count("layered_tcp_stream_complete", 1)
		}
	}
	if induced.Load() || faultFired() {
		run.Count("teardown_induced", 1)
	}
	if trig != nil && trig.fired.Load() && !out.complete {
		run.Count("early_close_fired", 1)
	}
	if cfg.Script == "err-read" {
		cls := cfg.ErrClass
		if cls == "" {
			cls = "plain"
		}
		fe := c02Pick(S, T, cfg.End)
		if fe.srv.spun.Load() {
			run.Violation("C02:closure|spin-on-failed-end|errclass="+cls, detail(map[string]any{"failed_end": cfg.End, "reads_after_failure": fe.srv.postFail.Load(),
				"what": "an end failed for good (its Read keeps returning a non-retryable error); the copy loop asked it again more than 1000 times instead of tearing the tunnel down: busy spin, closure is not propagated"}))
		} else if fe.srv.faultFired.Load() {
			run.Count("err_read_class_"+cls, 1)
			run.Max("err_read_max_reads_after_failure", fe.srv.postFail.Load())
		}
	}
	if faultFired() {
		run.Count("transport_fault_fired", 1)
	}
	if n := srvS.dataErrReads.Load() + srvT.dataErrReads.Load(); n > 0 {
		run.Count("reads_returning_data_and_error", n)
	}
	if srvS.timeouts.Load()+srvT.timeouts.Load() > 0 {
		run.Count("read_timeouts_injected", srvS.timeouts.Load()+srvT.timeouts.Load())
	}
	if cfg.S2T > 0 && cfg.T2S > 0 {
		run.Count("bidirectional_cases", 1)
		if cfg.S2T > 32*1024 && cfg.T2S > 32*1024 {
			run.Count("cross_32k_bidir", 1)
		}
	}
	if cfg.S2T > 1<<20 || cfg.T2S > 1<<20 {
		run.Count("cross_1m_batch", 1)
	}
	if cfg.Limit > 0 && int64(maxChunk) > 2*cfg.Limit {
		run.Count("limited_chunk_gt_burst", 1)
	}
	if cfg.Limit > 0 && (srvS.maxReadSeen.Load() > 2*cfg.Limit || srvT.maxReadSeen.Load() > 2*cfg.Limit) {
		run.Count("limited_read_gt_burst", 1)
	}
	run.Count("bytes_delivered", S.got.Load()+T.got.Load())
	if S.got.Load()+T.got.Load() > 0 {
		run.Distinct(fmt.Sprintf("%s>%s|stream=%v|layered=%v/%v|limit=%s|attach=%s|script=%s|%s/%s", cfg.SrcT, cfg.TgtT, cfg.Stream, maskS, maskT, lc, cfg.Attach, cfg.Script,
			c02SizeBucket(cfg.S2T), c02SizeBucket(cfg.T2S)))
	}
	return out
}


// ---------------------------------------------------------------------------
// source re-attach case
// ---------------------------------------------------------------------------

// c02RunReattach: the tunnel runs between source connection S1 and the target; the
// source has sent its whole stream and the target the first h bytes of its stream, all
// of which have been received (so no bridge write is in flight), when the source end
// re-attaches on a new connection S2 (Bridge.SetSourceConnection, what
// handleExistingBridge does for a source reconnect) while S1 stays open (half-dead: its
// peer neither writes nor closes any more). From then on the tunnel's source end is S2:
//   - the target writes the rest: every bridge write towards the source that starts
//     after SetSourceConnection returned must go to S2 (S2 gets exactly target[h:], S1
//     exactly target[:h]);
//   - in half of the cases the new source end writes a second stream: the target must
//     receive it after the first one;
//   - then the target (or the new source end) closes: the other one must observe
//     closure and Start must return - without anybody touching the abandoned S1.
// Stalls/hangs are decided by the goroutine-state classifier only.
func c02RunReattach(run *vk.Run, nw *c02Net, cfg c02Cfg) (out c02Outcome) {
	lc := c02LimitClass(cfg.Limit)
	ctx, cancel := context.WithCancel(context.Background())
	defer cancel()
	var toClose []io.Closer
	defer func() {
		for _, c := range toClose {
			c.Close()
		}
	}()
	mkPair := func(kind string) (net.Conn, *c02Conn, bool) {
		cli, srv, err := nw.pair(kind)
		if err != nil {
			run.Count("harness_transport_error", 1)
			out.watchdog = true
			return nil, nil, false
		}
		w := c02Wrap(srv)
		toClose = append(toClose, cli, w)
		return cli, w, true
	}
	cliS1, srvS1, ok1 := mkPair(cfg.SrcT)
	if !ok1 {
		return
	}
	cliS2, srvS2, ok2 := mkPair(cfg.SrcT2)
	if !ok2 {
		return
	}
	cliT, srvT, ok3 := mkPair(cfg.TgtT)
	if !ok3 {
		return
	}
	srvS1.maxRead, srvT.maxRead = cfg.MaxReadS, cfg.MaxReadT
	h := int(cfg.At)
	after := 0 // bytes the new source end writes after the hand-over
	if cfg.DataErr {
		after = 1 + int(cfg.ChunkSeed%5000)
	}
	s2t := vk.Pattern(cfg.Seed, 0, cfg.S2T+after)
	t2s := vk.Pattern(cfg.Seed^0xA5A5A5A5DEADBEEF, 0, cfg.T2S)
	cr := rand.New(rand.NewSource(cfg.ChunkSeed))
	mk := func(name string, cli net.Conn, srv *c02Conn, send, expect []byte, chunks []int, rbuf int) *c02End {
		return &c02End{name: name, cli: cli, srv: srv, send: send, expect: expect, chunks: chunks, rbuf: rbuf, yield: cfg.Yield,
			wDone: make(chan struct{}), rDone: make(chan struct{}), gotAll: make(chan struct{}), wStart: make(chan struct{}), badCh: make(chan struct{})}
	}
	S1 := mk("src", cliS1, srvS1, s2t[:cfg.S2T], t2s[:h], c02Chunks(cr, cfg.ChunkS, cfg.S2T), cfg.RBufS)
	S2 := mk("src2", cliS2, srvS2, s2t[cfg.S2T:], t2s[h:], c02Chunks(cr, "small", after), cfg.RBufS)
	tChunks := append(c02Chunks(cr, cfg.ChunkT, h), c02Chunks(cr, cfg.ChunkT, len(t2s)-h)...)
	T := mk("tgt", cliT, srvT, t2s, s2t, tChunks, cfg.RBufT)
	T.pauseAt, T.paused, T.resume = h, make(chan struct{}), make(chan struct{})
	T.markAt, T.markCh = int64(cfg.S2T), make(chan struct{})
	paused := T.paused

	var st1, st2, stT stream.PackageStreamer
	if cfg.Stream {
		st1 = stream.NewStreamProcessor(srvS1, srvS1, ctx)
		st2 = stream.NewStreamProcessor(srvS2, srvS2, ctx)
		stT = stream.NewStreamProcessor(srvT, srvT, ctx)
	}
	bridge := NewBridge(ctx, &BridgeConfig{TunnelID: fmt.Sprintf("c02-%d", cfg.ID), SourceConn: srvS1, SourceStream: st1, BandwidthLimit: cfg.Limit})
	startDone := make(chan struct{})
	go func() { bridge.Start(); close(startDone) }()
	if cfg.Attach == "before" {
		bridge.SetTargetConnection(&c02TunnelConn{id: "tgt", conn: srvT, st: stT})
	}
	began := time.Now()
	for _, e := range []*c02End{S1, S2, T} {
		go e.reader()
	}
	go S1.writer()
	go T.writer()
	if cfg.Attach != "before" {
		runtime.Gosched()
		bridge.SetTargetConnection(&c02TunnelConn{id: "tgt", conn: srvT, st: stT})
	}
	handedOver := false
	closed := ""
	detail := func(extra map[string]any) map[string]any {
		m := map[string]any{"case": cfg, "limit_class": lc, "handover_offset": h, "handed_over": handedOver, "new_source_bytes_after_handover": after,
			"closed_end_after_handover": closed,
			"tgt_sent": T.sent.Load(), "old_src_got": S1.got.Load(), "new_src_got": S2.got.Load(), "old_src_sent": S1.sent.Load(), "new_src_sent": S2.sent.Load(), "tgt_got": T.got.Load(),
			"srv_old_src_written": srvS1.wr.Load(), "srv_new_src_written": srvS2.wr.Load(), "srv_tgt_read": srvT.rd.Load(),
			"srv_old_src_read": srvS1.rd.Load(), "srv_new_src_read": srvS2.rd.Load(),
			"srv_old_src_closes": srvS1.closes.Load(), "srv_new_src_closes": srvS2.closes.Load(), "srv_tgt_closes": srvT.closes.Load(),
			"elapsed_ms": time.Since(began).Milliseconds()}
		for k, v := range extra {
			m[k] = v
		}
		return m
	}
	// waitAll waits for chans; returns "" or the reason it stopped early
	waitAll := func(phase string, chans ...chan struct{}) string {
		wd := time.NewTimer(c02WatchTransfer)
		defer wd.Stop()
		poll := time.NewTicker(time.Second)
		defer poll.Stop()
		for _, ch := range chans {
			for done := false; !done; {
				select {
				case <-ch:
					done = true
				case <-S1.badCh:
					return "corrupt"
				case <-S2.badCh:
					return "corrupt"
				case <-T.badCh:
					return "corrupt"
				case <-startDone:
					return "bridge-ended"
				case <-poll.C:
					if phase != "after-handover" {
						continue
					}
					select {
					case <-T.wDone:
					default:
						continue
					}
					if T.wErr != nil {
						continue
					}
					towardsSource := S1.got.Load()+S2.got.Load() < int64(len(t2s))
					towardsTarget := T.got.Load() < int64(len(s2t))
					if parked, sig := c02Parked(bridge, S1, S2, T); parked && (towardsSource || towardsTarget) {
						towardsSource = S1.got.Load()+S2.got.Load() < int64(len(t2s))
						if towardsSource {
							run.Violation("C02:stall|limit="+lc+"|script=reattach", detail(map[string]any{"goroutines": sig,
								"what": "after the source re-attach all target bytes were handed to the tunnel, everything is parked, yet bytes reached neither source connection"}))
						} else {
							run.Violation("C02:stall|script=new-source-bytes-after-reattach", detail(map[string]any{"goroutines": sig,
								"what": "after SetSourceConnection the tunnel's source end is the new connection, but the source->target copy loop stays parked in Read on the replaced connection: bytes the new source end writes are never read, the target never gets them"}))
						}
						out.stalled = true
						return "stalled"
					}
				case <-wd.C:
					run.Count("watchdog", 1)
					run.Observe("watchdog_last", detail(map[string]any{"phase": "reattach:" + phase}))
					out.watchdog = true
					return "watchdog"
				}
			}
		}
		return ""
	}
	verdictCorrupt := func() {
		if m := S1.bad.Load(); m != nil {
			if handedOver && m.Kind != "foreign" && m.FirstBad >= int64(h) {
				run.Violation("C02:reattach|bytes-written-to-replaced-source-conn|limit="+lc, detail(map[string]any{"mismatch": m,
					"what": "a bridge write that started after SetSourceConnection returned went to the old source connection; the current source end never gets these bytes"}))
			} else {
				run.Violation("C02:corrupt|kind="+m.Kind+"|limit="+lc, detail(map[string]any{"direction": "tgt->src(old conn)", "mismatch": m}))
			}
		}
		if m := S2.bad.Load(); m != nil {
			run.Violation("C02:reattach|new-source-stream-not-the-suffix|kind="+m.Kind+"|limit="+lc, detail(map[string]any{"mismatch": m,
				"what": "what the re-attached source end receives is not exactly the target's stream from the hand-over offset"}))
		}
		if m := T.bad.Load(); m != nil {
			run.Violation("C02:corrupt|kind="+m.Kind+"|limit="+lc, detail(map[string]any{"direction": "src->tgt", "mismatch": m}))
		}
	}

	// phase 1: everything sent so far has arrived; the target's writer is parked at h
	why := waitAll("before-handover", S1.wDone, paused, S1.gotAll, T.markCh)
	if why == "" && (S1.wErr != nil || T.wErr != nil) {
		why = "bridge-ended"
	}
	if why == "" {
		// phase 2: hand-over
		bridge.SetSourceConnection(&c02TunnelConn{id: "src2", conn: srvS2, st: st2})
		handedOver = true
		run.Count("reattach_done", 1)
		close(T.resume)
		go S2.writer()
		why = waitAll("after-handover", T.wDone, S2.gotAll, S2.wDone, T.gotAll)
		if why == "" && T.wErr == nil && S2.wErr == nil {
			out.complete = S1.bad.Load() == nil && S2.bad.Load() == nil && T.bad.Load() == nil
			if out.complete {
				run.Count("reattach_suffix_exact", 1)
				if after > 0 {
					run.Count("reattach_new_source_bytes_delivered", 1)
				}
			}
		}
	} else {
		close(T.resume)
		close(S2.wDone)
	}
	run.Count("reattach_outcome_"+map[string]string{"": "exchanged"}[why]+why, 1)
	switch why {
	case "corrupt":
		verdictCorrupt()
	case "bridge-ended":
		run.Violation("C02:incomplete|limit="+lc+"|cause=bridge-closed-tunnel", detail(map[string]any{
			"what": "the bridge ended the tunnel although no end had closed or failed (re-attach case)"}))
	case "":
		verdictCorrupt()
	}

	// phase 3: one of the tunnel's CURRENT ends closes; the abandoned S1 is left alone
	if why == "" {
		closer, other, script := cliT, S2, "target-closes-after-source-reattach"
		closed = "tgt"
		if cfg.Closer == "src" {
			closer, other, script = cliS2, T, "new-source-closes-after-source-reattach"
			closed = "src2"
		}
		closer.Close()
		wd := time.NewTimer(c02WatchClose)
		poll := time.NewTicker(time.Second)
	closing:
		for {
			select {
			case <-startDone:
				run.Count("closure_checks", 1)
				if other.srv.closes.Load() == 0 {
					run.Violation("C02:closure|peer-conn-left-open|script="+script, detail(map[string]any{
						"what": "bridge finished without closing the other current end's connection"}))
				} else {
					select {
					case <-other.rDone:
						run.Count("closure_observed_by_peer", 1)
						run.Count("reattach_closure_ok", 1)
					case <-wd.C:
						run.Count("harness_reader_stuck", 1)
						out.watchdog = true
					}
				}
				break closing
			case <-poll.C:
				if parked, sig := c02Parked(bridge, S1, S2, T); parked {
					peerSaw := false
					select {
					case <-other.rDone:
						peerSaw = true
					default:
					}
					run.Violation("C02:closure|bridge-hang|script="+script, detail(map[string]any{"bridge_goroutines": sig,
						"other_end_observed_closure": peerSaw, "start_returned": false,
						"what": "after a source re-attach one of the tunnel's current ends closed; the source->target copy loop is still parked in Read on the replaced source connection, so Bridge.Start never returns (the server cannot forget the tunnel) and, when the new source end is the one that closed, the target never observes closure"}))
					out.stalled = true
					break closing
				}
			case <-wd.C:
				run.Count("watchdog", 1)
				run.Observe("watchdog_last", detail(map[string]any{"phase": "reattach:close"}))
				out.watchdog = true
				break closing
			}
		}
		wd.Stop()
		poll.Stop()
	}
	// cleanup (only now the abandoned connection is closed)
	cliT.Close()
	cliS1.Close()
	cliS2.Close()
	bridge.Close()
	for _, c := range []io.Closer{srvS1, srvS2, srvT} {
		c.Close()
	}
	for _, st := range []stream.PackageStreamer{st1, st2, stT} {
		if st != nil {
			st.Close()
		}
	}
	cw := time.NewTimer(c02WatchClose)
	for _, ch := range []chan struct{}{S1.rDone, S2.rDone, T.rDone, S1.wDone, S2.wDone, T.wDone, startDone} {
		select {
		case <-ch:
		case <-cw.C:
			run.Count("harness_cleanup_stuck", 1)
			out.watchdog = true
		}
	}
	cw.Stop()
	run.Eval(1)
	if out.complete {
		run.Count("complete_transfers", 1)
	}
	run.Count("cases_limit_"+lc, 1)
	run.Count("cases_script_reattach", 1)
	run.Count("bytes_delivered", S1.got.Load()+S2.got.Load()+T.got.Load())
	run.Distinct(fmt.Sprintf("%s+%s>%s|stream=%v|limit=%s|attach=%s|script=reattach|after=%v|closer=%s|%s/%s", cfg.SrcT, cfg.SrcT2, cfg.TgtT, cfg.Stream, lc, cfg.Attach,
		after > 0, cfg.Closer, c02SizeBucket(cfg.S2T), c02SizeBucket(cfg.T2S)))
	return out
}


// ---------------------------------------------------------------------------
// bulk transfer, then the sender closes while the receiver is still draining
// ---------------------------------------------------------------------------

// c02RunBulkClose: the sending end writes its whole stream (larger than the socket
// buffers) and then closes; it has nothing to receive, so it does not close early and
// the receiving end - attached over a real *net.TCPConn (handed to the bridge as such,
// with the stream's reader/writer on the counting wrapper) - is entitled to every byte.
// The receiver is a slow consumer in a logical sense: it reads only while more than
// `keep` bytes the bridge has already written towards it are still unread (or when the
// pipeline has stopped moving, or once the bridge has finished), so that the server-side
// socket still holds queued data when the bridge tears the tunnel down. Verdict: once the
// receiver's stream has ended, its byte count is final; anything short of the sender's
// stream is a loss.
func c02RunBulkClose(run *vk.Run, nw *c02Net, cfg c02Cfg) (out c02Outcome) {
	lc := c02LimitClass(cfg.Limit)
	ctx, cancel := context.WithCancel(context.Background())
	defer cancel()
	senderIsSrc := cfg.End == "src"
	srcT, tgtT := cfg.SrcT, cfg.TgtT
	if senderIsSrc {
		tgtT = "tcp"
	} else {
		srcT = "tcp"
	}
	cliS, srvSraw, err := nw.pair(srcT)
	if err != nil {
		run.Count("harness_transport_error", 1)
		out.watchdog = true
		return
	}
	cliT, srvTraw, err := nw.pair(tgtT)
	if err != nil {
		cliS.Close()
		srvSraw.Close()
		run.Count("harness_transport_error", 1)
		out.watchdog = true
		return
	}
	srvS, srvT := c02Wrap(srvSraw), c02Wrap(srvTraw)
	total := cfg.S2T
	data := vk.Pattern(cfg.Seed, 0, total)
	cr := rand.New(rand.NewSource(cfg.ChunkSeed))
	sendCli, recvCli, recvSrv := cliS, cliT, srvT
	if !senderIsSrc {
		sendCli, recvCli, recvSrv = cliT, cliS, srvS
	}
	if tc, ok := recvCli.(*net.TCPConn); ok {
		tc.SetReadBuffer(32 * 1024) // keep the unread backlog on the server side of the connection
	}
	// the bridge gets raw TCP connections as net.Conn (as in production); the stream's
	// reader/writer are the counting wrappers
	var srcNet, tgtNet net.Conn = srvS, srvT
	var srcStream, tgtStream stream.PackageStreamer
	if _, ok := srvSraw.(*net.TCPConn); ok {
		srcNet = srvSraw
		srcStream = stream.NewStreamProcessor(srvS, srvS, ctx)
	} else if cfg.Stream {
		srcStream = stream.NewStreamProcessor(srvS, srvS, ctx)
	}
	if _, ok := srvTraw.(*net.TCPConn); ok {
		tgtNet = srvTraw
		tgtStream = stream.NewStreamProcessor(srvT, srvT, ctx)
	} else if cfg.Stream {
		tgtStream = stream.NewStreamProcessor(srvT, srvT, ctx)
	}
	bridge := NewBridge(ctx, &BridgeConfig{TunnelID: fmt.Sprintf("c02-%d", cfg.ID), SourceConn: srcNet, SourceStream: srcStream, BandwidthLimit: cfg.Limit})
	bridge.SetTargetConnection(&c02TunnelConn{id: "tgt", conn: tgtNet, st: tgtStream})
	startDone := make(chan struct{})
	go func() { bridge.Start(); close(startDone) }()
	began := time.Now()

	const keep = 1 << 20
	var got, backlogAtClose atomic.Int64
	var sent atomic.Int64
	var wErr error
	wDone := make(chan struct{})
	go func() {
		defer close(wDone)
		off := 0
		for _, n := range c02Chunks(cr, cfg.ChunkS, total) {
			k, err := sendCli.Write(data[off : off+n])
			off += k
			sent.Store(int64(off))
			if err != nil {
				wErr = err
				return
			}
		}
		// everything written, nothing to receive: the sender is done and closes
		backlogAtClose.Store(int64(total) - got.Load())
		sendCli.Close()
	}()

	var bad atomic.Pointer[c02Mismatch]
	var rErr error
	forcedReads := int64(0)
	rDone := make(chan struct{})
	go func() {
		defer close(rDone)
		buf := make([]byte, 64*1024)
		lastWr, lastMove := int64(-1), time.Now()
		for {
			finished := false
			select {
			case <-startDone:
				finished = true
			default:
			}
			wr := recvSrv.wr.Load()
			if wr != lastWr {
				lastWr, lastMove = wr, time.Now()
			}
			stalled := time.Since(lastMove) > 3*time.Millisecond // pipeline full: the bridge cannot write any further
			if !finished && wr-got.Load() <= keep && !stalled {
				time.Sleep(200 * time.Microsecond)
				continue
			}
			if stalled && !finished {
				forcedReads++
				lastMove = time.Now()
			}
			n, err := recvCli.Read(buf)
			if n > 0 {
				g := got.Load()
				if bad.Load() == nil {
					end := g + int64(n)
					if end > int64(total) || !bytes.Equal(buf[:n], data[g:end]) {
						bad.Store(c02Diagnose(data, g, buf[:n]))
					}
				}
				got.Store(g + int64(n))
			}
			if err != nil {
				rErr = err
				return
			}
		}
	}()

	detail := func(extra map[string]any) map[string]any {
		m := map[string]any{"case": cfg, "limit_class": lc, "sender": cfg.End, "total": total, "sender_wrote": sent.Load(), "sender_write_error": fmt.Sprint(wErr),
			"receiver_got": got.Load(), "receiver_stream_ended_with": fmt.Sprint(rErr), "bridge_wrote_towards_receiver": recvSrv.wr.Load(),
			"receiver_reads_forced_by_full_pipeline": forcedReads, "undelivered_when_sender_closed": backlogAtClose.Load(), "elapsed_ms": time.Since(began).Milliseconds()}
		for k, v := range extra {
			m[k] = v
		}
		return m
	}
	wd := time.NewTimer(c02WatchTransfer)
	select {
	case <-rDone:
	case <-wd.C:
		run.Count("watchdog", 1)
		run.Observe("watchdog_last", detail(map[string]any{"phase": "bulk-close"}))
		out.watchdog = true
	}
	wd.Stop()
	if !out.watchdog {
		<-wDone
		backlog := recvSrv.wr.Load() - got.Load()
		_ = backlog
		switch {
		case bad.Load() != nil:
			run.Violation("C02:corrupt|kind="+bad.Load().Kind+"|limit="+lc, detail(map[string]any{"mismatch": bad.Load()}))
		case wErr != nil:
			// the sender could not even hand over its stream: the tunnel was cut under it
			run.Violation("C02:incomplete|limit="+lc+"|cause=bridge-closed-tunnel", detail(map[string]any{
				"what": "the bridge ended the tunnel while the sender was still writing and nobody had closed"}))
		case got.Load() < int64(total):
			run.Violation("C02:incomplete|limit="+lc+"|cause=tail-lost-when-sender-closed", detail(map[string]any{"lost_tail": int64(total) - got.Load(),
				"what": "the sender wrote its whole stream and then closed (nothing to receive, so not early); the receiver's stream ended without the last bytes: data still queued towards the receiver was discarded at teardown"}))
		default:
			out.complete = true
			run.Count("bulk_close_complete", 1)
		}
		select {
		case <-startDone:
		case <-time.After(c02WatchClose):
			run.Count("watchdog", 1)
			out.watchdog = true
		}
	}
	cliS.Close()
	cliT.Close()
	bridge.Close()
	srvS.Close()
	srvT.Close()
	for _, st := range []stream.PackageStreamer{srcStream, tgtStream} {
		if st != nil {
			st.Close()
		}
	}
	cw := time.NewTimer(c02WatchClose)
	for _, ch := range []chan struct{}{rDone, wDone, startDone} {
		select {
		case <-ch:
		case <-cw.C:
			run.Count("harness_cleanup_stuck", 1)
			out.watchdog = true
		}
	}
	cw.Stop()
	run.Eval(1)
	if out.complete {
		run.Count("complete_transfers", 1)
		if forcedReads > 0 {
			run.Count("bulk_close_pipeline_was_full", 1)
		}
		if backlogAtClose.Load() >= 512*1024 {
			run.Count("bulk_close_half_mib_undelivered_at_close", 1)
		}
	}
	run.Count("cases_limit_"+lc, 1)
	run.Count("cases_script_bulk-close", 1)
	run.Count("bytes_delivered", got.Load())
	run.Distinct(fmt.Sprintf("%s>%s|stream=%v|limit=%s|script=bulk-close|sender=%s|%s", srcT, tgtT, cfg.Stream, lc, cfg.End, c02SizeBucket(total)))
	return out
}

// ---------------------------------------------------------------------------
// statistics backend double
// ---------------------------------------------------------------------------

// c02StatsCC is the CloudControl the bridge reports traffic to. Once armed, every call
// parks in gate() until the harness releases it (a stalled statistics backend), or fails.
type c02StatsCC struct {
	mu       sync.Mutex
	armed    atomic.Bool
	fail     bool
	release  chan struct{}
	entered  chan struct{}
	once     sync.Once
	calls    atomic.Int64
	sentSeen atomic.Int64
}

func (c *c02StatsCC) gate() error {
	c.calls.Add(1)
	if !c.armed.Load() {
		return nil
	}
	if c.fail {
		return errors.New("c02: statistics backend unavailable")
	}
	c.once.Do(func() { close(c.entered) })
	<-c.release
	return nil
}

func (c *c02StatsCC) GetPortMapping(mappingID string) (*models.PortMapping, error) {
	if err := c.gate(); err != nil {
		return nil, err
	}
	return &models.PortMapping{ID: mappingID}, nil
}

func (c *c02StatsCC) UpdatePortMappingStats(mappingID string, ts *stats.TrafficStats) error {
	if ts != nil {
		c.sentSeen.Store(ts.BytesSent)
	}
	return c.gate()
}

func (c *c02StatsCC) GetClientPortMappings(clientID int64) ([]*models.PortMapping, error) {
	return nil, c.gate()
}

// TestVerifC02StatsBackend: the tunnel carried traffic (there is an unreported traffic
// delta), the statistics backend stalls or fails, then one end closes. Closure must not
// depend on the backend: in a state where every goroutine of the bridge is parked - at
// least one of them inside the stalled backend call, the others in transport/lock waits -
// the other end's connection must already have been closed (nothing but the backend
// returning could close it later). After the backend answers, Start must return.
func TestVerifC02StatsBackend(t *testing.T) {
	vk.Quiet()
	run := vk.Start(t, "C02", "statsbackend")
	defer run.Finish()
	run.Rule("real Bridge with MappingID and a CloudControl double; both directions carry 1..60000 bytes to completion; then the backend is armed {stalled: calls park until released; failing: calls return an error} and the source or target client closes; transports {net.Pipe, in-memory pipe, TCP}, raw conn or StreamProcessor; distinct = (transports, stream, backend mode, closer)")
	ln, err := net.Listen("tcp", "127.0.0.1:0")
	if err != nil {
		t.Fatalf("c02: listen: %v", err)
	}
	defer ln.Close()
	nw := &c02Net{ln: ln}
	r := run.Rand("gen")
	n := run.Pick(90, 900)
	type scase struct {
		SrcT, TgtT string
		Stream     bool
		Mode       string
		Closer     string
		A, B       int
		Seed       uint64
	}
	trs := []string{"pipe", "buf", "buf", "tcp"}
	cases := make([]scase, n)
	for i := range cases {
		cases[i] = scase{SrcT: trs[r.Intn(4)], TgtT: trs[r.Intn(4)], Stream: r.Intn(2) == 0, Mode: []string{"stalled", "stalled", "failing"}[r.Intn(3)],
			Closer: []string{"src", "tgt"}[r.Intn(2)], A: 1 + r.Intn(60000), B: 1 + r.Intn(60000), Seed: r.Uint64()}
	}
	run.Sample(cases[0])
	var undecided, next atomic.Int64
	var wg sync.WaitGroup
	for w := 0; w < 6; w++ {
		wg.Add(1)
		go func() {
			defer wg.Done()
			for {
				i := int(next.Add(1) - 1)
				if i >= len(cases) || run.Violations() >= 6 {
					return
				}
				c := cases[i]
				if i%16 == 0 {
					run.Case("statsbackend", c)
				}
				ctx, cancel := context.WithCancel(context.Background())
				cliS, srvSraw, e1 := nw.pair(c.SrcT)
				if e1 != nil {
					cancel()
					undecided.Add(1)
					continue
				}
				cliT, srvTraw, e2 := nw.pair(c.TgtT)
				if e2 != nil {
					cliS.Close()
					srvSraw.Close()
					cancel()
					undecided.Add(1)
					continue
				}
				srvS, srvT := c02Wrap(srvSraw), c02Wrap(srvTraw)
				var ss, ts stream.PackageStreamer
				if c.Stream {
					ss = stream.NewStreamProcessor(srvS, srvS, ctx)
					ts = stream.NewStreamProcessor(srvT, srvT, ctx)
				}
				cc := &c02StatsCC{fail: c.Mode == "failing", release: make(chan struct{}), entered: make(chan struct{})}
				released := false
				release := func() {
					if !released {
						released = true
						close(cc.release)
					}
				}
				b := NewBridge(ctx, &BridgeConfig{TunnelID: fmt.Sprintf("c02s-%d", i), MappingID: fmt.Sprintf("map-%d", i), SourceConn: srvS, SourceStream: ss, CloudControl: cc})
				b.SetTargetConnection(&c02TunnelConn{id: "t", conn: srvT, st: ts})
				startDone := make(chan struct{})
				go func() { b.Start(); close(startDone) }()
				s2t, t2s := vk.Pattern(c.Seed, 0, c.A), vk.Pattern(c.Seed^0x1234, 0, c.B)
				mk := func(name string, cli net.Conn, srv *c02Conn, send, expect []byte) *c02End {
					return &c02End{name: name, cli: cli, srv: srv, send: send, expect: expect, chunks: []int{len(send)}, rbuf: 32768,
						wDone: make(chan struct{}), rDone: make(chan struct{}), gotAll: make(chan struct{}), wStart: make(chan struct{}), badCh: make(chan struct{})}
				}
				S, T := mk("src", cliS, srvS, s2t, t2s), mk("tgt", cliT, srvT, t2s, s2t)
				for _, e := range []*c02End{S, T} {
					go e.reader()
					go e.writer()
				}
				det := func(extra map[string]any) map[string]any {
					m := map[string]any{"case": c, "srv_src_closes": srvS.closes.Load(), "srv_tgt_closes": srvT.closes.Load(), "backend_calls": cc.calls.Load(),
						"src_got": S.got.Load(), "tgt_got": T.got.Load()}
					for k, v := range extra {
						m[k] = v
					}
					return m
				}
				ok := true
				wd := time.NewTimer(c02WatchTransfer)
				for _, ch := range []chan struct{}{S.gotAll, T.gotAll, S.wDone, T.wDone} {
					select {
					case <-ch:
					case <-startDone:
						ok = false
					case <-S.badCh:
						ok = false
					case <-T.badCh:
						ok = false
					case <-wd.C:
						ok = false
					}
					if !ok {
						break
					}
				}
				wd.Stop()
				if !ok {
					// the plain exchange did not complete: other monitors judge that; not this scenario
					run.Count("statsbackend_exchange_incomplete", 1)
					undecided.Add(1)
				} else {
					cc.armed.Store(true)
					closer, other := S, T
					if c.Closer == "tgt" {
						closer, other = T, S
					}
					closer.cli.Close()
					wd2 := time.NewTimer(c02WatchClose)
					poll := time.NewTicker(100 * time.Millisecond)
					finished, judged := false, false
				wait:
					for {
						select {
						case <-startDone:
							finished = true
							break wait
						case <-poll.C:
							if released {
								if parked, sig := c02Parked(b, S, T); parked {
									run.Violation("C02:closure|bridge-hang|script=stats-backend-"+c.Mode, det(map[string]any{"bridge_goroutines": sig}))
									break wait
								}
								continue
							}
							select {
							case <-cc.entered:
							default:
								continue
							}
							// a backend call is parked; is everything else parked too?
							tags := []string{c02BridgeTag(b), c02StartTag(b), c02CloseTag(b), fmt.Sprintf("tunnel.(*c02StatsCC).gate(%p", cc)}
							prev, stable := "", true
							for k := 0; k < 3 && stable; k++ {
								sig, parked, others := c02Tagged(tags)
								if parked == 0 || len(others) > 0 || !strings.Contains(sig, "/statsgate") || (k > 0 && sig != prev) {
									stable = false
								}
								prev = sig
								if stable && k < 2 {
									time.Sleep(60 * time.Millisecond)
								}
							}
							if !stable {
								continue
							}
							judged = true
							run.Count("statsbackend_judged_while_stalled", 1)
							if other.srv.closes.Load() == 0 {
								run.Violation("C02:closure|peer-conn-left-open|script=stats-backend-stalled", det(map[string]any{"bridge_goroutines": prev, "closed_end": c.Closer,
									"what": "one end closed; every goroutine of the bridge is parked, one of them inside the stalled statistics backend call, and the other end's connection has not been closed: closure propagation waits for the statistics backend"}))
							} else {
								run.Count("statsbackend_closure_independent_of_backend", 1)
							}
							release()
						case <-wd2.C:
							run.Count("watchdog", 1)
							undecided.Add(1)
							break wait
						}
					}
					wd2.Stop()
					poll.Stop()
					_ = judged
					if finished {
						run.Count("closure_checks", 1)
						if other.srv.closes.Load() == 0 {
							run.Violation("C02:closure|peer-conn-left-open|script=stats-backend-"+c.Mode, det(nil))
						} else {
							wd3 := time.NewTimer(c02WatchClose)
							select {
							case <-other.rDone:
								run.Count("closure_observed_by_peer", 1)
								if c.Mode == "failing" {
									run.Count("statsbackend_failing_ok", 1)
								}
							case <-wd3.C:
								run.Count("harness_reader_stuck", 1)
								undecided.Add(1)
							}
							wd3.Stop()
						}
					}
				}
				release()
				cliS.Close()
				cliT.Close()
				b.Close()
				srvS.Close()
				srvT.Close()
				if ss != nil {
					ss.Close()
					ts.Close()
				}
				cancel()
				for _, ch := range []chan struct{}{S.rDone, T.rDone, S.wDone, T.wDone} {
					<-ch
				}
				run.Eval(1)
				run.Distinct(fmt.Sprintf("%s>%s|stream=%v|%s|%s", c.SrcT, c.TgtT, c.Stream, c.Mode, c.Closer))
			}
		}()
	}
	wg.Wait()
	if undecided.Load() == 0 {
		run.Count("all_cases_decided", 1)
	}
	run.Floor("all_cases_decided", 1)
	run.Floor("statsbackend_judged_while_stalled", int64(run.Pick(30, 300)))
	run.Floor("statsbackend_failing_ok", int64(run.Pick(10, 100)))
	run.Floor("closure_observed_by_peer", int64(run.Pick(60, 600)))
}

// ---------------------------------------------------------------------------
// test
// ---------------------------------------------------------------------------

func c02Directed() []c02Cfg {
	base := c02Cfg{SrcT: "pipe", TgtT: "pipe", ChunkS: "whole", ChunkT: "whole", RBufS: 65536, RBufT: 65536, Attach: "before",
		Script: "none", End: "src", On: "rd", Closer: "src", Seed: 42, ChunkSeed: 42}
	var out []c02Cfg
	add := func(f func(c *c02Cfg)) { c := base; f(&c); out = append(out, c) }
	// the configuration of the design spike: 8000 B/s, one 20000-byte write
	add(func(c *c02Cfg) { c.Limit = 8000; c.S2T = 20000 })
	add(func(c *c02Cfg) { c.Limit = 8000; c.T2S = 20000; c.Closer = "tgt" })
	// same limit, writes that fit the burst
	add(func(c *c02Cfg) { c.Limit = 8000; c.S2T = 14000; c.T2S = 14000; c.ChunkS = "small"; c.ChunkT = "small" })
	// crossing the 32 KiB copy buffer and the 1 MiB batch counter, both directions
	add(func(c *c02Cfg) { c.S2T = 1<<20 + 1; c.T2S = 1<<20 + 1 })
	add(func(c *c02Cfg) { c.S2T = 1500000; c.T2S = 1500000; c.SrcT = "tcp"; c.TgtT = "tcp"; c.ChunkS = "big"; c.ChunkT = "mid"; c.Stream = true })
	add(func(c *c02Cfg) { c.Limit = 64 * 1024; c.S2T = 100000; c.T2S = 100000; c.ChunkS = "mid"; c.ChunkT = "big" })
	add(func(c *c02Cfg) { c.Limit = 1 << 20; c.S2T = 1<<20 + 1; c.T2S = 1500000; c.ChunkS = "big"; c.ChunkT = "big"; c.SrcT = "buf"; c.TgtT = "tcp" })
	add(func(c *c02Cfg) { c.Limit = 1 << 30; c.S2T = 1500000; c.T2S = 1<<20 + 1; c.ChunkS = "big"; c.ChunkT = "whole"; c.SrcT = "buf"; c.TgtT = "buf" })
	// duplicate target-side attach while the pipe carries data
	add(func(c *c02Cfg) { c.Script = "dup-target"; c.S2T = 200000; c.T2S = 200000; c.At = 50000; c.ChunkS = "small"; c.ChunkT = "small"; c.Closer = "tgt" })
	add(func(c *c02Cfg) { c.Script = "dup-target"; c.SrcT = "tcp"; c.TgtT = "buf"; c.S2T = 70000; c.T2S = 1 << 20; c.At = 1000; c.On = "wr"; c.End = "tgt"; c.ChunkT = "mid"; c.Closer = "tgt"; c.Stream = true })
	// bulk transfer larger than the socket buffers, sender closes while the receiver drains
	add(func(c *c02Cfg) { c.Script = "bulk-close"; c.End = "src"; c.SrcT = "tcp"; c.S2T = 6 << 20; c.ChunkS = "big" })
	add(func(c *c02Cfg) { c.Script = "bulk-close"; c.End = "tgt"; c.TgtT = "tcp"; c.S2T = 6 << 20; c.ChunkS = "big"; c.Stream = true })
	add(func(c *c02Cfg) { c.Script = "bulk-close"; c.End = "src"; c.SrcT = "buf"; c.S2T = 5 << 20; c.ChunkS = "whole" })
	add(func(c *c02Cfg) { c.Script = "bulk-close"; c.End = "tgt"; c.TgtT = "pipe"; c.S2T = 4<<20 + 1; c.ChunkS = "mid" })
	// an end over real TCP whose stream layers a transformation over the socket, other end plain
	add(func(c *c02Cfg) { c.SrcT = "tcp"; c.MaskS = true; c.S2T = 100000; c.T2S = 70000; c.ChunkS = "mid"; c.ChunkT = "small" })
	add(func(c *c02Cfg) { c.TgtT = "tcp"; c.MaskT = true; c.SrcT = "buf"; c.S2T = 40000; c.T2S = 1<<20 + 1; c.ChunkS = "small"; c.ChunkT = "big" })
	add(func(c *c02Cfg) { c.SrcT = "tcp"; c.TgtT = "tcp"; c.MaskS = true; c.MaskT = true; c.S2T = 32769; c.T2S = 32769; c.Limit = 64 * 1024 })
	add(func(c *c02Cfg) { c.SrcT = "tcp"; c.MaskS = true; c.TgtT = "tcp"; c.S2T = 5000; c.T2S = 5000; c.Script = "fin"; c.End = "src" })
	// an end fails for good with each net.Error class, on either end
	for i, cls := range c02ErrClasses {
		cls, i := cls, i
		add(func(c *c02Cfg) {
			c.Script = "err-read"
			c.ErrClass = cls
			c.End = []string{"src", "tgt"}[i%2]
			c.S2T, c.T2S = 50000, 50000
			c.At = 20000
			c.ChunkS, c.ChunkT = "small", "small"
			c.DataErr = i%2 == 0
		})
		add(func(c *c02Cfg) {
			c.Script = "err-read"
			c.ErrClass = cls
			c.End = []string{"tgt", "src"}[i%2]
			c.S2T, c.T2S = 3000, 3000
			c.At = 0
			c.SrcT, c.TgtT = "buf", "tcp"
		})
	}
	// final bytes delivered together with io.EOF, in either direction
	add(func(c *c02Cfg) { c.Script = "fin"; c.End = "src"; c.S2T = 10137; c.T2S = 5000; c.ChunkS = "small"; c.MaxReadS = 512 })
	add(func(c *c02Cfg) { c.Script = "fin"; c.End = "tgt"; c.S2T = 300; c.T2S = 70000; c.ChunkT = "mid"; c.TgtT = "buf" })
	// read timeouts delivered together with data
	add(func(c *c02Cfg) { c.Script = "timeouts"; c.DataErr = true; c.Yield = true; c.S2T = 100000; c.T2S = 100000; c.ChunkS = "small"; c.ChunkT = "mid" })
	// source re-attach mid-stream, old connection stays open
	add(func(c *c02Cfg) { c.Script = "reattach"; c.SrcT2 = "pipe"; c.S2T = 4096; c.T2S = 8192; c.At = 4096; c.ChunkT = "small" })
	add(func(c *c02Cfg) { c.Script = "reattach"; c.SrcT = "tcp"; c.SrcT2 = "tcp"; c.TgtT = "tcp"; c.S2T = 100; c.T2S = 200000; c.At = 70000; c.ChunkT = "mid" })
	add(func(c *c02Cfg) { c.Script = "reattach"; c.SrcT = "buf"; c.SrcT2 = "buf"; c.TgtT = "buf"; c.Stream = true; c.S2T = 0; c.T2S = 3000; c.At = 1; c.ChunkT = "tiny" })
	return out
}

func TestVerifC02BytePipe(t *testing.T) {
	vk.Quiet()
	run := vk.Start(t, "C02", "bytepipe")
	defer run.Finish()
	run.Rule("a real tunnel.Bridge between two harness clients; per case: transports per end {net.Pipe, unbounded in-memory pipe, loopback TCP}, raw conn or real StreamProcessor, or (TCP ends) the raw *net.TCPConn plus a stream whose reader/writer apply a position-dependent XOR keystream over the socket, bandwidth limit {0, 500..16383 (burst < 32KiB copy buffer), 64KiB/s, 1MiB/s, 1GiB/s}, 0..1.5MiB (thorough 8MiB) per direction simultaneously (sizes of limited cases chosen so a correct transfer needs <= 1.5s, plus a few slow-but-legal cases: 500..4000 B/s with one write of 6-10x the limit, 4-8 s), seeded write chunkings (1B..256KiB / whole), server-side short reads, client read buffers 1B..64KiB, target attached before/after Start/after the source started writing, scripts {none, injected read timeouts (bare or together with data), an end finishing after a complete exchange with its last bytes delivered together with io.EOF, source re-attach on a new connection at a seeded hand-over offset with the old connection left open (then optionally bytes from the new source end, then the target or the new source end closes while the old connection is still open), client close at a seeded offset, server-side read/write failure at a seeded offset (bare or with data; the sticky read error is plain, Timeout&&!Temporary, Temporary&&!Timeout or a net.Error that is neither), Bridge.Close at a seeded offset, a duplicate target-side SetTargetConnection at a seeded offset (the established pipe must keep delivering), bulk transfer (4-6 MiB, one direction) after which the sender closes while a logically slow TCP receiver still has more than 1 MiB queued towards it}; distinct = (transports, stream, limit class, attach, script, size buckets) of cases that delivered at least one byte")

	ln, err := net.Listen("tcp", "127.0.0.1:0")
	if err != nil {
		t.Fatalf("c02: listen: %v", err)
	}
	defer ln.Close()
	nw := &c02Net{ln: ln}

	SetTunnelConnectionFactory(func(connID string, conn net.Conn, s stream.PackageStreamer, clientID int64, mappingID, tunnelID string) TunnelConnectionInterface {
		return &c02TunnelConn{id: connID, conn: conn, st: s}
	})
	defer SetTunnelConnectionFactory(nil)

	snap := vk.SnapshotGoroutines()
	r := run.Rand("gen")
	n := run.Pick(400, 4000)
	cases := c02Directed()
	for i := range cases {
		cases[i].ID = i
	}
	for len(cases) < n {
		cases = append(cases, c02Gen(r, len(cases), run.Thorough()))
	}
	for i := 0; i < 3 && i < len(cases); i++ {
		run.Sample(cases[i])
	}
	run.Sample(cases[len(cases)/2])
	run.Sample(cases[len(cases)-1])

	workers := 6
	var wg sync.WaitGroup
	var next atomic.Int64
	var undecided atomic.Int64

	// "slow but legal" family: a low limit and one write of 6-10x the limit, so a single
	// read of the copy loop owes the token bucket 4-8 s. Nobody closes: everything must
	// still arrive (the waiting itself is not judged). These cases mostly sleep in the
	// limiter and run on their own goroutines next to the worker pool.
	sr := run.Rand("slow")
	nSlow, slowLanes := run.Pick(9, 36), 9
	slow := make([]c02Cfg, nSlow)
	for i := range slow {
		l := []int64{500, 1000, 2000, 4000, 4096, 8192, 12288, 8192, 4096}[i%9]
		big := int(l) * (6 + sr.Intn(5))
		if l >= 4096 {
			// 4/8/12 KiB/s with one write of 20-64 KiB (<= 10x the limit: at most 8 s)
			hi := 64 * 1024
			if hi > int(l)*10 {
				hi = int(l) * 10
			}
			big = 20*1024 + sr.Intn(hi-20*1024+1)
		} else if big > 32000 {
			big = 32000
		}
		c := c02Cfg{ID: 100000 + i, SrcT: []string{"pipe", "pipe", "buf", "tcp"}[sr.Intn(4)], TgtT: []string{"pipe", "buf", "tcp"}[sr.Intn(3)],
			Stream: sr.Intn(2) == 0, Limit: l, ChunkS: "whole", ChunkT: "whole", RBufS: 65536, RBufT: 65536, Attach: "before", Script: "none",
			End: "src", On: "rd", Closer: []string{"src", "tgt"}[sr.Intn(2)], Seed: sr.Uint64(), ChunkSeed: sr.Int63()}
		small := []int{0, 1, 100}[sr.Intn(3)]
		if i%2 == 0 {
			c.S2T, c.T2S = big, small
		} else {
			c.S2T, c.T2S = small, big
		}
		slow[i] = c
	}
	run.Sample(slow[0])
	for lane := 0; lane < slowLanes; lane++ {
		wg.Add(1)
		go func(lane int) {
			defer wg.Done()
			for i := lane; i < len(slow); i += slowLanes {
				if run.Violations() >= 12 {
					return
				}
				run.Case("bytepipe", slow[i])
				o := c02RunCase(run, nw, slow[i])
				if o.watchdog {
					undecided.Add(1)
				}
				if o.complete {
					run.Count("slow_legal_complete", 1)
					if slow[i].Limit >= 4096 {
						run.Count("slow_legal_kib_limits_complete", 1)
					}
				}
			}
		}(lane)
	}
	for w := 0; w < workers; w++ {
		wg.Add(1)
		go func() {
			defer wg.Done()
			for {
				i := int(next.Add(1) - 1)
				if i >= len(cases) || run.Violations() >= 12 {
					return
				}
				// coarse WAL signature: with parallel workers the last entry is only one of the
				// candidates for a process-fatal report, and signatures must be stable across seeds
				run.Case("bytepipe", cases[i])
				o := c02RunCase(run, nw, cases[i])
				if o.watchdog {
					undecided.Add(1)
				}
			}
		}()
	}
	wg.Wait()

	// nothing of any bridge may still be running
	leaked := snap.Leaked([]string{"session/tunnel.(*Bridge)", "session/tunnel.(*dynamicSourceWriter)"}, nil, 2*time.Second)
	if len(leaked) > 0 {
		fs := vk.FrameSummary(leaked)
		copying := false
		for _, g := range leaked {
			if strings.Contains(g.Stack, "CopyWithControl") || strings.Contains(g.Stack, "(*Bridge).Start") {
				copying = true
			}
		}
		if copying {
			run.Violation("C02:leak|copy-loop-alive-after-teardown", map[string]any{"goroutines": fs, "first_stack": leaked[0].Stack})
		} else {
			run.Count("leaked_bridge_goroutines_other", int64(len(leaked)))
			run.Observe("leaked_frames", fs)
		}
	}

	if undecided.Load() == 0 {
		run.Count("all_cases_decided", 1)
	}
	run.Floor("all_cases_decided", 1)
	run.Floor("complete_transfers", int64(run.Pick(30, 300)))
	run.Floor("closure_observed_by_peer", int64(run.Pick(40, 400)))
	run.Floor("cases_limit_none", 5)
	run.Floor("cases_limit_burst<32K", 5)
	run.Floor("cases_limit_64K", 3)
	run.Floor("cases_limit_1M", 3)
	run.Floor("cases_limit_1G", 2)
	run.Floor("cross_32k_bidir", 3)
	run.Floor("cross_1m_batch", 3)
	run.Floor("limited_chunk_gt_burst", 2)
	run.Floor("early_close_fired", 5)
	run.Floor("transport_fault_fired", 3)
	run.Floor("bulk_close_complete", 4)
	run.Floor("bulk_close_half_mib_undelivered_at_close", 3)
	run.Floor("layered_tcp_stream_cases", int64(run.Pick(15, 150)))
	run.Floor("layered_tcp_stream_one_end_only", int64(run.Pick(8, 80)))
	run.Floor("layered_tcp_stream_complete", int64(run.Pick(5, 50)))
	for _, cls := range c02ErrClasses {
		run.Floor("err_read_class_"+cls, 2)
	}
	run.Floor("read_timeouts_injected", 1)
	run.Floor("reads_returning_data_and_error", 20)
	run.Floor("fin_with_data_fired", 5)
	run.Floor("reattach_suffix_exact", 5)
	run.Floor("dup_target_pipe_kept_delivering", int64(run.Pick(5, 50)))
	run.Floor("reattach_closure_ok", 5)
	run.Floor("reattach_new_source_bytes_delivered", 2)
	run.Floor("slow_legal_complete", int64(run.Pick(6, 24)))
	run.Floor("slow_legal_kib_limits_complete", int64(run.Pick(3, 12)))
}

// TestVerifC02EarlyEnd drives the interleaving "one direction ends before the other copy
// loop has started": the source end has already sent a few bytes and closed (or failed)
// when the target attaches. The target must receive a prefix of what the source sent and
// must observe closure; the server must survive (a panic in a bridge goroutine kills the
// process and is reported by the runner from the write-ahead log).
func TestVerifC02EarlyEnd(t *testing.T) {
	vk.Quiet()
	run := vk.Start(t, "C02", "earlyend")
	defer run.Finish()
	run.Rule("source end writes 0..300 bytes and ends (client close, server-side read failure, or its bytes delivered together with io.EOF in one Read) before the target is attached, transports {unbounded in-memory pipe, loopback TCP} for the source and {net.Pipe, in-memory pipe, TCP} for the target, raw conn or StreamProcessor, GOMAXPROCS-many cases in flight; distinct = (transports, stream, how the source ended, bytes>0)")
	ln, err := net.Listen("tcp", "127.0.0.1:0")
	if err != nil {
		t.Fatalf("c02: listen: %v", err)
	}
	defer ln.Close()
	nw := &c02Net{ln: ln}
	r := run.Rand("gen")
	n := run.Pick(3000, 40000)
	type ecase struct {
		SrcT, TgtT string
		Stream     bool
		Bytes      int
		How        string // client-close | read-error
		Seed       uint64
	}
	cases := make([]ecase, n)
	for i := range cases {
		c := ecase{SrcT: "buf", TgtT: []string{"pipe", "buf", "buf", "tcp"}[r.Intn(4)], Stream: r.Intn(2) == 0,
			Bytes: []int{0, 0, 1, 17, 200}[r.Intn(5)], How: []string{"client-close", "client-close", "read-error", "fin-with-data"}[r.Intn(4)], Seed: r.Uint64()}
		if c.How == "fin-with-data" && c.Bytes == 0 {
			c.Bytes = 1 + r.Intn(300)
		}
		if r.Intn(8) == 0 {
			c.SrcT = "tcp"
		}
		cases[i] = c
	}
	run.Sample(cases[0])
	run.Sample(cases[1])
	var undecided atomic.Int64
	var next atomic.Int64
	var wg sync.WaitGroup
	for w := 0; w < 6; w++ {
		wg.Add(1)
		go func() {
			defer wg.Done()
			for {
				i := int(next.Add(1) - 1)
				if i >= len(cases) || run.Violations() >= 8 {
					return
				}
				c := cases[i]
				if i%64 == 0 {
					run.Case("earlyend|source-ended-before-target-attached", c)
				}
				ctx, cancel := context.WithCancel(context.Background())
				cliS, srvSraw, e1 := nw.pair(c.SrcT)
				if e1 != nil {
					cancel()
					undecided.Add(1)
					continue
				}
				cliT, srvTraw, e2 := nw.pair(c.TgtT)
				if e2 != nil {
					cliS.Close()
					srvSraw.Close()
					cancel()
					undecided.Add(1)
					continue
				}
				srvS, srvT := c02Wrap(srvSraw), c02Wrap(srvTraw)
				data := vk.Pattern(c.Seed, 0, c.Bytes)
				if c.Bytes > 0 {
					cliS.Write(data)
				}
				switch c.How {
				case "client-close":
					cliS.Close()
				case "fin-with-data":
					// the source's bytes reach the server together with the end of its stream:
					// the bridge's Read returns (n>0, io.EOF)
					srvS.finAt = int64(c.Bytes)
					srvS.finGate = make(chan struct{})
					close(srvS.finGate)
				default:
					srvS.readFailAt = int64(c.Bytes)
					srvS.readFailErr = c02FailErr(c02ErrClasses[int(c.Seed%uint64(len(c02ErrClasses)))])
				}
				var ss, ts stream.PackageStreamer
				if c.Stream {
					ss = stream.NewStreamProcessor(srvS, srvS, ctx)
					ts = stream.NewStreamProcessor(srvT, srvT, ctx)
				}
				b := NewBridge(ctx, &BridgeConfig{TunnelID: fmt.Sprintf("c02e-%d", i), SourceConn: srvS, SourceStream: ss})
				T := &c02End{name: "tgt", cli: cliT, srv: srvT, expect: data, rbuf: 4096, wDone: make(chan struct{}), rDone: make(chan struct{}),
					gotAll: make(chan struct{}), wStart: make(chan struct{})}
				go T.reader()
				startDone := make(chan struct{})
				b.SetTargetConnection(&c02TunnelConn{id: "t", conn: srvT, st: ts})
				go func() { b.Start(); close(startDone) }()
				det := func() map[string]any {
					return map[string]any{"case": c, "tgt_got": T.got.Load(), "srv_tgt_closes": srvT.closes.Load(), "srv_src_closes": srvS.closes.Load()}
				}
				wd := time.NewTimer(c02WatchClose)
				poll := time.NewTicker(time.Second)
				finished := false
			wait:
				for {
					select {
					case <-startDone:
						finished = true
						break wait
					case <-poll.C:
						if parked, sig := c02Parked(b); parked {
							m := det()
							m["bridge_goroutines"] = sig
							run.Violation("C02:closure|bridge-hang|script=source-ended-before-attach", m)
							break wait
						}
					case <-wd.C:
						run.Count("watchdog", 1)
						undecided.Add(1)
						break wait
					}
				}
				wd.Stop()
				poll.Stop()
				if finished {
					run.Count("closure_checks", 1)
					if srvT.closes.Load() == 0 {
						run.Violation("C02:closure|peer-conn-left-open|script=source-ended-before-attach", det())
					} else {
						wd2 := time.NewTimer(c02WatchClose)
						select {
						case <-T.rDone:
							run.Count("closure_observed_by_peer", 1)
						case <-wd2.C:
							run.Count("harness_reader_stuck", 1)
							undecided.Add(1)
						}
						wd2.Stop()
					}
				}
				if m := T.bad.Load(); m != nil {
					d := det()
					d["mismatch"] = m
					run.Violation("C02:corrupt|kind="+m.Kind+"|limit=none", d)
				}
				if T.got.Load() == int64(c.Bytes) {
					run.Count("prefix_was_complete", 1)
				} else if c.How == "fin-with-data" && finished && T.bad.Load() == nil && srvS.finFired.Load() {
					select {
					case <-T.rDone: // the target's stream has ended: its count is final
						d := det()
						d["lost_tail"] = int64(c.Bytes) - T.got.Load()
						run.Violation("C02:incomplete|limit=none|cause=final-bytes-with-eof-dropped", d)
					default:
					}
				}
				if srvS.finFired.Load() {
					run.Count("fin_with_data_fired", 1)
				}
				if c.How == "read-error" {
					cls := c02ErrClasses[int(c.Seed%uint64(len(c02ErrClasses)))]
					if srvS.spun.Load() {
						d := det()
						d["reads_after_failure"] = srvS.postFail.Load()
						run.Violation("C02:closure|spin-on-failed-end|errclass="+cls, d)
					} else if srvS.faultFired.Load() {
						run.Count("err_read_class_"+cls, 1)
					}
				}
				cliS.Close()
				cliT.Close()
				b.Close()
				srvS.Close()
				srvT.Close()
				if ss != nil {
					ss.Close()
					ts.Close()
				}
				cancel()
				<-T.rDone
				run.Eval(1)
				run.Distinct(fmt.Sprintf("%s>%s|stream=%v|%s|bytes=%v", c.SrcT, c.TgtT, c.Stream, c.How, c.Bytes > 0))
			}
		}()
	}
	wg.Wait()
	if undecided.Load() == 0 {
		run.Count("all_cases_decided", 1)
	}
	run.Floor("all_cases_decided", 1)
	run.Floor("closure_observed_by_peer", int64(run.Pick(1000, 10000)))
	run.Floor("fin_with_data_fired", int64(run.Pick(200, 2000)))
	for _, cls := range c02ErrClasses {
		run.Floor("err_read_class_"+cls, int64(run.Pick(50, 500)))
	}
}


// TestVerifC02CloseRace drives the interleaving "the server tears the bridge down
// (Bridge.Close) while the target end attaches": the source transport closes slowly
// (its Close blocks until the harness releases it), Bridge.Close is inside that close
// when SetTargetConnection is called and Start wakes up; then the slow close completes.
// The target was attached while the bridge was still alive, so it must observe closure
// and Start/Close must return. A bridge whose goroutines (Start, Close, copy loops) are
// all parked in mutex/transport waits in three stable dumps after the release can never
// finish: violation. Anything else still running at the watchdog is inconclusive.
func TestVerifC02CloseRace(t *testing.T) {
	vk.Quiet()
	run := vk.Start(t, "C02", "closerace")
	defer run.Finish()
	run.Rule("source transport with a gated (slow) Close over {net.Pipe, in-memory pipe, TCP}, target over the same set, raw conn or StreamProcessor; Bridge.Close started, held inside the source close, target attached, slow close released {as soon as Start is seen waiting for a lock, immediately, after a yield}; distinct = (transports, stream, release mode)")
	ln, err := net.Listen("tcp", "127.0.0.1:0")
	if err != nil {
		t.Fatalf("c02: listen: %v", err)
	}
	defer ln.Close()
	nw := &c02Net{ln: ln}
	r := run.Rand("gen")
	n := run.Pick(400, 4000)
	type rcase struct {
		SrcT, TgtT string
		Stream     bool
		Release    string
	}
	trs := []string{"pipe", "buf", "buf", "tcp"}
	cases := make([]rcase, n)
	for i := range cases {
		cases[i] = rcase{SrcT: trs[r.Intn(4)], TgtT: trs[r.Intn(4)], Stream: r.Intn(2) == 0,
			Release: []string{"start-waits-for-lock", "start-waits-for-lock", "immediately", "after-yield"}[r.Intn(4)]}
	}
	run.Sample(cases[0])
	var undecided, next, hangs atomic.Int64
	var wg sync.WaitGroup
	for w := 0; w < 6; w++ {
		wg.Add(1)
		go func() {
			defer wg.Done()
			for {
				i := int(next.Add(1) - 1)
				if i >= len(cases) || run.Violations() >= 6 || hangs.Load() >= 12 {
					return
				}
				c := cases[i]
				if i%32 == 0 {
					run.Case("closerace|bridge-close-races-target-attach", c)
				}
				ctx, cancel := context.WithCancel(context.Background())
				cliS, srvSraw, e1 := nw.pair(c.SrcT)
				if e1 != nil {
					cancel()
					undecided.Add(1)
					continue
				}
				cliT, srvTraw, e2 := nw.pair(c.TgtT)
				if e2 != nil {
					cliS.Close()
					srvSraw.Close()
					cancel()
					undecided.Add(1)
					continue
				}
				srvS, srvT := c02Wrap(srvSraw), c02Wrap(srvTraw)
				srvS.closeGate, srvS.closeStarted = make(chan struct{}), make(chan struct{})
				var ss, ts stream.PackageStreamer
				if c.Stream {
					ss = stream.NewStreamProcessor(srvS, srvS, ctx)
					ts = stream.NewStreamProcessor(srvT, srvT, ctx)
				}
				b := NewBridge(ctx, &BridgeConfig{TunnelID: fmt.Sprintf("c02r-%d", i), SourceConn: srvS, SourceStream: ss})
				T := &c02End{name: "tgt", cli: cliT, srv: srvT, rbuf: 4096, wDone: make(chan struct{}), rDone: make(chan struct{}),
					gotAll: make(chan struct{}), wStart: make(chan struct{})}
				go T.reader()
				startDone, closeDone := make(chan struct{}), make(chan struct{})
				go func() { b.Start(); close(startDone) }()
				go func() { b.Close(); close(closeDone) }()
				released := false
				release := func() {
					if !released {
						released = true
						close(srvS.closeGate)
					}
				}
				det := func(extra map[string]any) map[string]any {
					m := map[string]any{"case": c, "srv_tgt_closes": srvT.closes.Load(), "srv_src_closes": srvS.closes.Load()}
					for k, v := range extra {
						m[k] = v
					}
					return m
				}
				setup := time.NewTimer(c02WatchClose)
				select {
				case <-srvS.closeStarted:
				case <-setup.C:
					run.Count("watchdog", 1)
					undecided.Add(1)
				}
				setup.Stop()
				// the target attaches while Bridge.Close is held inside the source close
				b.SetTargetConnection(&c02TunnelConn{id: "t", conn: srvT, st: ts})
				switch c.Release {
				case "start-waits-for-lock":
					// logical: poll (bounded) until the Start goroutine is parked in a lock
					for k := 0; k < 200; k++ {
						sig, _, _ := c02Tagged([]string{c02StartTag(b)})
						if strings.Contains(sig, "/mutex") {
							run.Count("start_seen_waiting_for_lock", 1)
							break
						}
						if sig == "" {
							break
						}
						time.Sleep(500 * time.Microsecond)
					}
				case "after-yield":
					runtime.Gosched()
				}
				release()
				finished := false
				wd := time.NewTimer(c02WatchClose)
				poll := time.NewTicker(500 * time.Millisecond)
			wait:
				for _, ch := range []chan struct{}{closeDone, startDone} {
					for {
						select {
						case <-ch:
							if ch == startDone {
								finished = true
							}
							continue wait
						case <-poll.C:
							if parked, sig := c02Parked(b); parked {
								hangs.Add(1)
								run.Violation("C02:closure|bridge-hang|script=close-races-target-attach", det(map[string]any{"bridge_goroutines": sig,
									"what": "Bridge.Close was in progress when the target attached; after the slow source close completed, Start/Close stay parked (lock/transport waits) for ever: the target never observes closure and Start never returns"}))
								break wait
							}
						case <-wd.C:
							run.Count("watchdog", 1)
							undecided.Add(1)
							break wait
						}
					}
				}
				wd.Stop()
				poll.Stop()
				if finished {
					run.Count("closure_checks", 1)
					if srvT.closes.Load() == 0 {
						run.Violation("C02:closure|peer-conn-left-open|script=close-races-target-attach", det(nil))
					} else {
						wd2 := time.NewTimer(c02WatchClose)
						select {
						case <-T.rDone:
							run.Count("closure_observed_by_peer", 1)
						case <-wd2.C:
							run.Count("harness_reader_stuck", 1)
							undecided.Add(1)
						}
						wd2.Stop()
					}
				}
				cliS.Close()
				cliT.Close()
				srvTraw.Close()
				srvSraw.Close()
				cancel()
				<-T.rDone
				run.Eval(1)
				run.Distinct(fmt.Sprintf("%s>%s|stream=%v|%s", c.SrcT, c.TgtT, c.Stream, c.Release))
			}
		}()
	}
	wg.Wait()
	if undecided.Load() == 0 {
		run.Count("all_cases_decided", 1)
	}
	run.Floor("all_cases_decided", 1)
	run.Floor("closure_observed_by_peer", int64(run.Pick(300, 3000)))
	run.Floor("start_seen_waiting_for_lock", int64(run.Pick(20, 200)))
}
