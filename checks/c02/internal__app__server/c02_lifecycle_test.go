//go:build verif && verif_c02

package server

import (
	"bytes"
	"context"
	"encoding/json"
	"fmt"
	"io"
	"math/rand"
	"runtime"
	"strings"
	"sync"
	"sync/atomic"
	"testing"
	"time"

	"tunnox-core/internal/cloud/configs"
	"tunnox-core/internal/cloud/models"
	coreerrors "tunnox-core/internal/core/errors"
	"tunnox-core/internal/packet"
	"tunnox-core/internal/protocol/session"
	"tunnox-core/internal/stream"
	vk "tunnox-core/internal/verifkit"
)

// C02 lifecycle half — on the mini-server (real SessionManager, auth + tunnel handlers,
// cloud control, routing table): a source client opens a tunnel for a real port mapping
// (whose config carries the bandwidth limit), the target client attaches with its own
// TunnelOpen, both harness ends exchange position-coded byte streams at the same time,
// then one end's transport closes. Oracle:
//   - every byte received is the peer's stream at the same offset (prefix); the exchange
//     completes while neither end has closed;
//   - after the close the other end's server-side transport is closed by the server
//     (so that end observes closure) and, once no goroutine is inside
//     SessionManager.runBridgeLifecycle any more, the server has forgotten the tunnel:
//     no bridge is found for the mapping or for either connection id and the routing
//     record is gone.
// "The lifecycle has ended" is a goroutine-state fact, never a deadline; a watchdog only
// turns the case inconclusive.

type c02lCase struct {
	ID     int    `json:"id"`
	Limit  int64  `json:"bandwidth_limit"`
	S2T    int    `json:"bytes_src_to_tgt"`
	T2S    int    `json:"bytes_tgt_to_src"`
	ChunkS int    `json:"src_max_chunk"`
	ChunkT int    `json:"tgt_max_chunk"`
	Closer string `json:"closer"`
	Early  bool   `json:"close_before_complete"`
	Seed   uint64 `json:"pattern_seed"`
	CSeed  int64  `json:"chunk_seed"`
}

type c02lEnd struct {
	c      *miniClient
	send   []byte
	expect []byte
	chunks []int
	got    atomic.Int64
	sent   atomic.Int64
	bad    atomic.Pointer[string]
	badCh  chan struct{}
	gotAll chan struct{}
	rDone  chan struct{}
	wDone  chan struct{}
	wErr   error
}

func (e *c02lEnd) writer() {
	defer close(e.wDone)
	off := 0
	for _, n := range e.chunks {
		k, err := e.c.hc.Write(e.send[off : off+n])
		off += k
		e.sent.Store(int64(off))
		if err != nil {
			e.wErr = err
			return
		}
	}
}

func (e *c02lEnd) reader() {
	defer close(e.rDone)
	if len(e.expect) == 0 {
		close(e.gotAll)
	}
	buf := make([]byte, 32*1024)
	var got int64
	for {
		n, err := e.c.hc.Read(buf)
		if n > 0 {
			end := got + int64(n)
			if e.bad.Load() == nil && (end > int64(len(e.expect)) || !bytes.Equal(buf[:n], e.expect[got:end])) {
				s := fmt.Sprintf("chunk of %d bytes at offset %d differs from the peer's stream (stream length %d)", n, got, len(e.expect))
				e.bad.Store(&s)
				close(e.badCh)
			}
			got = end
			e.got.Store(got)
			if got == int64(len(e.expect)) && e.bad.Load() == nil {
				close(e.gotAll)
			}
		}
		if err != nil {
			return
		}
	}
}

func c02lLifecycleRunning() int {
	n := 0
	for _, g := range vk.Goroutines() {
		// a goroutine that was created by `go s.runBridgeLifecycle(...)` but has not been
		// scheduled yet shows only its wrapper (startSourceBridge.gowrapN) in the dump
		if strings.Contains(g.Stack, ").runBridgeLifecycle") || strings.Contains(g.Stack, ").startSourceBridge.") {
			n++
		}
	}
	return n
}

// c02lAwaitLifecycleEnd polls until no goroutine is inside runBridgeLifecycle (cap 20 s).
func c02lAwaitLifecycleEnd() bool {
	for i := 0; i < 2000; i++ {
		if c02lLifecycleRunning() == 0 {
			return true
		}
		time.Sleep(10 * time.Millisecond)
	}
	return false
}

func c02lOpen(c *miniClient, mappingID, tunnelID, secret string) (*packet.TunnelOpenAckResponse, error) {
	b, _ := json.Marshal(&packet.TunnelOpenRequest{MappingID: mappingID, TunnelID: tunnelID, SecretKey: secret})
	err := c.Send(&packet.TransferPacket{PacketType: packet.TunnelOpen, Payload: b})
	for i := 0; i < 4; i++ {
		p := c.Recv(2 * time.Second)
		if p == nil {
			break
		}
		if p.PacketType&0x3F == packet.TunnelOpenAck {
			var r packet.TunnelOpenAckResponse
			if jerr := json.Unmarshal(p.Payload, &r); jerr != nil {
				return nil, jerr
			}
			return &r, err
		}
	}
	return nil, err
}

func c02lLimitClass(l int64) string {
	switch {
	case l == 0:
		return "none"
	case 2*l < 32*1024:
		return "burst<32K"
	case l <= 64*1024:
		return "64K"
	default:
		return "1M"
	}
}

func c02lGen(r *rand.Rand, id int) c02lCase {
	c := c02lCase{ID: id, Seed: r.Uint64(), CSeed: r.Int63(), Closer: []string{"src", "tgt"}[r.Intn(2)], Early: r.Intn(4) == 0}
	c.Limit = []int64{0, 0, 8000, 65536, 1 << 20}[r.Intn(5)]
	pick := func(cap int) int {
		cands := []int{1, 100, 4096, 12000, 32768, 40000, 100000, 300000}
		v := cands[r.Intn(len(cands))]
		if v > cap {
			v = 1 + r.Intn(cap)
		}
		return v
	}
	switch c.Limit {
	case 0:
		c.S2T, c.T2S = pick(300000), pick(300000)
		c.ChunkS, c.ChunkT = []int{100, 1500, 40000, 300000}[r.Intn(4)], []int{100, 1500, 40000, 300000}[r.Intn(4)]
	case 8000:
		// writes stay below the burst (16000): the burst defect is driven by the directed case
		c.S2T, c.T2S = pick(12000), pick(12000)
		c.ChunkS, c.ChunkT = 4000, 4000
	case 65536:
		c.S2T, c.T2S = pick(100000), pick(100000)
		c.ChunkS, c.ChunkT = 40000, 1500
	default:
		c.S2T, c.T2S = pick(300000), pick(300000)
		c.ChunkS, c.ChunkT = 300000, 40000
	}
	return c
}

func TestVerifC02Lifecycle(t *testing.T) {
	vk.Quiet()
	run := vk.Start(t, "C02", "lifecycle")
	defer run.Finish()
	run.Rule("mini-server, one node; per case a fresh port mapping (bandwidth limit {0, 8000, 64KiB/s, 1MiB/s} in its config) between two registered clients, source and target attach through real TunnelOpen packets on authenticated tunnel connections, 1B..300KB per direction simultaneously in seeded chunkings, then the source or target transport closes (after the complete exchange, or early); last case: limit 8000 with one 20000-byte write; then prewrite cases: the source has already written 1..8000 bytes when the target's TunnelOpen arrives and the server's write of the TunnelOpenAck is held back briefly, the target's raw byte stream must be one TunnelOpenAck packet followed by exactly the source's stream; distinct = (limit class, closer, early, size buckets)")
	snap := vk.SnapshotGoroutines()
	node := newMiniNode(t, miniOpts{NodeID: "node-a"})
	defer node.Close()
	src := node.NewClient("")
	tgt := node.NewClient("")
	r := run.Rand("gen")
	n := run.Pick(60, 500)
	var cases []c02lCase
	for i := 0; i < n; i++ {
		cases = append(cases, c02lGen(r, i))
	}
	// directed: the bandwidth limit taken from the mapping config, one write above the burst
	cases = append(cases, c02lCase{ID: n, Limit: 8000, S2T: 20000, T2S: 1, ChunkS: 20000, ChunkT: 1, Closer: "src", Seed: 7, CSeed: 7})
	run.Sample(cases[0])
	run.Sample(cases[len(cases)-1])
	ctx := context.Background()
	undecided := 0

	stop := false
	for _, c := range cases {
		if run.Violations() >= 10 || stop {
			break
		}
		lc := c02lLimitClass(c.Limit)
		run.Case("lifecycle", c)
		if !c02lAwaitLifecycleEnd() {
			run.Count("watchdog", 1)
			undecided++
			break
		}
		tid := fmt.Sprintf("c02-tun-%d-%d", c.ID, c.Seed)
		mapping, err := node.CC.CreatePortMapping(&models.PortMapping{
			ListenClientID: src.ClientID, TargetClientID: tgt.ClientID, Protocol: models.ProtocolTCP,
			SourcePort: 18080, TargetHost: "10.1.2.3", TargetPort: 3306, SecretKey: "mk-" + tid, Status: models.MappingStatusActive,
			Config: configs.MappingConfig{BandwidthLimit: c.Limit},
		})
		if err != nil || mapping == nil {
			t.Fatalf("c02: mapping setup failed: %v", err)
		}
		sc := node.MustConnect("")
		if ok, err := sc.Login(src.ClientID, src.Secret, "tunnel"); !ok {
			t.Fatalf("c02: source tunnel login failed: %v", err)
		}
		if ack, err := c02lOpen(sc, mapping.ID, tid, mapping.SecretKey); ack == nil || !ack.Success {
			t.Fatalf("c02: source TunnelOpen failed: ack=%+v err=%v", ack, err)
		}
		if node.SM.GetTunnelBridgeByMappingID(mapping.ID, 0) == nil {
			run.Count("bridge_not_visible_while_waiting", 1)
		} else {
			run.Count("bridge_registered", 1)
		}
		if st, err := node.Routing.LookupWaitingTunnel(ctx, tid); err == nil && st != nil {
			run.Count("routing_record_present_while_live", 1)
		}
		tc := node.MustConnect("")
		if ok, err := tc.Login(tgt.ClientID, tgt.Secret, "tunnel"); !ok {
			t.Fatalf("c02: target tunnel login failed: %v", err)
		}
		if ack, err := c02lOpen(tc, mapping.ID, tid, mapping.SecretKey); ack == nil || !ack.Success {
			t.Fatalf("c02: target TunnelOpen failed: ack=%+v err=%v", ack, err)
		}

		s2t := vk.Pattern(c.Seed, 0, c.S2T)
		t2s := vk.Pattern(c.Seed^0x5DEECE66D, 0, c.T2S)
		cr := rand.New(rand.NewSource(c.CSeed))
		mk := func(cl *miniClient, send, expect []byte, maxChunk int) *c02lEnd {
			return &c02lEnd{c: cl, send: send, expect: expect, chunks: vk.RandPartition(cr, len(send), maxChunk),
				gotAll: make(chan struct{}), badCh: make(chan struct{}), rDone: make(chan struct{}), wDone: make(chan struct{})}
		}
		S := mk(sc, s2t, t2s, c.ChunkS)
		T := mk(tc, t2s, s2t, c.ChunkT)
		if c.ChunkS >= c.S2T {
			S.chunks = []int{c.S2T}
		}
		began := time.Now()
		go S.reader()
		go T.reader()
		go S.writer()
		go T.writer()

		detail := func(extra map[string]any) map[string]any {
			m := map[string]any{"case": c, "tunnel_id": tid, "mapping_id": mapping.ID, "limit_class": lc,
				"src_sent": S.sent.Load(), "tgt_got": T.got.Load(), "tgt_sent": T.sent.Load(), "src_got": S.got.Load(),
				"srv_src_conn_closed": sc.sc.IsClosed(), "srv_tgt_conn_closed": tc.sc.IsClosed(), "elapsed_ms": time.Since(began).Milliseconds()}
			for k, v := range extra {
				m[k] = v
			}
			return m
		}

		closer, other := S, T
		if c.Closer == "tgt" {
			closer, other = T, S
		}
		harnessClosed := false
		complete := false
		corrupt := false
		if c.Early {
			// close as soon as the closer has received something (both loops are running)
			wd := time.NewTimer(20 * time.Second)
			tick := time.NewTicker(200 * time.Microsecond)
		waitEarly:
			for {
				select {
				case <-tick.C:
					if closer.got.Load() > 0 && other.got.Load() > 0 {
						break waitEarly
					}
				case <-closer.rDone:
					break waitEarly
				case <-wd.C:
					break waitEarly
				}
			}
			tick.Stop()
			wd.Stop()
		} else {
			done := make(chan struct{})
			go func() {
				for _, ch := range []chan struct{}{S.gotAll, T.gotAll, S.wDone, T.wDone} {
					select {
					case <-ch:
					case <-S.rDone: // the stream ended first: completeness can no longer be reached
						return
					case <-T.rDone:
						return
					}
				}
				close(done)
			}()
			wd := time.NewTimer(25 * time.Second)
			select {
			case <-done:
				complete = S.wErr == nil && T.wErr == nil
			case <-S.rDone:
			case <-T.rDone:
			case <-S.badCh:
				corrupt = true
			case <-T.badCh:
				corrupt = true
			case <-wd.C:
				run.Count("watchdog", 1)
				run.Observe("watchdog_last", detail(map[string]any{"phase": "transfer"}))
				undecided++
				stop = true
			}
			wd.Stop()
			if !complete {
				select {
				case <-done:
					complete = S.wErr == nil && T.wErr == nil
				default:
				}
			}
			if !complete && undecided == 0 && !corrupt {
				// a reader saw the end of the stream although the harness has closed nothing
				run.Violation("C02:incomplete|limit="+lc+"|cause=server-closed-tunnel", detail(map[string]any{
					"what":            "the server ended the tunnel although neither end had closed; bytes written by an end were not delivered",
					"lost_src_to_tgt": int64(c.S2T) - T.got.Load(), "lost_tgt_to_src": int64(c.T2S) - S.got.Load()}))
			}
			if complete {
				run.Count("complete_transfers", 1)
			}
		}
		harnessClosed = true
		closer.c.hc.Close()

		if !c02lAwaitLifecycleEnd() {
			run.Count("watchdog", 1)
			run.Observe("watchdog_last", detail(map[string]any{"phase": "lifecycle-end"}))
			undecided++
			other.c.hc.Close()
			break
		}
		run.Count("lifecycle_ended", 1)
		_ = harnessClosed
		// the server must have forgotten the tunnel
		forgot := true
		if b := node.SM.GetTunnelBridgeByMappingID(mapping.ID, 0); b != nil {
			forgot = false
			run.Violation("C02:lifecycle|bridge-still-registered|by=mapping", detail(map[string]any{"what": "bridge lifecycle has ended but the session manager still lists the tunnel"}))
		}
		for _, id := range []string{sc.ConnID, tc.ConnID} {
			if b := node.SM.GetTunnelBridgeByConnectionID(id); b != nil {
				forgot = false
				run.Violation("C02:lifecycle|bridge-still-registered|by=connection", detail(map[string]any{"conn_id": id}))
			}
		}
		if st, err := node.Routing.LookupWaitingTunnel(ctx, tid); err == nil && st != nil {
			forgot = false
			run.Violation("C02:lifecycle|routing-record-left", detail(map[string]any{"record": fmt.Sprintf("%+v", *st)}))
		}
		if forgot {
			run.Count("tunnel_forgotten", 1)
		}
		// the other end must be able to observe closure
		if !other.c.sc.IsClosed() {
			run.Violation("C02:closure|peer-conn-left-open|script=lifecycle", detail(map[string]any{"closer": c.Closer,
				"what": "the bridge lifecycle ended without the server closing the other end's transport"}))
		} else {
			wd := time.NewTimer(15 * time.Second)
			select {
			case <-other.rDone:
				run.Count("closure_observed_by_peer", 1)
			case <-wd.C:
				run.Count("harness_reader_stuck", 1)
				undecided++
			}
			wd.Stop()
		}
		for name, e := range map[string]*c02lEnd{"tgt->src": S, "src->tgt": T} {
			if m := e.bad.Load(); m != nil {
				run.Violation("C02:corrupt|kind=mismatch|limit="+lc, detail(map[string]any{"direction": name, "mismatch": *m}))
			}
		}
		// traffic accounting (observation only)
		if complete {
			if m2, err := node.CC.GetPortMapping(mapping.ID); err == nil && m2 != nil {
				if m2.TrafficStats.BytesSent != int64(c.S2T) || m2.TrafficStats.BytesReceived != int64(c.T2S) {
					run.Count("traffic_stats_differ_from_delivered", 1)
					run.Observe("traffic_stats_last", map[string]any{"case": c, "sent": m2.TrafficStats.BytesSent, "received": m2.TrafficStats.BytesReceived})
				} else {
					run.Count("traffic_stats_exact", 1)
				}
			}
		}
		other.c.hc.Close()
		sc.sc.Close()
		tc.sc.Close()
		cw := time.NewTimer(15 * time.Second)
		for _, ch := range []chan struct{}{S.rDone, T.rDone, S.wDone, T.wDone} {
			select {
			case <-ch:
			case <-cw.C:
				run.Count("harness_cleanup_stuck", 1)
				undecided++
			}
		}
		cw.Stop()
		run.Eval(1)
		run.Count("cases_limit_"+lc, 1)
		run.Distinct(fmt.Sprintf("limit=%s|closer=%s|early=%v|%d/%d", lc, c.Closer, c.Early, c.S2T/32768, c.T2S/32768))
	}

	if !stop && run.Violations() < 10 {
		undecided += c02lPrewrite(t, run, node, src, tgt, run.Rand("prewrite"), run.Pick(40, 300))
	}

	if !stop && run.Violations() < 10 {
		undecided += c02lNoTarget(t, run, node, src, tgt, run.Pick(12, 100))
	}
	if !stop && run.Violations() < 10 {
		undecided += c02lReconnect(t, run, node, src, tgt, run.Pick(4, 24))
	}

	if c02lAwaitLifecycleEnd() {
		leaked := snap.Leaked([]string{"session/tunnel.(*Bridge).CopyWithControl", "session/tunnel.(*Bridge).Start"}, nil, 2*time.Second)
		if len(leaked) > 0 {
			run.Violation("C02:leak|copy-loop-alive-after-teardown", map[string]any{"goroutines": vk.FrameSummary(leaked), "first_stack": leaked[0].Stack})
		}
	}
	if undecided == 0 {
		run.Count("all_cases_decided", 1)
	}
	run.Floor("all_cases_decided", 1)
	run.Floor("tunnel_forgotten", int64(n*3/4))
	run.Floor("closure_observed_by_peer", int64(n*3/4))
	run.Floor("complete_transfers", int64(n/3))
	run.Floor("bridge_registered", int64(n*3/4))
	run.Floor("prewrite_ack_then_exact_stream", int64(run.Pick(30, 220)))
	run.Floor("reconnect_source_reattached", int64(run.Pick(4, 24)))
	run.Floor("notarget_forgotten", int64(run.Pick(9, 75)))
	run.Floor("notarget_late_target_not_left_attached", int64(run.Pick(6, 50)))
	run.Floor("cases_limit_none", 3)
	run.Floor("cases_limit_burst<32K", 3)
	run.Floor("cases_limit_64K", 3)
	run.Floor("cases_limit_1M", 3)
}


// ---------------------------------------------------------------------------
// "prewrite": bytes queued by the source before the target attaches
// ---------------------------------------------------------------------------

// c02lSlowAckConn is the server end of the target's transport. The write that carries
// the TunnelOpenAck (recognised by its call stack) is held back for a short bounded
// moment, or until some other goroutine has written to this transport: if the server
// lets tunnel payload flow to this connection before it has written the ack, the
// payload overtakes it. The delay only perturbs the schedule; the verdict is the byte
// order the target end observes.
type c02lSlowAckConn struct {
	*vk.BufConn
	mu          sync.Mutex
	armed       atomic.Bool
	ackDelayed  atomic.Bool
	otherWrites atomic.Int64
	overtaken   atomic.Bool
}

func (c *c02lSlowAckConn) Write(p []byte) (int, error) {
	if c.armed.Load() {
		buf := make([]byte, 8192)
		st := string(buf[:runtime.Stack(buf, false)])
		if strings.Contains(st, "sendTunnelOpenResponse") {
			if !c.ackDelayed.Swap(true) {
				for i := 0; i < 40 && c.otherWrites.Load() == 0; i++ {
					time.Sleep(500 * time.Microsecond)
				}
				if c.otherWrites.Load() > 0 {
					c.overtaken.Store(true)
				}
			}
		} else if !strings.Contains(st, "HandlePacket") {
			c.otherWrites.Add(1)
		}
	}
	return c.BufConn.Write(p)
}

func c02lConnectSlowAck(n *miniNode) (*miniClient, *c02lSlowAckConn, error) {
	k := miniAddrSeq.Add(1)
	remote := fmt.Sprintf("10.%d.%d.%d:40000", (k>>16)&255, (k>>8)&255, k&255)
	sc, hc := vk.BufPipe(remote, "127.0.0.1:7000")
	w := &c02lSlowAckConn{BufConn: sc}
	stc, err := n.SM.AcceptConnection(w, w)
	if err != nil {
		sc.Close()
		hc.Close()
		return nil, nil, err
	}
	c := &miniClient{n: n, hc: hc, sc: sc, ConnID: stc.ID}
	c.sp = stream.NewStreamProcessor(hc, hc, n.ctx)
	n.mu.Lock()
	n.clients = append(n.clients, c)
	n.mu.Unlock()
	return c, w, nil
}

func c02lPrewrite(t *testing.T, run *vk.Run, node *miniNode, src, tgt *miniClient, r *rand.Rand, n int) (undecided int) {
	for i := 0; i < n; i++ {
		if run.Violations() >= 10 {
			return
		}
		if !c02lAwaitLifecycleEnd() {
			run.Count("watchdog", 1)
			return undecided + 1
		}
		pre := []int{1, 17, 1000, 4096, 8000}[r.Intn(5)]
		post := []int{0, 1, 5000, 40000}[r.Intn(4)]
		seed := r.Uint64()
		cs := map[string]any{"id": i, "bytes_before_target_attach": pre, "bytes_after": post, "pattern_seed": seed}
		run.Case("lifecycle-prewrite", cs)
		tid := fmt.Sprintf("c02-pre-%d-%d", i, seed)
		mapping, err := node.CC.CreatePortMapping(&models.PortMapping{
			ListenClientID: src.ClientID, TargetClientID: tgt.ClientID, Protocol: models.ProtocolTCP,
			SourcePort: 18080, TargetHost: "10.1.2.3", TargetPort: 3306, SecretKey: "mk-" + tid, Status: models.MappingStatusActive,
		})
		if err != nil || mapping == nil {
			t.Fatalf("c02: mapping setup failed: %v", err)
		}
		sc := node.MustConnect("")
		if ok, err := sc.Login(src.ClientID, src.Secret, "tunnel"); !ok {
			t.Fatalf("c02: source tunnel login failed: %v", err)
		}
		if ack, err := c02lOpen(sc, mapping.ID, tid, mapping.SecretKey); ack == nil || !ack.Success {
			t.Fatalf("c02: source TunnelOpen failed: ack=%+v err=%v", ack, err)
		}
		data := vk.Pattern(seed, 0, pre+post)
		// the source writes before the target's TunnelOpen arrives
		if _, err := sc.hc.Write(data[:pre]); err != nil {
			t.Fatalf("c02: source pre-write failed: %v", err)
		}
		tc, slow, err := c02lConnectSlowAck(node)
		if err != nil {
			t.Fatalf("c02: connect: %v", err)
		}
		if ok, err := tc.Login(tgt.ClientID, tgt.Secret, "tunnel"); !ok {
			t.Fatalf("c02: target tunnel login failed: %v", err)
		}
		// raw capture of everything the server writes to the target from now on
		var capMu sync.Mutex
		var captured []byte
		rDone := make(chan struct{})
		go func() {
			defer close(rDone)
			buf := make([]byte, 32*1024)
			for {
				k, err := tc.hc.Read(buf)
				if k > 0 {
					capMu.Lock()
					captured = append(captured, buf[:k]...)
					capMu.Unlock()
				}
				if err != nil {
					return
				}
			}
		}()
		slow.armed.Store(true)
		b, _ := json.Marshal(&packet.TunnelOpenRequest{MappingID: mapping.ID, TunnelID: tid, SecretKey: mapping.SecretKey})
		_ = tc.Send(&packet.TransferPacket{PacketType: packet.TunnelOpen, Payload: b})
		if post > 0 {
			if _, err := sc.hc.Write(data[pre:]); err != nil {
				run.Count("prewrite_source_write_failed", 1)
			}
		}
		// the source has sent everything and has nothing to receive: it closes
		sc.hc.Close()
		if !c02lAwaitLifecycleEnd() {
			run.Count("watchdog", 1)
			tc.hc.Close()
			return undecided + 1
		}
		wd := time.NewTimer(15 * time.Second)
		select {
		case <-rDone:
		case <-wd.C:
			run.Count("harness_reader_stuck", 1)
			undecided++
			tc.hc.Close()
			<-rDone
		}
		wd.Stop()
		capMu.Lock()
		got := append([]byte(nil), captured...)
		capMu.Unlock()
		head := got
		if len(head) > 24 {
			head = head[:24]
		}
		det := map[string]any{"case": cs, "tunnel_id": tid, "captured_len": len(got), "captured_head_hex": fmt.Sprintf("%x", head),
			"payload_overtook_ack_write": slow.overtaken.Load(), "srv_tgt_conn_closed": tc.sc.IsClosed()}
		// the target end speaks the tunnel-open protocol: one TunnelOpenAck packet, then the tunnel bytes
		sp := stream.NewStreamProcessor(bytes.NewReader(got), io.Discard, context.Background())
		pkt, used, perr := sp.ReadPacket()
		sp.Close()
		okAck := false
		if perr == nil && pkt != nil && pkt.PacketType&0x3F == packet.TunnelOpenAck {
			var a packet.TunnelOpenAckResponse
			if json.Unmarshal(pkt.Payload, &a) == nil && a.Success && a.TunnelID == tid {
				okAck = true
			}
		}
		switch {
		case len(got) == 0:
			run.Count("prewrite_nothing_received", 1)
			run.Observe("prewrite_nothing_last", det)
		case !okAck:
			det["parse_error"] = fmt.Sprint(perr)
			det["what"] = "the first thing on the attaching end's connection is not a well-formed TunnelOpenAck: tunnel payload was forwarded before the ack was written"
			run.Violation("C02:lifecycle|stream-corrupted-around-ack", det)
		default:
			rest := got[used:]
			if len(rest) > len(data) || !bytes.Equal(rest, data[:len(rest)]) {
				det["ack_len"] = used
				det["what"] = "after the TunnelOpenAck the attaching end does not receive a prefix of the source's stream (ack bytes inside the stream / reordering)"
				run.Violation("C02:lifecycle|stream-corrupted-around-ack", det)
			} else if len(rest) == len(data) {
				run.Count("prewrite_ack_then_exact_stream", 1)
			} else {
				run.Count("prewrite_ack_then_short_prefix", 1)
				run.Observe("prewrite_short_last", det)
			}
		}
		if slow.ackDelayed.Load() {
			run.Count("prewrite_ack_write_held", 1)
		}
		tc.hc.Close()
		sc.sc.Close()
		tc.sc.Close()
		run.Eval(1)
		run.Distinct(fmt.Sprintf("prewrite|pre=%d|post=%d", pre, post))
	}
	return undecided
}


// ---------------------------------------------------------------------------
// "reconnect": the source end re-attaches with the same tunnel id
// ---------------------------------------------------------------------------

// c02lIDConn is a server-side transport whose reader exposes the authenticated client
// id (GetClientID), which is what handleExistingBridge needs to recognise a TunnelOpen
// for an existing bridge as a *source* reconnect (-> Bridge.SetSourceConnection). No
// transport in the tree exposes it, so on the in-tree transports that branch is not
// reachable; this double makes it reachable on the mini-server.
type c02lIDConn struct {
	*vk.BufConn
	id int64
}

func (c *c02lIDConn) GetClientID() int64 { return c.id }

// c02lBridgeParked: every goroutine inside runBridgeLifecycle / the bridge copy loops is
// parked in a transport read or waiting for such a goroutine, in three stable dumps.
func c02lBridgeParked() (bool, string) {
	prev := ""
	for i := 0; i < 3; i++ {
		var lines []string
		io := 0
		for _, g := range vk.Goroutines() {
			st := g.Stack
			if !strings.Contains(st, ").runBridgeLifecycle") && !strings.Contains(st, "tunnel.(*Bridge).CopyWithControl") {
				continue
			}
			switch {
			case strings.Contains(st, "verifkit.(*BufConn).Read") && !strings.Contains(st, "time.Sleep") && !strings.Contains(st, "rate.(*Limiter)"):
				io++
				lines = append(lines, g.ID+"/io")
			case strings.Contains(st, "sync.(*WaitGroup).Wait"):
				lines = append(lines, g.ID+"/wgwait")
			default:
				return false, g.State
			}
		}
		sig := strings.Join(lines, ",")
		if io == 0 || (i > 0 && sig != prev) {
			return false, sig
		}
		prev = sig
		time.Sleep(100 * time.Millisecond)
	}
	return true, prev
}

func c02lReadExactly(c *vk.BufConn, want []byte) bool {
	got := make([]byte, 0, len(want))
	buf := make([]byte, 4096)
	deadline := time.Now().Add(10 * time.Second)
	for len(got) < len(want) && time.Now().Before(deadline) {
		c.SetReadDeadline(time.Now().Add(200 * time.Millisecond))
		k, err := c.Read(buf)
		got = append(got, buf[:k]...)
		if err != nil && k == 0 {
			if te, ok := err.(interface{ Timeout() bool }); ok && te.Timeout() {
				continue
			}
			break
		}
	}
	c.SetReadDeadline(time.Time{})
	return bytes.Equal(got, want)
}

func c02lReconnect(t *testing.T, run *vk.Run, node *miniNode, src, tgt *miniClient, n int) (undecided int) {
	for i := 0; i < n; i++ {
		if run.Violations() >= 10 {
			return
		}
		if !c02lAwaitLifecycleEnd() {
			run.Count("watchdog", 1)
			return undecided + 1
		}
		closer := []string{"tgt", "src2"}[i%2]
		cs := map[string]any{"id": i, "closes_after_source_reconnect": closer}
		run.Case("lifecycle-reconnect", cs)
		tid := fmt.Sprintf("c02-rec-%d", i)
		mapping, err := node.CC.CreatePortMapping(&models.PortMapping{
			ListenClientID: src.ClientID, TargetClientID: tgt.ClientID, Protocol: models.ProtocolTCP,
			SourcePort: 18080, TargetHost: "10.1.2.3", TargetPort: 3306, SecretKey: "mk-" + tid, Status: models.MappingStatusActive,
		})
		if err != nil || mapping == nil {
			t.Fatalf("c02: mapping setup failed: %v", err)
		}
		open := func(c *miniClient, id int64, secret string) bool {
			if ok, _ := c.Login(id, secret, "tunnel"); !ok {
				return false
			}
			ack, _ := c02lOpen(c, mapping.ID, tid, mapping.SecretKey)
			return ack != nil && ack.Success
		}
		sc1 := node.MustConnect("")
		tc := node.MustConnect("")
		if !open(sc1, src.ClientID, src.Secret) || !open(tc, tgt.ClientID, tgt.Secret) {
			t.Fatalf("c02: reconnect setup: tunnel open failed")
		}
		ping, pong := vk.Pattern(uint64(i), 0, 3000), vk.Pattern(uint64(i)+99, 0, 3000)
		sc1.hc.Write(ping)
		tc.hc.Write(pong)
		if !c02lReadExactly(tc.hc, ping) || !c02lReadExactly(sc1.hc, pong) {
			run.Count("watchdog", 1)
			return undecided + 1
		}
		// the source reconnects: same tunnel id, new transport that exposes its client id
		k := miniAddrSeq.Add(1)
		ssrv, shc := vk.BufPipe(fmt.Sprintf("10.%d.%d.%d:40000", (k>>16)&255, (k>>8)&255, k&255), "127.0.0.1:7000")
		idc := &c02lIDConn{BufConn: ssrv, id: src.ClientID}
		stc, err := node.SM.AcceptConnection(idc, idc)
		if err != nil {
			t.Fatalf("c02: accept: %v", err)
		}
		sc2 := &miniClient{n: node, hc: shc, sc: ssrv, ConnID: stc.ID}
		sc2.sp = stream.NewStreamProcessor(shc, shc, node.ctx)
		node.mu.Lock()
		node.clients = append(node.clients, sc2)
		node.mu.Unlock()
		if !open(sc2, src.ClientID, src.Secret) {
			run.Count("reconnect_open_refused", 1)
			sc1.hc.Close()
			tc.hc.Close()
			sc2.hc.Close()
			continue
		}
		// is the new connection the tunnel's source end now? target bytes must arrive there
		more := vk.Pattern(uint64(i)+7, 0, 2000)
		tc.hc.Write(more)
		if !c02lReadExactly(sc2.hc, more) {
			// the reconnect was not treated as a source re-attach (or bytes went elsewhere):
			// outside this scenario's precondition
			run.Count("reconnect_not_a_source_reattach", 1)
			sc1.hc.Close()
			tc.hc.Close()
			sc2.hc.Close()
			continue
		}
		run.Count("reconnect_source_reattached", 1)
		script := "target-closes-after-source-reattach"
		other := sc2
		if closer == "tgt" {
			tc.hc.Close()
		} else {
			script = "new-source-closes-after-source-reattach"
			other = tc
			sc2.hc.Close()
		}
		// the old source transport sc1 is left alone (half-dead peer)
		ended, hung, sig := false, false, ""
		for p := 0; p < 40 && !ended && !hung; p++ {
			if c02lLifecycleRunning() == 0 {
				ended = true
				break
			}
			time.Sleep(250 * time.Millisecond)
			if p >= 2 {
				hung, sig = c02lBridgeParked()
			}
		}
		det := map[string]any{"case": cs, "tunnel_id": tid, "goroutines": sig,
			"bridge_still_registered": node.SM.GetTunnelBridgeByMappingID(mapping.ID, 0) != nil,
			"other_end_transport_closed_by_server": other.sc.IsClosed(), "old_source_transport_closed_by_server": sc1.sc.IsClosed()}
		switch {
		case ended:
			if node.SM.GetTunnelBridgeByMappingID(mapping.ID, 0) != nil {
				run.Violation("C02:lifecycle|bridge-still-registered|by=mapping", det)
			} else if !other.sc.IsClosed() {
				run.Violation("C02:closure|peer-conn-left-open|script="+script, det)
			} else {
				run.Count("reconnect_closure_ok", 1)
			}
		case hung:
			det["what"] = "after a source reconnect (SetSourceConnection through handleExistingBridge) one current end closed; the source->target loop is parked in Read on the replaced transport, runBridgeLifecycle never finishes: the server keeps the tunnel"
			run.Violation("C02:closure|bridge-hang|script="+script, det)
		default:
			run.Count("watchdog", 1)
			undecided++
		}
		sc1.hc.Close()
		sc2.hc.Close()
		tc.hc.Close()
		sc1.sc.Close()
		ssrv.Close()
		tc.sc.Close()
		run.Eval(1)
		run.Distinct("reconnect|" + closer)
	}
	return undecided
}


// ---------------------------------------------------------------------------
// "no target": the bridge ends before any target attached
// ---------------------------------------------------------------------------

// c02lNoTarget: a source opens a tunnel; before any target attaches the bridge is ended
// (the server closes it through the bridge accessor - what an operator "kill tunnel" or a
// quota stop does -, or the whole node context is cancelled), so Bridge.Start fails.
// Once no goroutine is inside runBridgeLifecycle the server must have forgotten the
// tunnel (no bridge by mapping / connection id, no routing record) and the source's
// transport must be closed. A target that then arrives LATE with a TunnelOpen for that
// tunnel id must be refused or, if it is accepted, must get its transport closed - with
// no lifecycle goroutine left nothing would ever close it later, so "still open" at that
// point means it stays attached to a dead bridge for ever.
func c02lNoTarget(t *testing.T, run *vk.Run, shared *miniNode, ssrc, stgt *miniClient, n int) (undecided int) {
	ctx := context.Background()
	for i := 0; i < n; i++ {
		if run.Violations() >= 10 {
			return
		}
		if !c02lAwaitLifecycleEnd() {
			run.Count("watchdog", 1)
			return undecided + 1
		}
		ending := "bridge-closed-before-target"
		node, src, tgt := shared, ssrc, stgt
		if i%6 == 5 {
			ending = "node-cancelled-before-target"
			node = newMiniNode(t, miniOpts{NodeID: "node-x"})
			src, tgt = node.NewClient(""), node.NewClient("")
		}
		cs := map[string]any{"id": i, "ending": ending}
		run.Case("lifecycle-notarget", cs)
		tid := fmt.Sprintf("c02-nt-%d", i)
		mapping, err := node.CC.CreatePortMapping(&models.PortMapping{
			ListenClientID: src.ClientID, TargetClientID: tgt.ClientID, Protocol: models.ProtocolTCP,
			SourcePort: 18080, TargetHost: "10.1.2.3", TargetPort: 3306, SecretKey: "mk-" + tid, Status: models.MappingStatusActive,
		})
		if err != nil || mapping == nil {
			t.Fatalf("c02: mapping setup failed: %v", err)
		}
		sc := node.MustConnect("")
		if ok, err := sc.Login(src.ClientID, src.Secret, "tunnel"); !ok {
			t.Fatalf("c02: source tunnel login failed: %v", err)
		}
		if ack, err := c02lOpen(sc, mapping.ID, tid, mapping.SecretKey); ack == nil || !ack.Success {
			t.Fatalf("c02: source TunnelOpen failed: ack=%+v err=%v", ack, err)
		}
		br := node.SM.GetTunnelBridgeByMappingID(mapping.ID, 0)
		if br == nil {
			run.Count("notarget_bridge_not_visible", 1)
			continue
		}
		if ending == "bridge-closed-before-target" {
			br.Close()
		} else {
			node.Close()
		}
		if !c02lAwaitLifecycleEnd() {
			run.Count("watchdog", 1)
			return undecided + 1
		}
		det := map[string]any{"case": cs, "tunnel_id": tid, "mapping_id": mapping.ID, "srv_src_conn_closed": sc.sc.IsClosed()}
		forgot := true
		if b := node.SM.GetTunnelBridgeByMappingID(mapping.ID, 0); b != nil {
			forgot = false
			det["bridge_active"] = b.IsActive()
			det["what"] = "Bridge.Start failed (ended before any target attached) and the bridge lifecycle is over, but the session manager still lists the tunnel"
			run.Violation("C02:lifecycle|bridge-still-registered|by=mapping|ending=start-failed", det)
		}
		if ending == "bridge-closed-before-target" {
			if st, err := node.Routing.LookupWaitingTunnel(ctx, tid); err == nil && st != nil {
				forgot = false
				run.Violation("C02:lifecycle|routing-record-left|ending=start-failed", det)
			}
		}
		if !sc.sc.IsClosed() {
			forgot = false
			run.Violation("C02:closure|peer-conn-left-open|script=start-failed", det)
		}
		if forgot {
			run.Count("notarget_forgotten", 1)
		}
		if ending == "bridge-closed-before-target" {
			// a late target
			tc := node.MustConnect("")
			if ok, _ := tc.Login(tgt.ClientID, tgt.Secret, "tunnel"); ok {
				ack, herr := c02lOpen(tc, mapping.ID, tid, mapping.SecretKey)
				if !c02lAwaitLifecycleEnd() {
					run.Count("watchdog", 1)
					return undecided + 1
				}
				// the handler reports "attached, switch to stream mode" through an error of code
				// TunnelModeSwitch; any other error means the open failed (the transport's read
				// loop then drops the connection)
				attached := herr != nil && coreerrors.IsCode(herr, coreerrors.CodeTunnelModeSwitch)
				accepted := ack != nil && ack.Success && attached
				det2 := map[string]any{"case": cs, "tunnel_id": tid, "late_target_ack_success": ack != nil && ack.Success, "handler_result": fmt.Sprint(herr), "late_target_attached": attached, "late_target_transport_closed_by_server": tc.sc.IsClosed(),
					"bridge_found_for_late_target": node.SM.GetTunnelBridgeByConnectionID(tc.ConnID) != nil || node.SM.GetTunnelBridgeByMappingID(mapping.ID, 0) != nil}
				switch {
				case !accepted:
					run.Count("notarget_late_target_refused", 1)
					run.Count("notarget_late_target_not_left_attached", 1)
				case tc.sc.IsClosed():
					run.Count("notarget_late_target_closed", 1)
					run.Count("notarget_late_target_not_left_attached", 1)
				case det2["bridge_found_for_late_target"] == true:
					det2["what"] = "a target arriving after the bridge had ended got a successful TunnelOpenAck and is attached to the dead bridge; no lifecycle goroutine is left, so it never observes closure"
					run.Violation("C02:lifecycle|late-target-attached-to-dead-bridge", det2)
				default:
					// accepted, open, no bridge: the server started something new for it (not this scenario)
					run.Count("notarget_late_target_accepted_without_bridge", 1)
					run.Observe("notarget_late_last", det2)
				}
			}
			tc.hc.Close()
			tc.sc.Close()
		}
		sc.hc.Close()
		sc.sc.Close()
		if node != shared {
			node.Close()
		}
		run.Eval(1)
		run.Distinct("notarget|" + ending)
	}
	return undecided
}

// ---------------------------------------------------------------------------
// long-lived tunnels under the real stale-connection sweeper
// ---------------------------------------------------------------------------

// TestVerifC02LongLived: a node with a short heartbeat timeout and the real sweeper
// (startConnectionCleanup); both tunnel ends authenticate with a real tunnel-type
// handshake and attach with TunnelOpen; the clients' control connections keep
// heartbeating; the duplex transfer is paced by the harness so that it lasts several
// heartbeat timeouts. Nobody closes: every byte must arrive and no end may see the end of
// its stream before that (verdict = a reader saw end-of-stream early, never a deadline).
func TestVerifC02LongLived(t *testing.T) {
	vk.Quiet()
	run := vk.Start(t, "C02", "longlived")
	defer run.Finish()
	const hbTimeout = 400 * time.Millisecond
	run.Rule("mini-server with HeartbeatTimeout 400ms / CleanupInterval 50ms and the real sweeper; control connections heartbeat every 40ms; per tunnel both ends log in with connection_type=tunnel, TunnelOpen, then 40 chunks of 1..3000 bytes per direction paced 40ms apart (>= 4 heartbeat timeouts), 4 tunnels at a time; distinct = tunnel index")
	sc := &session.SessionConfig{HeartbeatTimeout: hbTimeout, CleanupInterval: 50 * time.Millisecond, MaxConnections: 100000, MaxControlConnections: 100000}
	node := newMiniNode(t, miniOpts{NodeID: "node-a", Session: sc})
	defer node.Close()
	src := node.NewClient("")
	tgt := node.NewClient("")
	stopHB := make(chan struct{})
	hbDone := make(chan struct{})
	go func() {
		defer close(hbDone)
		tk := time.NewTicker(40 * time.Millisecond)
		defer tk.Stop()
		for {
			select {
			case <-stopHB:
				return
			case <-tk.C:
				src.Send(&packet.TransferPacket{PacketType: packet.Heartbeat})
				tgt.Send(&packet.TransferPacket{PacketType: packet.Heartbeat})
				src.DrainRaw()
				tgt.DrainRaw()
			}
		}
	}()
	r := run.Rand("gen")
	n := run.Pick(4, 16)
	var undecided atomic.Int64
	for batch := 0; batch < n; batch += 4 {
		var wg sync.WaitGroup
		for i := batch; i < batch+4 && i < n; i++ {
			seed := r.Uint64()
			sizes := make([][2]int, 40)
			for k := range sizes {
				sizes[k] = [2]int{1 + r.Intn(3000), 1 + r.Intn(3000)}
			}
			tid := fmt.Sprintf("c02-long-%d", i)
			mapping, err := node.CC.CreatePortMapping(&models.PortMapping{
				ListenClientID: src.ClientID, TargetClientID: tgt.ClientID, Protocol: models.ProtocolTCP,
				SourcePort: 18080, TargetHost: "10.1.2.3", TargetPort: 3306, SecretKey: "mk-" + tid, Status: models.MappingStatusActive,
			})
			if err != nil || mapping == nil {
				t.Fatalf("c02: mapping setup failed: %v", err)
			}
			scn, tcn := node.MustConnect(""), node.MustConnect("")
			for _, e := range []struct {
				c      *miniClient
				id     int64
				secret string
			}{{scn, src.ClientID, src.Secret}, {tcn, tgt.ClientID, tgt.Secret}} {
				if ok, err := e.c.Login(e.id, e.secret, "tunnel"); !ok {
					t.Fatalf("c02: tunnel login failed: %v", err)
				}
				if ack, err := c02lOpen(e.c, mapping.ID, tid, mapping.SecretKey); ack == nil || !ack.Success {
					t.Fatalf("c02: TunnelOpen failed: ack=%+v err=%v", ack, err)
				}
			}
			run.Case("longlived", map[string]any{"tunnel": i})
			wg.Add(1)
			go func(i int) {
				defer wg.Done()
				totS, totT := 0, 0
				for _, z := range sizes {
					totS += z[0]
					totT += z[1]
				}
				s2t, t2s := vk.Pattern(seed, 0, totS), vk.Pattern(seed^0x77, 0, totT)
				mk := func(cl *miniClient, send, expect []byte) *c02lEnd {
					return &c02lEnd{c: cl, send: send, expect: expect, gotAll: make(chan struct{}), badCh: make(chan struct{}), rDone: make(chan struct{}), wDone: make(chan struct{})}
				}
				S, T := mk(scn, s2t, t2s), mk(tcn, t2s, s2t)
				go S.reader()
				go T.reader()
				began := time.Now()
				offS, offT := 0, 0
				early := ""
			pace:
				for _, z := range sizes {
					if _, err := scn.hc.Write(s2t[offS : offS+z[0]]); err != nil {
						early = "source write failed: " + err.Error()
						break
					}
					if _, err := tcn.hc.Write(t2s[offT : offT+z[1]]); err != nil {
						early = "target write failed: " + err.Error()
						break
					}
					offS += z[0]
					offT += z[1]
					S.sent.Store(int64(offS))
					T.sent.Store(int64(offT))
					select {
					case <-S.rDone:
						early = "source end saw the end of its stream"
						break pace
					case <-T.rDone:
						early = "target end saw the end of its stream"
						break pace
					case <-time.After(40 * time.Millisecond):
					}
				}
				complete := false
				if early == "" {
					wd := time.NewTimer(20 * time.Second)
					select {
					case <-S.rDone:
						early = "source end saw the end of its stream"
					case <-T.rDone:
						early = "target end saw the end of its stream"
					case <-S.badCh:
					case <-T.badCh:
					case <-func() chan struct{} {
						d := make(chan struct{})
						go func() {
							for _, ch := range []chan struct{}{S.gotAll, T.gotAll} {
								select {
								case <-ch:
								case <-S.rDone:
									return
								case <-T.rDone:
									return
								}
							}
							close(d)
						}()
						return d
					}():
						complete = true
					case <-wd.C:
						run.Count("watchdog", 1)
						undecided.Add(1)
					}
					wd.Stop()
				}
				det := map[string]any{"tunnel": i, "tunnel_id": tid, "elapsed_ms": time.Since(began).Milliseconds(), "heartbeat_timeout_ms": hbTimeout.Milliseconds(),
					"src_sent": offS, "tgt_got": T.got.Load(), "tgt_sent": offT, "src_got": S.got.Load(), "of_src": totS, "of_tgt": totT,
					"srv_src_conn_closed": scn.sc.IsClosed(), "srv_tgt_conn_closed": tcn.sc.IsClosed(), "observed": early,
					"control_connections_alive": node.SM.GetControlConnectionByClientID(src.ClientID) != nil && node.SM.GetControlConnectionByClientID(tgt.ClientID) != nil}
				for name, e := range map[string]*c02lEnd{"tgt->src": S, "src->tgt": T} {
					if m := e.bad.Load(); m != nil {
						det["direction"], det["mismatch"] = name, *m
						run.Violation("C02:corrupt|kind=mismatch|limit=none", det)
					}
				}
				if early != "" && S.bad.Load() == nil && T.bad.Load() == nil {
					if det["control_connections_alive"] == true {
						det["what"] = "a live tunnel was cut by the server although neither end closed and the clients kept heartbeating on their control connections"
						run.Violation("C02:incomplete|limit=none|cause=server-closed-live-tunnel", det)
					} else {
						// the harness failed to keep the control connections alive: not judged
						run.Count("longlived_control_connection_lost", 1)
						undecided.Add(1)
					}
				}
				if complete {
					run.Count("longlived_complete", 1)
					run.Max("longlived_max_ms", time.Since(began).Milliseconds())
					if time.Since(began) >= 3*hbTimeout {
						run.Count("longlived_outlived_3_heartbeat_timeouts", 1)
					}
				}
				scn.hc.Close()
				tcn.hc.Close()
				<-S.rDone
				<-T.rDone
				run.Eval(1)
				run.Distinct(fmt.Sprintf("longlived|%d", i))
			}(i)
		}
		wg.Wait()
		if run.Violations() >= 4 {
			break
		}
	}
	close(stopHB)
	<-hbDone
	if undecided.Load() == 0 {
		run.Count("all_cases_decided", 1)
	}
	run.Floor("all_cases_decided", 1)
	run.Floor("longlived_outlived_3_heartbeat_timeouts", int64(run.Pick(3, 12)))
}
