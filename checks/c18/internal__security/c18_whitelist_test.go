//go:build verif && verif_c18

package security

import (
	"context"
	"fmt"
	"math/rand"
	"net"
	"strings"
	"testing"
	"time"

	"tunnox-core/internal/core/storage"
	vk "tunnox-core/internal/verifkit"
)

// C18 — "a blacklisted address is always refused", with the whitelist in play.
//
// /repo's documented rule (IPManager.IsAllowed): an address covered by a whitelist entry
// is admitted whatever the blacklist says; otherwise a covering blacklist entry refuses
// it. The monitor models exactly that: the exemption lasts as long as a covering
// whitelist entry exists and not one query longer. Histories are sequential and all
// blacklist entries are permanent or 1 h, so every verdict is logical (no clock).
// Judged: not exempt && blacklisted => refused. While exempt the answer is only counted.

func c18wCovers(key, addr string) bool {
	if key == addr {
		return true
	}
	if !strings.Contains(key, "/") {
		return false
	}
	_, n, err := net.ParseCIDR(key)
	return err == nil && n.Contains(net.ParseIP(addr))
}

func TestVerifC18WhitelistPrecedence(t *testing.T) {
	vk.Quiet()
	run := vk.Start(t, "C18", "whitelist-precedence")
	defer run.Finish()
	run.Rule("seeded sequential histories of 12-40 events on one IPManager over keys {host, sibling host, their /24, the /16}: blacklist add (permanent / 1 h) and remove, whitelist add and remove, clean-up pass, restart (a fresh IPManager loaded from the same storage replaces the old one); after EVERY event both probe addresses are queried; judged: an address covered by a live blacklist entry and by no live whitelist entry must be refused; distinct = event-kind sequence of histories in which an exemption ended while a blacklist entry was live")
	nHist := run.Pick(400, 6000)
	sr := run.Rand("wl")
	for h := 0; h < nHist && run.Violations() < 20; h++ {
		r := rand.New(rand.NewSource(sr.Int63()))
		ctx, cancel := context.WithCancel(context.Background())
		store := storage.NewMemoryStorage(ctx)
		m := NewIPManager(store, ctx)
		a, b := 1+r.Intn(250), r.Intn(250)
		host := fmt.Sprintf("10.%d.%d.%d", a, b, 1+r.Intn(120))
		sib := fmt.Sprintf("10.%d.%d.%d", a, b, 130+r.Intn(120))
		keys := []string{host, sib, fmt.Sprintf("10.%d.%d.0/24", a, b), fmt.Sprintf("10.%d.0.0/16", a)}
		bl, wl := map[string]bool{}, map[string]bool{}
		var log, kinds []string
		exemptionEnded := false
		run.Case("whitelist-history", h)
		probe := func(after string) {
			for _, addr := range []string{host, sib} {
				black, white := false, false
				for k := range bl {
					if c18wCovers(k, addr) {
						black = true
					}
				}
				for k := range wl {
					if c18wCovers(k, addr) {
						white = true
					}
				}
				ok, _ := m.IsAllowed(addr)
				log = append(log, fmt.Sprintf("IsAllowed(%s)=%v", addr, ok))
				switch {
				case white:
					run.Count("obs_exempt(whitelisted)", 1)
					if black {
						run.Count("obs_exempt_while_blacklisted", 1)
					}
					if !ok {
						run.Count("refused_while_whitelisted(not judged)", 1)
					}
				case black:
					run.Count("obs_must_refuse", 1)
					if ok {
						sig := "C18:blacklisted-address-allowed|no-whitelist-entry-covers-it"
						if exemptionEnded {
							sig = "C18:blacklisted-address-allowed|after-whitelist-entry-removed"
						}
						if strings.HasPrefix(after, "restart") {
							sig += "|after-reload"
						}
						run.Violation(sig, map[string]any{"address": addr, "blacklist": c18wKeys(bl), "whitelist": c18wKeys(wl), "after_event": after, "history": append([]string(nil), log...)})
					}
				default:
					run.Count("obs_not_listed", 1)
					if !ok {
						run.Count("refused_although_not_listed(not judged)", 1)
					}
				}
			}
		}
		probe("start")
		n := 12 + r.Intn(29)
		for ev := 0; ev < n; ev++ {
			key := keys[r.Intn(len(keys))]
			var kind string
			switch x := r.Intn(100); {
			case x < 28:
				dur := time.Duration(0)
				if r.Intn(2) == 0 {
					dur = time.Hour
				}
				kind = "bl+"
				if err := m.AddToBlacklist(key, dur, "verif", "verif"); err != nil {
					t.Fatalf("c18: AddToBlacklist(%s): %v", key, err)
				}
				bl[key] = true
			case x < 40:
				kind = "bl-"
				m.RemoveFromBlacklist(key)
				delete(bl, key)
			case x < 64:
				kind = "wl+"
				if err := m.AddToWhitelist(key, "verif", "verif"); err != nil {
					t.Fatalf("c18: AddToWhitelist(%s): %v", key, err)
				}
				wl[key] = true
			case x < 86:
				kind = "wl-"
				// prefer a key that is actually whitelisted
				for k := range wl {
					if r.Intn(2) == 0 {
						key = k
					}
				}
				if wl[key] {
					for k := range bl {
						if c18wCovers(k, host) || c18wCovers(k, sib) {
							exemptionEnded = true
						}
					}
				}
				m.RemoveFromWhitelist(key)
				delete(wl, key)
			case x < 92:
				kind, key = "cleanup", ""
				m.cleanup()
			default:
				kind, key = "restart", ""
				m = NewIPManager(store, ctx)
				run.Count("restarts", 1)
			}
			ks := "host"
			switch {
			case key == "":
				ks = ""
			case key == sib:
				ks = "sib"
			case strings.HasSuffix(key, "/24"):
				ks = "/24"
			case strings.HasSuffix(key, "/16"):
				ks = "/16"
			}
			kinds = append(kinds, kind+ks)
			log = append(log, kind+" "+key)
			probe(kind + " " + key)
		}
		run.Eval(1)
		if exemptionEnded {
			run.Count("histories_with_exemption_ended_while_blacklisted", 1)
			run.Distinct(strings.Join(kinds, ","))
		}
		if h < 2 {
			run.Sample(log)
		}
		cancel()
	}
	run.Floor("obs_must_refuse", 2000)
	run.Floor("obs_exempt_while_blacklisted", 500)
	run.Floor("histories_with_exemption_ended_while_blacklisted", 100)
	run.Floor("restarts", 100)
}

func c18wKeys(m map[string]bool) []string {
	var out []string
	for k := range m {
		out = append(out, k)
	}
	return out
}
