//go:build verif && verif_c18

package security

import (
	"context"
	"fmt"
	"runtime"
	"strings"
	"sync"
	"sync/atomic"
	"testing"
	"time"

	"tunnox-core/internal/core/storage"
	vk "tunnox-core/internal/verifkit"
)

// C18 — clean-up passes racing new blacklist entries / bans on keys whose previous
// entry has expired. Verdicts are purely logical: an entry that was added (permanent
// or 1 h) by a call that has RETURNED, with no removal requested afterwards, must be
// refused on every later query — in memory and by a new IPManager loaded from the same
// storage. Sleeps only open the window; they never enter a verdict.

// c18GateStore is a storage double: the first Delete of a blacklist record parks until
// released (so the clean-up pass is held at its first storage operation); every
// blacklist Delete can additionally be slowed down (remote round trip).
type c18GateStore struct {
	storage.Storage
	storage.ListStore
	armed    atomic.Bool
	reached  chan string   // receives the key of the parked Delete
	release  chan struct{} // closed to let it continue
	slow     time.Duration
	deletes  atomic.Int64
	watchdog atomic.Int64
}

func (s *c18GateStore) Delete(key string) error {
	if strings.HasPrefix(key, keyPrefixBlacklist) && key != keyIndexBlacklist {
		s.deletes.Add(1)
		if s.armed.CompareAndSwap(true, false) {
			s.reached <- strings.TrimPrefix(key, keyPrefixBlacklist)
			select {
			case <-s.release:
			case <-time.After(5 * time.Second):
				s.watchdog.Add(1)
			}
		} else if s.slow > 0 {
			time.Sleep(s.slow)
		}
	}
	return s.Storage.Delete(key)
}

func TestVerifC18CleanupRace(t *testing.T) {
	vk.Quiet()
	run := vk.Start(t, "C18", "cleanup-race")
	defer run.Finish()
	run.Rule("(1) gated: an IPManager on a storage double holds 4-12 expired temporary blacklist entries; IPManager.cleanup() is held at its first storage Delete, meanwhile every key is blacklisted again (permanent or 1 h) from its own goroutine, the gate is released after the re-adds had time to queue (variants: other Deletes instant / 300 us slow; re-adds started before or after the pass reaches the gate); after the pass and all re-adds returned, every key must be refused by IsAllowed and by a fresh IPManager loaded from the same storage. (2) plain stress on memory storage: cleanup() x re-adds without any gate. (3) BruteForceProtector.cleanup() racing BanIP(1 h) / threshold RecordFailure on addresses whose previous ban expired. distinct = (part, variant, #keys, which re-adds overtook the pass)")

	waitExpired := func(origin time.Time, d time.Duration) bool { return c18SleepPast(origin, time.Since(origin)+d) }

	// ---------- (1) gated ----------
	nGated := run.Pick(60, 600)
	for trial := 0; trial < nGated && run.Violations() < 20; trial++ {
		ctx, cancel := context.WithCancel(context.Background())
		mem := storage.NewMemoryStorage(ctx)
		gs := &c18GateStore{Storage: mem, ListStore: mem.(storage.ListStore), reached: make(chan string, 1), release: make(chan struct{})}
		if trial%2 == 1 {
			gs.slow = 300 * time.Microsecond
		}
		early := trial%4 >= 2 // re-adds start before the pass reaches the gate
		perm := trial%3 != 0
		m := NewIPManager(gs, ctx)
		nk := 4 + trial%9
		ips := make([]string, nk)
		origin := time.Now()
		for i := range ips {
			ips[i] = fmt.Sprintf("10.30.%d.%d", trial%250, i+1)
			if err := m.AddToBlacklist(ips[i], 2*time.Millisecond, "temporary", "verif"); err != nil {
				t.Fatalf("c18: AddToBlacklist: %v", err)
			}
		}
		if !waitExpired(origin, 3*time.Millisecond) {
			run.Count("watchdog", 1)
			cancel()
			continue
		}
		run.Case("gated-cleanup", map[string]any{"trial": trial, "keys": nk, "slow": gs.slow.String(), "early": early, "permanent": perm})
		gs.armed.Store(true)
		var wg sync.WaitGroup
		overtook := make([]bool, nk)
		var passDone atomic.Bool
		readd := func() {
			for i := range ips {
				wg.Add(1)
				go func(i int) {
					defer wg.Done()
					d := time.Duration(0)
					if !perm {
						d = time.Hour
					}
					if err := m.AddToBlacklist(ips[i], d, "again", "verif"); err != nil {
						run.Count("harness_error", 1)
					}
					overtook[i] = !passDone.Load()
				}(i)
			}
		}
		if early {
			readd()
		}
		cleanDone := make(chan struct{})
		go func() { m.cleanup(); passDone.Store(true); close(cleanDone) }()
		held := ""
		select {
		case held = <-gs.reached:
			run.Count("cleanup_held_at_first_storage_delete", 1)
		case <-cleanDone:
			// the early re-adds won the lock before the pass: nothing was expired any more
			run.Count("cleanup_found_nothing_expired", 1)
		case <-time.After(5 * time.Second):
			run.Count("watchdog", 1)
		}
		if !early {
			readd()
		}
		if held != "" {
			time.Sleep(2 * time.Millisecond) // let the re-adds queue up behind whatever the pass holds
		}
		close(gs.release)
		select {
		case <-cleanDone:
		case <-time.After(10 * time.Second):
			run.Count("watchdog", 1)
		}
		wg.Wait()
		nOver := 0
		for _, o := range overtook {
			if o {
				nOver++
			}
		}
		run.Count("readds_returned_before_pass_end", int64(nOver))
		run.Eval(1)
		run.Distinct(fmt.Sprintf("gated|slow=%v|early=%v|perm=%v|keys=%d|overtook=%d", gs.slow > 0, early, perm, nk, nOver))
		// ---- oracle ----
		var lost, lostReload []string
		for _, ip := range ips {
			run.Count("obs_must_refuse", 1)
			if ok, _ := m.IsAllowed(ip); ok {
				lost = append(lost, ip)
			}
		}
		m2 := NewIPManager(gs, ctx) // a restarted node / another node loading the shared list
		for _, ip := range ips {
			run.Count("obs_must_refuse_after_reload", 1)
			if ok, _ := m2.IsAllowed(ip); ok {
				lostReload = append(lostReload, ip)
			}
		}
		detail := map[string]any{"trial": trial, "keys": ips, "held_delete_of": held, "other_deletes_slow": gs.slow.String(), "readds_before_gate": early, "permanent": perm,
			"readds_returned_before_pass_end": nOver, "allowed_in_memory": lost, "allowed_after_reload": lostReload,
			"sequence": "expired temporary entries -> cleanup() held at first storage Delete -> AddToBlacklist(key) for every key -> release -> all returned -> IsAllowed"}
		if len(lost) > 0 {
			run.Violation("C18:blacklist-entry-lost-to-cleanup-pass|memory", detail)
		}
		if len(lostReload) > 0 && len(lost) == 0 {
			run.Violation("C18:blacklist-entry-lost-to-cleanup-pass|storage", detail)
		}
		if trial < 2 {
			run.Sample(detail)
		}
		if gs.watchdog.Load() > 0 {
			run.Count("watchdog", 1)
		}
		cancel()
	}

	// ---------- (2) plain stress, IPManager ----------
	nStress := run.Pick(150, 2000)
	for trial := 0; trial < nStress && run.Violations() < 20; trial++ {
		ctx, cancel := context.WithCancel(context.Background())
		mem := storage.NewMemoryStorage(ctx)
		m := NewIPManager(mem, ctx)
		const nk = 24
		ips := make([]string, nk)
		origin := time.Now()
		for i := range ips {
			ips[i] = fmt.Sprintf("10.31.%d.%d", trial%250, i+1)
			_ = m.AddToBlacklist(ips[i], time.Millisecond, "temporary", "verif")
		}
		if !waitExpired(origin, 2*time.Millisecond) {
			run.Count("watchdog", 1)
			cancel()
			continue
		}
		var wg sync.WaitGroup
		var ready atomic.Int32
		const G = 4
		barrier := func() {
			ready.Add(1)
			for spins := 0; ready.Load() < G && spins < 20_000_000; spins++ {
				if spins > 200 {
					runtime.Gosched()
				}
			}
		}
		wg.Add(G)
		go func() { defer wg.Done(); barrier(); m.cleanup() }()
		for g := 0; g < G-1; g++ {
			go func(g int) {
				defer wg.Done()
				barrier()
				for i := g; i < nk; i += G - 1 {
					_ = m.AddToBlacklist(ips[i], 0, "again", "verif")
				}
			}(g)
		}
		wg.Wait()
		run.Eval(1)
		var lost []string
		for _, ip := range ips {
			run.Count("obs_must_refuse", 1)
			if ok, _ := m.IsAllowed(ip); ok {
				lost = append(lost, ip)
			}
		}
		if len(lost) > 0 {
			run.Violation("C18:blacklist-entry-lost-to-cleanup-pass|memory", map[string]any{"part": "plain stress", "trial": trial, "allowed": lost})
		} else {
			m2 := NewIPManager(mem, ctx)
			for _, ip := range ips {
				if ok, _ := m2.IsAllowed(ip); ok {
					lost = append(lost, ip)
				}
			}
			if len(lost) > 0 {
				run.Violation("C18:blacklist-entry-lost-to-cleanup-pass|storage", map[string]any{"part": "plain stress", "trial": trial, "allowed_after_reload": lost})
			}
		}
		run.Count("stress_trials_blacklist", 1)
		cancel()
	}
	run.Distinct("stress|blacklist")

	// ---------- (3) BruteForceProtector.cleanup racing new bans ----------
	{
		ctx, cancel := context.WithCancel(context.Background())
		p := NewBruteForceProtector(&BruteForceConfig{MaxFailures: 3, TimeWindow: time.Hour, BanDuration: time.Hour, PermanentBanAt: 1 << 30, CleanupInterval: time.Hour}, ctx)
		nB := run.Pick(400, 5000)
		for trial := 0; trial < nB && run.Violations() < 20; trial++ {
			const nk = 12
			ips := make([]string, nk)
			origin := time.Now()
			for i := range ips {
				ips[i] = fmt.Sprintf("10.32.%d.%d", trial%250, trial/250*16+i+1)
				p.BanIP(ips[i], time.Millisecond, "temporary")
			}
			if !waitExpired(origin, 2*time.Millisecond) {
				run.Count("watchdog", 1)
				continue
			}
			var wg sync.WaitGroup
			var ready atomic.Int32
			const G = 3
			barrier := func() {
				ready.Add(1)
				for spins := 0; ready.Load() < G && spins < 20_000_000; spins++ {
					if spins > 200 {
						runtime.Gosched()
					}
				}
			}
			wg.Add(G)
			go func() { defer wg.Done(); barrier(); p.cleanup() }()
			go func() {
				defer wg.Done()
				barrier()
				for i := 0; i < nk; i += 2 {
					p.BanIP(ips[i], time.Hour, "again")
				}
			}()
			go func() {
				defer wg.Done()
				barrier()
				for i := 1; i < nk; i += 2 {
					for k := 0; k < 3; k++ {
						p.RecordFailure(ips[i])
					}
				}
			}()
			wg.Wait()
			run.Eval(1)
			var lost []string
			for _, ip := range ips {
				run.Count("obs_must_be_banned", 1)
				if b, _ := p.IsBanned(ip); !b {
					lost = append(lost, ip)
				}
			}
			if len(lost) > 0 {
				run.Violation("C18:ban-lost-to-cleanup-pass", map[string]any{"trial": trial, "admitted": lost, "sequence": "BanIP(1ms) expired -> cleanup() || BanIP(1h) / 3 x RecordFailure (1 h ban) -> all returned -> IsBanned"})
			}
			run.Count("stress_trials_ban", 1)
			p.Reset()
		}
		run.Distinct("stress|ban")
		cancel()
	}
	run.Floor("cleanup_held_at_first_storage_delete", int64(nGated/3))
	run.Floor("obs_must_refuse", 500)
	run.Floor("obs_must_refuse_after_reload", 200)
	run.Floor("obs_must_be_banned", 1000)
	run.Floor("stress_trials_blacklist", int64(nStress*9/10))
	run.Floor("stress_trials_ban", int64(run.Pick(400, 5000)*9/10))
}
