//go:build verif && verif_c18

package security

import (
	"context"
	"fmt"
	"math/rand"
	"runtime"
	"sort"
	"strings"
	"sync"
	"sync/atomic"
	"testing"
	"time"

	"tunnox-core/internal/core/storage"
	vk "tunnox-core/internal/verifkit"
)

// C18 — repeated authentication failures lock an address out for the ban period.
//
// The components read time.Now() themselves, so every verdict follows the interval
// rule (DESIGN §2.3): each call is bracketed by two monotonic instants [C,R] taken by
// the harness; an observation is judged only when it is CERTAINLY inside / CERTAINLY
// outside the ban period (or window) whatever instants inside the brackets the code
// actually sampled. No tolerance constants enter a verdict. The generator merely
// *places* events c18Margin away from every pending boundary so that nearly all
// observations are certain; how many were is reported and floored.

const c18Margin = 30 * time.Millisecond // placement distance from boundaries (3 x 10 ms); never used in a verdict

// ───────────────────────── reference model ─────────────────────────

type c18Cfg struct {
	Name    string
	Max     int
	Perm    int
	Window  time.Duration
	Ban     time.Duration
	Cleanup time.Duration // 0 = background clean-up never fires during a time-line
}

func (c c18Cfg) bf() *BruteForceConfig {
	cl := c.Cleanup
	if cl == 0 {
		cl = time.Hour
	}
	return &BruteForceConfig{MaxFailures: c.Max, TimeWindow: c.Window, BanDuration: c.Ban, PermanentBanAt: c.Perm, CleanupInterval: cl}
}

// c18Iv is a call bracket: offsets of "just before the call" and "just after the
// return" from the time-line origin (monotonic clock).
type c18Iv struct{ C, R time.Duration }

type c18Fail struct {
	Iv      c18Iv
	Ev      int // event index
	Epoch   int // number of successes recorded before it
	CertIn  int // failures of the epoch certainly inside the window when this one was counted (incl. itself)
	PossIn  int // ... possibly inside
	TotLo   int // lifetime count: certain lower bound
	TotHi   int // lifetime count: upper bound
	NoReset int // CertIn if successes had not reset anything (non-vacuity of "success resets")
}

type c18Model struct {
	cfg        c18Cfg
	background bool // background clean-up passes run at unknown instants (may delete an idle failure record = reset the lifetime count)
	fails      []c18Fail
	epoch      int
	successEv  []int
	lo, hi     int // bounds on the record's lifetime count (explicit clean-up passes and successes applied)
}

func (m *c18Model) success(ev int) {
	m.epoch++
	m.successEv = append(m.successEv, ev)
	m.lo, m.hi = 0, 0
}

// cleanupPass models an explicit clean-up pass bracketed by iv: the failure record (and
// its lifetime count) is deleted iff its newest failure has left the window.
func (m *c18Model) cleanupPass(iv c18Iv) (certain bool) {
	if len(m.fails) == 0 || m.fails[len(m.fails)-1].Epoch != m.epoch {
		return true // no record
	}
	last := m.fails[len(m.fails)-1].Iv
	switch {
	case iv.C-last.R >= m.cfg.Window: // certainly outside: record deleted
		m.lo, m.hi = 0, 0
		return true
	case iv.R-last.C < m.cfg.Window: // certainly inside: record kept
		return true
	}
	m.lo = 0
	return false
}

func (m *c18Model) fail(iv c18Iv, ev int) *c18Fail {
	f := c18Fail{Iv: iv, Ev: ev, Epoch: m.epoch, CertIn: 1, PossIn: 1, NoReset: 1}
	W := m.cfg.Window
	for j := len(m.fails) - 1; j >= 0; j-- {
		p := m.fails[j]
		certIn := iv.R-p.Iv.C < W     // now' - t_j <= R_k - C_j < W  => t_j.After(now'-W)
		certOut := iv.C-p.Iv.R >= W   // now' - t_j >= C_k - R_j >= W => pruned
		if certIn {
			f.NoReset++
		}
		if p.Epoch != m.epoch {
			continue
		}
		if certIn {
			f.CertIn++
		}
		if !certOut {
			f.PossIn++
		}
	}
	m.lo++
	m.hi++
	f.TotLo, f.TotHi = m.lo, m.hi
	if m.background {
		// a background pass deletes the record (and its lifetime count) only when no
		// failure is left inside the window; consecutive failures certainly less than
		// a window apart cannot have a deleting pass between them.
		chain := 1
		next := iv
		for j := len(m.fails) - 1; j >= 0; j-- {
			p := m.fails[j]
			if p.Epoch != m.epoch || !(next.R-p.Iv.C < W) {
				break
			}
			chain++
			next = p.Iv
		}
		if chain < f.TotLo {
			f.TotLo = chain
		}
	}
	m.fails = append(m.fails, f)
	return &m.fails[len(m.fails)-1]
}

type c18Why struct {
	Kind string // "temp" | "perm"
	K    int    // index into fails of the establishing failure
}

// judge classifies a gate query bracketed by q (all recorded failures returned before q.C).
func (m *c18Model) judge(q c18Iv) (must, mustNot bool, why c18Why) {
	mustNot = true
	why.K = -1
	for k := range m.fails {
		f := &m.fails[k]
		if f.TotHi >= m.cfg.Perm {
			mustNot = false
		}
		if f.PossIn >= m.cfg.Max && !(q.C > f.Iv.R+m.cfg.Ban) {
			mustNot = false
		}
		if f.CertIn >= m.cfg.Max && q.R < f.Iv.C+m.cfg.Ban {
			must, why = true, c18Why{"temp", k}
		}
	}
	for k := range m.fails {
		if m.fails[k].TotLo >= m.cfg.Perm {
			must, why = true, c18Why{"perm", k}
			break
		}
	}
	return
}

// boundaries returns the pending uncertainty intervals (window exits and ban expiries).
func (m *c18Model) boundaries() []c18Iv {
	var out []c18Iv
	for k := range m.fails {
		f := &m.fails[k]
		if f.Epoch == m.epoch {
			out = append(out, c18Iv{f.Iv.C + m.cfg.Window, f.Iv.R + m.cfg.Window})
		}
		if f.PossIn >= m.cfg.Max {
			out = append(out, c18Iv{f.Iv.C + m.cfg.Ban, f.Iv.R + m.cfg.Ban})
		}
	}
	return out
}

// ───────────────────────── (a) time-lines ─────────────────────────

type c18Event struct {
	I    int    `json:"i"`
	Kind string `json:"kind"`
	Pos  string `json:"pos"`
	Cus  int64  `json:"call_us"`
	Rus  int64  `json:"ret_us"`
	Res  string `json:"res,omitempty"`
}

type c18TL struct {
	cfg     c18Cfg
	raw     bool // raw API use (failures/successes recorded even while banned) vs handshake-like gating
	cleanup bool
	seed    int64
}

type c18TLResult struct {
	events     []c18Event
	fp         string
	certain    int
	skipped    int
	mustSeen   int
	notSeen    int
	expirySeen int
	rebanSeen  int
	permSeen   int
	resetSeen  int
	asyncSpawn int
	viol       []struct {
		sig    string
		detail map[string]any
	}
}

var c18Cfgs = []c18Cfg{
	{Name: "w200b150-3/8", Max: 3, Perm: 8, Window: 200 * time.Millisecond, Ban: 150 * time.Millisecond},
	{Name: "w120b240-3/8", Max: 3, Perm: 8, Window: 120 * time.Millisecond, Ban: 240 * time.Millisecond},
	{Name: "w200b200-2/5", Max: 2, Perm: 5, Window: 200 * time.Millisecond, Ban: 200 * time.Millisecond},
	{Name: "w150b100-4/9-cleanup35", Max: 4, Perm: 9, Window: 150 * time.Millisecond, Ban: 100 * time.Millisecond, Cleanup: 35 * time.Millisecond},
	{Name: "w100b300-3/6", Max: 3, Perm: 6, Window: 100 * time.Millisecond, Ban: 300 * time.Millisecond},
	{Name: "w100b100-1/4", Max: 1, Perm: 4, Window: 100 * time.Millisecond, Ban: 100 * time.Millisecond},
}

func c18RunTimeline(tl c18TL) *c18TLResult {
	r := rand.New(rand.NewSource(tl.seed))
	ctx, cancel := context.WithCancel(context.Background())
	defer cancel()
	p := NewBruteForceProtector(tl.cfg.bf(), ctx)
	ip := fmt.Sprintf("10.18.%d.%d", r.Intn(250), 1+r.Intn(250))
	m := &c18Model{cfg: tl.cfg, background: tl.cfg.Cleanup != 0}
	res := &c18TLResult{}
	origin := time.Now()
	now := func() time.Duration { return time.Since(origin) }
	nEv := 14 + r.Intn(17)
	var kinds []string
	slept := time.Duration(0)
	lastExpiryObs := -1 // event index of the last query that saw an expired ban (spawns the asynchronous unban)
	hadBan := false

	query := func(ev int, kind, pos string) (banned bool) {
		c := now()
		b, _ := p.IsBanned(ip)
		rr := now()
		q := c18Iv{c, rr}
		must, mustNot, why := m.judge(q)
		e := c18Event{I: ev, Kind: kind + ":IsBanned", Pos: pos, Cus: c.Microseconds(), Rus: rr.Microseconds(), Res: fmt.Sprint(b)}
		res.events = append(res.events, e)
		switch {
		case must:
			res.certain++
			res.mustSeen++
			if why.Kind == "perm" {
				res.permSeen++
			}
			if lastExpiryObs >= 0 && why.K >= 0 && m.fails[why.K].Ev >= lastExpiryObs {
				res.rebanSeen++
			}
			if !b {
				sig := "C18:admitted-inside-ban-period|ban=" + why.Kind
				f := m.fails[why.K]
				// a temporary ban written after a later success replaces the permanent record;
				// it explains the answer only if that temporary ban may already have expired
				downgrade := false
				if why.Kind == "perm" {
					for k2 := why.K + 1; k2 < len(m.fails); k2++ {
						f2 := m.fails[k2]
						if f2.Epoch > f.Epoch && f2.PossIn >= tl.cfg.Max && f2.TotHi < tl.cfg.Perm {
							downgrade = !(q.R < f2.Iv.C+tl.cfg.Ban)
						}
					}
				}
				switch {
				case downgrade:
					sig = "C18:permanent-ban-downgraded|via=success-then-failures"
				case lastExpiryObs >= 0 && f.Ev >= lastExpiryObs:
					// the ban was established after a query had taken the expiry branch (go UnbanIP)
					sig = "C18:ban-lost-after-expiry-check"
				}
				res.viol = append(res.viol, struct {
					sig    string
					detail map[string]any
				}{sig, map[string]any{
					"config": tl.cfg, "mode_raw": tl.raw, "ip": ip, "query_event": ev,
					"query_call_us": c.Microseconds(), "query_ret_us": rr.Microseconds(),
					"established_by_failure_event": f.Ev, "failure_call_us": f.Iv.C.Microseconds(), "failure_ret_us": f.Iv.R.Microseconds(),
					"certainly_in_window": f.CertIn, "lifetime_lo": f.TotLo, "ban_kind": why.Kind,
					"last_expiry_observing_query_event": lastExpiryObs,
					"expected": "banned", "got": "not banned", "events": append([]c18Event(nil), res.events...),
				}})
			}
		case mustNot:
			res.certain++
			res.notSeen++
			if hadBan {
				res.expirySeen++
			}
			for k := range m.fails {
				if m.fails[k].NoReset >= tl.cfg.Max && m.fails[k].PossIn < tl.cfg.Max && !(q.C > m.fails[k].Iv.R+tl.cfg.Ban) {
					res.resetSeen++
					break
				}
			}
			if b {
				res.viol = append(res.viol, struct {
					sig    string
					detail map[string]any
				}{"C18:refused-below-threshold", map[string]any{
					"config": tl.cfg, "mode_raw": tl.raw, "ip": ip, "query_event": ev,
					"expected": "not banned", "got": "banned", "events": append([]c18Event(nil), res.events...),
				}})
			}
		default:
			res.skipped++
		}
		if !b && hadBan && !must {
			// a legitimate "not banned" answer while a ban record may still exist = the expiry branch (go UnbanIP)
			lastExpiryObs = ev
			res.asyncSpawn++
		}
		return b
	}
	fail := func(ev int, kind, pos string) {
		c := now()
		ret := p.RecordFailure(ip)
		rr := now()
		f := m.fail(c18Iv{c, rr}, ev)
		if f.PossIn >= tl.cfg.Max || f.TotHi >= tl.cfg.Perm {
			hadBan = true
		}
		res.events = append(res.events, c18Event{I: ev, Kind: kind + ":RecordFailure", Pos: pos, Cus: c.Microseconds(), Rus: rr.Microseconds(), Res: fmt.Sprint(ret)})
	}
	succ := func(ev int, kind, pos string) {
		c := now()
		p.RecordSuccess(ip)
		rr := now()
		m.success(ev)
		res.events = append(res.events, c18Event{I: ev, Kind: kind + ":RecordSuccess", Pos: pos, Cus: c.Microseconds(), Rus: rr.Microseconds()})
	}

	for ev := 0; ev < nEv; ev++ {
		// ---- choose the instant (relative to pending boundaries) ----
		bs := m.boundaries()
		t := now()
		pos := "now"
		target := t
		x := r.Intn(100)
		if slept > 2500*time.Millisecond {
			x = 0
		}
		var next, last time.Duration = -1, -1
		for _, b := range bs {
			if b.R > t {
				if next < 0 || b.R < next {
					next = b.R
				}
				if b.R > last {
					last = b.R
				}
			}
		}
		switch {
		case x < 52:
		case x < 70:
			pos = "short"
			target = t + time.Duration(3+r.Intn(23))*time.Millisecond
		case x < 90 && next >= 0:
			pos = "cross-next"
			target = next + c18Margin + time.Duration(r.Intn(15))*time.Millisecond
		case last >= 0:
			pos = "cross-all"
			target = last + c18Margin + time.Duration(r.Intn(15))*time.Millisecond
		}
		for it := 0; it < 20; it++ {
			moved := false
			for _, b := range bs {
				if target >= b.C-c18Margin && target <= b.R+c18Margin {
					target = b.R + c18Margin + time.Millisecond
					moved = true
				}
			}
			if !moved {
				break
			}
		}
		if d := target - now(); d > 0 {
			time.Sleep(d)
			slept += d
		}
		// ---- choose the event ----
		k := r.Intn(100)
		var kind string
		switch {
		case k < 38:
			kind = "AF"
		case k < 63:
			kind = "Q"
		case k < 71:
			kind = "AS"
		case k < 83:
			if tl.raw {
				kind = "F"
			} else {
				kind = "AF"
			}
		case k < 87:
			if tl.raw {
				kind = "S"
			} else {
				kind = "Q"
			}
		case k < 95:
			if tl.cleanup {
				kind = "C"
			} else {
				kind = "AF"
			}
		default:
			kind = "G"
		}
		kinds = append(kinds, kind+"@"+pos)
		switch kind {
		case "Q":
			query(ev, kind, pos)
		case "AF":
			if !query(ev, kind, pos) {
				fail(ev, kind, pos)
			}
		case "AS":
			if !query(ev, kind, pos) {
				succ(ev, kind, pos)
			}
		case "F":
			fail(ev, kind, pos)
		case "S":
			succ(ev, kind, pos)
		case "C":
			c := now()
			p.cleanup()
			rr := now()
			cert := m.cleanupPass(c18Iv{c, rr})
			res.events = append(res.events, c18Event{I: ev, Kind: "cleanup", Pos: pos, Cus: c.Microseconds(), Rus: rr.Microseconds(), Res: fmt.Sprintf("modelled-certainly=%v", cert)})
		case "G":
			_ = p.GetStats()
			_ = p.GetBannedIPs()
			_ = p.GetFailureCount(ip)
		}
	}
	res.fp = fmt.Sprintf("%s|raw=%v|cl=%v|%s", tl.cfg.Name, tl.raw, tl.cleanup, strings.Join(kinds, ","))
	return res
}

func TestVerifC18Timelines(t *testing.T) {
	vk.Quiet()
	run := vk.Start(t, "C18", "timelines")
	defer run.Finish()
	run.Rule("seeded per-address time-lines of 14-30 events {gate query, gated failure, gated success, raw failure/success while banned, explicit clean-up pass, stats} against a fresh BruteForceProtector with millisecond-scale configuration (6 configurations: ban<window, ban>window, ban=window, background clean-up every 35 ms, threshold 1); each event is placed now / a few ms later / just past the next pending boundary / past all boundaries, always >= 30 ms away from every window-exit and ban-expiry boundary; every IsBanned answer is judged by the interval rule against a sliding-window + ban reference model; distinct = (configuration, mode, event-kind@position sequence) of time-lines with >= 1 certain 'must be banned' observation")
	rounds := run.Pick(6, 150)
	const par = 32
	seedR := run.Rand("timelines")
	var totC, totS int64
	for round := 0; round < rounds && run.Violations() < 20; round++ {
		tls := make([]c18TL, par)
		for i := range tls {
			tls[i] = c18TL{cfg: c18Cfgs[(round*par+i)%len(c18Cfgs)], raw: seedR.Intn(4) == 0, cleanup: seedR.Intn(3) == 0, seed: seedR.Int63()}
		}
		run.Case("timeline-round", round)
		out := make([]*c18TLResult, par)
		var wg sync.WaitGroup
		for i := range tls {
			wg.Add(1)
			go func(i int) {
				defer wg.Done()
				out[i] = c18RunTimeline(tls[i])
			}(i)
		}
		wg.Wait()
		for i, o := range out {
			run.Eval(1)
			if o.mustSeen > 0 {
				run.Distinct(o.fp)
			}
			totC += int64(o.certain)
			totS += int64(o.skipped)
			run.Count("queries_certain", int64(o.certain))
			run.Count("queries_skipped_uncertain", int64(o.skipped))
			run.Count("obs_must_be_banned", int64(o.mustSeen))
			run.Count("obs_must_not_be_banned", int64(o.notSeen))
			run.Count("obs_ban_expiry_seen", int64(o.expirySeen))
			run.Count("obs_reban_after_expiry", int64(o.rebanSeen))
			run.Count("obs_permanent_ban", int64(o.permSeen))
			run.Count("obs_success_reset", int64(o.resetSeen))
			run.Count("expiry_branch_taken(go UnbanIP)", int64(o.asyncSpawn))
			if tls[i].raw {
				run.Count("timelines_raw_mode", 1)
			}
			if round == 0 && i < 2 {
				run.Sample(map[string]any{"config": tls[i].cfg.Name, "raw": tls[i].raw, "events": o.events})
			}
			for _, v := range o.viol {
				run.Violation(v.sig, v.detail)
			}
		}
	}
	if totC+totS > 0 {
		run.Count("queries_certain_pct", 100*totC/(totC+totS))
	}
	run.Floor("queries_certain_pct", 90)
	run.Floor("obs_must_be_banned", 50)
	run.Floor("obs_must_not_be_banned", 50)
	run.Floor("obs_ban_expiry_seen", 10)
	run.Floor("obs_reban_after_expiry", 5)
	run.Floor("obs_permanent_ban", 5)
	run.Floor("obs_success_reset", 3)
}

// ───────────────────────── (b) re-ban race ─────────────────────────

// c18SleepPast blocks until the monotonic clock is certainly past t (bounded).
func c18SleepPast(origin time.Time, t time.Duration) bool {
	for i := 0; i < 2000; i++ {
		d := t - time.Since(origin)
		if d < 0 {
			return true
		}
		time.Sleep(d + 200*time.Microsecond)
	}
	return false
}

func TestVerifC18RebanRace(t *testing.T) {
	vk.Quiet()
	run := vk.Start(t, "C18", "reban-race")
	defer run.Finish()
	run.Rule("per trial a fresh address: a ban expires, one gate query observes the expiry (the code spawns its asynchronous unban), threshold failures follow immediately (new ban), the harness yields, then queries up to 3 times at instants certainly inside the NEW ban period. Variants: short first ban via the admin BanIP then a 1 h ban from failures; everything from failures with a 20 ms ban; IPManager AddToBlacklist(1 ms) / IsAllowed / AddToBlacklist(1 h). distinct = (variant, which of the 3 queries were certain)")
	origin := time.Now()
	now := func() time.Duration { return time.Since(origin) }
	var stop atomic.Bool
	yield := func(i int) {
		switch i {
		case 0:
			runtime.Gosched()
		case 1:
			time.Sleep(200 * time.Microsecond)
		default:
			time.Sleep(time.Millisecond)
		}
	}

	// variant 1: admin short ban, then failures (1 h ban)
	nAdmin := run.Pick(3000, 20000)
	workers := 4
	var wg sync.WaitGroup
	for w := 0; w < workers; w++ {
		wg.Add(1)
		go func(w int) {
			defer wg.Done()
			ctx, cancel := context.WithCancel(context.Background())
			defer cancel()
			p := NewBruteForceProtector(&BruteForceConfig{MaxFailures: 3, TimeWindow: time.Hour, BanDuration: time.Hour, PermanentBanAt: 1 << 30, CleanupInterval: time.Hour}, ctx)
			for i := w; i < nAdmin && !stop.Load(); i += workers {
				ip := fmt.Sprintf("10.%d.%d.%d", 100+w, (i>>8)&255, i&255)
				p.BanIP(ip, time.Millisecond, "verif short ban")
				r0 := now()
				if !c18SleepPast(origin, r0+time.Millisecond) {
					run.Count("watchdog", 1)
					continue
				}
				b, _ := p.IsBanned(ip) // certainly after expiry
				if b {
					run.Violation("C18:refused-below-threshold|after-expiry", map[string]any{"variant": "admin-short-ban", "ip": ip})
					continue
				}
				run.Count("expiry_observed", 1)
				for k := 0; k < 3; k++ {
					p.RecordFailure(ip)
				}
				lost := -1
				for q := 0; q < 3; q++ {
					yield(q)
					if b, _ := p.IsBanned(ip); !b { // 1 h ban: certainly inside
						lost = q
						break
					}
					run.Count("queries_certain", 1)
				}
				run.Eval(1)
				run.Count("trials_admin_short_ban", 1)
				run.Distinct("admin-short-ban|certain=3")
				if lost >= 0 {
					run.Count("ban_lost", 1)
					run.Violation("C18:ban-lost-after-expiry-check", map[string]any{
						"variant": "BanIP(1ms) expires -> IsBanned=false (spawns go UnbanIP) -> 3 x RecordFailure (1 h ban) -> IsBanned",
						"ip":      ip, "lost_at_query": lost, "expected": "banned", "got": "not banned", "trial": i,
					})
				}
			}
		}(w)
	}
	wg.Wait()

	// variant 2: everything from failures, 20 ms ban
	nPure := run.Pick(320, 4000)
	workers = 8
	ban := 20 * time.Millisecond
	for w := 0; w < workers; w++ {
		wg.Add(1)
		go func(w int) {
			defer wg.Done()
			ctx, cancel := context.WithCancel(context.Background())
			defer cancel()
			p := NewBruteForceProtector(&BruteForceConfig{MaxFailures: 3, TimeWindow: 250 * time.Millisecond, BanDuration: ban, PermanentBanAt: 1 << 30, CleanupInterval: time.Hour}, ctx)
			for i := w; i < nPure && !stop.Load(); i += workers {
				ip := fmt.Sprintf("10.%d.%d.%d", 120+w, (i>>8)&255, i&255)
				var c3 time.Duration
				for k := 0; k < 3; k++ {
					c3 = now()
					p.RecordFailure(ip)
				}
				r0 := now()
				if b, _ := p.IsBanned(ip); !b && now() < c3+ban { // expiry >= c3+ban: certainly inside
					run.Violation("C18:admitted-inside-ban-period|ban=temp", map[string]any{"variant": "pure-failures/first-ban", "ip": ip})
				}
				if !c18SleepPast(origin, r0+ban) {
					run.Count("watchdog", 1)
					continue
				}
				if b, _ := p.IsBanned(ip); b { // certainly after expiry (every expiry <= r0+ban)
					run.Violation("C18:refused-below-threshold|after-expiry", map[string]any{"variant": "pure-failures", "ip": ip})
					continue
				}
				run.Count("expiry_observed", 1)
				var cLast time.Duration
				for k := 0; k < 3; k++ {
					cLast = now()
					p.RecordFailure(ip) // the first three are still inside the 250 ms window: each of these re-bans
				}
				lost, certain := -1, 0
				for q := 0; q < 3; q++ {
					yield(q)
					b, _ := p.IsBanned(ip)
					if !(now() < cLast+ban) {
						run.Count("queries_skipped_uncertain", 1)
						break
					}
					certain++
					run.Count("queries_certain", 1)
					if !b {
						lost = q
						break
					}
				}
				run.Eval(1)
				run.Count("trials_pure_failures", 1)
				run.Distinct(fmt.Sprintf("pure-failures|certain=%d", certain))
				if lost >= 0 {
					run.Count("ban_lost", 1)
					run.Violation("C18:ban-lost-after-expiry-check", map[string]any{
						"variant": "3 x RecordFailure (20 ms ban) -> expires -> IsBanned=false (spawns go UnbanIP) -> 3 x RecordFailure (new 20 ms ban) -> IsBanned inside the new period",
						"ip":      ip, "lost_at_query": lost, "expected": "banned", "got": "not banned", "trial": i,
					})
				}
			}
		}(w)
	}
	wg.Wait()

	// variant 3: IPManager blacklist
	nBL := run.Pick(3000, 20000)
	workers = 4
	for w := 0; w < workers; w++ {
		wg.Add(1)
		go func(w int) {
			defer wg.Done()
			ctx, cancel := context.WithCancel(context.Background())
			defer cancel()
			m := NewIPManager(storage.NewMemoryStorage(ctx), ctx)
			for i := w; i < nBL && !stop.Load(); i += workers {
				ip := fmt.Sprintf("10.%d.%d.%d", 140+w, (i>>8)&255, i&255)
				if err := m.AddToBlacklist(ip, time.Millisecond, "verif", "verif"); err != nil {
					run.Count("harness_error", 1)
					continue
				}
				r0 := now()
				if !c18SleepPast(origin, r0+time.Millisecond) {
					run.Count("watchdog", 1)
					continue
				}
				if ok, _ := m.IsAllowed(ip); !ok {
					run.Count("blacklist_still_refused_after_expiry", 1) // not demanded by the statement
					continue
				}
				run.Count("expiry_observed", 1)
				if err := m.AddToBlacklist(ip, time.Hour, "verif again", "verif"); err != nil {
					run.Count("harness_error", 1)
					continue
				}
				lost := -1
				for q := 0; q < 3; q++ {
					yield(q)
					if ok, _ := m.IsAllowed(ip); ok {
						lost = q
						break
					}
					run.Count("queries_certain", 1)
				}
				run.Eval(1)
				run.Count("trials_blacklist", 1)
				run.Distinct("blacklist|certain=3")
				if lost >= 0 {
					run.Count("blacklist_lost", 1)
					run.Violation("C18:blacklist-lost-after-expiry-check", map[string]any{
						"variant": "AddToBlacklist(1ms) expires -> IsAllowed=true (spawns go RemoveFromBlacklist) -> AddToBlacklist(1h) -> IsAllowed",
						"ip":      ip, "lost_at_query": lost, "expected": "refused", "got": "allowed", "trial": i,
					})
				}
			}
		}(w)
	}
	wg.Wait()
	run.Floor("trials_admin_short_ban", int64(nAdmin*9/10))
	run.Floor("trials_pure_failures", int64(nPure*9/10))
	run.Floor("trials_blacklist", int64(nBL*9/10))
	run.Floor("expiry_observed", int64((nAdmin+nPure+nBL)*9/10))
}

// ───────────────────────── blacklist time-lines ─────────────────────────

func TestVerifC18Blacklist(t *testing.T) {
	vk.Quiet()
	run := vk.Start(t, "C18", "blacklist")
	defer run.Finish()
	run.Rule("seeded time-lines on a fresh IPManager: entries (single address or /24 network, duration 80/160 ms or permanent) are added, re-added, removed, clean-up passes run, and at 'restart' events a fresh IPManager is loaded from the same storage (restarted process / second node) and must refuse every address covered by a live exact or network entry; IsAllowed for an address of the entry is judged 'must refuse' when the query certainly lies between the return of an AddToBlacklist and call+duration of it with no removal since; distinct = event-kind sequence")
	rounds := run.Pick(4, 40)
	const par = 16
	seedR := run.Rand("bl")
	for round := 0; round < rounds && run.Violations() < 20; round++ {
		var wg sync.WaitGroup
		for i := 0; i < par; i++ {
			seed := seedR.Int63()
			wg.Add(1)
			go func(i int, seed int64) {
				defer wg.Done()
				r := rand.New(rand.NewSource(seed))
				ctx, cancel := context.WithCancel(context.Background())
				defer cancel()
				store := storage.NewMemoryStorage(ctx)
				m := NewIPManager(store, ctx)
				storeTainted := false
				origin := time.Now()
				now := func() time.Duration { return time.Since(origin) }
				a, b := r.Intn(250), r.Intn(250)
				host := fmt.Sprintf("10.%d.%d.%d", a, b, 1+r.Intn(250))
				cidr := fmt.Sprintf("10.%d.%d.0/24", a, b)
				type entry struct {
					key  string
					iv   c18Iv
					dur  time.Duration
					live bool
				}
				var entries []*entry
				expiryBranch := false // some earlier IsAllowed answered "allowed" while an expired entry was still listed
				var kinds []string
				var log []c18Event
				n := 8 + r.Intn(10)
				for ev := 0; ev < n; ev++ {
					// placement: away from every pending expiry
					target := now()
					switch x := r.Intn(100); {
					case x < 50:
					case x < 70:
						target += time.Duration(3+r.Intn(20)) * time.Millisecond
					default:
						for _, e := range entries {
							if e.live && e.dur > 0 && e.iv.R+e.dur > target {
								target = e.iv.R + e.dur + c18Margin
							}
						}
					}
					for it := 0; it < 10; it++ {
						moved := false
						for _, e := range entries {
							if e.dur > 0 && target >= e.iv.C+e.dur-c18Margin && target <= e.iv.R+e.dur+c18Margin {
								target = e.iv.R + e.dur + c18Margin + time.Millisecond
								moved = true
							}
						}
						if !moved {
							break
						}
					}
					if d := target - now(); d > 0 {
						time.Sleep(d)
					}
					k := r.Intn(100)
					switch {
					case k < 30: // add
						key := host
						if r.Intn(3) == 0 {
							key = cidr
						}
						dur := []time.Duration{80 * time.Millisecond, 160 * time.Millisecond, 0}[r.Intn(3)]
						c := now()
						err := m.AddToBlacklist(key, dur, "verif", "verif")
						rr := now()
						if err != nil {
							run.Count("harness_error", 1)
							continue
						}
						for _, e := range entries {
							if e.key == key {
								e.live = false // replaced
							}
						}
						entries = append(entries, &entry{key, c18Iv{c, rr}, dur, true})
						kinds = append(kinds, fmt.Sprintf("add(%v,%dms)", key == cidr, dur.Milliseconds()))
						log = append(log, c18Event{I: ev, Kind: "AddToBlacklist " + key + " " + dur.String(), Cus: c.Microseconds(), Rus: rr.Microseconds()})
					case k < 38: // admin removal
						key := host
						if r.Intn(3) == 0 {
							key = cidr
						}
						m.RemoveFromBlacklist(key)
						for _, e := range entries {
							if e.key == key {
								e.live = false
							}
						}
						kinds = append(kinds, "remove")
						log = append(log, c18Event{I: ev, Kind: "RemoveFromBlacklist " + key, Cus: now().Microseconds()})
					case k < 45:
						m.cleanup()
						kinds = append(kinds, "cleanup")
						log = append(log, c18Event{I: ev, Kind: "cleanup", Cus: now().Microseconds()})
					case k < 58:
						// "restart / second node": a fresh IPManager loads the list from the same storage and
						// is asked about the address. Only done while no timed entry is near its expiry, so
						// that the second manager never holds an expired record (its lazy removal would
						// write to the shared storage).
						c := now()
						near := storeTainted
						for _, e := range entries {
							if e.live && e.dur > 0 && c >= e.iv.C+e.dur-c18Margin && c <= e.iv.R+e.dur+c18Margin {
								near = true
							}
						}
						if near {
							run.Count("restarts_skipped_near_expiry", 1)
							continue
						}
						ctx2, cancel2 := context.WithCancel(ctx)
						m2 := NewIPManager(store, ctx2)
						ok, _ := m2.IsAllowed(host)
						rr := now()
						cancel2()
						kinds = append(kinds, "restart")
						log = append(log, c18Event{I: ev, Kind: "new IPManager on the same storage; IsAllowed " + host, Cus: c.Microseconds(), Rus: rr.Microseconds(), Res: fmt.Sprint(ok)})
						must, viaHost, viaNet := false, false, false
						for _, e := range entries {
							if !e.live {
								continue
							}
							if e.dur == 0 || rr < e.iv.C+e.dur {
								must = true
								if e.key == host {
									viaHost = true
								} else {
									viaNet = true
								}
							} else if !(c > e.iv.R+e.dur) {
								storeTainted = true // a record may have been loaded and expired meanwhile
							}
						}
						run.Count("restarts", 1)
						if must {
							run.Count("obs_must_refuse_after_reload", 1)
							if viaNet && !viaHost {
								run.Count("obs_must_refuse_after_reload_via_network_entry_only", 1)
							}
							if ok {
								sig := "C18:blacklisted-address-allowed-after-reload|entry=exact"
								if viaNet && !viaHost {
									sig = "C18:blacklisted-address-allowed-after-reload|entry=network"
								}
								run.Violation(sig, map[string]any{"host": host, "cidr": cidr, "events": log})
							}
						}
					default:
						c := now()
						ok, _ := m.IsAllowed(host)
						rr := now()
						expiryBranchBefore := expiryBranch
						kinds = append(kinds, "q")
						log = append(log, c18Event{I: ev, Kind: "IsAllowed " + host, Cus: c.Microseconds(), Rus: rr.Microseconds(), Res: fmt.Sprint(ok)})
						must, may := false, false
						mustViaHost, expiredHostEntry := false, false
						for _, e := range entries {
							if !e.live {
								continue
							}
							if e.dur == 0 || rr < e.iv.C+e.dur {
								must = true
								if e.key == host {
									mustViaHost = true
								}
							}
							if e.dur == 0 || !(c > e.iv.R+e.dur) {
								may = true
							}
							if e.dur > 0 && c > e.iv.R+e.dur {
								if ok {
									expiryBranch = true // an expired entry was (probably) seen: go RemoveFromBlacklist
								}
								if e.key == host {
									expiredHostEntry = true
								}
							}
						}
						switch {
						case must:
							run.Count("queries_certain", 1)
							run.Count("obs_must_refuse", 1)
							if !mustViaHost {
								run.Count("obs_must_refuse_via_network_entry", 1)
							}
							if ok {
								sig := "C18:blacklisted-address-allowed"
								switch {
								case !mustViaHost && expiredHostEntry:
									sig = "C18:blacklisted-network-address-allowed|expired-exact-entry-shadows-network-entry"
								case expiryBranchBefore:
									sig = "C18:blacklist-lost-after-expiry-check"
								}
								run.Violation(sig, map[string]any{"host": host, "cidr": cidr, "events": log})
							}
						case !may:
							run.Count("queries_certain", 1)
							if ok {
								run.Count("obs_allowed_when_not_listed", 1)
							} else {
								run.Count("obs_refused_although_not_listed(not judged)", 1)
							}
						default:
							run.Count("queries_skipped_uncertain", 1)
						}
					}
				}
				run.Eval(1)
				run.Distinct(strings.Join(kinds, ","))
				if round == 0 && i == 0 {
					run.Sample(log)
				}
			}(i, seed)
		}
		wg.Wait()
	}
	c, s := run.Counter("queries_certain"), run.Counter("queries_skipped_uncertain")
	if c+s > 0 {
		run.Count("queries_certain_pct", 100*c/(c+s))
	}
	run.Floor("queries_certain_pct", 90)
	run.Floor("obs_must_refuse", 30)
	run.Floor("obs_allowed_when_not_listed", 10)
	run.Floor("obs_must_refuse_after_reload", 10)
	run.Floor("obs_must_refuse_after_reload_via_network_entry_only", 3)
}

// ───────────────────────── (d) token bucket ─────────────────────────

type c18Take struct {
	C, R int64 // ns from origin
	OK   bool
	G    int
}

// c18CheckBucket verifies: for every pair (i by call instant, j by return instant) the
// number of accepted takes whose bracket lies inside [C_i, R_j] is <= burst + rate*(R_j-C_i).
// Exact integer arithmetic in token-nanoseconds; returns the worst excess witness.
func c18CheckBucket(ops []c18Take, rate, burst int) (violated bool, witness map[string]any, minSlack float64) {
	var acc []c18Take
	for _, o := range ops {
		if o.OK {
			acc = append(acc, o)
		}
	}
	sort.Slice(acc, func(a, b int) bool { return acc[a].C < acc[b].C })
	accR := append([]c18Take(nil), acc...)
	sort.Slice(accR, func(a, b int) bool { return accR[a].R < accR[b].R })
	minSlack = 1e18
	for i := range acc {
		cnt := int64(0)
		for _, o := range accR {
			if o.C < acc[i].C {
				continue
			}
			cnt++ // accepted takes with C >= C_i and R <= o.R
			span := o.R - acc[i].C
			lhs := cnt * 1e9
			rhs := int64(burst)*1e9 + int64(rate)*span
			if sl := float64(rhs-lhs) / 1e9; sl < minSlack {
				minSlack = sl
			}
			if lhs > rhs && !violated {
				violated = true
				witness = map[string]any{"accepted_in_span": cnt, "span_ns": span, "bound_tokens": float64(rhs) / 1e9, "first_call_ns": acc[i].C, "last_ret_ns": o.R}
			}
		}
	}
	return
}

func TestVerifC18TokenBucket(t *testing.T) {
	vk.Quiet()
	run := vk.Start(t, "C18", "token-bucket")
	defer run.Finish()
	run.Rule("per configuration (rate/burst 50/5, 200/1, 20/10, 1000/3, TTL*rate >= burst) one RateLimiter; 6 addresses each driven by one goroutine and one address driven by 3 goroutines concurrently with seeded gaps {0, yield, 1-3 ms, 20-40 ms, > burst/rate}, occasional clean-up passes; oracle: accepted takes inside any [call_i, ret_j] <= burst + rate*(ret_j-call_i), exact; distinct = (configuration, address, gap-class 4-grams)")
	type rc struct{ rate, burst int }
	cfgs := []rc{{50, 5}, {200, 1}, {20, 10}, {1000, 3}}
	nCalls := run.Pick(350, 3000)
	sleepCap := time.Duration(run.Pick(5, 40)) * time.Second
	var freshRL *RateLimiter
	var freshCancel context.CancelFunc
	var outer sync.WaitGroup
	runCfg := func(ci int, c rc) {
		defer outer.Done()
		ctx, cancel := context.WithCancel(context.Background())
		ttl := 400 * time.Millisecond
		if time.Duration(c.burst)*time.Second/time.Duration(c.rate) > ttl/2 {
			ttl = 4 * time.Duration(c.burst) * time.Second / time.Duration(c.rate)
		}
		rl := NewRateLimiter(&RateLimitConfig{Rate: c.rate, Burst: c.burst, TTL: ttl}, nil, ctx)
		origin := time.Now()
		full := time.Duration(c.burst)*time.Second/time.Duration(c.rate) + 10*time.Millisecond
		perAddr := make([][]c18Take, 7)
		var mu sync.Mutex
		var wg sync.WaitGroup
		drive := func(addr, g int, seed int64, calls int) {
			defer wg.Done()
			r := rand.New(rand.NewSource(seed))
			ip := fmt.Sprintf("10.18.%d.%d", ci, addr+1)
			var local []c18Take
			var grams []string
			sleptTotal := time.Duration(0)
			for k := 0; k < calls; k++ {
				x := r.Intn(100)
				if sleptTotal > sleepCap {
					x = 0
				}
				var gap string
				switch {
				case x < 55:
					gap = "0"
				case x < 65:
					gap = "y"
					runtime.Gosched()
				case x < 88:
					gap = "ms"
					d := time.Duration(1+r.Intn(3)) * time.Millisecond
					time.Sleep(d)
					sleptTotal += d
				case x < 96:
					gap = "20ms"
					d := time.Duration(20+r.Intn(20)) * time.Millisecond
					time.Sleep(d)
					sleptTotal += d
				case x < 98:
					gap = "full"
					time.Sleep(full)
					sleptTotal += full
				case x < 99:
					gap = "cleanup"
					rl.cleanup()
				default:
					gap = "idle>ttl+cleanup" // the bucket is deleted and re-created full: allowed because TTL*rate >= burst
					time.Sleep(ttl + 20*time.Millisecond)
					sleptTotal += ttl + 20*time.Millisecond
					before := rl.GetStats().IPBucketCount
					rl.cleanup()
					if d := before - rl.GetStats().IPBucketCount; d > 0 {
						run.Count("buckets_deleted_by_cleanup", int64(d))
					}
				}
				grams = append(grams, gap)
				c0 := time.Since(origin).Nanoseconds()
				ok := rl.AllowIP(ip)
				r0 := time.Since(origin).Nanoseconds()
				local = append(local, c18Take{c0, r0, ok, g})
				if len(grams) >= 4 {
					run.Distinct(fmt.Sprintf("%d/%d|a%d|%s", c.rate, c.burst, addr, strings.Join(grams[len(grams)-4:], ">")))
				}
			}
			mu.Lock()
			perAddr[addr] = append(perAddr[addr], local...)
			mu.Unlock()
		}
		sr := run.Rand(fmt.Sprintf("tb%d", ci))
		for a := 0; a < 6; a++ {
			wg.Add(1)
			go drive(a, 0, sr.Int63(), nCalls)
		}
		for g := 0; g < 3; g++ {
			wg.Add(1)
			go drive(6, g, sr.Int63(), nCalls)
		}
		wg.Wait()
		cancel()
		for a, ops := range perAddr {
			run.Eval(len(ops))
			acc, ref, refillAcc := 0, 0, 0
			sort.Slice(ops, func(x, y int) bool { return ops[x].C < ops[y].C })
			sawRef := false
			for _, o := range ops {
				if o.OK {
					acc++
					if sawRef {
						refillAcc++
						sawRef = false
					}
				} else {
					ref++
					sawRef = true
				}
			}
			run.Count("takes_accepted", int64(acc))
			run.Count("takes_refused", int64(ref))
			run.Count("accepted_after_a_refusal(refill observed)", int64(refillAcc))
			bad, wit, slack := c18CheckBucket(ops, c.rate, c.burst)
			run.Observe(fmt.Sprintf("min_slack_tokens|%d/%d|addr%d", c.rate, c.burst, a), slack)
			if bad {
				wit["rate"], wit["burst"], wit["address"], wit["concurrent"] = c.rate, c.burst, a, a == 6
				sig := "C18:rate-exceeded|sequential"
				if a == 6 {
					sig = "C18:rate-exceeded|concurrent"
				}
				run.Violation(sig, wit)
			}
		}
	}
	for ci, c := range cfgs {
		outer.Add(1)
		go runCfg(ci, c)
	}
	outer.Wait()

	// ---- first requests of fresh addresses, issued concurrently ----
	// No bucket exists yet: G goroutines released from a spin barrier make the very first
	// requests of the address. The same exact bound applies (the address owns ONE bucket).
	nFresh := run.Pick(300, 4000)
	for ai := 0; ai < nFresh && run.Violations() < 20; ai++ {
		burst := 1 + ai%5
		rate := []int{10, 50, 200}[ai%3]
		G := []int{8, 16, 32}[(ai/5)%3]
		if ai%40 == 0 {
			if freshCancel != nil {
				freshCancel()
			}
			var fctx context.Context
			fctx, freshCancel = context.WithCancel(context.Background())
			freshRL = NewRateLimiter(&RateLimitConfig{Rate: rate, Burst: burst, TTL: time.Hour}, nil, fctx)
		} else {
			freshRL.SetIPRateLimit(rate, burst) // public API: new rate/burst, bucket map emptied
		}
		ip := fmt.Sprintf("10.40.%d.%d", (ai>>8)&255, ai&255)
		origin := time.Now()
		ops := make([][]c18Take, G)
		var ready atomic.Int32
		var wg sync.WaitGroup
		okBarrier := atomic.Bool{}
		okBarrier.Store(true)
		for g := 0; g < G; g++ {
			wg.Add(1)
			go func(g int) {
				defer wg.Done()
				ready.Add(1)
				for spins := 0; int(ready.Load()) < G; spins++ {
					if spins > 200 {
						runtime.Gosched()
					}
					if spins > 50_000_000 {
						okBarrier.Store(false)
						break
					}
				}
				for k := 0; k < 2; k++ {
					c0 := time.Since(origin).Nanoseconds()
					ok := freshRL.AllowIP(ip)
					r0 := time.Since(origin).Nanoseconds()
					ops[g] = append(ops[g], c18Take{c0, r0, ok, g})
				}
			}(g)
		}
		wg.Wait()
		if !okBarrier.Load() {
			run.Count("watchdog", 1)
			continue
		}
		var all []c18Take
		acc := 0
		for _, o := range ops {
			all = append(all, o...)
			for _, x := range o {
				if x.OK {
					acc++
				}
			}
		}
		run.Eval(len(all))
		run.Count("fresh_addresses", 1)
		run.Count("fresh_first_requests_accepted", int64(acc))
		run.Count("fresh_first_requests_refused", int64(len(all)-acc))
		run.Distinct(fmt.Sprintf("fresh|%d/%d|G=%d|accepted=%d", rate, burst, G, acc))
		if bad, wit, _ := c18CheckBucket(all, rate, burst); bad {
			wit["rate"], wit["burst"], wit["address"], wit["goroutines"], wit["accepted_total"] = rate, burst, ip, G, acc
			run.Violation("C18:rate-exceeded|concurrent-first-requests", wit)
		}
	}
	if freshCancel != nil {
		freshCancel()
	}
	run.Floor("fresh_addresses", int64(nFresh*9/10))
	run.Floor("fresh_first_requests_refused", int64(nFresh))
	run.Floor("takes_accepted", 200)
	run.Floor("takes_refused", 200)
	run.Floor("accepted_after_a_refusal(refill observed)", 50)
}

// ───────────────────────── (c) concurrent use ─────────────────────────

func TestVerifC18Concurrent(t *testing.T) {
	vk.Quiet()
	run := vk.Start(t, "C18", "concurrent")
	defer run.Finish()
	run.Rule("(1) 8 goroutines apply seeded RecordFailure/RecordSuccess/IsBanned/BanIP/UnbanIP/cleanup/stats (and the IPManager / RateLimiter equivalents) to 4 shared addresses with a 5 ms background clean-up — data-race detector workload; addresses of a separate group only ever receive failures (1 h ban): once threshold failures have returned, every later query must say banned. (2) permanent-threshold bursts: 8 goroutines released by a spin barrier record one failure each for a fresh address (permanent threshold 8, temporary ban 40 ms); after every temporary ban has certainly expired the address must still be banned. distinct = operation-kind 3-grams per goroutine")
	ctx, cancel := context.WithCancel(context.Background())
	defer cancel()

	// ---- (1) mixed workload ----
	p := NewBruteForceProtector(&BruteForceConfig{MaxFailures: 3, TimeWindow: 50 * time.Millisecond, BanDuration: 20 * time.Millisecond, PermanentBanAt: 40, CleanupInterval: 5 * time.Millisecond}, ctx)
	pHard := NewBruteForceProtector(&BruteForceConfig{MaxFailures: 5, TimeWindow: time.Hour, BanDuration: time.Hour, PermanentBanAt: 1 << 30, CleanupInterval: 5 * time.Millisecond}, ctx)
	ipm := NewIPManager(storage.NewMemoryStorage(ctx), ctx)
	rl := NewRateLimiter(&RateLimitConfig{Rate: 1000, Burst: 10, TTL: 5 * time.Millisecond}, &RateLimitConfig{Rate: 1000, Burst: 10, TTL: 5 * time.Millisecond}, ctx)
	nOps := run.Pick(4000, 40000)
	const G = 8
	var hardDone, hardStarted [64]atomic.Int64 // failures that have returned / been called, per hard address
	var wg sync.WaitGroup
	sr := run.Rand("conc")
	for g := 0; g < G; g++ {
		seed := sr.Int63()
		wg.Add(1)
		go func(g int, seed int64) {
			defer wg.Done()
			r := rand.New(rand.NewSource(seed))
			var grams []string
			for i := 0; i < nOps; i++ {
				ip := fmt.Sprintf("10.18.0.%d", 1+r.Intn(4))
				var k string
				switch x := r.Intn(100); {
				case x < 25:
					k = "fail"
					p.RecordFailure(ip)
				case x < 45:
					k = "isbanned"
					p.IsBanned(ip)
				case x < 50:
					k = "success"
					p.RecordSuccess(ip)
				case x < 54:
					k = "cleanup"
					p.cleanup()
				case x < 57:
					k = "stats"
					p.GetStats()
					p.GetBannedIPs()
					p.GetFailureCount(ip)
				case x < 60:
					k = "banip"
					p.BanIP(ip, time.Duration(1+r.Intn(3))*time.Millisecond, "verif")
				case x < 62:
					k = "unban"
					p.UnbanIP(ip)
				case x < 70:
					k = "bl-add"
					_ = ipm.AddToBlacklist(ip, time.Duration(1+r.Intn(3))*time.Millisecond, "verif", "verif")
				case x < 80:
					k = "bl-q"
					ipm.IsAllowed(ip)
				case x < 82:
					k = "bl-clean"
					ipm.cleanup()
					ipm.GetBlacklist()
					ipm.GetStats()
				case x < 90:
					k = "rl"
					rl.AllowIP(ip)
					rl.AllowTunnel(ip, 1)
				case x < 92:
					k = "rl-clean"
					rl.cleanup()
					rl.GetStats()
				default:
					// hard group: failures only, 1 h ban, threshold 5; the address rotates as i advances
					h := i * len(hardDone) / nOps
					hip := fmt.Sprintf("10.18.1.%d", h+1)
					if r.Intn(2) == 0 {
						k = "hard-fail"
						hardStarted[h].Add(1)
						pHard.RecordFailure(hip)
						hardDone[h].Add(1)
					} else {
						k = "hard-q"
						before := hardDone[h].Load()
						b, _ := pHard.IsBanned(hip)
						startedAfter := hardStarted[h].Load()
						if before >= 5 {
							// five failures had returned before the query was called (window and ban 1 h)
							run.Count("hard_queries_after_threshold", 1)
							if !b {
								run.Violation("C18:admitted-inside-ban-period|concurrent", map[string]any{"ip": hip, "failures_returned_before_query": before, "threshold": 5, "ban": "1h"})
							}
						} else if startedAfter < 5 {
							// fewer than five failures had even been called when the query returned
							run.Count("hard_queries_below_threshold", 1)
							if b {
								run.Violation("C18:refused-below-threshold|concurrent", map[string]any{"ip": hip, "failures_called_before_query_returned": startedAfter, "threshold": 5})
							}
						}
					}
				}
				grams = append(grams, k)
				if len(grams) >= 3 {
					run.Distinct(strings.Join(grams[len(grams)-3:], ">"))
				}
				if i%64 == 0 {
					time.Sleep(200 * time.Microsecond) // let the 5 ms clean-up tickers interleave
				}
			}
			run.Eval(nOps)
		}(g, seed)
	}
	wg.Wait()

	// ---- (2) permanent-threshold bursts ----
	nBurst := run.Pick(2500, 30000)
	banT := 40 * time.Millisecond
	pb := NewBruteForceProtector(&BruteForceConfig{MaxFailures: 3, TimeWindow: time.Hour, BanDuration: banT, PermanentBanAt: G, CleanupInterval: time.Hour}, ctx)
	origin := time.Now()
	var lastRet time.Duration
	ips := make([]string, 0, nBurst)
	for i := 0; i < nBurst; i++ {
		ip := fmt.Sprintf("10.19.%d.%d", (i>>8)&255, i&255)
		var ready atomic.Int32
		var bw sync.WaitGroup
		ok := atomic.Bool{}
		ok.Store(true)
		for g := 0; g < G; g++ {
			bw.Add(1)
			go func() {
				defer bw.Done()
				ready.Add(1)
				for spins := 0; ready.Load() < G; spins++ {
					if spins > 200 {
						runtime.Gosched()
					}
					if spins > 50_000_000 {
						ok.Store(false)
						break
					}
				}
				pb.RecordFailure(ip)
			}()
		}
		bw.Wait()
		if !ok.Load() {
			run.Count("watchdog", 1)
			continue
		}
		lastRet = time.Since(origin)
		ips = append(ips, ip)
		run.Eval(1)
	}
	if !c18SleepPast(origin, lastRet+banT) {
		run.Count("watchdog", 1)
	} else {
		for _, ip := range ips {
			b, _ := pb.IsBanned(ip) // 8 failures, no success, no clean-up: lifetime count certainly 8 >= permanent threshold
			run.Count("burst_addresses_checked", 1)
			if !b {
				run.Count("permanent_ban_downgraded", 1)
				var rec any
				for _, br := range pb.GetBannedIPs() {
					if br.IP == ip {
						rec = map[string]any{"expires_zero": br.ExpiresAt.IsZero(), "reason": br.Reason, "count": br.Count}
					}
				}
				run.Violation("C18:permanent-ban-downgraded|via=concurrent-failures", map[string]any{
					"ip": ip, "failures": G, "permanent_threshold": G, "temporary_ban": banT.String(),
					"queried_after": "every temporary ban certainly expired", "expected": "banned (permanent)", "got": "not banned", "ban_record": rec,
				})
			}
		}
	}
	run.Floor("burst_addresses_checked", int64(nBurst*9/10))
	run.Floor("hard_queries_after_threshold", 100)
	run.Floor("hard_queries_below_threshold", 20)
}
