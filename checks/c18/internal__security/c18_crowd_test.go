//go:build verif && verif_c18

package security

import (
	"context"
	"fmt"
	"testing"
	"time"

	vk "tunnox-core/internal/verifkit"
)

// C18 — an address's failure history is its own: failures of OTHER addresses, however
// many, must not make the protector forget it. Victim addresses collect their failures
// with a crowd of 10 000+ other failing addresses in between (distributed credential
// stuffing); the failure that completes the threshold inside the window must ban the
// address, and the one that completes the lifetime threshold must ban it permanently.
// Window and ban are 1 h: every verdict is logical.

func TestVerifC18CrowdedFailureTable(t *testing.T) {
	vk.Quiet()
	run := vk.Start(t, "C18", "crowded-failure-table")
	defer run.Finish()
	run.Rule("per round one BruteForceProtector (window 1 h, ban 1 h) and 8 victim addresses with seeded placement of their failures relative to a crowd of N other addresses (N seeded in 10 100..14 100, quick; up to 60 000 thorough) that each fail 1-2 times: victims fail threshold-1 times before the crowd / one failure before, the rest at a seeded point of the crowd that more than 10 000 further addresses follow; then the threshold failure arrives. Variants: temporary threshold 3, and lifetime threshold 4 with the window threshold out of reach. Oracle: after its threshold failure has returned the victim must be banned (and was not banned before it); crowd addresses below the threshold must not be banned; distinct = (variant, N bucket, placement)")
	rounds := run.Pick(4, 24)
	r := run.Rand("crowd")
	for round := 0; round < rounds && run.Violations() < 20; round++ {
		ctx, cancel := context.WithCancel(context.Background())
		variant := "window-threshold"
		cfg := &BruteForceConfig{MaxFailures: 3, TimeWindow: time.Hour, BanDuration: time.Hour, PermanentBanAt: 1 << 30, CleanupInterval: time.Hour}
		need := 3
		if round%2 == 1 {
			variant = "lifetime-threshold"
			cfg = &BruteForceConfig{MaxFailures: 1 << 20, TimeWindow: time.Hour, BanDuration: time.Hour, PermanentBanAt: 4, CleanupInterval: time.Hour}
			need = 4
		}
		p := NewBruteForceProtector(cfg, ctx)
		N := 10100 + r.Intn(run.Pick(4000, 50000))
		const V = 8
		victims := make([]string, V)
		placement := make([]int, V) // failures recorded before the crowd; the rest (up to need-1) in the middle of it
		done := make([]int, V)
		for v := range victims {
			victims[v] = fmt.Sprintf("192.0.2.%d", v+1)
			placement[v] = r.Intn(need) // 0..need-1 before the crowd
			if v == 0 {
				placement[v] = need - 1
			}
		}
		run.Case("crowd", map[string]any{"round": round, "variant": variant, "N": N})
		failV := func(v int) {
			p.RecordFailure(victims[v])
			done[v]++
		}
		for v := range victims {
			for k := 0; k < placement[v]; k++ {
				failV(v)
			}
		}
		// the "middle" failures are followed by more than 10 000 further addresses
		mid := r.Intn(N - 10050)
		for i := 0; i < N; i++ {
			ip := fmt.Sprintf("10.%d.%d.%d", 1+i/65536, (i/256)%256, i%256)
			p.RecordFailure(ip)
			if r.Intn(10) == 0 {
				p.RecordFailure(ip)
			}
			if i == mid {
				for v := range victims {
					for done[v] < need-1 {
						failV(v)
					}
				}
			}
		}
		run.Count("crowd_addresses", int64(N))
		run.Eval(N)
		// before the threshold failure: victims hold need-1 failures and must not be banned
		for v := range victims {
			if b, _ := p.IsBanned(victims[v]); b {
				run.Violation("C18:refused-below-threshold|crowded-table", map[string]any{"victim": victims[v], "failures": done[v], "threshold": need, "variant": variant})
			}
			run.Count("obs_must_not_be_banned", 1)
		}
		run.Observe(fmt.Sprintf("victim_failure_counts_before_threshold|round%d", round), func() []int {
			out := make([]int, V)
			for v := range victims {
				out[v] = p.GetFailureCount(victims[v])
			}
			return out
		}())
		for v := range victims {
			failV(v) // the threshold failure
			b, _ := p.IsBanned(victims[v])
			run.Count("obs_must_be_banned_after_crowd", 1)
			run.Count("obs_must_be_banned_after_crowd|"+variant, 1)
			run.Distinct(fmt.Sprintf("%s|N=%dk|before=%d", variant, N/1000, placement[v]))
			if !b {
				run.Violation("C18:failure-history-lost-to-other-addresses|"+variant, map[string]any{
					"victim": victims[v], "failures_recorded_for_victim": done[v], "threshold": need, "variant": variant,
					"failures_before_crowd": placement[v], "other_failing_addresses_in_between": N, "window": "1h",
					"failure_count_reported_after_threshold_failure": p.GetFailureCount(victims[v]),
					"expected": "banned after its threshold failure", "got": "not banned"})
			}
		}
		// a sample of crowd addresses (1-2 failures each) must not be banned
		for i := 0; i < 50; i++ {
			k := r.Intn(N)
			ip := fmt.Sprintf("10.%d.%d.%d", 1+k/65536, (k/256)%256, k%256)
			run.Count("obs_must_not_be_banned", 1)
			if b, _ := p.IsBanned(ip); b {
				run.Violation("C18:refused-below-threshold|crowded-table", map[string]any{"address": ip, "failures": "1-2", "threshold": need, "variant": variant})
			}
		}
		cancel()
	}
	run.Floor("crowd_addresses", int64(rounds*10001))
	run.Floor("obs_must_be_banned_after_crowd|window-threshold", int64(rounds/2*8))
	run.Floor("obs_must_be_banned_after_crowd|lifetime-threshold", int64(rounds/2*8))
	run.Floor("obs_must_not_be_banned", int64(rounds*50))
}
