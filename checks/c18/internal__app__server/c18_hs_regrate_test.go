//go:build verif && verif_c18

package server

import (
	"fmt"
	"math/rand"
	"runtime"
	"sort"
	"strings"
	"sync"
	"testing"
	"time"

	"tunnox-core/internal/packet"
	"tunnox-core/internal/security"
	vk "tunnox-core/internal/verifkit"
)

// C18 — "anonymous registrations from one address never exceed the configured rate and
// burst", whatever spelling of the registration request is used. ServerAuthHandler
// treats ClientID 0 with Token "new-client" or any Token with the "anonymous:" prefix as
// a first-connection request (auth_handler.go isFirstConnection); every granted
// registration (Success with a new ClientID) counts, per address, over the whole mix.
// Oracle (interval rule, exact integers): granted registrations whose brackets lie in
// [call_i, ret_j] number at most burst + rate*(ret_j - call_i).

type c18rReg struct {
	C, R int64
	Tok  string
	Conn string
}

func c18rCheck(acc []c18rReg, rate, burst int) (bad bool, wit map[string]any) {
	byC := append([]c18rReg(nil), acc...)
	sort.Slice(byC, func(a, b int) bool { return byC[a].C < byC[b].C })
	byR := append([]c18rReg(nil), acc...)
	sort.Slice(byR, func(a, b int) bool { return byR[a].R < byR[b].R })
	for _, first := range byC {
		cnt := int64(0)
		var toks []string
		for _, o := range byR {
			if o.C < first.C {
				continue
			}
			cnt++
			if len(toks) < 24 {
				toks = append(toks, o.Tok)
			}
			span := o.R - first.C
			if cnt*1e9 > int64(burst)*1e9+int64(rate)*span {
				return true, map[string]any{"granted_in_span": cnt, "span_ns": span, "bound": float64(burst) + float64(rate)*float64(span)/1e9, "tokens_of_granted": toks}
			}
		}
	}
	return false, nil
}

func TestVerifC18HandshakeRegistrationRate(t *testing.T) {
	run := vk.Start(t, "C18", "handshake-registration-rate")
	defer run.Finish()
	run.Rule("per address 20-60 registration requests (ClientID 0) from fresh connections, each with a seeded spelling {new-client, anonymous:, anonymous:<device>, anonymous:new-client} and connection type {control, tunnel}; address classes: one spelling only (each spelling in turn), mixes within one burst, and mixes issued by 4 goroutines concurrently; seeded gaps {0, yield, 1-3 ms, 20-40 ms, > burst/rate}; rate/burst 50/5, 20/2, 200/1; oracle: granted registrations inside any [call_i, ret_j] <= burst + rate*(ret_j-call_i), exact; distinct = (rate/burst, address class, spelling 3-grams)")
	spell := []string{"new-client", "anonymous:", "anonymous:device-%d", "anonymous:new-client"}
	type rc struct{ rate, burst int }
	cfgs := []rc{{50, 5}, {20, 2}, {200, 1}}
	addrs := run.Pick(14, 120) // per configuration
	sr := run.Rand("regrate")
	for ci, cfg := range cfgs {
		n := newMiniNode(t, miniOpts{
			NodeID:     fmt.Sprintf("node-rr%d", ci),
			BruteForce: &security.BruteForceConfig{MaxFailures: 1 << 20, TimeWindow: time.Hour, BanDuration: time.Hour, PermanentBanAt: 1 << 30, CleanupInterval: time.Hour},
			RateLimit:  &security.RateLimitConfig{Rate: cfg.rate, Burst: cfg.burst, TTL: time.Hour},
			NoCommands: true,
		})
		origin := time.Now()
		full := time.Duration(cfg.burst)*time.Second/time.Duration(cfg.rate) + 10*time.Millisecond
		var wg sync.WaitGroup
		sem := make(chan struct{}, 6) // at most 6 addresses at a time
		for a := 0; a < addrs && run.Violations() < 20; a++ {
			seed := sr.Int63()
			class := a % (len(spell) + 2) // 0..3 single spelling, 4 mix, 5 concurrent mix
			wg.Add(1)
			sem <- struct{}{}
			go func(a, class int, seed int64) {
				defer wg.Done()
				defer func() { <-sem }()
				ip := fmt.Sprintf("10.90.%d.%d", ci, a+1)
				var mu sync.Mutex
				var granted []c18rReg
				var refused, other int
				drive := func(g int, seed int64, nreq int) {
					r := rand.New(rand.NewSource(seed))
					var grams []string
					slept := time.Duration(0)
					for k := 0; k < nreq; k++ {
						switch x := r.Intn(100); {
						case x < 55 || slept > 1500*time.Millisecond:
						case x < 65:
							runtime.Gosched()
						case x < 85:
							d := time.Duration(1+r.Intn(3)) * time.Millisecond
							time.Sleep(d)
							slept += d
						case x < 95:
							d := time.Duration(20+r.Intn(20)) * time.Millisecond
							time.Sleep(d)
							slept += d
						default:
							time.Sleep(full)
							slept += full
						}
						si := class
						if class >= len(spell) {
							si = r.Intn(len(spell))
						}
						tok := spell[si]
						if strings.Contains(tok, "%d") {
							tok = fmt.Sprintf(tok, r.Intn(100000))
						}
						ctype := "control"
						if r.Intn(4) == 0 {
							ctype = "tunnel"
						}
						c, err := n.Connect(fmt.Sprintf("%s:%d", ip, 10000+g*1000+k))
						if err != nil {
							run.Count("connect_refused", 1)
							continue
						}
						c0 := time.Since(origin).Nanoseconds()
						resp, herr := c.handshake(&packet.HandshakeRequest{ClientID: 0, Token: tok, Version: "3.0", Protocol: "tcp", ConnectionType: ctype})
						r0 := time.Since(origin).Nanoseconds()
						cl := c18hClass(resp, herr)
						mu.Lock()
						switch {
						case resp != nil && resp.Success && resp.ClientID != 0:
							granted = append(granted, c18rReg{c0, r0, tok, c.ConnID})
							run.Count("granted|"+spell[si], 1)
						case cl == "ratelimited":
							refused++
							run.Count("rate_limited|"+spell[si], 1)
						default:
							other++
							run.Observe("other_reply_example", cl)
						}
						mu.Unlock()
						grams = append(grams, fmt.Sprint(si))
						if len(grams) >= 3 {
							run.Distinct(fmt.Sprintf("%d/%d|class%d|%s", cfg.rate, cfg.burst, class, strings.Join(grams[len(grams)-3:], ">")))
						}
						c.CloseByPeer()
						run.Eval(1)
					}
				}
				nreq := 20 + int(seed%41+41)%41
				if class == len(spell)+1 {
					var dw sync.WaitGroup
					for g := 0; g < 4; g++ {
						dw.Add(1)
						go func(g int) { defer dw.Done(); drive(g, seed+int64(g)*7919, nreq/2) }(g)
					}
					dw.Wait()
				} else {
					drive(0, seed, nreq)
				}
				run.Count("addresses", 1)
				run.Count("registrations_granted", int64(len(granted)))
				run.Count("registrations_rate_limited", int64(refused))
				run.Count("replies_other", int64(other))
				if bad, wit := c18rCheck(granted, cfg.rate, cfg.burst); bad {
					cls := "single-spelling"
					if class == len(spell) {
						cls = "mixed-spellings"
					} else if class > len(spell) {
						cls = "mixed-spellings-concurrent"
					}
					onlyAnon := true
					for _, g := range granted {
						if g.Tok == "new-client" {
							onlyAnon = false
						}
					}
					sig := "C18:registration-rate-exceeded|handshake|" + cls
					if cls == "single-spelling" {
						if onlyAnon {
							sig += "|token=anonymous:*"
						} else {
							sig += "|token=new-client"
						}
					}
					wit["ip"], wit["rate"], wit["burst"], wit["granted_total"], wit["rate_limited_total"] = ip, cfg.rate, cfg.burst, len(granted), refused
					run.Violation(sig, wit)
				}
			}(a, class, seed)
		}
		wg.Wait()
		n.Close()
	}
	for _, s := range spell {
		run.Floor("granted|"+s, 20)
		run.Floor("rate_limited|"+s, 20)
	}
	run.Floor("addresses", int64(len(cfgs)*addrs*9/10))
}
