//go:build verif && verif_c18

package server

import (
	"fmt"
	"math/rand"
	"strings"
	"sync"
	"testing"
	"time"

	"tunnox-core/internal/packet"
	"tunnox-core/internal/security"
	vk "tunnox-core/internal/verifkit"
)

// C18 at the handshake boundary: the real ServerAuthHandler gates (blacklist -> ban ->
// anonymous-registration rate) in front of the real challenge-response, driven with
// fake remote addresses on the mini-server. Every handshake message is a gate query
// bracketed by [call, return]; a refusal/admission is judged only when the message
// certainly lies inside / outside the ban period (interval rule, zero tolerance).

const c18hMargin = 30 * time.Millisecond // placement only, never part of a verdict

type c18hIv struct{ C, R time.Duration }

type c18hFail struct {
	Iv    c18hIv
	Ev    int
	Count int // failures since the last success (window = 1 h: all of them are inside)
}

type c18hModel struct {
	max, perm int
	ban       time.Duration
	fails     []c18hFail
	count     int
}

func (m *c18hModel) fail(iv c18hIv, ev int) {
	m.count++
	m.fails = append(m.fails, c18hFail{iv, ev, m.count})
}
func (m *c18hModel) success() { m.count = 0 }

func (m *c18hModel) judge(q c18hIv) (must, mustNot bool, kind string, k int) {
	mustNot, k = true, -1
	for i, f := range m.fails {
		if f.Count >= m.perm {
			return true, false, "perm", i
		}
		if f.Count >= m.max {
			if !(q.C > f.Iv.R+m.ban) {
				mustNot = false
			}
			if q.R < f.Iv.C+m.ban {
				must, kind, k = true, "temp", i
			}
		}
	}
	return
}

type c18hEvent struct {
	I    int    `json:"i"`
	Msg  string `json:"msg"`
	Cus  int64  `json:"call_us"`
	Rus  int64  `json:"ret_us"`
	Repl string `json:"reply"`
}

func c18hClass(r *packet.HandshakeResponse, err error) string {
	s := ""
	if r != nil {
		if r.Success {
			return "success"
		}
		if r.Challenge != "" {
			return "challenge"
		}
		s = r.Error
	}
	if s == "" && err != nil {
		s = err.Error()
	}
	l := strings.ToLower(s)
	switch {
	case strings.Contains(l, "blacklisted") || l == "access denied":
		return "blacklisted"
	case strings.Contains(l, "ip banned") || strings.Contains(l, "too many failed"):
		return "banned"
	case strings.Contains(l, "rate limit"):
		return "ratelimited"
	case strings.Contains(l, "not found"):
		return "fail:not-found"
	case strings.Contains(l, "verification failed") || strings.Contains(l, "invalid credentials"):
		return "fail:bad-response"
	case strings.Contains(l, "no pending challenge"):
		return "fail:no-challenge"
	}
	return "other:" + s
}

// c18hRegToken picks one of the spellings ServerAuthHandler accepts as a first-connection
// (registration) request: ClientID 0 with Token "new-client" or any "anonymous:" prefix.
func c18hRegToken(r *rand.Rand) string {
	switch r.Intn(5) {
	case 0, 1:
		return "new-client"
	case 2:
		return "anonymous:"
	case 3:
		return fmt.Sprintf("anonymous:device-%d", r.Intn(1000))
	}
	return "anonymous:new-client"
}

type c18hReg struct {
	C, R int64
	OK   bool
}

func TestVerifC18Handshake(t *testing.T) {
	run := vk.Start(t, "C18", "handshake")
	defer run.Finish()
	run.Rule("seeded per-address sequences of 12-22 real handshake messages on the mini-server (unknown client, wrong challenge response, response without challenge, valid login, challenge request only, anonymous registration singly and in bursts of 8; optional blacklisting of the address or its /24, permanent or 1 h, followed by handshakes from the address to a second node started on the same storage) — each from a fresh connection of the same fake address, placed now / a few ms later / past the pending ban expiry (>= 30 ms from it); thresholds 3/5, window 1 h, ban 150 ms, registration rate 50/s burst 5; reply class (banned / blacklisted / rate-limited / passed the gates) judged against the ban model by the interval rule; accepted registrations checked against burst + rate*span; distinct = message-kind@position sequence")
	const (
		maxF, permF = 3, 5
		rate, burst = 50, 5
	)
	ban := 150 * time.Millisecond
	rounds := run.Pick(4, 60)
	const par = 8
	seedR := run.Rand("hs")
	var totC, totS int64
	var cmu sync.Mutex
	for round := 0; round < rounds && run.Violations() < 20; round++ {
		n := newMiniNode(t, miniOpts{
			BruteForce: &security.BruteForceConfig{MaxFailures: maxF, TimeWindow: time.Hour, BanDuration: ban, PermanentBanAt: permF, CleanupInterval: time.Hour},
			RateLimit:  &security.RateLimitConfig{Rate: rate, Burst: burst, TTL: time.Hour},
			NoCommands: true,
		})
		run.Case("handshake-round", round)
		var wg sync.WaitGroup
		for ti := 0; ti < par; ti++ {
			seed := seedR.Int63()
			// one provisioned client per time-line, registered from another address
			pc := n.NewClient(fmt.Sprintf("10.250.%d.%d:1000", round%250, ti+1))
			goodID, goodSecret := pc.ClientID, pc.Secret
			pc.CloseByPeer()
			wg.Add(1)
			go func(ti int, seed int64) {
				defer wg.Done()
				r := rand.New(rand.NewSource(seed))
				ip := fmt.Sprintf("10.77.%d.7", ti+1) // one /24 per time-line
				port := 2000
				origin := time.Now()
				now := func() time.Duration { return time.Since(origin) }
				m := &c18hModel{max: maxF, perm: permF, ban: ban}
				var log []c18hEvent
				var kinds []string
				var regs []c18hReg
				blacklisted := false
				var blIv c18hIv
				lastExpiryObs := -1
				hadBan := false
				tainted := false
				certain, skipped := 0, 0

				// send performs one handshake message from a fresh or given connection and judges the gate
				send := func(ev int, name string, c *miniClient, f func(c *miniClient) (*packet.HandshakeResponse, error)) string {
					c0 := now()
					resp, err := f(c)
					r0 := now()
					cl := c18hClass(resp, err)
					q := c18hIv{c0, r0}
					log = append(log, c18hEvent{ev, name, c0.Microseconds(), r0.Microseconds(), cl})
					if strings.HasPrefix(cl, "other:") {
						// a reply the model has no rule for (it may or may not have recorded a failure):
						// nothing after it on this address is judged
						run.Count("replies_unclassified", 1)
						run.Observe("unclassified_reply_example", cl)
						tainted = true
					}
					if tainted {
						skipped++
						return cl
					}
					if blacklisted && c0 > blIv.R {
						// blacklisted for 1 h: every message must be refused at the first gate
						run.Count("obs_blacklisted_messages", 1)
						if cl != "blacklisted" {
							run.Violation("C18:blacklisted-address-passed-handshake-gate|msg="+name, map[string]any{"ip": ip, "reply": cl, "events": log})
						}
						return cl
					}
					must, mustNot, kind, k := m.judge(q)
					switch {
					case must:
						certain++
						run.Count("obs_must_be_refused", 1)
						if kind == "perm" {
							run.Count("obs_permanent_ban", 1)
						}
						if k >= 0 && lastExpiryObs >= 0 && m.fails[k].Ev >= lastExpiryObs {
							run.Count("obs_reban_after_expiry", 1)
						}
						if cl != "banned" {
							sig := "C18:handshake-admitted-inside-ban-period|ban=" + kind
							if lastExpiryObs >= 0 && k >= 0 && m.fails[k].Ev >= lastExpiryObs {
								sig = "C18:ban-lost-after-expiry-check"
							}
							run.Violation(sig, map[string]any{"ip": ip, "msg": name, "reply": cl, "expected": "refused (IP banned)", "ban_kind": kind,
								"established_by_event": m.fails[k].Ev, "thresholds": []int{maxF, permF}, "ban_ms": ban.Milliseconds(), "events": log, "level": "handshake"})
						}
					case mustNot:
						certain++
						run.Count("obs_must_pass_ban_gate", 1)
						if hadBan {
							run.Count("obs_ban_expiry_seen", 1)
						}
						if cl == "banned" {
							run.Violation("C18:handshake-refused-below-threshold", map[string]any{"ip": ip, "msg": name, "reply": cl, "failures_since_success": m.count, "events": log})
						}
					default:
						skipped++
					}
					if cl != "banned" && hadBan && !must {
						lastExpiryObs = ev
					}
					// effects
					switch {
					case strings.HasPrefix(cl, "fail:"):
						m.fail(q, ev)
						run.Count("failures_recorded|"+cl[5:], 1)
						if m.count >= maxF {
							hadBan = true
						}
					case cl == "success":
						m.success()
						run.Count("successes_recorded", 1)
					}
					return cl
				}
				fresh := func() *miniClient {
					port++
					c, err := n.Connect(fmt.Sprintf("%s:%d", ip, port))
					if err != nil {
						return nil
					}
					return c
				}

				nEv := 12 + r.Intn(11)
				slept := time.Duration(0)
				for ev := 0; ev < nEv; ev++ {
					// placement relative to the pending ban expiries
					tnow := now()
					target := tnow
					pos := "now"
					var lastB time.Duration = -1
					for _, f := range m.fails {
						if f.Count >= maxF && f.Count < permF && f.Iv.R+ban > tnow && f.Iv.R+ban > lastB {
							lastB = f.Iv.R + ban
						}
					}
					x := r.Intn(100)
					if slept > 2*time.Second {
						x = 0
					}
					switch {
					case x < 50:
					case x < 65:
						pos = "short"
						target = tnow + time.Duration(2+r.Intn(20))*time.Millisecond
					case lastB >= 0:
						pos = "past-expiry"
						target = lastB + c18hMargin + time.Duration(r.Intn(10))*time.Millisecond
					}
					for it := 0; it < 10; it++ {
						moved := false
						for _, f := range m.fails {
							if f.Count >= maxF && f.Count < permF && target >= f.Iv.C+ban-c18hMargin && target <= f.Iv.R+ban+c18hMargin {
								target = f.Iv.R + ban + c18hMargin + time.Millisecond
								moved = true
							}
						}
						if !moved {
							break
						}
					}
					if d := target - now(); d > 0 {
						time.Sleep(d)
						slept += d
					}
					k := r.Intn(100)
					var kind string
					switch {
					case k < 30:
						kind = "unknown"
					case k < 45:
						kind = "badp2"
					case k < 55:
						kind = "nochal"
					case k < 70:
						kind = "probe"
					case k < 78:
						kind = "login"
					case k < 86:
						kind = "register"
					case k < 92:
						kind = "regburst"
					case k < 96 && !blacklisted && ev > 4:
						kind = "blacklist"
					default:
						kind = "probe"
					}
					kinds = append(kinds, kind+"@"+pos)
					if kind == "blacklist" {
						key, dur := ip, time.Hour
						if r.Intn(2) == 0 {
							key = fmt.Sprintf("10.77.%d.0/24", ti+1)
						}
						if r.Intn(2) == 0 {
							dur = 0
						}
						c0 := now()
						_ = n.IPM.AddToBlacklist(key, dur, "verif", "verif")
						blIv = c18hIv{c0, now()}
						blacklisted = true
						log = append(log, c18hEvent{ev, fmt.Sprintf("AddToBlacklist(%s,%v)", key, dur), c0.Microseconds(), blIv.R.Microseconds(), ""})
						// a second node sharing the storage (or this node after a restart) loads the
						// list when it starts: the address must be refused there as well
						nb := newMiniNode(t, miniOpts{NodeID: fmt.Sprintf("node-b%d", ti), Store: n.Store, NoCommands: true,
							BruteForce: &security.BruteForceConfig{MaxFailures: maxF, TimeWindow: time.Hour, BanDuration: ban, PermanentBanAt: permF, CleanupInterval: time.Hour},
							RateLimit:  &security.RateLimitConfig{Rate: rate, Burst: burst, TTL: time.Hour}})
						for _, msg := range []string{"probe", "register"} {
							cb, err := nb.Connect(fmt.Sprintf("%s:%d", ip, 60000+ev))
							if err != nil {
								run.Count("connect_refused", 1)
								continue
							}
							b0 := now()
							var resp *packet.HandshakeResponse
							var herr error
							if msg == "probe" {
								resp, herr = cb.Phase1(goodID, "control")
							} else {
								resp, herr = cb.FirstConnect()
							}
							cl := c18hClass(resp, herr)
							log = append(log, c18hEvent{ev, "second-node/" + msg, b0.Microseconds(), now().Microseconds(), cl})
							run.Count("obs_blacklisted_messages_on_second_node", 1)
							if key != ip {
								run.Count("obs_blacklisted_messages_on_second_node_network_entry", 1)
							}
							if cl != "blacklisted" {
								sig := "C18:blacklisted-address-passed-handshake-gate-after-reload|entry=exact"
								if key != ip {
									sig = "C18:blacklisted-address-passed-handshake-gate-after-reload|entry=network"
								}
								run.Violation(sig, map[string]any{"ip": ip, "entry": key, "duration": dur.String(), "msg": msg, "reply": cl, "events": log})
							}
							cb.CloseByPeer()
						}
						nb.Close()
						continue
					}
					reps := 1
					if kind == "regburst" {
						reps = 8
					}
					for rep := 0; rep < reps; rep++ {
						c := fresh()
						if c == nil {
							run.Count("connect_refused", 1)
							continue
						}
						switch kind {
						case "unknown":
							send(ev, kind, c, func(c *miniClient) (*packet.HandshakeResponse, error) { return c.Phase1(987654321, "control") })
						case "probe":
							send(ev, kind, c, func(c *miniClient) (*packet.HandshakeResponse, error) { return c.Phase1(goodID, "control") })
						case "nochal":
							send(ev, kind, c, func(c *miniClient) (*packet.HandshakeResponse, error) {
								return c.Phase2(goodID, "00ff", "control")
							})
						case "badp2", "login":
							var chal string
							cl := send(ev, kind+"/phase1", c, func(c *miniClient) (*packet.HandshakeResponse, error) {
								r1, err := c.Phase1(goodID, "control")
								if r1 != nil {
									chal = r1.Challenge
								}
								return r1, err
							})
							if cl == "challenge" && !c.ServerClosedTransport() {
								resp := HMACResp(goodSecret, chal)
								if kind == "badp2" {
									resp = HMACResp("not-the-secret", chal)
								}
								send(ev, kind+"/phase2", c, func(c *miniClient) (*packet.HandshakeResponse, error) {
									return c.Phase2(goodID, resp, "control")
								})
							}
						case "register", "regburst":
							c0 := now()
							tok := c18hRegToken(r)
							cl := send(ev, "register", c, func(c *miniClient) (*packet.HandshakeResponse, error) {
								return c.handshake(&packet.HandshakeRequest{ClientID: 0, Token: tok, Version: "3.0", Protocol: "tcp", ConnectionType: "control"})
							})
							r0 := now()
							if cl == "success" || cl == "ratelimited" {
								regs = append(regs, c18hReg{c0.Nanoseconds(), r0.Nanoseconds(), cl == "success"})
							}
						}
						c.CloseByPeer()
					}
				}
				// registrations: accepted i..j  =>  (j-i+1) <= burst + rate*(ret_j - call_i)  (sequential per address)
				var acc []c18hReg
				for _, g := range regs {
					if g.OK {
						acc = append(acc, g)
					} else {
						run.Count("registrations_rate_limited", 1)
					}
				}
				run.Count("registrations_accepted", int64(len(acc)))
				for i := range acc {
					for j := i; j < len(acc); j++ {
						cnt := int64(j - i + 1)
						if cnt*1e9 > int64(burst)*1e9+int64(rate)*(acc[j].R-acc[i].C) {
							run.Violation("C18:registration-rate-exceeded|handshake", map[string]any{"ip": ip, "accepted": cnt, "span_ns": acc[j].R - acc[i].C, "rate": rate, "burst": burst, "events": log})
							i = len(acc)
							break
						}
					}
				}
				run.Eval(1)
				run.Distinct(strings.Join(kinds, ","))
				if round == 0 && ti < 2 {
					run.Sample(map[string]any{"ip": ip, "events": log})
				}
				cmu.Lock()
				totC += int64(certain)
				totS += int64(skipped)
				cmu.Unlock()
			}(ti, seed)
		}
		wg.Wait()
		n.Close()
	}
	run.Count("gate_observations_certain", totC)
	run.Count("gate_observations_skipped_uncertain", totS)
	if totC+totS > 0 {
		run.Count("gate_observations_certain_pct", 100*totC/(totC+totS))
	}
	run.Floor("gate_observations_certain_pct", 90)
	run.Floor("obs_must_be_refused", 30)
	run.Floor("obs_must_pass_ban_gate", 50)
	run.Floor("obs_ban_expiry_seen", 10)
	run.Floor("obs_reban_after_expiry", 3)
	run.Floor("obs_permanent_ban", 1)
	run.Floor("obs_blacklisted_messages", 5)
	run.Floor("obs_blacklisted_messages_on_second_node", 4)
	run.Floor("obs_blacklisted_messages_on_second_node_network_entry", 2)
	run.Floor("registrations_accepted", 20)
	run.Floor("registrations_rate_limited", 5)
	run.Floor("successes_recorded", 5)
}
