//go:build verif && verif_c18

package server

import (
	"fmt"
	"net"
	"strings"
	"testing"
	"time"

	"tunnox-core/internal/packet"
	"tunnox-core/internal/security"
	"tunnox-core/internal/stream"
	vk "tunnox-core/internal/verifkit"
)

// C18 — one address, many representations. The transport hands the handler a net.Addr:
// *net.TCPAddr / *net.UDPAddr whose IP is the 4-byte or the 16-byte form of the same IPv4
// address (dual-stack listeners, net.ParseIP), with any port, an IPv6 address with or
// without zone, or a string-typed address of a wrapped transport. They all denote the
// same peer address: a blacklist entry / ban for it must refuse every one of them and
// failures from all of them accumulate to one threshold. Verdicts are logical (1 h bans).

type c18aForm struct {
	name string
	mk   func(ip string, port int) net.Addr
}

func c18aForms4() []c18aForm {
	return []c18aForm{
		{"tcp/4-byte", func(ip string, p int) net.Addr { return &net.TCPAddr{IP: net.ParseIP(ip).To4(), Port: p} }},
		{"tcp/16-byte", func(ip string, p int) net.Addr { return &net.TCPAddr{IP: net.ParseIP(ip).To16(), Port: p} }},
		{"udp/4-byte", func(ip string, p int) net.Addr { return &net.UDPAddr{IP: net.ParseIP(ip).To4(), Port: p} }},
		{"udp/16-byte", func(ip string, p int) net.Addr { return &net.UDPAddr{IP: net.ParseIP(ip).To16(), Port: p} }},
		{"text/dotted", func(ip string, p int) net.Addr { return vk.FakeAddr{Net: "tcp", Str: fmt.Sprintf("%s:%d", ip, p)} }},
		{"text/ipv4-mapped", func(ip string, p int) net.Addr {
			return vk.FakeAddr{Net: "tcp", Str: fmt.Sprintf("[::ffff:%s]:%d", ip, p)}
		}},
	}
}

func c18aForms6() []c18aForm {
	return []c18aForm{
		{"tcp6", func(ip string, p int) net.Addr { return &net.TCPAddr{IP: net.ParseIP(ip), Port: p} }},
		{"tcp6/zone", func(ip string, p int) net.Addr { return &net.TCPAddr{IP: net.ParseIP(ip), Port: p, Zone: "eth0"} }},
		{"udp6", func(ip string, p int) net.Addr { return &net.UDPAddr{IP: net.ParseIP(ip), Port: p} }},
		{"text/ipv6", func(ip string, p int) net.Addr { return vk.FakeAddr{Net: "tcp", Str: fmt.Sprintf("[%s]:%d", ip, p)} }},
	}
}

func c18aConnect(n *miniNode, addr net.Addr) (*miniClient, error) {
	sc, hc := vk.BufPipe("unused:1", "127.0.0.1:7000")
	sc.Remote = addr
	stc, err := n.SM.AcceptConnection(sc, sc)
	if err != nil {
		sc.Close()
		hc.Close()
		return nil, err
	}
	c := &miniClient{n: n, hc: hc, sc: sc, ConnID: stc.ID}
	c.sp = stream.NewStreamProcessor(hc, hc, n.ctx)
	n.mu.Lock()
	n.clients = append(n.clients, c)
	n.mu.Unlock()
	return c, nil
}

func TestVerifC18HandshakeAddressForms(t *testing.T) {
	run := vk.Start(t, "C18", "handshake-address-forms")
	defer run.Finish()
	run.Rule("per trial one fresh IPv4 (or IPv6) address and a seeded lock-out cause {blacklist exact entry, blacklist /24 (/64) entry, operator BanIP of the canonical text, 3 failures each sent under a different representation}; then one handshake (challenge request of a valid client, unknown client, or anonymous registration) under EVERY representation {TCPAddr 4-byte, TCPAddr 16-byte, UDPAddr 4-byte, UDPAddr 16-byte, text a.b.c.d:port, text [::ffff:a.b.c.d]:port | TCPAddr v6, TCPAddr v6+zone, UDPAddr v6, text [v6]:port}, ports all different; before the lock-out one handshake under every representation must pass the gates; judged: every representation is refused after the lock-out; distinct = (cause, family, order of representations)")
	const maxF = 3
	n := newMiniNode(t, miniOpts{
		BruteForce: &security.BruteForceConfig{MaxFailures: maxF, TimeWindow: time.Hour, BanDuration: time.Hour, PermanentBanAt: 1 << 30, CleanupInterval: time.Hour},
		RateLimit:  &security.RateLimitConfig{Rate: 100000, Burst: 100000, TTL: time.Hour},
		NoCommands: true,
	})
	defer n.Close()
	pc := n.NewClient("10.252.0.1:1000")
	goodID := pc.ClientID
	pc.CloseByPeer()
	r := run.Rand("forms")
	trials := run.Pick(80, 1200)
	causes := []string{"blacklist-exact", "blacklist-network", "operator-ban", "failures-across-representations"}
	port := 20000
	for trial := 0; trial < trials && run.Violations() < 20; trial++ {
		cause := causes[trial%len(causes)]
		v6 := trial%5 == 4
		var ip, network string
		forms := c18aForms4()
		fam := "ipv4"
		if v6 {
			ip = fmt.Sprintf("2001:db8:%x::%x", 1+trial, 1+r.Intn(60000))
			network = fmt.Sprintf("2001:db8:%x::/64", 1+trial)
			forms = c18aForms6()
			fam = "ipv6"
		} else {
			ip = fmt.Sprintf("10.%d.%d.%d", 100+trial/250, trial%250, 1+r.Intn(250))
			network = ip[:strings.LastIndex(ip, ".")] + ".0/24"
		}
		r.Shuffle(len(forms), func(i, j int) { forms[i], forms[j] = forms[j], forms[i] })
		var log []string
		run.Case("address-forms", map[string]any{"trial": trial, "cause": cause, "ip": ip})
		send := func(f c18aForm, msg string) string {
			port++
			c, err := c18aConnect(n, f.mk(ip, port))
			if err != nil {
				run.Count("connect_refused", 1)
				return "connect-error"
			}
			defer c.CloseByPeer()
			var resp *packet.HandshakeResponse
			var herr error
			switch msg {
			case "probe":
				resp, herr = c.Phase1(goodID, "control")
			case "unknown":
				resp, herr = c.Phase1(987654321, "control")
			default:
				resp, herr = c.handshake(&packet.HandshakeRequest{ClientID: 0, Token: "anonymous:x", Version: "3.0", Protocol: "tcp", ConnectionType: "control"})
			}
			cl := c18hClass(resp, herr)
			log = append(log, fmt.Sprintf("%s from %s (%T %s) -> %s", msg, f.name, f.mk(ip, port), f.mk(ip, port).String(), cl))
			return cl
		}
		// before: every representation passes the gates (non-vacuity; a registration resets nothing relevant)
		for _, f := range forms {
			if cl := send(f, "probe"); cl == "challenge" {
				run.Count("obs_passed_before_lockout", 1)
			} else {
				run.Count("unexpected_reply_before_lockout", 1)
				run.Observe("unexpected_reply_before_lockout_example", cl+" / "+f.name)
			}
		}
		failuresSent := 0
		switch cause {
		case "blacklist-exact":
			_ = n.IPM.AddToBlacklist(ip, time.Duration(trial%2)*time.Hour, "verif", "verif")
			log = append(log, "AddToBlacklist "+ip)
		case "blacklist-network":
			_ = n.IPM.AddToBlacklist(network, time.Duration(trial%2)*time.Hour, "verif", "verif")
			log = append(log, "AddToBlacklist "+network)
		case "operator-ban":
			n.BFP.BanIP(ip, time.Hour, "operator")
			log = append(log, "BanIP "+ip)
		case "failures-across-representations":
			// three failed attempts, each under another representation of the same address
			// (the IPv4-mapped TEXT form is not used as a sender, so that a defect confined to
			// it cannot mask the other representations; it is still queried below)
			var senders []c18aForm
			for _, f := range forms {
				if f.name != "text/ipv4-mapped" {
					senders = append(senders, f)
				}
			}
			for i := 0; i < maxF; i++ {
				cl := send(senders[i%len(senders)], "unknown")
				if strings.HasPrefix(cl, "fail:") {
					failuresSent++
				}
			}
			if failuresSent < maxF {
				run.Count("harness_failures_not_recorded", 1)
				continue
			}
		}
		msgs := []string{"probe", "unknown", "register"}
		order := ""
		for _, f := range forms {
			msg := msgs[r.Intn(len(msgs))]
			cl := send(f, msg)
			run.Count("obs_must_be_refused", 1)
			run.Count("obs_must_be_refused|"+f.name, 1)
			order += f.name[:1] + f.name[strings.Index(f.name, "/")+1:][:1]
			if cl != "banned" && cl != "blacklisted" && f.name == "text/ipv4-mapped" {
				// Observation only: no transport of the repository can hand the server this
				// spelling (net.TCPAddr / net.UDPAddr print an IPv4-mapped address dotted, and
				// every RemoteAddr in the adapters is one of those or the HTTP server's
				// RemoteAddr string built from them), so a peer cannot choose it; the property
				// speaks about addresses peers connect from.
				run.Count("obs_text_ipv4_mapped_spelling_admitted_unreachable_form", 1)
				continue
			}
			if cl != "banned" && cl != "blacklisted" {
				run.Violation(fmt.Sprintf("C18:locked-out-address-admitted-under-other-representation|form=%s", f.name), map[string]any{
					"address": ip, "cause": cause, "representation": f.name, "msg": msg, "reply": cl, "expected": "refused (banned / blacklisted)", "events": log})
			}
		}
		run.Eval(1)
		run.Count("trials|"+cause, 1)
		run.Distinct(fmt.Sprintf("%s|%s|%s", cause, fam, order))
		if trial < 2 {
			run.Sample(log)
		}
	}
	run.Floor("obs_must_be_refused", int64(trials*3))
	run.Floor("obs_passed_before_lockout", int64(trials*3))
	for _, c := range causes {
		run.Floor("trials|"+c, int64(trials/len(causes)*8/10))
	}
}
