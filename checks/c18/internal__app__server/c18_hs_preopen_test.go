//go:build verif && verif_c18

package server

import (
	"fmt"
	"strings"
	"testing"
	"time"

	"tunnox-core/internal/packet"
	"tunnox-core/internal/security"
	vk "tunnox-core/internal/verifkit"
)

// C18 — "every further handshake from it is refused": pre-opened connections.
//
// An address opens K connections and collects a challenge on each (phase 1) while it is
// still in good standing. Then it becomes banned / blacklisted — by failed answers on
// some of those connections, by failures on other connections, by the operator's BanIP,
// or by a blacklist entry. The answers (phase 2) on the remaining pre-opened connections
// are further handshake messages from a locked-out address: each must be refused at the
// gate (reply class banned / blacklisted), must not be evaluated (no failure accounted,
// never authenticated) for as long as the message certainly lies inside the lock-out
// according to the monitor's own model; after a short ban has certainly elapsed the
// remaining answers must pass the ban gate again.

type c18pLock struct {
	iv  c18hIv        // bracket of the operation that established it
	dur time.Duration // 0 = no expiry
	why string
}

func TestVerifC18HandshakePreopened(t *testing.T) {
	run := vk.Start(t, "C18", "handshake-preopened")
	defer run.Finish()
	run.Rule("per trial one fresh address pre-opens K=4..9 connections and completes phase 1 on each; the lock-out is then established by one of {wrong answers on the first 3 pre-opened connections, 3 unknown-client attempts from new connections, operator BanIP, blacklist entry for the address, blacklist entry for its /24}; phase 2 (seeded mix of wrong answers and the correct answer, control and tunnel type) follows on every remaining pre-opened connection; ban duration 1 h or 150 ms (then the last connections answer after the ban has certainly elapsed). Oracle from the monitor's own ban model + interval rule: inside the lock-out the reply must be a gate refusal, the connection unauthenticated, the address's failure count unchanged; distinct = (cause, ban duration, K, answer pattern)")
	const maxF = 3
	trials := run.Pick(60, 800)
	r := run.Rand("preopen")
	n := newMiniNode(t, miniOpts{
		BruteForce: &security.BruteForceConfig{MaxFailures: maxF, TimeWindow: time.Hour, BanDuration: time.Hour, PermanentBanAt: 1 << 30, CleanupInterval: time.Hour},
		RateLimit:  &security.RateLimitConfig{Rate: 100000, Burst: 100000, TTL: time.Hour},
		NoCommands: true,
	})
	defer n.Close()
	nShort := newMiniNode(t, miniOpts{
		NodeID:     "node-short-ban",
		BruteForce: &security.BruteForceConfig{MaxFailures: maxF, TimeWindow: time.Hour, BanDuration: 150 * time.Millisecond, PermanentBanAt: 1 << 30, CleanupInterval: time.Hour},
		RateLimit:  &security.RateLimitConfig{Rate: 100000, Burst: 100000, TTL: time.Hour},
		NoCommands: true,
	})
	defer nShort.Close()
	causes := []string{"failures-on-preopened", "failures-on-other-connections", "operator-ban", "blacklist-address", "blacklist-network"}
	origin := time.Now()
	now := func() time.Duration { return time.Since(origin) }

	for trial := 0; trial < trials && run.Violations() < 20; trial++ {
		cause := causes[trial%len(causes)]
		short := r.Intn(3) == 0 && !strings.HasPrefix(cause, "blacklist")
		node, ban := n, time.Hour
		if short {
			node, ban = nShort, 150*time.Millisecond
		}
		pc := node.NewClient(fmt.Sprintf("10.251.%d.%d:1000", (trial>>8)&255, trial&255))
		goodID, goodSecret := pc.ClientID, pc.Secret
		pc.CloseByPeer()
		ip := fmt.Sprintf("10.78.%d.9", trial%250)
		if trial >= 250 {
			ip = fmt.Sprintf("10.%d.%d.9", 79+trial/250, trial%250)
		}
		K := 4 + r.Intn(6)
		run.Case("preopened", map[string]any{"trial": trial, "cause": cause, "K": K, "short_ban": short})

		var log []c18hEvent
		model := &c18hModel{max: maxF, perm: 1 << 30, ban: ban}
		var locks []c18pLock // operator bans / blacklist entries
		// lockedOut: must = certainly inside some lock-out; free = certainly outside all of them
		lockedOut := func(q c18hIv) (must, free bool, why string) {
			m1, m0, kind, _ := model.judge(q)
			must, free = m1, m0
			if m1 {
				why = "failures(" + kind + ")"
			}
			for _, l := range locks {
				if q.C >= l.iv.R && (l.dur == 0 || q.R < l.iv.C+l.dur) {
					must, why = true, l.why
				}
				if !(l.dur > 0 && q.C > l.iv.R+l.dur) {
					free = false
				}
			}
			return
		}
		type pre struct {
			c    *miniClient
			chal string
			typ  string
		}
		// message sends one handshake message, judges the gate and applies the model's effects
		message := func(name string, c *miniClient, expectEval bool, f func() (*packet.HandshakeResponse, error)) string {
			c0 := now()
			before := node.BFP.GetFailureCount(ip)
			resp, err := f()
			r0 := now()
			cl := c18hClass(resp, err)
			q := c18hIv{c0, r0}
			log = append(log, c18hEvent{len(log), name, c0.Microseconds(), r0.Microseconds(), cl})
			must, free, why := lockedOut(q)
			switch {
			case must:
				run.Count("obs_must_be_refused", 1)
				if strings.Contains(name, "phase2") {
					run.Count("obs_phase2_on_preopened_conn_inside_lockout", 1)
				}
				authed := false
				if kc := node.SM.GetControlConnection(c.ConnID); kc != nil && kc.IsAuthenticated() {
					authed = true
				}
				after := node.BFP.GetFailureCount(ip)
				refused := cl == "banned" || cl == "blacklisted"
				if !refused || authed || after > before {
					outcome := "proof-evaluated"
					if cl == "success" || authed {
						outcome = "authenticated"
					}
					c := "failures"
					if !strings.HasPrefix(why, "failures") {
						c = why
					}
					run.Violation(fmt.Sprintf("C18:handshake-message-evaluated-inside-lockout|cause=%s|outcome=%s", c, outcome), map[string]any{
						"ip": ip, "msg": name, "cause": cause, "locked_out_because": why, "ban": ban.String(), "reply": cl, "authenticated_after": authed,
						"failure_count_before": before, "failure_count_after": after, "expected": "refused at the gate (IP banned / blacklisted), nothing evaluated", "events": log})
				}
				return cl
			case free:
				run.Count("obs_must_pass_gate", 1)
				if cl == "banned" || cl == "blacklisted" {
					run.Violation("C18:handshake-refused-outside-lockout|msg="+strings.SplitN(name, "#", 2)[0], map[string]any{"ip": ip, "cause": cause, "reply": cl, "events": log})
				}
			default:
				run.Count("obs_skipped_uncertain", 1)
			}
			switch {
			case strings.HasPrefix(cl, "fail:"):
				model.fail(q, len(log))
			case cl == "success":
				model.success()
			}
			return cl
		}

		// ---- 1. pre-open K connections, phase 1 on each ----
		var pres []*pre
		for i := 0; i < K; i++ {
			c, err := node.Connect(fmt.Sprintf("%s:%d", ip, 3000+i))
			if err != nil {
				run.Count("connect_refused", 1)
				continue
			}
			p := &pre{c: c, typ: "control"}
			if r.Intn(4) == 0 {
				p.typ = "tunnel"
			}
			cl := message(fmt.Sprintf("phase1#%d", i), c, true, func() (*packet.HandshakeResponse, error) {
				r1, err := c.Phase1(goodID, p.typ)
				if r1 != nil {
					p.chal = r1.Challenge
				}
				return r1, err
			})
			if cl == "challenge" && p.chal != "" {
				pres = append(pres, p)
			}
		}
		if len(pres) < 4 {
			run.Count("harness_short_of_preopened_connections", 1)
			continue
		}
		run.Count("preopened_connections", int64(len(pres)))
		wrong := func(p *pre) string { return HMACResp("not-the-secret", p.chal) }
		right := func(p *pre) string { return HMACResp(goodSecret, p.chal) }
		answer := func(i int, p *pre, resp, label string) string {
			return message(fmt.Sprintf("phase2-%s#%d", label, i), p.c, true, func() (*packet.HandshakeResponse, error) {
				return p.c.Phase2(goodID, resp, p.typ)
			})
		}

		// ---- 2. establish the lock-out ----
		next := 0
		switch cause {
		case "failures-on-preopened":
			for ; next < maxF; next++ {
				answer(next, pres[next], wrong(pres[next]), "wrong")
			}
		case "failures-on-other-connections":
			for i := 0; i < maxF; i++ {
				c, err := node.Connect(fmt.Sprintf("%s:%d", ip, 4000+i))
				if err != nil {
					continue
				}
				message(fmt.Sprintf("unknown-client#%d", i), c, true, func() (*packet.HandshakeResponse, error) { return c.Phase1(987654321, "control") })
				c.CloseByPeer()
			}
		case "operator-ban":
			c0 := now()
			node.BFP.BanIP(ip, ban, "operator")
			locks = append(locks, c18pLock{c18hIv{c0, now()}, ban, "operator-ban"})
			log = append(log, c18hEvent{len(log), "BanIP(" + ban.String() + ")", c0.Microseconds(), now().Microseconds(), ""})
		case "blacklist-address", "blacklist-network":
			key := ip
			if cause == "blacklist-network" {
				key = ip[:strings.LastIndex(ip, ".")] + ".0/24"
			}
			dur := time.Duration(0)
			if r.Intn(2) == 0 {
				dur = time.Hour
			}
			c0 := now()
			_ = node.IPM.AddToBlacklist(key, dur, "operator", "verif")
			locks = append(locks, c18pLock{c18hIv{c0, now()}, dur, cause})
			log = append(log, c18hEvent{len(log), fmt.Sprintf("AddToBlacklist(%s,%v)", key, dur), c0.Microseconds(), now().Microseconds(), ""})
		}

		// ---- 3. phase 2 on the remaining pre-opened connections ----
		rest := pres[next:]
		keep := 0
		if short && len(rest) >= 3 {
			keep = 2 // answered after the ban has certainly elapsed
		}
		pattern := ""
		for i, p := range rest[:len(rest)-keep] {
			if i == len(rest)-keep-1 || r.Intn(3) == 0 {
				pattern += "R"
				answer(next+i, p, right(p), "right")
			} else {
				pattern += "W"
				answer(next+i, p, wrong(p), "wrong")
			}
		}
		if keep > 0 {
			// every lock-out of this trial is over once `ban` has elapsed after the last establishing operation
			var end time.Duration
			for _, f := range model.fails {
				if f.Count >= maxF && f.Iv.R+ban > end {
					end = f.Iv.R + ban
				}
			}
			for _, l := range locks {
				if l.iv.R+l.dur > end {
					end = l.iv.R + l.dur
				}
			}
			for i := 0; i < 400 && now() <= end+c18hMargin; i++ {
				time.Sleep(end + c18hMargin - now() + time.Millisecond)
			}
			tail := rest[len(rest)-keep:]
			// a right answer: passes the gate, is evaluated, authenticates
			cl := answer(len(pres)-keep, tail[0], right(tail[0]), "right-after-expiry")
			if cl == "success" {
				run.Count("obs_phase2_after_expiry_authenticated", 1)
			}
			pattern += "|after:" + cl
			answer(len(pres)-keep+1, tail[1], wrong(tail[1]), "wrong-after-expiry")
		}
		run.Eval(1)
		run.Distinct(fmt.Sprintf("%s|short=%v|K=%d|%s", cause, short, len(pres), pattern))
		run.Count("trials|"+cause, 1)
		if trial < 3 {
			run.Sample(map[string]any{"ip": ip, "cause": cause, "events": log})
		}
		for _, p := range pres {
			p.c.CloseByPeer()
		}
	}
	run.Floor("obs_phase2_on_preopened_conn_inside_lockout", int64(trials*2))
	run.Floor("obs_must_pass_gate", int64(trials*3))
	run.Floor("obs_phase2_after_expiry_authenticated", 3)
	for _, c := range causes {
		run.Floor("trials|"+c, int64(trials/len(causes)*8/10))
	}
}
