//go:build verif && verif_c18

package server

import (
	"encoding/json"
	"fmt"
	"io"
	"math/rand"
	"net"
	"net/http"
	"net/http/httptest"
	"strings"
	"testing"
	"time"

	"tunnox-core/internal/httpservice"
	wsmodule "tunnox-core/internal/httpservice/modules/websocket"
	"tunnox-core/internal/packet"
	"tunnox-core/internal/security"
	"tunnox-core/internal/stream"
	vk "tunnox-core/internal/verifkit"

	"github.com/gorilla/mux"
	gorillaws "github.com/gorilla/websocket"
)

// C18 through the WebSocket entry (/_tunnox): the address that failures, bans, the
// blacklist and the registration rate are keyed by is the address of the TCP peer, never
// a value the client chose. The real WebSocket module is mounted on a loopback HTTP
// server and wired to the mini-server's SessionManager; one and the same peer (this
// process) sends real handshakes over real WebSocket connections, each request carrying
// seeded client-supplied X-Forwarded-For / X-Real-IP / Forwarded headers. Lock-outs are
// 1 h, so "inside the ban period" is logical; the rate bound uses call/return brackets.

type c18wsRW struct {
	ws  *gorillaws.Conn
	buf []byte
}

func (a *c18wsRW) Write(p []byte) (int, error) {
	if err := a.ws.WriteMessage(gorillaws.BinaryMessage, p); err != nil {
		return 0, err
	}
	return len(p), nil
}

func (a *c18wsRW) Read(p []byte) (int, error) {
	for len(a.buf) == 0 {
		mt, data, err := a.ws.ReadMessage()
		if err != nil {
			return 0, io.EOF
		}
		if mt == gorillaws.BinaryMessage {
			a.buf = data
		}
	}
	n := copy(p, a.buf)
	a.buf = a.buf[n:]
	return n, nil
}

type c18wsEntry struct {
	n    *miniNode
	srv  *httptest.Server
	url  string
	peer string // the address under which the server's TCP stack sees this process
}

func c18wsNewEntry(t *testing.T, bf *security.BruteForceConfig, rl *security.RateLimitConfig) *c18wsEntry {
	n := newMiniNode(t, miniOpts{BruteForce: bf, RateLimit: rl, NoCommands: true})
	mod := wsmodule.NewWebSocketModule(n.ctx, &httpservice.WebSocketModuleConfig{Enabled: true})
	mod.SetSession(n.SM)
	router := mux.NewRouter()
	mod.RegisterRoutes(router)
	srv := httptest.NewServer(router)
	return &c18wsEntry{n: n, srv: srv, url: "ws" + strings.TrimPrefix(srv.URL, "http") + "/_tunnox"}
}

func (e *c18wsEntry) close() { e.srv.Close(); e.n.Close() }

// handshake opens one WebSocket connection with the given headers, sends one handshake
// request and returns the reply class ("watchdog" if no reply arrived in 5 s).
func (e *c18wsEntry) handshake(hdr http.Header, req *packet.HandshakeRequest) (class string, resp *packet.HandshakeResponse, c0, r0 time.Time) {
	d := gorillaws.Dialer{HandshakeTimeout: 5 * time.Second}
	ws, _, err := d.Dial(e.url, hdr)
	if err != nil {
		return "dial-error:" + err.Error(), nil, c0, r0
	}
	defer ws.Close()
	if e.peer == "" {
		if ta, ok := ws.LocalAddr().(*net.TCPAddr); ok {
			e.peer = ta.IP.String()
		}
	}
	rw := &c18wsRW{ws: ws}
	sp := stream.NewStreamProcessor(rw, rw, e.n.ctx)
	b, _ := json.Marshal(req)
	c0 = time.Now()
	if _, err := sp.WritePacket(&packet.TransferPacket{PacketType: packet.Handshake, Payload: b}, false, 0); err != nil {
		return "write-error:" + err.Error(), nil, c0, time.Now()
	}
	_ = ws.SetReadDeadline(time.Now().Add(5 * time.Second))
	for i := 0; i < 4; i++ {
		p, _, err := sp.ReadPacket()
		if err != nil || p == nil {
			return "watchdog", nil, c0, time.Now()
		}
		if p.PacketType&0x3F == packet.HandshakeResp {
			r0 = time.Now()
			var r packet.HandshakeResponse
			if json.Unmarshal(p.Payload, &r) != nil {
				return "other:unparsable", nil, c0, r0
			}
			return c18hClass(&r, nil), &r, c0, r0
		}
	}
	return "watchdog", nil, c0, time.Now()
}

// c18wsHeaders returns seeded client-chosen forwarding headers (different values every call).
func c18wsHeaders(r *rand.Rand, k int) (http.Header, string) {
	h := http.Header{}
	pub := fmt.Sprintf("203.0.%d.%d", r.Intn(250), 1+k%250)
	switch r.Intn(8) {
	case 0:
		return h, "none"
	case 1:
		h.Set("X-Forwarded-For", pub)
		return h, "xff"
	case 2:
		h.Set("X-Forwarded-For", pub+", 198.51.100.7")
		return h, "xff-list"
	case 3:
		h.Set("X-Real-IP", pub)
		return h, "x-real-ip"
	case 4:
		h.Set("X-Forwarded-For", fmt.Sprintf("2001:db8::%x", 1+k))
		return h, "xff-ipv6"
	case 5:
		h.Set("X-Forwarded-For", fmt.Sprintf("10.%d.%d.%d", r.Intn(250), r.Intn(250), 1+k%250))
		h.Set("X-Real-IP", pub)
		return h, "xff-private+x-real-ip"
	case 6:
		h.Set("Forwarded", "for="+pub+";proto=https")
		h.Set("X-Client-IP", pub)
		h.Set("True-Client-IP", pub)
		return h, "forwarded+client-ip"
	}
	h.Set("X-Forwarded-For", " "+pub+" ,"+pub)
	return h, "xff-spaces"
}

func TestVerifC18WebSocketForwardedHeaders(t *testing.T) {
	vk.Quiet()
	run := vk.Start(t, "C18", "websocket-forwarded-headers")
	defer run.Finish()
	run.Rule("real WebSocket module (/_tunnox) on a loopback HTTP server wired to the mini-server; one peer (this process). Per round: (A) a seeded sequence of 14 handshakes {unknown client, challenge request of a valid client, anonymous registration}, each on its own WebSocket connection with a different client-chosen X-Forwarded-For / X-Real-IP / Forwarded header set (8 shapes); the ban model counts every failure for the PEER (thresholds 3, ban 1 h): once banned, every later handshake must be refused whatever header it carries; (B) the peer address is blacklisted (or BanIP'ed): every handshake with every header shape must be refused, after all shapes passed before; (C) 40 anonymous registrations in a row, each with another header value, rate 5/s burst 3: granted inside any [call_i, ret_j] <= burst + rate*(ret_j-call_i). distinct = (scenario, header-shape sequence)")
	rounds := run.Pick(6, 40)
	r := run.Rand("ws")
	bfHard := func() *security.BruteForceConfig {
		return &security.BruteForceConfig{MaxFailures: 3, TimeWindow: time.Hour, BanDuration: time.Hour, PermanentBanAt: 1 << 30, CleanupInterval: time.Hour}
	}
	rlOpen := func() *security.RateLimitConfig {
		return &security.RateLimitConfig{Rate: 100000, Burst: 100000, TTL: time.Hour}
	}
	unknown := &packet.HandshakeRequest{ClientID: 987654321, Version: "3.0", Protocol: "websocket", ConnectionType: "control"}
	register := func(k int) *packet.HandshakeRequest {
		tok := "new-client"
		if k%2 == 1 {
			tok = fmt.Sprintf("anonymous:%d", k)
		}
		return &packet.HandshakeRequest{ClientID: 0, Token: tok, Version: "3.0", Protocol: "websocket", ConnectionType: "control"}
	}
	seq := 0
	watchdog := func(cl string) bool {
		if cl == "watchdog" || strings.HasPrefix(cl, "dial-error") || strings.HasPrefix(cl, "write-error") {
			run.Count("watchdog_or_transport_error", 1)
			run.Observe("transport_error_example", cl)
			return true
		}
		return false
	}

	for round := 0; round < rounds && run.Violations() < 20; round++ {
		// ---------- (A) failures with changing headers ----------
		{
			e := c18wsNewEntry(t, bfHard(), rlOpen())
			pc := e.n.NewClient("10.253.0.1:1000")
			goodID := pc.ClientID
			pc.CloseByPeer()
			origin := time.Now()
			model := &c18hModel{max: 3, perm: 1 << 30, ban: time.Hour}
			var log, shapes []string
			run.Case("ws-failures", round)
			tainted := false
			for ev := 0; ev < 14 && !tainted; ev++ {
				seq++
				hdr, shape := c18wsHeaders(r, seq)
				var req *packet.HandshakeRequest
				var msg string
				switch x := r.Intn(100); {
				case x < 60:
					req, msg = unknown, "unknown-client"
				case x < 85:
					req, msg = &packet.HandshakeRequest{ClientID: goodID, Version: "3.0", Protocol: "websocket", ConnectionType: "control"}, "challenge-request"
				default:
					req, msg = register(seq), "register"
				}
				cl, _, c0, r0 := e.handshake(hdr, req)
				if watchdog(cl) {
					tainted = true
					break
				}
				q := c18hIv{c0.Sub(origin), r0.Sub(origin)}
				log = append(log, fmt.Sprintf("%s headers=%v -> %s", msg, hdr, cl))
				shapes = append(shapes, shape)
				must, mustNot, _, _ := model.judge(q)
				switch {
				case must:
					run.Count("obs_must_be_refused", 1)
					if shape != "none" {
						run.Count("obs_must_be_refused_with_client_headers", 1)
					}
					if cl != "banned" {
						run.Violation("C18:websocket-peer-dodges-ban-with-forwarding-header|reply="+strings.SplitN(cl, ":", 2)[0], map[string]any{
							"peer": e.peer, "failures_counted_for_peer": model.count, "threshold": 3, "headers": hdr, "msg": msg, "reply": cl, "events": log})
					}
				case mustNot:
					run.Count("obs_must_pass_ban_gate", 1)
					if cl == "banned" {
						run.Violation("C18:websocket-peer-refused-below-threshold", map[string]any{"peer": e.peer, "failures_counted_for_peer": model.count, "headers": hdr, "events": log})
					}
				}
				switch {
				case strings.HasPrefix(cl, "fail:"):
					model.fail(q, ev)
				case cl == "success":
					model.success()
				case strings.HasPrefix(cl, "other:"):
					tainted = true
				}
			}
			run.Eval(1)
			run.Distinct("A|" + strings.Join(shapes, ","))
			if round == 0 {
				run.Sample(log)
			}
			e.close()
		}
		// ---------- (B) blacklisted / operator-banned peer ----------
		{
			e := c18wsNewEntry(t, bfHard(), rlOpen())
			var log, shapes []string
			run.Case("ws-blacklist", round)
			ok := true
			for k := 0; k < 8 && ok; k++ { // before: every shape passes (and teaches us the peer address)
				seq++
				hdr, shape := c18wsHeaders(r, seq)
				cl, _, _, _ := e.handshake(hdr, unknown)
				if watchdog(cl) {
					ok = false
					break
				}
				log = append(log, fmt.Sprintf("before: headers=%v -> %s", hdr, cl))
				if cl == "banned" || cl == "blacklisted" {
					run.Count("unexpected_refusal_before_lockout", 1)
				} else {
					run.Count("obs_passed_before_lockout", 1)
				}
				_ = shape
				e.n.BFP.UnbanIP(e.peer) // keep the peer below the threshold during the "before" phase
				e.n.BFP.RecordSuccess(e.peer)
			}
			if ok && e.peer != "" {
				cause := "blacklist"
				switch round % 3 {
				case 0:
					_ = e.n.IPM.AddToBlacklist(e.peer, 0, "verif", "verif")
				case 1:
					cidr := e.peer + "/32"
					if strings.Contains(e.peer, ":") {
						cidr = e.peer + "/128"
					}
					_ = e.n.IPM.AddToBlacklist(cidr, time.Hour, "verif", "verif")
					cause = "blacklist-network"
				default:
					e.n.BFP.BanIP(e.peer, time.Hour, "operator")
					cause = "operator-ban"
				}
				log = append(log, cause+" "+e.peer)
				for k := 0; k < 10; k++ {
					seq++
					hdr, shape := c18wsHeaders(r, seq)
					req := unknown
					if k%3 == 2 {
						req = register(seq)
					}
					cl, _, _, _ := e.handshake(hdr, req)
					if watchdog(cl) {
						break
					}
					log = append(log, fmt.Sprintf("after: headers=%v -> %s", hdr, cl))
					shapes = append(shapes, shape)
					run.Count("obs_must_be_refused", 1)
					run.Count("obs_locked_out_peer_handshakes|"+cause, 1)
					if shape != "none" {
						run.Count("obs_must_be_refused_with_client_headers", 1)
					}
					if cl != "banned" && cl != "blacklisted" {
						run.Violation("C18:websocket-peer-dodges-"+cause+"-with-forwarding-header", map[string]any{"peer": e.peer, "headers": hdr, "reply": cl, "events": log})
					}
				}
			}
			run.Eval(1)
			run.Distinct("B|" + strings.Join(shapes, ","))
			e.close()
		}
		// ---------- (C) registration rate ----------
		{
			const rate, burst = 5, 3
			e := c18wsNewEntry(t, &security.BruteForceConfig{MaxFailures: 1 << 20, TimeWindow: time.Hour, BanDuration: time.Hour, PermanentBanAt: 1 << 30, CleanupInterval: time.Hour},
				&security.RateLimitConfig{Rate: rate, Burst: burst, TTL: time.Hour})
			origin := time.Now()
			var granted []c18rReg
			var shapes []string
			run.Case("ws-registration-rate", round)
			for k := 0; k < 40; k++ {
				seq++
				hdr, shape := c18wsHeaders(r, seq)
				cl, resp, c0, r0 := e.handshake(hdr, register(seq))
				if watchdog(cl) {
					break
				}
				shapes = append(shapes, shape)
				switch {
				case resp != nil && resp.Success && resp.ClientID != 0:
					granted = append(granted, c18rReg{c0.Sub(origin).Nanoseconds(), r0.Sub(origin).Nanoseconds(), fmt.Sprint(hdr), ""})
					run.Count("ws_registrations_granted", 1)
				case cl == "ratelimited":
					run.Count("ws_registrations_rate_limited", 1)
				}
			}
			if bad, wit := c18rCheck(granted, rate, burst); bad {
				wit["peer"], wit["rate"], wit["burst"] = e.peer, rate, burst
				run.Violation("C18:registration-rate-exceeded|websocket-forwarding-headers", wit)
			}
			run.Eval(1)
			run.Distinct("C|" + strings.Join(shapes, ","))
			e.close()
		}
	}
	run.Floor("obs_must_be_refused_with_client_headers", int64(rounds*8))
	run.Floor("obs_must_pass_ban_gate", int64(rounds*3))
	run.Floor("obs_passed_before_lockout", int64(rounds*6))
	run.Floor("ws_registrations_granted", int64(rounds*3))
	run.Floor("ws_registrations_rate_limited", int64(rounds*20))
}
