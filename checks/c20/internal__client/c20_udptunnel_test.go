//go:build verif && verif_c20

package client

// C20 — "with the payload left intact", on the PRODUCTION sender behind the SOCKS5 UDP
// relay: a real socks5.UDPRelay (loopback UDP socket) whose tunnel creator returns the
// production udpTunnelConn (socks5_tunnel.go) over a real stream.StreamProcessor on top of
// a fault-injecting server-connection double. The double accepts a seeded number of bytes
// of one Write and then returns (n, timeout net.Error) or (n, other error), n possibly 0,
// at a seeded position of the byte stream.
//
// Oracle: the bytes the server connection accepted are decoded as the tunnel's wire
// format (2-byte big-endian length + datagram). Every COMPLETE record must be the payload
// of exactly one datagram the application sent to the destination that tunnel was opened
// for, at most once and in sending order; a trailing incomplete record is allowed (the
// datagram hit by the fault is lost, which UDP permits), garbage after a failed write is
// not: either the session ends or the framing stays intact.
//
// Datagrams to one destination are sent one at a time: the next one is sent when the
// SendPacket call of the previous one has returned (and, if it failed, the relay has closed
// that tunnel) — observed through a pass-through wrapper around the production tunnel conn,
// so the pacing is logical, not timed.

import (
	"context"
	"encoding/binary"
	"errors"
	"fmt"
	"io"
	"math/rand"
	"net"
	"sync"
	"sync/atomic"
	"testing"
	"time"

	"tunnox-core/internal/client/socks5"
	"tunnox-core/internal/stream"
	vk "tunnox-core/internal/verifkit"
)

type c20tTimeout struct{}

func (c20tTimeout) Error() string   { return "c20: i/o timeout (write deadline exceeded)" }
func (c20tTimeout) Timeout() bool   { return true }
func (c20tTimeout) Temporary() bool { return true }

var c20tErrReset = errors.New("c20: connection reset by peer")

type c20tFault struct {
	At      int    // absolute offset in the accepted byte stream at which a Write is cut
	Kind    string // "timeout" | "error"
	Zero    bool   // accept nothing of the faulted Write (fault fires at the Write that would cross At)
	Fired   bool
	Partial int // bytes of the faulted Write that were accepted
}

// c20tConn: server connection double.
type c20tConn struct {
	mu     sync.Mutex
	buf    []byte
	faults []*c20tFault
	closed chan struct{}
	once   sync.Once
	writes int
}

func (c *c20tConn) Write(p []byte) (int, error) {
	c.mu.Lock()
	defer c.mu.Unlock()
	select {
	case <-c.closed:
		return 0, io.ErrClosedPipe
	default:
	}
	c.writes++
	for _, f := range c.faults {
		if !f.Fired && len(p) > 0 && len(c.buf)+len(p) > f.At {
			k := f.At - len(c.buf)
			if k < 0 || f.Zero {
				k = 0
			}
			c.buf = append(c.buf, p[:k]...)
			f.Fired, f.Partial = true, k
			if f.Kind == "timeout" {
				return k, c20tTimeout{}
			}
			return k, c20tErrReset
		}
	}
	c.buf = append(c.buf, p...)
	return len(p), nil
}
func (c *c20tConn) Read(p []byte) (int, error) {
	if c == nil {
		// udpTunnelConn.ReceivePacket can observe a half-written interface value when
		// StreamProcessor.Close clears its reader concurrently (unsynchronised in the code
		// under test; outside this property) — behave like a closed connection
		return 0, io.EOF
	}
	<-c.closed
	return 0, io.EOF
}
func (c *c20tConn) Close() error               { c.once.Do(func() { close(c.closed) }); return nil }
func (c *c20tConn) snapshot() []byte {
	c.mu.Lock()
	defer c.mu.Unlock()
	return append([]byte(nil), c.buf...)
}
func (c *c20tConn) LocalAddr() net.Addr                { return &net.TCPAddr{IP: net.IPv4(127, 0, 0, 1), Port: 1} }
func (c *c20tConn) RemoteAddr() net.Addr               { return &net.TCPAddr{IP: net.IPv4(127, 0, 0, 1), Port: 2} }
func (c *c20tConn) SetDeadline(t time.Time) error      { return nil }
func (c *c20tConn) SetReadDeadline(t time.Time) error  { return nil }
func (c *c20tConn) SetWriteDeadline(t time.Time) error { return nil }

// c20tWrap passes everything through to the production udpTunnelConn and tells the
// harness when a SendPacket returned / the tunnel was closed (pacing only).
type c20tWrap struct {
	inner  *udpTunnelConn
	conn   *c20tConn
	host   string
	port   int
	events chan c20tEvent
	closed atomic.Bool
}

type c20tEvent struct {
	w      *c20tWrap
	kind   string // "sent" | "closed"
	failed bool
}

func (w *c20tWrap) SendPacket(data []byte) error {
	err := w.inner.SendPacket(data)
	w.events <- c20tEvent{w: w, kind: "sent", failed: err != nil}
	return err
}
func (w *c20tWrap) ReceivePacket() ([]byte, error) { return w.inner.ReceivePacket() }
func (w *c20tWrap) Close() error {
	err := w.inner.Close()
	if !w.closed.Swap(true) {
		w.events <- c20tEvent{w: w, kind: "closed"}
	}
	return err
}

type c20tCreator struct {
	mu     sync.Mutex
	r      *rand.Rand
	ctx    context.Context
	wraps  []*c20tWrap
	events chan c20tEvent
}

func (c *c20tCreator) CreateUDPTunnel(mappingID string, targetClientID int64, host string, port int, secret string) (socks5.UDPTunnelConn, error) {
	c.mu.Lock()
	defer c.mu.Unlock()
	fc := &c20tConn{closed: make(chan struct{})}
	// 0..2 faults within the first few frames of this tunnel
	nf := []int{0, 1, 1, 1, 2}[c.r.Intn(5)]
	for i := 0; i < nf; i++ {
		f := &c20tFault{Kind: []string{"timeout", "timeout", "error"}[c.r.Intn(3)], Zero: c.r.Intn(5) == 0}
		switch c.r.Intn(4) {
		case 0:
			f.At = c.r.Intn(4) // inside / right behind the first length field
		case 1:
			f.At = 1 + c.r.Intn(40)
		default:
			f.At = 1 + c.r.Intn(3000)
		}
		fc.faults = append(fc.faults, f)
	}
	// production wiring: udpTunnelConn{serverConn, tunnelStream = stream processor over the conn}
	sp := stream.NewStreamProcessor(fc, fc, c.ctx)
	w := &c20tWrap{inner: &udpTunnelConn{tunnelID: fmt.Sprintf("udp-c20-%d", len(c.wraps)), serverConn: fc, tunnelStream: sp},
		conn: fc, host: host, port: port, events: c.events}
	c.wraps = append(c.wraps, w)
	return w, nil
}

type c20tSent struct {
	Idx     int
	Host    string
	Port    int
	Payload []byte
	Seen    int
}

func c20tHeader(host string, port int) []byte {
	h := []byte{0, 0, 0}
	if ip := net.ParseIP(host); ip != nil {
		if ip4 := ip.To4(); ip4 != nil {
			h = append(append(h, 0x01), ip4...)
		} else {
			h = append(append(h, 0x04), ip.To16()...)
		}
	} else {
		h = append(append(h, 0x03, byte(len(host))), host...)
	}
	return append(h, byte(port>>8), byte(port))
}

func c20tPayload(relay, idx, n int) []byte {
	if n < 12 {
		n = 12
	}
	p := make([]byte, 12, n)
	copy(p, "c20t")
	binary.BigEndian.PutUint32(p[4:], uint32(relay))
	binary.BigEndian.PutUint32(p[8:], uint32(idx))
	return append(p, vk.Pattern(uint64(relay)<<32|uint64(idx), 12, n-12)...)
}

func c20tHex(b []byte) string {
	if len(b) > 200 {
		return fmt.Sprintf("%x…(%d bytes)", b[:200], len(b))
	}
	return fmt.Sprintf("%x", b)
}

func TestVerifC20UDPTunnelSender(t *testing.T) {
	vk.Quiet()
	run := vk.Start(t, "C20", "udp-tunnel-sender")
	defer run.Finish()
	run.Rule("per relay (real socks5.UDPRelay on a loopback UDP socket, 2..5 destinations: IPv4 / IPv6 / names; tunnels = production udpTunnelConn over a real StreamProcessor over a fault-injecting conn double): " +
		"20..60 datagrams with unique tagged position-coded payloads of 12..1400 bytes, sent one at a time (next one when SendPacket of the previous returned and a failed tunnel was closed); every tunnel conn gets 0..2 seeded faults: " +
		"a Write cut after a seeded number of bytes (incl. 0, inside the length field, inside the payload) returning a timeout net.Error or a non-timeout error. " +
		"Oracle: the accepted byte stream of every tunnel conn decodes (2-byte length + datagram) into complete records that are each exactly one payload sent to that tunnel's destination, once, in order; only a trailing incomplete record is tolerated. " +
		"distinct = (fault kind, fault position class: none/zero/partial, destination type, records decoded class).")
	r := run.Rand("tunnel")
	relays := run.Pick(300, 3000)
	viol := 0
	for ri := 0; ri < relays && viol < 20; ri++ {
		ctx, cancel := context.WithCancel(context.Background())
		cr := &c20tCreator{r: rand.New(rand.NewSource(r.Int63())), ctx: ctx, events: make(chan c20tEvent, 4096)}
		tcpA, tcpB := vk.BufPipe("127.0.0.1:40001", "127.0.0.1:1080")
		relay, err := socks5.NewUDPRelay(ctx, tcpA, &socks5.UDPRelayConfig{MappingID: "c20", TargetClientID: 2, SecretKey: "k"}, cr)
		if err != nil {
			cancel()
			t.Fatalf("harness: NewUDPRelay: %v", err)
		}
		app, err := net.DialUDP("udp", nil, relay.GetBindAddr())
		if err != nil {
			relay.Close()
			cancel()
			t.Fatalf("harness: dial relay: %v", err)
		}
		type dest struct {
			host string
			port int
		}
		var dests []dest
		for i, n := 0, 2+r.Intn(4); i < n; i++ {
			port := 1000 + r.Intn(60000)
			switch r.Intn(3) {
			case 0:
				dests = append(dests, dest{fmt.Sprintf("192.0.2.%d", 1+r.Intn(250)), port})
			case 1:
				dests = append(dests, dest{fmt.Sprintf("2001:db8::%x", 1+r.Intn(60000)), port})
			default:
				dests = append(dests, dest{fmt.Sprintf("h%d.example-%d.test", i, r.Intn(1000)), port})
			}
		}
		byPayload := map[string]*c20tSent{}
		var order []*c20tSent
		n := 20 + r.Intn(41)
		run.Case("udp-tunnel|relay", map[string]any{"relay": ri, "datagrams": n, "dests": len(dests)})
		for i := 0; i < n; i++ {
			d := dests[r.Intn(len(dests))]
			s := &c20tSent{Idx: i, Host: d.host, Port: d.port, Payload: c20tPayload(ri, i, []int{12, 13, 40, 200, 1400, 12 + r.Intn(1389)}[r.Intn(6)])}
			byPayload[string(s.Payload)] = s
			order = append(order, s)
			if _, err := app.Write(append(c20tHeader(d.host, d.port), s.Payload...)); err != nil {
				t.Fatalf("harness: udp write: %v", err)
			}
			run.Count("datagrams_sent", 1)
			// pacing: wait for the SendPacket of this datagram to return; if it failed, for the close of that tunnel
			var failedWrap *c20tWrap
			resolved := false
			deadline := time.After(5 * time.Second)
			for !resolved {
				select {
				case ev := <-cr.events:
					switch {
					case ev.kind == "sent" && !ev.failed:
						resolved = true
					case ev.kind == "sent" && ev.failed:
						run.Count("sendpacket_failed", 1)
						failedWrap = ev.w
						if ev.w.closed.Load() {
							run.Count("session_dropped_after_failed_send", 1)
							resolved = true
						}
					case ev.kind == "closed" && failedWrap == ev.w:
						run.Count("session_dropped_after_failed_send", 1)
						resolved = true
					}
				case <-deadline:
					run.Count("watchdog", 1)
					resolved = true
				}
			}
		}
		app.Close()
		relay.Close()
		tcpB.Close()
		tcpA.Close()
		cancel()

		// ---- oracle: decode what every tunnel connection accepted
		cr.mu.Lock()
		wraps := append([]*c20tWrap(nil), cr.wraps...)
		cr.mu.Unlock()
		run.Count("tunnels", int64(len(wraps)))
		for wi, w := range wraps {
			b := w.conn.snapshot()
			fk, fp := "none", "none"
			for _, f := range w.conn.faults {
				if f.Fired {
					fk = f.Kind
					fp = "partial"
					if f.Partial == 0 {
						fp = "zero"
					}
					run.Count("fault_fired:"+f.Kind, 1)
					if f.Partial > 0 {
						run.Count("fault_fired_partial:"+f.Kind, 1)
					}
				}
			}
			faultDesc := []map[string]any{}
			for _, f := range w.conn.faults {
				faultDesc = append(faultDesc, map[string]any{"at": f.At, "kind": f.Kind, "zero": f.Zero, "fired": f.Fired, "accepted_of_faulted_write": f.Partial})
			}
			det := func(extra map[string]any) map[string]any {
				m := map[string]any{"relay": ri, "tunnel": wi, "tunnel_destination": fmt.Sprintf("%s:%d", w.host, w.port), "faults": faultDesc,
					"accepted_stream_len": len(b), "accepted_stream_hex": c20tHex(b)}
				for k, x := range extra {
					m[k] = x
				}
				return m
			}
			off, last, recs := 0, -1, 0
			for off+2 <= len(b) {
				l := int(b[off])<<8 | int(b[off+1])
				if off+2+l > len(b) {
					break
				}
				rec := b[off+2 : off+2+l]
				run.Eval(1)
				s := byPayload[string(rec)]
				switch {
				case s == nil:
					run.Violation(fmt.Sprintf("C20:udp-tunnel|record-not-sent|fault=%s", fk), det(map[string]any{"record_offset": off, "record_len": l, "record_hex": c20tHex(rec),
						"what": "the far end of the tunnel decodes a datagram that the application never sent"}))
					viol++
				case s.Host != w.host || s.Port != w.port:
					run.Violation("C20:udp-tunnel|record-on-wrong-tunnel", det(map[string]any{"record_offset": off, "sent_to": fmt.Sprintf("%s:%d", s.Host, s.Port), "idx": s.Idx}))
					viol++
				case s.Seen > 0:
					s.Seen++
					run.Violation(fmt.Sprintf("C20:udp-tunnel|record-twice|fault=%s", fk), det(map[string]any{"record_offset": off, "idx": s.Idx}))
					viol++
				case s.Idx < last:
					s.Seen++
					run.Violation("C20:udp-tunnel|record-out-of-order", det(map[string]any{"record_offset": off, "idx": s.Idx, "after_idx": last}))
					viol++
				default:
					s.Seen++
					last = s.Idx
					recs++
					run.Count("records_intact", 1)
				}
				if s == nil {
					// framing is lost from here on; one report per tunnel
					break
				}
				off += 2 + l
			}
			if off < len(b) {
				run.Count("trailing_incomplete_record", 1)
			}
			dt := "name"
			if ip := net.ParseIP(w.host); ip != nil {
				dt = "ip6"
				if ip.To4() != nil {
					dt = "ip4"
				}
			}
			rc := "0"
			if recs > 0 {
				rc = "1+"
			}
			if recs > 8 {
				rc = "8+"
			}
			run.Distinct(fmt.Sprintf("tunnel|fault=%s|pos=%s|dest=%s|records=%s", fk, fp, dt, rc))
		}
		lost := 0
		for _, s := range order {
			if s.Seen == 0 {
				lost++
			}
		}
		run.Count("datagrams_not_delivered", int64(lost))
		if ri < 2 {
			run.Sample(map[string]any{"relay": ri, "datagrams": n, "tunnels": len(wraps), "not_delivered": lost})
		}
	}
	run.Floor("records_intact", int64(relays)*10)
	run.Floor("fault_fired_partial:timeout", int64(relays)/4)
	run.Floor("fault_fired_partial:error", int64(relays)/10)
	run.Floor("fault_fired:timeout", int64(relays)/3)
	run.Floor("tunnels", int64(relays)*2)
}
