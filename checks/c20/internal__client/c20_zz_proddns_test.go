//go:build verif && verif_c20

package client

// C20 — UDP-associate datagrams addressed to port 53 through a real socks5.UDPRelay whose
// DNS handler is the PRODUCTION handler (the TunnoxClient itself — what
// UDPRelayCreatorImpl.CreateUDPRelay wires in), behind a thin observing wrapper. The relay
// runs every datagram on its own goroutine without recover, so a panic anywhere on that
// path is a crash of the client caused by bytes a local application sent.
//
// Oracle: for every datagram with a well-formed RFC 1928 header (independent encoder in
// this file) the handler is entered with exactly the payload that was sent (length 0, 1, 2
// … included: the RFC puts no lower bound on DATA) for the destination that was sent, and
// serving it does not panic. The client is not connected to a server, so every query ends
// with an error — which is fine; nothing is judged about the answer.

import (
	"bytes"
	"context"
	"fmt"
	"net"
	"strings"
	"testing"
	"time"

	"tunnox-core/internal/client/socks5"
	vk "tunnox-core/internal/verifkit"
)

type c20dEvent struct {
	server string
	query  []byte
	panic  string
}

type c20dHandler struct {
	client *TunnoxClient
	events chan c20dEvent
}

func (h *c20dHandler) QueryDNS(targetClientID int64, dnsServer string, rawQuery []byte) (resp []byte, err error) {
	ev := c20dEvent{server: dnsServer, query: append([]byte(nil), rawQuery...)}
	defer func() {
		if r := recover(); r != nil {
			ev.panic = fmt.Sprint(r)
			err = fmt.Errorf("c20: handler panicked: %v", r)
		}
		h.events <- ev
	}()
	return h.client.QueryDNS(targetClientID, dnsServer, rawQuery)
}

type c20dNoTunnel struct{}

func (c20dNoTunnel) CreateUDPTunnel(string, int64, string, int, string) (socks5.UDPTunnelConn, error) {
	return nil, fmt.Errorf("c20: no tunnel in this monitor")
}

func TestVerifC20ZZProductionDNSHandler(t *testing.T) {
	vk.Quiet()
	run := vk.Start(t, "C20", "udp-relay-production-dns")
	defer run.Finish()
	run.Rule("real socks5.UDPRelay on a loopback UDP socket, DNS handler = the production TunnoxClient.QueryDNS (disconnected client) behind an observing wrapper; datagrams with a well-formed header to port 53 " +
		"(IPv4 / IPv6 / name destinations) and payload lengths 0..40, 511, 512, 1400 (every length three times with seeded content), sent one at a time. Oracle: the handler is entered with exactly the payload and destination that were sent and does not panic. " +
		"distinct = (destination type, payload-length class).")
	ctx, cancel := context.WithCancel(context.Background())
	defer cancel()
	client := NewClient(ctx, &ClientConfig{})
	defer client.Close()
	tcpA, tcpB := vk.BufPipe("127.0.0.1:40001", "127.0.0.1:1080")
	defer tcpB.Close()
	relay, err := socks5.NewUDPRelay(ctx, tcpA, &socks5.UDPRelayConfig{MappingID: "c20", TargetClientID: 42, BindAddr: "127.0.0.1:0"}, c20dNoTunnel{})
	if err != nil {
		t.Fatalf("harness: NewUDPRelay: %v", err)
	}
	defer relay.Close()
	h := &c20dHandler{client: client, events: make(chan c20dEvent, 64)}
	relay.SetDNSHandler(h)
	app, err := net.DialUDP("udp", nil, relay.GetBindAddr())
	if err != nil {
		t.Fatalf("harness: dial relay: %v", err)
	}
	defer app.Close()
	r := run.Rand("dns")
	lens := []int{511, 512, 1400}
	for n := 0; n <= 40; n++ {
		lens = append(lens, n)
	}
	hosts := []string{"8.8.8.8", "192.0.2.7", "2001:4860:4860::8888", "dns.example.test", "a"}
	for rep := 0; rep < run.Pick(3, 30); rep++ {
		for _, n := range lens {
			host := hosts[r.Intn(len(hosts))]
			payload := make([]byte, n)
			r.Read(payload)
			run.Case("udp-relay-production-dns|datagram", map[string]any{"host": host, "payload_len": n, "payload_hex": fmt.Sprintf("%x", payload)})
			if _, err := app.Write(append(c20tHeader(host, 53), payload...)); err != nil {
				t.Fatalf("harness: udp write: %v", err)
			}
			run.Eval(1)
			dt := "name"
			if ip := net.ParseIP(host); ip != nil {
				dt = "ip6"
				if ip.To4() != nil {
					dt = "ip4"
				}
			}
			lc := fmt.Sprint(n)
			if n > 3 {
				lc = ">3"
			}
			select {
			case ev := <-h.events:
				det := map[string]any{"destination": host + ":53", "payload_len": n, "payload_hex": fmt.Sprintf("%x", payload), "handler_server": ev.server, "handler_query_hex": fmt.Sprintf("%x", ev.query)}
				switch {
				case ev.panic != "":
					det["panic"] = ev.panic
					run.Violation(fmt.Sprintf("C20:udp-relay-prod|panic|handler=dns|payload_len=%s", lc), det)
				case !bytes.Equal(ev.query, payload):
					run.Violation("C20:udp-relay-prod|payload-altered|handler=dns", det)
				case strings.TrimSuffix(ev.server, ":53") != host && !(net.ParseIP(host) != nil && net.ParseIP(strings.Trim(strings.TrimSuffix(ev.server, ":53"), "[]")).Equal(net.ParseIP(host))):
					run.Violation("C20:udp-relay-prod|destination-altered|handler=dns", det)
				default:
					run.Count("datagrams_served", 1)
					if n < 2 {
						run.Count("datagrams_served_payload_lt_2", 1)
					}
					run.Distinct(fmt.Sprintf("prod-dns|dest=%s|len=%s", dt, lc))
				}
			case <-time.After(5 * time.Second):
				run.Count("not_delivered_watchdog", 1) // UDP may drop: inconclusive
			}
		}
	}
	run.Floor("datagrams_served", int64(len(lens))*2)
	run.Floor("datagrams_served_payload_lt_2", 4)
}
