//go:build verif && verif_c20

package adapter

// C20 — shared part of the harness (this file is kept byte-identical, apart from the
// package clause, in internal__client__socks5 and internal__protocol__adapter).
//
// It contains
//   * an INDEPENDENT reference parser for the RFC 1928 negotiation (+ RFC 1929
//     username/password sub-negotiation) written from the RFC text — it shares no code
//     with the implementation and works on a plain byte slice;
//   * a synchronous, scripted net.Conn double (c20Conn) that delivers a byte stream in a
//     prescribed chunking, records what was written and how many bytes were consumed;
//   * the structured grid / random generators and the field-by-field comparison.
//
// Verdict classes of the reference ("Accept"):
//   must     the RFC gives the message a definite meaning: it has to be parsed to it
//   mustnot  the message is truncated, has a foreign version, an unsupported command /
//            address type, or offers no acceptable method: the server has to refuse it
//   may      implementation-defined (RSV != 0, zero-length domain name): either answer
//            is accepted; when the implementation accepts, the fields must still match.

import (
	"bytes"
	"fmt"
	"io"
	"math/rand"
	"net"
	"sort"
	"strconv"
	"time"

	vk "tunnox-core/internal/verifkit"
)

const (
	c20Must = iota
	c20MustNot
	c20May
)

var c20AcceptName = []string{"must", "mustnot", "may"}

// c20Cfg describes which server the reference has to model.
type c20Cfg struct {
	Target string // signature component: "listener" | "adapter"
	Name   string // "listener" | "adapter" | "adapter-auth"
	Accept []byte // methods the server is willing to select, in order of preference
	Cmds   []byte // commands the server supports
	User   string
	Pass   string
	// AuthOnly: only the greeting and RFC 1929 grids are enumerated (no request grid)
	AuthOnly bool
}

type c20Verdict struct {
	Accept int
	Why    string
	Stage  string // where the reference stopped: greeting | auth | request
	NegLen int    // length of greeting (+ auth) when the negotiation succeeds, else -1
	GreetEnd int  // end offset of a complete, well-formed greeting, else -1
	Prefix []byte // what the server must have written for the (successful) negotiation; or the exact output for OutRule "exact"
	Cmd    byte
	Atyp   byte
	IP     net.IP
	Domain []byte
	Port   int
	// Consumed is the length of the whole message (greeting [+auth] + request).
	Consumed int
	// Rule on the bytes written when the server refuses:
	//  any           nothing is checked (the input is truncated inside the negotiation)
	//  noselect      nothing, or "05 FF" (no method may be selected)
	//  exact         exactly Prefix
	//  auth-fail     Prefix + "01 <non-zero>" (RFC 1929 failure status)
	//  auth-fail-opt Prefix, optionally followed by "01 <non-zero>"
	//  reply         Prefix, then a well-formed reply whose REP is in ReplyAllowed
	//                (nil = any non-zero); the reply may be absent unless ReplyRequired
	OutRule       string
	ReplyAllowed  []byte
	ReplyRequired bool
}

func c20Has(set []byte, b byte) bool { return bytes.IndexByte(set, b) >= 0 }

// c20RefTCP is the reference parser: s is everything the application sends before it
// closes (or goes silent); bytes after the message are not part of it.
func c20RefTCP(cfg *c20Cfg, s []byte) c20Verdict {
	v := c20Verdict{Accept: c20MustNot, NegLen: -1, GreetEnd: -1, Stage: "greeting", OutRule: "any"}
	// --- RFC 1928 §3: VER NMETHODS METHODS
	if len(s) < 2 {
		v.Why = "trunc-greeting"
		return v
	}
	if s[0] != 0x05 {
		v.Why, v.OutRule = "greeting-bad-ver", "noselect"
		return v
	}
	n := int(s[1])
	if n == 0 {
		v.Why, v.OutRule = "nmethods-0", "noselect"
		return v
	}
	if len(s) < 2+n {
		v.Why = "trunc-greeting"
		return v
	}
	methods := s[2 : 2+n]
	v.GreetEnd = 2 + n
	sel := byte(0xFF)
	for _, a := range cfg.Accept {
		if c20Has(methods, a) {
			sel = a
			break
		}
	}
	if sel == 0xFF {
		v.Why, v.OutRule, v.Prefix = "no-acceptable-method", "exact", []byte{0x05, 0xFF}
		return v
	}
	pos := 2 + n
	prefix := []byte{0x05, sel}
	if sel == 0x02 {
		// --- RFC 1929: VER(1) ULEN UNAME PLEN PASSWD
		v.Stage, v.Prefix, v.OutRule = "auth", prefix, "auth-fail-opt"
		if len(s) < pos+2 {
			v.Why = "trunc-auth"
			return v
		}
		if s[pos] != 0x01 {
			v.Why = "auth-bad-ver"
			return v
		}
		ul := int(s[pos+1])
		if len(s) < pos+2+ul+1 {
			v.Why = "trunc-auth"
			return v
		}
		user := s[pos+2 : pos+2+ul]
		pl := int(s[pos+2+ul])
		if len(s) < pos+2+ul+1+pl {
			v.Why = "trunc-auth"
			return v
		}
		pass := s[pos+3+ul : pos+3+ul+pl]
		if ul == 0 || pl == 0 {
			v.Why = "auth-empty-field"
			return v
		}
		if string(user) != cfg.User || string(pass) != cfg.Pass {
			v.Why, v.OutRule = "auth-wrong-credentials", "auth-fail"
			return v
		}
		prefix = append(prefix, 0x01, 0x00)
		pos += 3 + ul + pl
	}
	v.NegLen, v.Prefix, v.Stage, v.OutRule = pos, prefix, "request", "reply"
	// --- RFC 1928 §4: VER CMD RSV ATYP DST.ADDR DST.PORT
	if len(s) < pos+4 {
		v.Why = "trunc-request-header"
		return v
	}
	h := s[pos : pos+4]
	v.Cmd, v.Atyp = h[1], h[3]
	atypOK := h[3] == 0x01 || h[3] == 0x03 || h[3] == 0x04
	cmdOK := c20Has(cfg.Cmds, h[1])
	complete, body := true, 0
	switch h[3] {
	case 0x01:
		body = 4 + 2
	case 0x04:
		body = 16 + 2
	case 0x03:
		if len(s) < pos+5 {
			complete = false
		} else {
			body = 1 + int(s[pos+4]) + 2
		}
	}
	if atypOK && complete && len(s) < pos+4+body {
		complete = false
	}
	if h[0] != 0x05 {
		v.Why = "request-bad-ver"
		return v
	}
	if h[2] != 0x00 && (!cmdOK || !atypOK) {
		v.Why = "rsv-nonzero+unsupported"
		return v
	}
	if !cmdOK {
		v.Why = "cmd-unsupported"
		v.ReplyAllowed = []byte{0x07}
		if !atypOK {
			v.ReplyAllowed = []byte{0x07, 0x08}
		}
		v.ReplyRequired = complete
		return v
	}
	if !atypOK {
		v.Why, v.ReplyAllowed, v.ReplyRequired = "atyp-unsupported", []byte{0x08}, true
		return v
	}
	if !complete {
		v.Why = "trunc-address"
		return v
	}
	a := s[pos+4 : pos+4+body-2]
	switch h[3] {
	case 0x01, 0x04:
		v.IP = net.IP(append([]byte(nil), a...))
	case 0x03:
		v.Domain = append([]byte(nil), a[1:]...)
	}
	v.Port = int(s[pos+4+body-2])<<8 | int(s[pos+4+body-1])
	v.Consumed = pos + 4 + body
	switch {
	case h[2] != 0x00:
		v.Accept, v.Why = c20May, "rsv-nonzero"
	case h[3] == 0x03 && len(v.Domain) == 0:
		v.Accept, v.Why = c20May, "domain-len-0"
	default:
		v.Accept, v.Why = c20Must, "ok"
	}
	return v
}

// c20ReplyLen returns the length of a well-formed reply starting at b, or -1.
func c20ReplyLen(b []byte) int {
	if len(b) < 4 || b[0] != 0x05 || b[2] != 0x00 {
		return -1
	}
	switch b[3] {
	case 0x01:
		return 10
	case 0x04:
		return 22
	case 0x03:
		if len(b) < 5 {
			return -1
		}
		return 5 + int(b[4]) + 2
	}
	return -1
}

// c20CheckRefusalOutput applies v.OutRule to what the server wrote. got is a short
// class of the observed output (for the signature).
func c20CheckRefusalOutput(v *c20Verdict, out []byte) (ok bool, got string) {
	authFail := func(rest []byte) bool { return len(rest) == 2 && rest[0] == 0x01 && rest[1] != 0x00 }
	switch v.OutRule {
	case "any":
		return true, ""
	case "noselect":
		if len(out) == 0 || bytes.Equal(out, []byte{0x05, 0xFF}) {
			return true, ""
		}
		return false, "unexpected-output"
	case "exact":
		if bytes.Equal(out, v.Prefix) {
			return true, ""
		}
		if len(out) == 0 {
			return false, "none"
		}
		if len(out) == 2 && out[0] == 0x05 {
			return false, fmt.Sprintf("method=0x%02x", out[1])
		}
		return false, "unexpected-output"
	case "auth-fail", "auth-fail-opt":
		if !bytes.HasPrefix(out, v.Prefix) {
			return false, "method-selection-missing"
		}
		rest := out[len(v.Prefix):]
		if len(rest) == 0 {
			return v.OutRule == "auth-fail-opt", "no-status"
		}
		if authFail(rest) {
			return true, ""
		}
		return false, "bad-status"
	case "reply":
		if !bytes.HasPrefix(out, v.Prefix) {
			return false, "method-selection-missing"
		}
		rest := out[len(v.Prefix):]
		if len(rest) == 0 {
			return !v.ReplyRequired, "none"
		}
		if c20ReplyLen(rest) != len(rest) {
			return false, "malformed"
		}
		rep := rest[1]
		if rep == 0x00 {
			return false, "rep=0x00"
		}
		if v.ReplyAllowed != nil && !c20Has(v.ReplyAllowed, rep) {
			return false, fmt.Sprintf("rep=0x%02x", rep)
		}
		return true, ""
	}
	return true, ""
}

// ---------------------------------------------------------------- conn double

type c20SpinPanic struct{}

// c20Conn is a synchronous scripted connection: Read hands out data in the prescribed
// chunks (never across a cut, never more than len(p)), then io.EOF (the application
// closed). Write records. It never blocks, so a case cannot hang; a read loop that keeps
// asking after EOF is cut after 1000 further reads (spin).
type c20Conn struct {
	data    []byte
	cuts    []int // ascending chunk end offsets; beyond the last one the rest is one chunk
	byteWise bool
	off     int
	ci      int
	out     []byte
	postEOF int
	reads   int
	closed  bool
	mark    int  // end of the greeting (-1 = none)
	crossed bool // one Read returned bytes from both sides of mark (diagnostic only)
	// optional gate (concurrent scenarios): the Read that would deliver the byte at offset
	// gateAt first closes parked and then waits for gate — the application has sent
	// data[:gateAt] and pauses. No chunk crosses gateAt.
	gate       chan struct{}
	parked     chan struct{}
	gateAt     int
	gatePassed bool
	gateWatchdog bool
	// optional write gate: the first Write that starts when at least wgateAtOut bytes have
	// been written closes wparked and waits for wgate BEFORE it looks at p (a Write that is
	// blocked by a slow reader; the caller must not modify p until Write returns).
	wgate      chan struct{}
	wparked    chan struct{}
	wgateAtOut int
	wgatePassed bool
}

func (c *c20Conn) Read(p []byte) (int, error) {
	c.reads++
	if len(p) == 0 {
		return 0, nil
	}
	if c.off >= len(c.data) {
		c.postEOF++
		if c.postEOF > 1000 {
			panic(c20SpinPanic{})
		}
		return 0, io.EOF
	}
	if c.gate != nil && !c.gatePassed && c.off == c.gateAt {
		close(c.parked)
		select {
		case <-c.gate:
		case <-time.After(30 * time.Second):
			c.gateWatchdog = true
		}
		c.gatePassed = true
	}
	end := len(c.data)
	if c.gate != nil && !c.gatePassed && c.gateAt > c.off {
		end = c.gateAt
	}
	if c.byteWise {
		end = c.off + 1
	} else {
		for c.ci < len(c.cuts) && c.cuts[c.ci] <= c.off {
			c.ci++
		}
		if c.ci < len(c.cuts) && c.cuts[c.ci] < end {
			end = c.cuts[c.ci]
		}
	}
	n := end - c.off
	if n > len(p) {
		n = len(p)
	}
	copy(p, c.data[c.off:c.off+n])
	if c.mark > 0 && c.off < c.mark && c.off+n > c.mark {
		c.crossed = true
	}
	c.off += n
	return n, nil
}

func (c *c20Conn) Write(p []byte) (int, error) {
	if c.wgate != nil && !c.wgatePassed && len(c.out) >= c.wgateAtOut {
		c.wgatePassed = true
		close(c.wparked)
		select {
		case <-c.wgate:
		case <-time.After(30 * time.Second):
			c.gateWatchdog = true
		}
	}
	c.out = append(c.out, p...)
	return len(p), nil
}
func (c *c20Conn) Close() error                       { c.closed = true; return nil }
func (c *c20Conn) LocalAddr() net.Addr                { return &net.TCPAddr{IP: net.IPv4(127, 0, 0, 1), Port: 1080} }
func (c *c20Conn) RemoteAddr() net.Addr               { return &net.TCPAddr{IP: net.IPv4(127, 0, 0, 1), Port: 40000} }
func (c *c20Conn) SetDeadline(t time.Time) error      { return nil }
func (c *c20Conn) SetReadDeadline(t time.Time) error  { return nil }
func (c *c20Conn) SetWriteDeadline(t time.Time) error { return nil }

var _ net.Conn = (*c20Conn)(nil)

// ---------------------------------------------------------------- observations

// c20Obs is what the package-specific driver observed from the real code.
type c20Obs struct {
	Panic       string
	Spin        bool
	Failed      bool
	Err         string
	NegOK       bool // the negotiation phase returned success (adapter: handleHandshake)
	NegConsumed int  // bytes consumed when the negotiation phase returned (-1 = not observable)
	Cmd         byte
	Host        string // listener: HandshakeResult.TargetHost
	Port        int
	Target      string // adapter: "host:port" string returned by handleRequest
	HasTarget   bool
}

// c20Exec runs f (the real code) and converts panics.
func c20Exec(conn *c20Conn, f func(conn *c20Conn, o *c20Obs)) (o c20Obs) {
	o.NegConsumed = -1
	defer func() {
		if e := recover(); e != nil {
			if _, ok := e.(c20SpinPanic); ok {
				o.Spin = true
			} else {
				o.Panic = fmt.Sprint(e)
			}
			o.Failed = true
		}
	}()
	f(conn, &o)
	return
}

// ---------------------------------------------------------------- message generators

var c20Sentinel = []byte{0xA5, 0x5A, 0xC3, 0x3C, 0x96, 0x69, 0xF0, 0x0F}

type c20Msg struct {
	B       []byte
	Bounds  []int // field boundaries
	MsgCuts []int // message boundaries (end of greeting, end of auth)
	Class   string
}

func (m *c20Msg) field(b ...byte) {
	m.B = append(m.B, b...)
	m.Bounds = append(m.Bounds, len(m.B))
}
func (m *c20Msg) endMsg() { m.MsgCuts = append(m.MsgCuts, len(m.B)) }

func (m *c20Msg) greeting(ver byte, nm int, methods []byte) {
	m.field(ver)
	m.field(byte(nm))
	if len(methods) > 0 {
		m.field(methods...)
	}
	m.endMsg()
}

func (m *c20Msg) auth(ver byte, user, pass string) {
	m.field(ver)
	m.field(byte(len(user)))
	if len(user) > 0 {
		m.field([]byte(user)...)
	}
	m.field(byte(len(pass)))
	if len(pass) > 0 {
		m.field([]byte(pass)...)
	}
	m.endMsg()
}

// request appends a request. dlen is only used for ATYP 3; for an undefined ATYP six
// filler bytes follow (as if it were an IPv4 request).
func (m *c20Msg) request(r *rand.Rand, ver, cmd, rsv, atyp byte, dlen int, port int, hostLike bool) {
	m.field(ver)
	m.field(cmd)
	m.field(rsv)
	m.field(atyp)
	switch atyp {
	case 0x01:
		m.field(c20RandBytes(r, 4)...)
	case 0x04:
		b := c20RandBytes(r, 16)
		if r.Intn(4) == 0 { // IPv4-mapped
			copy(b, []byte{0, 0, 0, 0, 0, 0, 0, 0, 0, 0, 0xff, 0xff})
		}
		m.field(b...)
	case 0x03:
		m.field(byte(dlen))
		if dlen > 0 {
			m.field(c20Name(r, dlen, hostLike)...)
		}
	default:
		m.field(c20RandBytes(r, 4)...)
	}
	m.field(byte(port>>8), byte(port))
}

func c20RandBytes(r *rand.Rand, n int) []byte {
	b := make([]byte, n)
	r.Read(b)
	return b
}

// c20Name makes a domain name field: host-like (letters, digits, '-', '.') or arbitrary
// octets (the RFC does not restrict the octets of the field).
func c20Name(r *rand.Rand, n int, hostLike bool) []byte {
	if !hostLike {
		return c20RandBytes(r, n)
	}
	const al = "abcdefghijklmnopqrstuvwxyzABCXYZ0123456789-"
	b := make([]byte, n)
	for i := range b {
		b[i] = al[r.Intn(len(al))]
		if i > 0 && i < n-1 && i%9 == 8 {
			b[i] = '.'
		}
	}
	return b
}

func c20IsHostLike(b []byte) bool {
	for _, c := range b {
		switch {
		case c >= 'a' && c <= 'z', c >= 'A' && c <= 'Z', c >= '0' && c <= '9', c == '-', c == '.', c == '_':
		default:
			return false
		}
	}
	return len(b) > 0
}

// c20MethodSets returns the method-list variants of length n.
func c20MethodSets(n int) [][]byte {
	if n == 0 {
		return [][]byte{nil}
	}
	base := func() []byte {
		b := make([]byte, n)
		for i := range b {
			b[i] = byte(3 + i%252) // 0x03..0xFE: neither 0x00 nor 0x02
		}
		return b
	}
	var out [][]byte
	add := func(b []byte) {
		for _, o := range out {
			if bytes.Equal(o, b) {
				return
			}
		}
		out = append(out, b)
	}
	add(base())
	b := base()
	b[0] = 0x00
	add(b)
	b = base()
	b[n-1] = 0x00
	add(b)
	b = base()
	b[0] = 0x02
	add(b)
	b = base()
	b[n-1] = 0x02
	add(b)
	if n >= 2 {
		b = base()
		b[0], b[n-1] = 0x00, 0x02
		add(b)
		b = base()
		b[0], b[n-1] = 0x02, 0x00
		add(b)
	}
	b = base()
	b[0] = 0xFF
	add(b)
	return out
}

func (cfg *c20Cfg) goodGreeting(m *c20Msg) {
	if c20Has(cfg.Accept, 0x02) {
		m.greeting(0x05, 2, []byte{0x00, 0x02})
		m.auth(0x01, cfg.User, cfg.Pass)
	} else {
		m.greeting(0x05, 1, []byte{0x00})
	}
}

var (
	c20Vers  = []byte{0, 4, 5, 6, 255}
	c20NMs   = []int{0, 1, 2, 3, 255}
	c20CmdsG = []byte{0, 1, 2, 3, 4, 255}
	c20Rsvs  = []byte{0, 1}
	c20Atyps = []byte{0, 1, 3, 4, 5, 255}
	c20DLens = []int{0, 1, 2, 3, 63, 255}
	c20Ports = []int{0, 1, 65535}
)

// c20Grid enumerates the structured message space for cfg (deterministic order; the
// address / name octets come from r).
func c20Grid(cfg *c20Cfg, r *rand.Rand, emit func(m *c20Msg)) {
	// (A) greeting grid, each followed by a well-formed remainder
	for _, ver := range c20Vers {
		for _, nm := range c20NMs {
			for si, set := range c20MethodSets(nm) {
				sel02 := c20Has(cfg.Accept, 0x02) && c20Has(set, 0x02)
				for _, tailKind := range []int{0, 1} {
					// tail 0: what a well-behaved client sends after the server's selection;
					// tail 1: the opposite (auth message where none is due / missing where due)
					if tailKind == 1 && !c20Has(set, 0x02) {
						continue
					}
					m := &c20Msg{Class: fmt.Sprintf("greeting|ver=%d|nm=%d|set=%d|tail=%d", ver, nm, si, tailKind)}
					m.greeting(ver, nm, set)
					if sel02 != (tailKind == 1) {
						m.auth(0x01, cfg.User, cfg.Pass)
					}
					m.request(r, 5, 1, 0, 1, 0, 80, true)
					emit(m)
				}
			}
		}
	}
	// (B) auth grid (servers that select 02)
	if c20Has(cfg.Accept, 0x02) {
		long := string(bytes.Repeat([]byte{'u'}, 255))
		for _, av := range []byte{0, 1, 2, 5} {
			for ci, cr := range [][2]string{{cfg.User, cfg.Pass}, {cfg.User, cfg.Pass + "x"}, {cfg.User + "x", cfg.Pass},
				{"", ""}, {cfg.User, ""}, {"", cfg.Pass}, {long, cfg.Pass}, {cfg.User, long}, {cfg.Pass, cfg.User}} {
				m := &c20Msg{Class: fmt.Sprintf("auth|ver=%d|cred=%d", av, ci)}
				m.greeting(0x05, 2, []byte{0x00, 0x02})
				m.auth(av, cr[0], cr[1])
				m.request(r, 5, 1, 0, 3, 3, 443, true)
				emit(m)
			}
		}
	}
	// (B') RFC 1929 length sweep: every (ULEN, PLEN) in {0,1,2,127,128,254,255}^2, the
	// diagonals ULEN = 0..255 with PLEN = 255-ULEN and PLEN = 255, and pairs whose sum is
	// 254, 256, 257, 509 or 510. UNAME / PASSWD are the configured credentials cut or
	// padded to that length, so the pair (len(User), len(Pass)) is the accepting one.
	if c20Has(cfg.Accept, 0x02) {
		fit := func(s string, n int, pad byte) string {
			b := append([]byte(s), bytes.Repeat([]byte{pad}, 255)...)
			return string(b[:n])
		}
		seen := map[[2]int]bool{}
		var pairs [][2]int
		add := func(u, p int) {
			if u < 0 || p < 0 || u > 255 || p > 255 || seen[[2]int{u, p}] {
				return
			}
			seen[[2]int{u, p}] = true
			pairs = append(pairs, [2]int{u, p})
		}
		edge := []int{0, 1, 2, 127, 128, 254, 255}
		for _, u := range edge {
			for _, p := range edge {
				add(u, p)
			}
		}
		for u := 0; u <= 255; u++ {
			add(u, 255-u)
			add(u, 255)
		}
		for _, sum := range []int{254, 256, 257, 509, 510} {
			for _, u := range append(edge, 3, 64, 126, 129, 253) {
				add(u, sum-u)
				add(sum-u, u)
			}
		}
		add(len(cfg.User), len(cfg.Pass))
		for _, up := range pairs {
			m := &c20Msg{Class: fmt.Sprintf("auth-len|ulen=%d|plen=%d", up[0], up[1])}
			m.greeting(0x05, 1, []byte{0x02})
			m.auth(0x01, fit(cfg.User, up[0], 'U'), fit(cfg.Pass, up[1], 'P'))
			m.request(r, 5, 1, 0, 1, 0, 8080, true)
			emit(m)
		}
	}
	if cfg.AuthOnly {
		return
	}
	// (C) request grid behind a well-formed negotiation
	for _, ver := range c20Vers {
		for _, cmd := range c20CmdsG {
			for _, rsv := range c20Rsvs {
				for _, atyp := range c20Atyps {
					dl := []int{0}
					if atyp == 0x03 {
						dl = c20DLens
					}
					for _, d := range dl {
						for _, port := range c20Ports {
							m := &c20Msg{Class: fmt.Sprintf("request|ver=%d|cmd=%d|rsv=%d|atyp=%d|dlen=%d|port=%d", ver, cmd, rsv, atyp, d, port)}
							cfg.goodGreeting(m)
							m.request(r, ver, cmd, rsv, atyp, d, port, (int(cmd)+d+port)%2 == 0)
							emit(m)
						}
					}
				}
			}
		}
	}
}

// c20Delivery is one way of handing a byte stream to the parser.
type c20Delivery struct {
	Kind     string
	Cuts     []int
	ByteWise bool
}

// c20SplitPoints returns the offsets k (0<k<total) at which two-chunk deliveries are
// made: every offset for streams of <= 40 bytes (thorough: <= 100 bytes, and any complete
// message), otherwise field boundaries ±1, 256..258 and a few seeded ones.
func c20SplitPoints(m *c20Msg, total int, all, thorough bool, r *rand.Rand) []int {
	var ks []int
	if all || total <= 40 || (thorough && total <= 100) {
		for k := 1; k < total; k++ {
			ks = append(ks, k)
		}
		return ks
	}
	seen := map[int]bool{}
	add := func(k int) {
		if k > 0 && k < total && !seen[k] {
			seen[k] = true
			ks = append(ks, k)
		}
	}
	for _, b := range m.Bounds {
		add(b - 1)
		add(b)
		add(b + 1)
	}
	add(257)
	add(256)
	add(258)
	for i := 0; i < 6; i++ {
		add(1 + r.Intn(total-1))
	}
	sort.Ints(ks)
	return ks
}

func c20TruncClass(m *c20Msg, t int) string {
	if t >= len(m.B) {
		return "full"
	}
	for i, b := range m.Bounds {
		if t < b {
			if i == 0 && t == 0 {
				return "empty"
			}
			prev := 0
			if i > 0 {
				prev = m.Bounds[i-1]
			}
			if t == prev {
				return fmt.Sprintf("before-field-%d", i)
			}
			return fmt.Sprintf("inside-field-%d", i)
		}
	}
	return "?"
}

func c20LenClass(n int) string {
	switch {
	case n == 0:
		return "0"
	case n <= 3:
		return strconv.Itoa(n)
	case n < 64:
		return "<64"
	default:
		return ">=64"
	}
}

// ---------------------------------------------------------------- comparison

type c20Monitor struct {
	run  *vk.Run
	cfg  *c20Cfg
	exec func(conn *c20Conn, o *c20Obs)
}

func c20Hex(b []byte) string {
	if len(b) > 600 {
		return fmt.Sprintf("%x…(%d bytes)", b[:600], len(b))
	}
	return fmt.Sprintf("%x", b)
}

// c20HostMatches compares the implementation's host string with the reference address.
func c20HostMatches(v *c20Verdict, host string) bool {
	if v.Atyp == 0x03 {
		return host == string(v.Domain) // byte-wise
	}
	ip := net.ParseIP(host)
	return ip != nil && ip.Equal(v.IP)
}

// c20TargetMatches compares an adapter "host:port" string with the reference. The string
// is consumed by net.Dial, so it has to split (net.SplitHostPort) into the RFC address and
// port; for name fields with octets that cannot appear in a host name (':', '[', …) the
// plain concatenation name + ":" + port is accepted too (implementation-defined).
func c20TargetMatches(v *c20Verdict, target string) (ok bool, field string) {
	port := strconv.Itoa(v.Port)
	if v.Atyp == 0x03 {
		if target == net.JoinHostPort(string(v.Domain), port) {
			return true, ""
		}
		if !c20IsHostLike(v.Domain) && target == string(v.Domain)+":"+port {
			return true, ""
		}
	}
	h, p, err := net.SplitHostPort(target)
	if err != nil {
		if v.Atyp != 0x03 && (target == v.IP.String()+":"+port) {
			return false, "hostport-not-splittable"
		}
		return false, "hostport"
	}
	if p != port {
		return false, "port"
	}
	if !c20HostMatches(v, h) {
		return false, "host"
	}
	return true, ""
}

// check runs one (stream, delivery) case against the real code and compares with v.
// stream = the bytes the application sends (message [+ trailing bytes]); EOF follows.
// mkDetail builds the witness-detail function for one case.
func (mo *c20Monitor) mkDetail(conn *c20Conn, stream []byte, d c20Delivery, v *c20Verdict, class string) func(o *c20Obs, extra map[string]any) map[string]any {
	cfg := mo.cfg
	detail := func(o *c20Obs, extra map[string]any) map[string]any {
		m := map[string]any{
			"server": cfg.Name, "class": class, "stream_hex": c20Hex(stream), "stream_len": len(stream),
			"delivery": d.Kind, "cuts": d.Cuts, "bytewise": d.ByteWise,
			"reference": map[string]any{"accept": c20AcceptName[v.Accept], "why": v.Why, "stage": v.Stage, "cmd": v.Cmd, "atyp": v.Atyp,
				"ip": fmt.Sprint(v.IP), "domain_hex": c20Hex(v.Domain), "port": v.Port, "message_len": v.Consumed, "negotiation_len": v.NegLen,
				"out_rule": v.OutRule, "reply_allowed": fmt.Sprintf("%x", v.ReplyAllowed), "reply_required": v.ReplyRequired, "prefix": fmt.Sprintf("%x", v.Prefix)},
			"observed": map[string]any{"failed": o.Failed, "err": o.Err, "neg_ok": o.NegOK, "neg_consumed": o.NegConsumed, "cmd": o.Cmd,
				"host_hex": c20Hex([]byte(o.Host)), "host": fmt.Sprintf("%q", o.Host), "port": o.Port, "target": fmt.Sprintf("%q", o.Target),
				"written_hex": c20Hex(conn.out), "consumed": conn.off, "reads": conn.reads},
		}
		for k, x := range extra {
			m[k] = x
		}
		return m
	}
	return detail
}

// check runs one (stream, delivery) case against the real code and compares with v.
func (mo *c20Monitor) check(stream []byte, d c20Delivery, v *c20Verdict, class string) {
	conn := &c20Conn{data: stream, cuts: d.Cuts, byteWise: d.ByteWise, mark: v.GreetEnd}
	detail := mo.mkDetail(conn, stream, d, v, class)
	o := c20Exec(conn, mo.exec)
	mo.judge(conn, &o, stream, d, v, class, detail)
}

// judge compares what the real code did on conn (observation o) with the reference verdict v.
func (mo *c20Monitor) judge(conn *c20Conn, op *c20Obs, stream []byte, d c20Delivery, v *c20Verdict, class string, detail func(o *c20Obs, extra map[string]any) map[string]any) {
	run, cfg := mo.run, mo.cfg
	o := *op
	run.Eval(1)
	run.Count("cases_"+d.Kind, 1)
	tgt := "C20:" + cfg.Target
	// viol reports a disagreement. When one Read of the negotiation phase returned bytes
	// from both sides of the greeting's end (conn.crossed) the disagreement is attributed
	// to that over-read (classification only: crossing alone is never a violation).
	viol := func(sig string, det map[string]any) {
		if conn.crossed {
			det["disagreement"] = sig
			det["what"] = fmt.Sprintf("a single Read took bytes from both sides of the end of the greeting (offset %d); the bytes behind it were dropped", v.GreetEnd)
			sig = tgt + "|greeting-overread"
			run.Count("derailed_by_overread", 1)
		}
		run.Violation(sig, det)
	}
	if o.Spin {
		viol(tgt+"|spin-after-eof|why="+v.Why, detail(&o, nil))
		return
	}
	if o.Panic != "" {
		viol(tgt+"|panic|why="+v.Why, detail(&o, map[string]any{"panic": o.Panic}))
		return
	}
	// negotiation phase must not consume bytes that belong to the next message
	if o.NegOK && v.NegLen >= 0 && o.NegConsumed >= 0 {
		run.Count("negotiation_boundary_checked", 1)
		if o.NegConsumed > v.NegLen {
			run.Count("derailed_by_overread", 1)
			run.Violation(tgt+"|greeting-overread", detail(&o, map[string]any{
				"what": fmt.Sprintf("the negotiation phase returned after consuming %d bytes; greeting%s is %d bytes — %d byte(s) of the following message were read and dropped",
					o.NegConsumed, map[bool]string{true: "+auth", false: ""}[len(v.Prefix) > 2], v.NegLen, o.NegConsumed-v.NegLen)}))
			return
		}
	}
	accepted := !o.Failed
	switch {
	case accepted && v.Accept == c20MustNot:
		viol(tgt+"|invalid-accepted|why="+v.Why, detail(&o, nil))
		return
	case !accepted && v.Accept == c20Must:
		stage := "handshake"
		if o.NegConsumed >= 0 {
			stage = "negotiation"
			if o.NegOK {
				stage = "request"
			}
		}
		viol(fmt.Sprintf("%s|valid-rejected|atyp=%d|stage=%s", tgt, v.Atyp, stage), detail(&o, nil))
		return
	}
	if v.Accept == c20May {
		if accepted {
			run.Count("may_accepted:"+v.Why, 1)
		} else {
			run.Count("may_rejected:"+v.Why, 1)
		}
	}
	if !accepted {
		run.Count("agree_reject", 1)
		run.Count("why:"+v.Why, 1)
		ok, got := c20CheckRefusalOutput(v, conn.out)
		if v.OutRule != "any" {
			run.Count("refusal_output_checked", 1)
		}
		if v.ReplyRequired {
			run.Count("mandated_reply_checked", 1)
		}
		if !ok {
			viol(fmt.Sprintf("%s|refusal-output|why=%s|rule=%s|got=%s", tgt, v.Why, v.OutRule, got), detail(&o, nil))
		}
		return
	}
	// accepted, and the reference allows it: every field has to match
	run.Count("agree_accept", 1)
	run.Count("why:"+v.Why, 1)
	run.Count(fmt.Sprintf("accepted_atyp_%d", v.Atyp), 1)
	bad := false
	if o.HasTarget {
		if ok, f := c20TargetMatches(v, o.Target); !ok {
			bad = true
			viol(fmt.Sprintf("%s|field=%s|atyp=%d", tgt, f, v.Atyp), detail(&o, map[string]any{"want_target": net.JoinHostPort(c20RefHost(v), strconv.Itoa(v.Port))}))
		}
	} else {
		if o.Cmd != v.Cmd {
			bad = true
			viol(fmt.Sprintf("%s|field=cmd|atyp=%d", tgt, v.Atyp), detail(&o, nil))
		}
		if !c20HostMatches(v, o.Host) {
			bad = true
			viol(fmt.Sprintf("%s|field=host|atyp=%d", tgt, v.Atyp), detail(&o, nil))
		}
		if o.Port != v.Port {
			bad = true
			viol(fmt.Sprintf("%s|field=port|atyp=%d", tgt, v.Atyp), detail(&o, nil))
		}
	}
	if !bytes.Equal(conn.out, v.Prefix) {
		bad = true
		viol(tgt+"|output-on-accept", detail(&o, map[string]any{"want_written_hex": fmt.Sprintf("%x", v.Prefix)}))
	}
	// the parser must stop at the end of the message: the next thing read is what follows
	run.Count("sentinel_checked", 1)
	consumed := conn.off
	next := make([]byte, len(c20Sentinel))
	conn.byteWise, conn.cuts = false, nil
	nn, _ := io.ReadFull(conn, next)
	wantNext := stream[v.Consumed:]
	if len(wantNext) > len(c20Sentinel) {
		wantNext = wantNext[:len(c20Sentinel)]
	}
	if consumed != v.Consumed || !bytes.Equal(next[:nn], wantNext) {
		bad = true
		dir := "over"
		if consumed < v.Consumed {
			dir = "under"
		}
		viol(fmt.Sprintf("%s|message-boundary|dir=%s|atyp=%d", tgt, dir, v.Atyp), detail(&o, map[string]any{
			"consumed_at_return": consumed, "next_read_hex": fmt.Sprintf("%x", next[:nn]), "want_next_hex": fmt.Sprintf("%x", wantNext)}))
	}
	if !bad {
		dl := 0
		if v.Atyp == 0x03 {
			dl = len(v.Domain)
		}
		run.Distinct(fmt.Sprintf("%s|accept|atyp=%d|len=%s|cmd=%d|%s", cfg.Name, v.Atyp, c20LenClass(dl), v.Cmd, d.Kind))
	}
}

func c20RefHost(v *c20Verdict) string {
	if v.Atyp == 0x03 {
		return string(v.Domain)
	}
	return v.IP.String()
}

// runGrid drives the structured space. In the quick tier truncation points and split
// offsets of long messages are subsampled (seeded); thorough enumerates all of them.
func (mo *c20Monitor) runGrid(r *rand.Rand) {
	run, cfg := mo.run, mo.cfg
	full := run.Thorough()
	msgs := 0
	c20Grid(cfg, r, func(m *c20Msg) {
		msgs++
		n := len(m.B)
		// truncation points: 0..n-1 truncated, n = complete (+ sentinel)
		var ts []int
		if full || n <= 100 {
			for t := 0; t <= n; t++ {
				ts = append(ts, t)
			}
		} else {
			seen := map[int]bool{}
			add := func(t int) {
				if t >= 0 && t <= n && !seen[t] {
					seen[t] = true
					ts = append(ts, t)
				}
			}
			add(0)
			add(n)
			for _, b := range m.Bounds {
				add(b - 1)
				add(b)
				add(b + 1)
			}
			for i := 0; i < 8; i++ {
				add(r.Intn(n))
			}
			sort.Ints(ts)
		}
		run.Case(cfg.Name+"|"+m.Class, map[string]any{"message_hex": c20Hex(m.B)})
		// complete message first, so that the first witness of a signature is a whole message
		for i := len(ts) - 1; i >= 0; i-- {
			t := ts[i]
			var stream []byte
			if t == n {
				stream = append(append([]byte(nil), m.B...), c20Sentinel...)
			} else {
				stream = append([]byte(nil), m.B[:t]...)
			}
			v := c20RefTCP(cfg, stream)
			total := len(stream)
			tc := c20TruncClass(m, t)
			var nat []int
			for _, c := range m.MsgCuts {
				if c < total {
					nat = append(nat, c)
				}
			}
			ds := []c20Delivery{{Kind: "natural", Cuts: nat}, {Kind: "whole"}, {Kind: "bytewise", ByteWise: true}}
			// two-chunk deliveries: all offsets for complete messages; for truncated ones
			// all offsets when short, boundary offsets otherwise
			for _, k := range c20SplitPoints(m, total, full && t == n, full, r) {
				ds = append(ds, c20Delivery{Kind: "split", Cuts: []int{k}})
			}
			for _, d := range ds {
				mo.check(stream, d, &v, m.Class+"|trunc="+tc)
			}
			run.Distinct(fmt.Sprintf("%s|%s|%s|atyp=%d|trunc=%s", cfg.Name, c20AcceptName[v.Accept], v.Why, v.Atyp, tc))
			if t == n && msgs%97 == 0 {
				run.Sample(map[string]any{"server": cfg.Name, "class": m.Class, "stream_hex": c20Hex(stream), "reference": v.Why})
			}
		}
	})
	run.Count("grid_messages", int64(msgs))
}

// runRandom: seeded random byte strings and mutated well-formed messages, random chunking.
func (mo *c20Monitor) runRandom(r *rand.Rand, n int) {
	run, cfg := mo.run, mo.cfg
	for i := 0; i < n; i++ {
		var stream []byte
		kind := r.Intn(4)
		switch kind {
		case 0:
			stream = c20RandBytes(r, r.Intn(48))
			if len(stream) > 0 && r.Intn(2) == 0 {
				stream[0] = 5
			}
		default:
			m := &c20Msg{}
			if r.Intn(5) == 0 {
				nm := 1 + r.Intn(6)
				set := c20RandBytes(r, nm)
				for j := range set {
					set[j] %= 4
				}
				m.greeting(5, nm, set)
				if c20Has(set, 2) && r.Intn(2) == 0 {
					m.auth(1, cfg.User, cfg.Pass)
				}
			} else {
				cfg.goodGreeting(m)
			}
			atyp := []byte{1, 3, 4, 1, 3, 4, 0, 2, 5}[r.Intn(9)]
			cmd := []byte{1, 1, 1, 3, 2, 0, 9}[r.Intn(7)]
			m.request(r, 5, cmd, byte(r.Intn(8)/7), atyp, r.Intn(70), r.Intn(65536), r.Intn(2) == 0)
			stream = append([]byte(nil), m.B...)
			stream = append(stream, c20RandBytes(r, r.Intn(12))...)
			if kind >= 2 { // mutate
				for k := 0; k < 1+r.Intn(3) && len(stream) > 0; k++ {
					p := r.Intn(len(stream))
					switch r.Intn(3) {
					case 0:
						stream[p] = byte(r.Intn(256))
					case 1:
						stream = append(stream[:p], stream[p+1:]...)
					default:
						stream = append(stream[:p], append([]byte{byte(r.Intn(256))}, stream[p:]...)...)
					}
				}
			}
		}
		v := c20RefTCP(cfg, stream)
		var d c20Delivery
		switch r.Intn(4) {
		case 0:
			d = c20Delivery{Kind: "whole"}
		case 1:
			d = c20Delivery{Kind: "bytewise", ByteWise: true}
		default:
			d = c20Delivery{Kind: "randchunks"}
			off := 0
			for off < len(stream) {
				off += 1 + r.Intn(9)
				if off < len(stream) {
					d.Cuts = append(d.Cuts, off)
				}
			}
		}
		if i%64 == 0 {
			run.Case(cfg.Name+"|random", map[string]any{"i": i, "stream_hex": c20Hex(stream)})
		}
		run.Count("random_cases", 1)
		mo.check(stream, d, &v, "random")
		run.Distinct(fmt.Sprintf("%s|random|%s|%s|atyp=%d", cfg.Name, c20AcceptName[v.Accept], v.Why, v.Atyp))
	}
}
