//go:build verif && verif_c20

package adapter

import (
	"context"
	"fmt"
	"testing"

	vk "tunnox-core/internal/verifkit"
)

// The adapter's connection handler (handleSocksConnection) runs handleHandshake and then
// handleRequest on the same connection; the harness does exactly that on the scripted
// connection and records how many bytes the negotiation phase had consumed when it returned.

func c20AdapterExec(a *SocksAdapter) func(conn *c20Conn, o *c20Obs) {
	return func(conn *c20Conn, o *c20Obs) {
		o.NegConsumed = 0
		err := a.handleHandshake(conn)
		o.NegConsumed = conn.off
		if err != nil {
			o.Failed, o.Err = true, "handleHandshake: "+err.Error()
			return
		}
		o.NegOK = true
		target, err := a.handleRequest(conn)
		if err != nil {
			o.Failed, o.Err = true, "handleRequest: "+err.Error()
			return
		}
		o.Cmd, o.Target, o.HasTarget = 0x01, target, true
	}
}

const c20AdapterRule = "every message of the structured grid VER{0,4,5,6,255} x NMETHODS{0,1,2,3,255} x method sets (none acceptable / 00 first / 00 last / 02 first / 02 last / both orders / FF), " +
	"with and without the RFC 1929 message the selected method calls for; (auth server) sub-negotiation VER{0,1,2,5} x 9 credential variants, and the length sweep (ULEN,PLEN) in {0,1,2,127,128,254,255}^2 + diagonals ULEN=0..255 with PLEN=255-ULEN and PLEN=255 + sums 254/256/257/509/510 (a second server configured with 255-byte credentials makes (255,255) the accepting pair); and, behind a well-formed negotiation, " +
	"VER x CMD{0,1,2,3,4,255} x RSV{0,1} x ATYP{0,1,3,4,5,255} x name length{0,1,2,3,63,255} x port{0,1,65535}; cut at every truncation point (complete messages are followed by an 8-byte sentinel), " +
	"each delivered as: one chunk per message, one chunk for everything (greeting+request coalesced), one byte per read, two chunks split at every offset (streams > 40 bytes [thorough: > 100 bytes, unless complete]: field boundaries +-1, offsets 256..258 and 6 seeded offsets; the quick tier subsamples the truncation points of messages > 100 bytes the same way); plus seeded random / mutated streams in random chunking. " +
	"The real handleHandshake (+handlePasswordAuth) and handleRequest run back to back on a scripted synchronous net.Conn, as handleSocksConnection runs them; an independent RFC 1928/1929 reference parser decides " +
	"accept/reject, address, port, message lengths and the mandated output (method FF, status != 0, REP 07/08). The returned \"host:port\" must split (net.SplitHostPort, as net.Dial does) into the RFC address and port. " +
	"RSV != 0, zero-length names / credentials are implementation-defined: either answer accepted. distinct = (reference verdict class, ATYP, truncation class) and, for agreed accepts, (ATYP, name-length class, CMD, delivery)."

func c20AdapterFloors(run *vk.Run, auth bool) {
	run.Floor("agree_accept", 1000)
	run.Floor("agree_reject", 5000)
	run.Floor("sentinel_checked", 1000)
	run.Floor("mandated_reply_checked", 200)
	run.Floor("negotiation_boundary_checked", 2000)
	ws := []string{"ok", "no-acceptable-method", "cmd-unsupported", "atyp-unsupported", "trunc-address", "trunc-greeting", "trunc-request-header", "greeting-bad-ver", "request-bad-ver", "nmethods-0"}
	if auth {
		ws = append(ws, "trunc-auth", "auth-bad-ver", "auth-wrong-credentials")
	}
	for _, w := range ws {
		run.Floor("why:"+w, 10)
	}
	for _, a := range []int{1, 3} {
		run.Floor(fmt.Sprintf("accepted_atyp_%d", a), 100)
	}
	for _, k := range []string{"natural", "whole", "bytewise", "split"} {
		run.Floor("cases_"+k, 1000)
	}
}

func TestVerifC20AdapterNoAuth(t *testing.T) {
	vk.Quiet()
	run := vk.Start(t, "C20", "adapter-noauth")
	defer run.Finish()
	run.Rule(c20AdapterRule)
	ctx, cancel := context.WithCancel(context.Background())
	defer cancel()
	a := NewSocksAdapter(ctx, nil, nil)
	defer a.Close()
	if a.authEnabled {
		t.Fatalf("harness: adapter without credentials has authEnabled")
	}
	cfg := &c20Cfg{Target: "adapter", Name: "adapter", Accept: []byte{0x00}, Cmds: []byte{0x01}}
	mo := &c20Monitor{run: run, cfg: cfg, exec: c20AdapterExec(a)}
	mo.runGrid(run.Rand("grid"))
	run.Exhaustive(run.Thorough())
	mo.runRandom(run.Rand("random"), run.Pick(50000, 1000000))
	c20AdapterFloors(run, false)
}

func TestVerifC20AdapterAuth(t *testing.T) {
	vk.Quiet()
	run := vk.Start(t, "C20", "adapter-auth")
	defer run.Finish()
	run.Rule(c20AdapterRule)
	ctx, cancel := context.WithCancel(context.Background())
	defer cancel()
	a := NewSocksAdapter(ctx, nil, &SocksConfig{Username: "verif", Password: "s3cret"})
	defer a.Close()
	if !a.authEnabled {
		t.Fatalf("harness: adapter with credentials has authEnabled == false")
	}
	cfg := &c20Cfg{Target: "adapter", Name: "adapter-auth", Accept: []byte{0x02}, Cmds: []byte{0x01}, User: "verif", Pass: "s3cret"}
	mo := &c20Monitor{run: run, cfg: cfg, exec: c20AdapterExec(a)}
	mo.runGrid(run.Rand("grid"))
	run.Exhaustive(run.Thorough())
	mo.runRandom(run.Rand("random"), run.Pick(50000, 1000000))
	c20AdapterFloors(run, true)
}

// Same server with maximum-length credentials: ULEN = PLEN = 255 is the ACCEPTING message.
func TestVerifC20AdapterAuthMaxLen(t *testing.T) {
	vk.Quiet()
	run := vk.Start(t, "C20", "adapter-auth-maxlen")
	defer run.Finish()
	run.Rule(c20AdapterRule + " [this run: server configured with a 255-byte user name and a 255-byte password; greeting and RFC 1929 grids only]")
	ctx, cancel := context.WithCancel(context.Background())
	defer cancel()
	user, pass := make([]byte, 255), make([]byte, 255)
	for i := range user {
		user[i] = byte('a' + i%26)
		pass[i] = byte('0' + (i*7)%75)
	}
	a := NewSocksAdapter(ctx, nil, &SocksConfig{Username: string(user), Password: string(pass)})
	defer a.Close()
	cfg := &c20Cfg{Target: "adapter", Name: "adapter-auth-maxlen", Accept: []byte{0x02}, Cmds: []byte{0x01}, User: string(user), Pass: string(pass), AuthOnly: true}
	mo := &c20Monitor{run: run, cfg: cfg, exec: c20AdapterExec(a)}
	mo.runGrid(run.Rand("grid"))
	run.Exhaustive(run.Thorough())
	run.Floor("agree_accept", 50)
	run.Floor("agree_reject", 5000)
	run.Floor("sentinel_checked", 50)
	for _, w := range []string{"ok", "trunc-auth", "auth-wrong-credentials", "auth-empty-field", "auth-bad-ver"} {
		run.Floor("why:"+w, 10)
	}
}
