//go:build verif && verif_c20

package socks5

// C20 — the Listener's FULL accept path (handleConnection: Handshake, then the dispatch
// to handleConnect / handleUDPAssociate and the reply), not only Handshake.
//
// The seams are doubled: TunnelCreator.CreateSOCKS5Tunnel and
// UDPRelayCreator.CreateUDPRelay record what they were asked for and succeed / fail as the
// case prescribes. For every connection the reference parser (c20RefTCP) decides from the
// connection's own bytes whether the request has to be refused (then the mandated refusal
// bytes are judged as in the Handshake monitor) or dispatched; when dispatched
//   * the host / port handed to the tunnel creator must be the RFC address (names
//     byte-wise) and port of the request, the command must match;
//   * exactly one well-formed reply follows the method selection: REP = 00 iff the tunnel /
//     relay was created, a non-zero REP when the creator failed, REP = 07 for UDP ASSOCIATE
//     on a listener without UDP support; for a successful UDP ASSOCIATE BND.PORT must be the
//     relay's port and BND.ADDR the relay's address or the unspecified address (BND of other
//     replies is only recorded: the RFC gives it no binding meaning there);
//   * nothing panics (the per-connection goroutine of the real listener has no recover).
//
// Workloads on ONE Listener: (1) sequential grid — CONNECT / UDP ASSOCIATE with ATYP 03 and
// EVERY name length 0..255, bracketed IPv6 literals and other odd names as DOMAINNAME, the
// request grid of the Handshake monitor, UDP associations with IPv4 and IPv6 relay
// addresses interleaved with rejections; (2) concurrent — a connection whose reply Write is
// blocked (slow reader; the scripted connection signals when the real code is inside
// Write) while 1..3 other connections are answered, then it is released.

import (
	"bytes"
	"context"
	"errors"
	"fmt"
	"math/rand"
	"net"
	"sync"
	"testing"
	"time"

	vk "tunnox-core/internal/verifkit"
)

type c20AccCall struct {
	cmd  byte
	host string
	port int
	n    int
}

type c20AccCase struct {
	stream  []byte
	v       c20Verdict
	conn    *c20Conn
	obs     c20Obs
	done    chan struct{}
	succeed bool         // what the creator double does for this connection
	bind    *net.UDPAddr // relay address handed out on success
	call    *c20AccCall
	class   string
	noUDP   bool
}

type c20AccWorld struct {
	mu    sync.Mutex
	cases map[net.Conn]*c20AccCase
	stray int
}

func (w *c20AccWorld) lookup(conn net.Conn) *c20AccCase {
	w.mu.Lock()
	defer w.mu.Unlock()
	c := w.cases[conn]
	if c == nil {
		w.stray++
	}
	return c
}

func (w *c20AccWorld) CreateSOCKS5Tunnel(userConn net.Conn, mappingID string, targetClientID int64, targetHost string, targetPort int, secretKey string, onSuccess func()) error {
	c := w.lookup(userConn)
	if c == nil {
		return errors.New("c20: unknown connection")
	}
	w.mu.Lock()
	if c.call == nil {
		c.call = &c20AccCall{cmd: 0x01, host: targetHost, port: targetPort}
	}
	c.call.n++
	w.mu.Unlock()
	if !c.succeed {
		return errors.New("c20: tunnel cannot be created")
	}
	if onSuccess != nil {
		onSuccess()
	}
	return nil
}

func (w *c20AccWorld) CreateUDPRelay(tcpConn net.Conn, mappingID string, targetClientID int64, secretKey string) (*net.UDPAddr, error) {
	c := w.lookup(tcpConn)
	if c == nil {
		return nil, errors.New("c20: unknown connection")
	}
	w.mu.Lock()
	if c.call == nil {
		c.call = &c20AccCall{cmd: 0x03}
	}
	c.call.n++
	w.mu.Unlock()
	if !c.succeed {
		return nil, errors.New("c20: relay cannot be created")
	}
	return c.bind, nil
}

type c20AccMon struct {
	mo     *c20Monitor // listener with UDP support
	moNo   *c20Monitor // listener without UDP support (UDP ASSOCIATE is an unsupported command there)
	l, lNo *Listener
	w      *c20AccWorld
	run    *vk.Run
}

func (am *c20AccMon) newCase(r *rand.Rand, stream []byte, class string, noUDP bool) *c20AccCase {
	cfg := am.mo.cfg
	if noUDP {
		cfg = am.moNo.cfg
	}
	c := &c20AccCase{stream: stream, class: class, noUDP: noUDP, succeed: r.Intn(4) != 0}
	c.v = c20RefTCP(cfg, stream)
	c.conn = &c20Conn{data: stream, mark: c.v.GreetEnd, byteWise: r.Intn(3) == 0}
	switch r.Intn(3) {
	case 0:
		c.bind = &net.UDPAddr{IP: net.IPv4(127, 0, 0, byte(1+r.Intn(200))), Port: 1024 + r.Intn(60000)}
	case 1:
		c.bind = &net.UDPAddr{IP: net.IPv4(byte(1+r.Intn(222)), byte(r.Intn(256)), byte(r.Intn(256)), byte(1+r.Intn(254))), Port: 1 + r.Intn(65535)}
	default:
		c.bind = &net.UDPAddr{IP: net.ParseIP(fmt.Sprintf("2001:db8::%x", 1+r.Intn(65000))), Port: 1024 + r.Intn(60000)}
	}
	am.w.mu.Lock()
	am.w.cases[c.conn] = c
	am.w.mu.Unlock()
	return c
}

func (am *c20AccMon) start(c *c20AccCase) {
	l := am.l
	if c.noUDP {
		l = am.lNo
	}
	c.done = make(chan struct{})
	go func() {
		defer close(c.done)
		c.obs = c20Exec(c.conn, func(conn *c20Conn, o *c20Obs) { l.handleConnection(conn) })
	}()
}

func (am *c20AccMon) wait(c *c20AccCase) bool {
	select {
	case <-c.done:
		return true
	case <-time.After(30 * time.Second):
		am.run.Count("watchdog", 1)
		return false
	}
}

// judge compares one finished connection with the reference.
func (am *c20AccMon) judge(c *c20AccCase, kind string) {
	run := am.run
	mo := am.mo
	if c.noUDP {
		mo = am.moNo
	}
	am.w.mu.Lock()
	delete(am.w.cases, c.conn)
	call := c.call
	am.w.mu.Unlock()
	v := &c.v
	o := &c.obs
	full := c.conn.out
	d := c20Delivery{Kind: kind, ByteWise: c.conn.byteWise}
	detail := mo.mkDetail(c.conn, c.stream, d, v, c.class)
	det := func(extra map[string]any) map[string]any {
		m := detail(o, extra)
		m["all_written_hex"] = c20Hex(full)
		m["creator_double"] = map[string]any{"succeeds": c.succeed, "relay_address": c.bind.String(), "called": call != nil}
		if call != nil {
			m["dispatched"] = map[string]any{"cmd": call.cmd, "host": fmt.Sprintf("%q", call.host), "port": call.port, "calls": call.n}
		}
		return m
	}
	tgt := "C20:" + mo.cfg.Target
	if o.Panic == "" && !o.Spin {
		if call == nil {
			o.Failed, o.Err = true, "request was not dispatched to a tunnel / relay creator"
		} else {
			o.Cmd, o.Host, o.Port = call.cmd, call.host, call.port
			if call.cmd == 0x03 { // the relay creator is not told a destination
				o.Host, o.Port = c20RefHost(v), v.Port
			}
			if bytes.HasPrefix(full, v.Prefix) {
				c.conn.out = full[:len(v.Prefix)] // the reply is judged below
			}
		}
	}
	before := run.Violations()
	mo.judge(c.conn, o, c.stream, d, v, c.class, func(_ *c20Obs, extra map[string]any) map[string]any { return det(extra) })
	c.conn.out = full
	if call == nil || o.Panic != "" || o.Spin || v.Accept == c20MustNot || run.Violations() != before {
		return
	}
	// ---- the reply of a dispatched request
	run.Count("dispatched", 1)
	run.Count(fmt.Sprintf("dispatched_cmd_%d", call.cmd), 1)
	if call.n != 1 {
		run.Violation(fmt.Sprintf("%s|dispatched-%d-times|cmd=%d", tgt, call.n, call.cmd), det(nil))
	}
	if !bytes.HasPrefix(full, v.Prefix) {
		return // reported by judge (output-on-accept)
	}
	reply := full[len(v.Prefix):]
	want := "00"
	if !c.succeed {
		want = "nonzero"
	}
	got := ""
	switch {
	case len(reply) == 0:
		got = "none"
	case c20ReplyLen(reply) != len(reply):
		got = "malformed"
	case c.succeed && reply[1] != 0x00, !c.succeed && reply[1] == 0x00:
		got = fmt.Sprintf("rep=0x%02x", reply[1])
	}
	run.Count("dispatch_reply_checked", 1)
	if got != "" {
		run.Violation(fmt.Sprintf("%s|reply|cmd=%d|want=%s", tgt, call.cmd, want), det(map[string]any{"reply_hex": c20Hex(reply), "got": got}))
		return
	}
	// BND of the reply
	var bndIP net.IP
	var bndPort int
	switch reply[3] {
	case 0x01:
		bndIP, bndPort = net.IP(reply[4:8]), int(reply[8])<<8|int(reply[9])
	case 0x04:
		bndIP, bndPort = net.IP(reply[4:20]), int(reply[20])<<8|int(reply[21])
	}
	if call.cmd == 0x03 && c.succeed {
		run.Count("udp_associate_bnd_checked", 1)
		if c.bind.IP.To4() == nil {
			run.Count("udp_associate_bnd_checked_ipv6_relay", 1)
		}
		if bndIP == nil || bndPort != c.bind.Port || !(bndIP.Equal(c.bind.IP) || bndIP.IsUnspecified()) {
			run.Violation(tgt+"|reply-bnd|cmd=3", det(map[string]any{"reply_hex": c20Hex(reply), "bnd": fmt.Sprintf("%v:%d", bndIP, bndPort),
				"what": "the UDP ASSOCIATE reply does not designate the relay (BND.PORT = relay port, BND.ADDR = relay address or unspecified)"}))
			return
		}
	} else if bndIP != nil && !(bndIP.IsUnspecified() && bndPort == 0) {
		run.Count("observed_nonzero_bnd_in_other_reply", 1) // recorded only
	}
	dl := 0
	if v.Atyp == 0x03 {
		dl = len(v.Domain)
	}
	run.Distinct(fmt.Sprintf("accept-path|%s|cmd=%d|atyp=%d|len=%s|creator_ok=%v|udp=%v", kind, call.cmd, v.Atyp, c20LenClass(dl), c.succeed, !c.noUDP))
}

func c20AccStream(r *rand.Rand, cmd, atyp byte, name []byte, port int) []byte {
	m := &c20Msg{}
	m.greeting(5, 1, []byte{0})
	m.field(5)
	m.field(cmd)
	m.field(0)
	m.field(atyp)
	switch atyp {
	case 0x01:
		ip := c20RandBytes(r, 4)
		ip[0] = 11 + ip[0]%200 // never the relay's virtual DNS address 10.0.0.1
		m.field(ip...)
	case 0x04:
		m.field(c20RandBytes(r, 16)...)
	case 0x03:
		m.field(byte(len(name)))
		if len(name) > 0 {
			m.field(name...)
		}
	default:
		m.field(c20RandBytes(r, 4)...)
	}
	m.field(byte(port>>8), byte(port))
	return append(m.B, c20Sentinel...)
}

func TestVerifC20ListenerAcceptPath(t *testing.T) {
	vk.Quiet()
	run := vk.Start(t, "C20", "listener-accept-path")
	defer run.Finish()
	run.Rule("real Listener.handleConnection on a scripted connection with recording tunnel-creator / relay-creator doubles (succeed 3 of 4 times; relay addresses IPv4 and IPv6), two listeners (with / without UDP support). " +
		"(1) sequential: CONNECT and UDP ASSOCIATE with ATYP 03 and EVERY name length 0..255 (host-like and arbitrary octets), 30 odd names (bracketed IPv6 literals, '[', ']', '[]', IP literals, dots), every complete message of the Handshake monitor's request grid, in one chunk and byte-wise; " +
		"(2) concurrent: a connection whose reply Write is blocked (the scripted connection signals when the real code is inside Write) while 1..3 other connections complete their accept path, then released. " +
		"Oracle: reference parser per connection: refusals as in the Handshake monitor; dispatched requests: command, host (names byte-wise), port handed to the creator; exactly one well-formed reply, REP 00 iff the creator succeeded, 07 for UDP ASSOCIATE without UDP support; UDP ASSOCIATE BND designates the relay; no panic. " +
		"distinct = (workload, CMD, ATYP, name-length class, creator outcome, UDP support).")
	ctx, cancel := context.WithCancel(context.Background())
	defer cancel()
	w := &c20AccWorld{cases: map[net.Conn]*c20AccCase{}}
	l := NewListener(ctx, &ListenerConfig{ListenAddr: "127.0.0.1:0", MappingID: "c20", TargetClientID: 2, SecretKey: "k"}, w)
	l.SetUDPRelayCreator(w)
	defer l.Close()
	lNo := NewListener(ctx, &ListenerConfig{ListenAddr: "127.0.0.1:0", MappingID: "c20", TargetClientID: 2, SecretKey: "k"}, w)
	defer lNo.Close()
	cfgUDP := *c20ListenerCfg
	cfgUDP.Target, cfgUDP.Name = "listener-accept", "listener-accept"
	cfgNo := cfgUDP
	cfgNo.Name, cfgNo.Cmds = "listener-accept-noudp", []byte{0x01}
	am := &c20AccMon{run: run, w: w, l: l, lNo: lNo,
		mo: &c20Monitor{run: run, cfg: &cfgUDP}, moNo: &c20Monitor{run: run, cfg: &cfgNo}}
	r := run.Rand("accept")
	seq := func(stream []byte, class string, noUDP bool) {
		c := am.newCase(r, stream, class, noUDP)
		am.start(c)
		if am.wait(c) {
			am.judge(c, "accept-seq")
		}
	}

	// ---- (1a) every name length, CONNECT and UDP ASSOCIATE
	for dl := 0; dl <= 255; dl++ {
		for _, cmd := range []byte{1, 1, 3} {
			name := c20Name(r, dl, (dl+int(cmd))%2 == 0)
			class := fmt.Sprintf("every-length|cmd=%d|dlen=%d", cmd, dl)
			run.Case("accept|"+class, map[string]any{"name_hex": c20Hex(name)})
			seq(c20AccStream(r, cmd, 3, name, []int{0, 80, 443, 65535}[r.Intn(4)]), class, false)
			run.Count("every_length_cases", 1)
		}
	}
	// ---- (1b) odd names
	for _, nm := range []string{"[2001:db8::1]", "[::1]", "[]", "[", "]", "[a", "a]", "[[x]]", "][", "::1", "1.2.3.4", "[1.2.3.4]", ".", "..", "a.", ".a", "-", "a b", "a:80", "[::1]:80",
		"xn--p1ai", "localhost", "\x00", "\xff\xfe", "%", "a%25b", "10.0.0.1", "[10.0.0.1]", "0", "[fe80::1%eth0]"} {
		for _, cmd := range []byte{1, 3} {
			class := fmt.Sprintf("odd-name|cmd=%d|name=%q", cmd, nm)
			run.Case("accept|"+class, nil)
			seq(c20AccStream(r, cmd, 3, []byte(nm), 8080), class, false)
			run.Count("odd_name_cases", 1)
		}
	}
	// ---- (1c) the request grid (complete messages), both listeners
	gr := run.Rand("accept-grid")
	c20Grid(c20ListenerCfg, gr, func(m *c20Msg) {
		run.Case("accept|grid|"+m.Class, nil)
		stream := append(append([]byte(nil), m.B...), c20Sentinel...)
		seq(stream, "grid|"+m.Class, false)
		if gr.Intn(3) == 0 {
			seq(stream, "grid-noudp|"+m.Class, true)
		}
		run.Count("grid_messages", 1)
	})
	// ---- (1d) reply sequences: associations (IPv4 / IPv6 relay addresses) interleaved with rejections and CONNECTs
	nseq := run.Pick(3000, 30000)
	for i := 0; i < nseq; i++ {
		cmd := []byte{3, 3, 1, 1, 2, 9}[r.Intn(6)]
		atyp := []byte{1, 3, 4, 1, 3, 4, 0, 5}[r.Intn(8)]
		seq(c20AccStream(r, cmd, atyp, c20Name(r, 1+r.Intn(30), true), r.Intn(65536)), fmt.Sprintf("reply-sequence|i=%d", i), r.Intn(8) == 0)
		run.Count("reply_sequence_cases", 1)
	}

	// ---- (2) concurrent: one reply blocked in Write while others are answered
	nconc := run.Pick(2000, 20000)
	for si := 0; si < nconc && run.Violations() < 20; si++ {
		if si%50 == 0 {
			run.Case("accept|concurrent", map[string]any{"scenario": si})
		}
		pick := func() []byte {
			cmd := []byte{1, 1, 3, 3, 2, 9}[r.Intn(6)]
			atyp := []byte{1, 3, 4, 1, 3, 4, 0}[r.Intn(7)]
			return c20AccStream(r, cmd, atyp, c20Name(r, 1+r.Intn(30), true), r.Intn(65536))
		}
		x := am.newCase(r, pick(), fmt.Sprintf("concurrent|scenario=%d|role=blocked-in-reply-write", si), false)
		x.conn.wgate, x.conn.wparked, x.conn.wgateAtOut = make(chan struct{}), make(chan struct{}), 2
		am.start(x)
		blocked := false
		select {
		case <-x.conn.wparked:
			blocked = true
			run.Count("replies_blocked_in_write", 1)
		case <-x.done:
		case <-time.After(30 * time.Second):
			run.Count("watchdog", 1)
		}
		var others []*c20AccCase
		for i, n := 0, 1+r.Intn(3); i < n; i++ {
			y := am.newCase(r, pick(), fmt.Sprintf("concurrent|scenario=%d|role=answered-during-block", si), r.Intn(8) == 0)
			am.start(y)
			if am.wait(y) {
				others = append(others, y)
				if blocked {
					run.Count("replies_written_while_another_reply_blocked", 1)
				}
			}
		}
		close(x.conn.wgate)
		if am.wait(x) && !x.conn.gateWatchdog {
			am.judge(x, "accept-blocked")
			if blocked {
				run.Count("blocked_replies_judged", 1)
			}
		}
		for _, y := range others {
			am.judge(y, "accept-overlap")
		}
	}
	run.Count("stray_creator_calls", int64(w.stray))
	run.Floor("every_length_cases", 768)
	run.Floor("odd_name_cases", 60)
	run.Floor("grid_messages", 2000)
	run.Floor("reply_sequence_cases", int64(nseq))
	run.Floor("dispatched", int64(nseq)/3)
	run.Floor("dispatched_cmd_1", 1000)
	run.Floor("dispatched_cmd_3", 1000)
	run.Floor("dispatch_reply_checked", int64(nseq)/3)
	run.Floor("udp_associate_bnd_checked", 500)
	run.Floor("udp_associate_bnd_checked_ipv6_relay", 100)
	run.Floor("mandated_reply_checked", 500)
	run.Floor("replies_blocked_in_write", int64(nconc)*8/10)
	run.Floor("replies_written_while_another_reply_blocked", int64(nconc)*8/10)
	run.Floor("blocked_replies_judged", int64(nconc)*8/10)
	run.Floor("may_accepted:domain-len-0", 1)
}
