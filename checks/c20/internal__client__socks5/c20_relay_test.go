//go:build verif && verif_c20

package socks5

// C20 — the UDP-associate RECEIVE PATH of the real UDPRelay (readLoop -> handlePacket ->
// session / DNS handler), not just the pure header functions.
//
// A real relay is bound to a loopback UDP socket; the harness is the application. The
// relay's seams are doubled: UDPTunnelCreator.CreateUDPTunnel / UDPTunnelConn.SendPacket
// (the tunnel towards the destination) and DNSQueryHandler.QueryDNS (port-53 datagrams).
// Every double blocks on the burst's gate, so the forwards of a burst are held while the
// remaining datagrams of the burst arrive. The last datagram of a burst is a marker (a
// port-53 datagram, which does not wait for the session table): when the DNS double sees
// it, the relay has read every earlier datagram of the burst (readLoop is sequential), and
// the gate is opened — a logical, not a timed, release.
//
// Oracle: each forwarded (destination host, port, payload) must be exactly what the
// independent reference parser (c20RefUDP) yields for ONE datagram that was sent — every
// payload carries a unique (relay, burst, index) tag, so the pairing is by content;
// nothing may be forwarded that was not sent, nothing twice, nothing the reference must
// reject. Datagrams that never show up are counted (UDP may drop), never a violation.

import (
	"bytes"
	"context"
	"encoding/binary"
	"errors"
	"fmt"
	"math/rand"
	"net"
	"strings"
	"sync"
	"sync/atomic"
	"testing"
	"time"

	vk "tunnox-core/internal/verifkit"
)

type c20Fwd struct {
	Via     string // "tunnel" | "dns"
	Host    string
	Port    int
	Payload []byte
}

type c20RelayWorld struct {
	mu       sync.Mutex
	gate     chan struct{} // current burst's gate
	fwd      []c20Fwd
	marker   chan []byte // marker payloads seen by the DNS double
	watchdog atomic.Int64
	creates  atomic.Int64
	held     atomic.Int64 // calls that actually waited on a closed-later gate
}

func (w *c20RelayWorld) wait() {
	w.mu.Lock()
	g := w.gate
	w.mu.Unlock()
	if g == nil {
		return
	}
	select {
	case <-g:
		return
	default:
	}
	w.held.Add(1)
	select {
	case <-g:
	case <-time.After(20 * time.Second):
		w.watchdog.Add(1)
	}
}

func (w *c20RelayWorld) record(f c20Fwd) {
	f.Payload = append([]byte(nil), f.Payload...) // what the tunnel would put on the wire now
	w.mu.Lock()
	w.fwd = append(w.fwd, f)
	w.mu.Unlock()
}

func (w *c20RelayWorld) count() int {
	w.mu.Lock()
	defer w.mu.Unlock()
	return len(w.fwd)
}

type c20FakeTunnel struct {
	w      *c20RelayWorld
	host   string
	port   int
	closed chan struct{}
	once   sync.Once
}

func (t *c20FakeTunnel) SendPacket(data []byte) error {
	t.w.wait()
	t.w.record(c20Fwd{Via: "tunnel", Host: t.host, Port: t.port, Payload: data})
	return nil
}
func (t *c20FakeTunnel) ReceivePacket() ([]byte, error) {
	<-t.closed
	return nil, errors.New("c20: tunnel closed")
}
func (t *c20FakeTunnel) Close() error { t.once.Do(func() { close(t.closed) }); return nil }

func (w *c20RelayWorld) CreateUDPTunnel(mappingID string, targetClientID int64, targetHost string, targetPort int, secretKey string) (UDPTunnelConn, error) {
	w.creates.Add(1)
	w.wait() // slow tunnel set-up: further datagrams arrive meanwhile
	return &c20FakeTunnel{w: w, host: targetHost, port: targetPort, closed: make(chan struct{})}, nil
}

var c20MarkerMagic = []byte("C20-MARK")

func (w *c20RelayWorld) QueryDNS(targetClientID int64, dnsServer string, rawQuery []byte) ([]byte, error) {
	if bytes.HasPrefix(rawQuery, c20MarkerMagic) {
		cp := append([]byte(nil), rawQuery...)
		select {
		case w.marker <- cp:
		default:
		}
		return nil, errors.New("c20: marker")
	}
	w.wait()
	w.record(c20Fwd{Via: "dns", Host: strings.TrimSuffix(dnsServer, ":53"), Port: 53, Payload: rawQuery})
	return nil, errors.New("c20: no dns answer in this harness")
}

type c20Sent struct {
	Relay, Burst, Idx int
	Datagram         []byte
	Ref              c20UDPVerdict
	Matched          int
}

type c20Dest struct {
	atyp byte
	addr []byte // 4 / 16 bytes, or the name
	port int
}

func c20RelayDests(r *rand.Rand) []c20Dest {
	var ds []c20Dest
	n := 3 + r.Intn(8)
	for i := 0; i < n; i++ {
		port := []int{53, 53, 80, 443, 4000 + r.Intn(1000), 1 + r.Intn(65535)}[r.Intn(6)]
		switch r.Intn(3) {
		case 0:
			ds = append(ds, c20Dest{1, []byte{192, 0, 2, byte(1 + r.Intn(250))}, port})
		case 1:
			a := c20RandBytes(r, 16)
			a[0], a[1] = 0x20, 0x01
			ds = append(ds, c20Dest{4, a, port})
		default:
			ds = append(ds, c20Dest{3, c20Name(r, 1+r.Intn(40), true), port})
		}
	}
	return ds
}

func (d c20Dest) header(rsv0, rsv1, frag byte) []byte {
	h := []byte{rsv0, rsv1, frag, d.atyp}
	if d.atyp == 3 {
		h = append(h, byte(len(d.addr)))
	}
	h = append(h, d.addr...)
	return append(h, byte(d.port>>8), byte(d.port))
}

// c20TaggedPayload: 12-byte unique tag + position-coded filler.
func c20TaggedPayload(relay, burst, idx, n int) []byte {
	if n < 12 {
		n = 12
	}
	p := make([]byte, 12, n)
	copy(p, "c20:")
	binary.BigEndian.PutUint16(p[4:], uint16(relay))
	binary.BigEndian.PutUint16(p[6:], uint16(burst))
	binary.BigEndian.PutUint32(p[8:], uint32(idx))
	return append(p, vk.Pattern(uint64(relay)<<32|uint64(burst)<<16|uint64(idx), 12, n-12)...)
}

func TestVerifC20UDPRelayPath(t *testing.T) {
	vk.Quiet()
	run := vk.Start(t, "C20", "udp-relay-path")
	defer run.Finish()
	run.Rule("per relay (a real UDPRelay on a loopback UDP socket, fresh set of 3..10 destinations: IPv4 / IPv6 / names, ports incl. 53): 6 bursts of 2..64 datagrams sent back to back, " +
		"each with a unique tagged position-coded payload of 12..1400 bytes, ~8% of them refusable or implementation-defined (FRAG != 0, RSV != 0, undefined ATYP, truncated header); the tunnel-creator, tunnel SendPacket and DNS-handler " +
		"doubles hold every forward until the burst's final marker datagram has been seen by the DNS double (= the relay has read the whole burst), then release. " +
		"Oracle: every forwarded (host, port, payload) equals what the independent reference parser yields for exactly one sent datagram (paired by payload tag); nothing unsent, duplicated or must-reject is forwarded. " +
		"distinct = (ATYP, via tunnel/dns, payload-length class, burst-size class) of correctly forwarded datagrams.")
	r := run.Rand("relay")
	relays := run.Pick(100, 1000)
	violCap := 0
	for ri := 0; ri < relays && violCap < 20; ri++ {
		w := &c20RelayWorld{marker: make(chan []byte, 4)}
		ctx, cancel := context.WithCancel(context.Background())
		tcpA, tcpB := vk.BufPipe("127.0.0.1:40001", "127.0.0.1:1080")
		relay, err := NewUDPRelay(ctx, tcpA, &UDPRelayConfig{MappingID: "c20", TargetClientID: 2, SecretKey: "k"}, w)
		if err != nil {
			cancel()
			t.Fatalf("harness: NewUDPRelay: %v", err)
		}
		relay.SetDNSHandler(w)
		app, err := net.DialUDP("udp", nil, relay.GetBindAddr())
		if err != nil {
			relay.Close()
			cancel()
			t.Fatalf("harness: dial relay: %v", err)
		}
		dests := c20RelayDests(r)
		sent := map[string]*c20Sent{} // by payload
		markers := map[string]bool{}
		var order []*c20Sent
		expectMust := 0
		for bi := 0; bi < 6; bi++ {
			n := 2 + r.Intn(63)
			if r.Intn(3) == 0 {
				n = 2 + r.Intn(4)
			}
			run.Case("udp-relay|burst", map[string]any{"relay": ri, "burst": bi, "datagrams": n})
			gate := make(chan struct{})
			w.mu.Lock()
			w.gate = gate
			w.mu.Unlock()
			for i := 0; i < n; i++ {
				d := dests[r.Intn(len(dests))]
				pl := c20TaggedPayload(ri, bi, i, []int{12, 13, 16, 64, 100, 512, 1400, 12 + r.Intn(1389)}[r.Intn(8)])
				var dg []byte
				carries := true // the datagram contains pl
				switch r.Intn(50) {
				case 0:
					dg = append(d.header(0, 0, 1+byte(r.Intn(255))), pl...) // fragment
				case 1:
					dg = append(d.header(0, 1, 0), pl...) // RSV != 0
				case 2:
					bad := d
					bad.atyp = []byte{0, 2, 5, 255}[r.Intn(4)]
					dg = append(bad.header(0, 0, 0), pl...)
				case 3:
					h := d.header(0, 0, 0)
					dg = h[:r.Intn(len(h))] // truncated header, no payload
					carries = false
				default:
					dg = append(d.header(0, 0, 0), pl...)
				}
				s := &c20Sent{Relay: ri, Burst: bi, Idx: i, Datagram: dg, Ref: c20RefUDP(dg)}
				if carries {
					sent[string(pl)] = s
				}
				order = append(order, s)
				if s.Ref.Accept == c20Must {
					expectMust++
				}
				if _, err := app.Write(dg); err != nil {
					t.Fatalf("harness: udp write: %v", err)
				}
				run.Count("datagrams_sent", 1)
			}
			// marker: read by the relay after everything above
			mk := append(append([]byte(nil), c20MarkerMagic...), c20TaggedPayload(ri, bi, 1<<20, 12+r.Intn(1300))...)
			if _, err := app.Write(append(c20Dest{1, []byte{192, 0, 2, 253}, 53}.header(0, 0, 0), mk...)); err != nil {
				t.Fatalf("harness: udp write: %v", err)
			}
			markers[string(mk)] = true
			deadline := time.After(10 * time.Second)
		waitMarker:
			for {
				select {
				case got := <-w.marker:
					switch {
					case bytes.Equal(got, mk):
						run.Count("bursts_marker_seen", 1)
						break waitMarker
					case markers[string(got)]:
						run.Count("stale_marker", 1) // marker of an earlier burst that had timed out
					default:
						// a payload that starts like a marker but is none that was sent
						run.Violation("C20:udp-relay|marker-payload-altered", map[string]any{"relay": ri, "burst": bi, "want_hex": c20Hex(mk), "got_hex": c20Hex(got)})
						violCap++
					}
				case <-deadline:
					run.Count("watchdog", 1)
					break waitMarker
				}
			}
			close(gate)
			// wait (bounded) until the forwards of this burst have been made
			for k, last, same := 0, -1, 0; k < 5000 && w.count() < expectMust && same < 300; k++ {
				if c := w.count(); c == last {
					same++
				} else {
					last, same = c, 0
				}
				time.Sleep(time.Millisecond)
			}
			run.Count("bursts", 1)
			run.Max("burst_size_max", int64(n))
		}
		// settle: let implementation-defined datagrams (if forwarded) land
		for k, last := 0, -1; k < 50; k++ {
			c := w.count()
			if c == last && c >= expectMust {
				break
			}
			last = c
			time.Sleep(2 * time.Millisecond)
		}
		app.Close()
		relay.Close()
		tcpB.Close()
		tcpA.Close()
		cancel()
		run.Count("watchdog", w.watchdog.Load())
		run.Count("tunnels_created", w.creates.Load())
		run.Count("forwards_held_at_gate", w.held.Load())

		// ---- oracle
		w.mu.Lock()
		fwd := append([]c20Fwd(nil), w.fwd...)
		w.mu.Unlock()
		for _, f := range fwd {
			run.Eval(1)
			det := map[string]any{"relay": ri, "via": f.Via, "forwarded_to": fmt.Sprintf("%s:%d", f.Host, f.Port), "forwarded_payload_len": len(f.Payload), "forwarded_payload_hex": c20Hex(f.Payload)}
			s := sent[string(f.Payload)]
			if s == nil {
				// describe what it is made of, if the tag is readable
				if len(f.Payload) >= 12 && string(f.Payload[:4]) == "c20:" {
					det["payload_tag"] = fmt.Sprintf("relay=%d burst=%d idx=%d", binary.BigEndian.Uint16(f.Payload[4:]), binary.BigEndian.Uint16(f.Payload[6:]), binary.BigEndian.Uint32(f.Payload[8:]))
				}
				for _, c := range order {
					if c.Ref.Accept != c20MustNot && c.Ref.Port == f.Port && c.Ref.hostMatches(f.Host) && len(c.Ref.Payload) == len(f.Payload) && c.Matched == 0 {
						det["candidate_sent_datagram"] = map[string]any{"burst": c.Burst, "idx": c.Idx, "payload_hex": c20Hex(c.Ref.Payload)}
						break
					}
				}
				run.Violation("C20:udp-relay|forwarded-payload-not-sent", det)
				violCap++
				continue
			}
			det["sent"] = map[string]any{"burst": s.Burst, "idx": s.Idx, "datagram_hex": c20Hex(s.Datagram), "reference": map[string]any{
				"accept": c20AcceptName[s.Ref.Accept], "why": s.Ref.Why, "host": fmt.Sprintf("%q", s.Ref.hostString()), "port": s.Ref.Port}}
			s.Matched++
			switch {
			case s.Ref.Accept == c20MustNot:
				run.Violation("C20:udp-relay|invalid-forwarded|why="+s.Ref.Why, det)
				violCap++
			case s.Matched > 1:
				run.Violation("C20:udp-relay|forwarded-twice", det)
				violCap++
			case f.Port != s.Ref.Port || !s.Ref.hostMatches(f.Host):
				run.Violation(fmt.Sprintf("C20:udp-relay|misrouted|atyp=%d", s.Ref.Atyp), det)
				violCap++
			default:
				run.Count("forwards_correct", 1)
				run.Count("forwards_correct_"+f.Via, 1)
				bs := "small"
				if s.Idx >= 8 {
					bs = "deep"
				}
				run.Distinct(fmt.Sprintf("relay|atyp=%d|%s|len=%s|%s", s.Ref.Atyp, f.Via, c20LenClass(len(f.Payload)/16), bs))
			}
		}
		for _, s := range order {
			switch {
			case s.Ref.Accept == c20Must && s.Matched == 0:
				run.Count("not_forwarded", 1)
			case s.Ref.Accept == c20May && s.Matched > 0:
				run.Count("may_forwarded:"+s.Ref.Why, 1)
			case s.Ref.Accept == c20May:
				run.Count("may_dropped:"+s.Ref.Why, 1)
			case s.Ref.Accept == c20MustNot:
				run.Count("refusable_sent", 1)
			}
		}
		if ri < 2 {
			run.Sample(map[string]any{"relay": ri, "destinations": len(dests), "datagrams": len(order), "forwarded": len(fwd)})
		}
	}
	run.Floor("forwards_correct", int64(relays)*30)
	run.Floor("forwards_correct_tunnel", int64(relays)*5)
	run.Floor("forwards_correct_dns", int64(relays))
	run.Floor("forwards_held_at_gate", int64(relays)*6)
	run.Floor("bursts_marker_seen", int64(relays)*6*9/10)
	run.Floor("refusable_sent", 10)
}
