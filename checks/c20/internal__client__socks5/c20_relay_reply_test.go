//go:build verif && verif_c20

package socks5

// C20 — UDP round trip THROUGH the real relay including the REPLY direction: "re-encoding
// a parsed UDP header ... yields the same destination and payload". The tunnel double
// echoes: every payload forwarded for destination D comes back from D as "re:"+payload.
// The reply datagram the application receives must parse (independent reference parser)
// to destination D (IP by value, names byte-wise, port) with the payload intact.
//
// A reply that never arrives is decided logically, not by waiting: if the relay never asks
// the tunnel for data (ReceivePacket never called on a live tunnel that has a reply
// pending) and three goroutine dumps 100 ms apart show fewer goroutines parked in the
// double's ReceivePacket than there are live tunnels, unchanged, nothing can ever deliver
// that reply (the receive loop is started only when the session is created).

import (
	"bytes"
	"context"
	"errors"
	"fmt"
	"net"
	"runtime"
	"strings"
	"sync"
	"sync/atomic"
	"testing"
	"time"

	vk "tunnox-core/internal/verifkit"
)

type c20EchoTunnel struct {
	host      string
	port      int
	ch        chan []byte
	closed    chan struct{}
	once      sync.Once
	recvCalls atomic.Int64
	sent      atomic.Int64
}

func (t *c20EchoTunnel) SendPacket(data []byte) error {
	t.sent.Add(1)
	t.ch <- append([]byte("re:"), data...)
	return nil
}
func (t *c20EchoTunnel) ReceivePacket() ([]byte, error) {
	t.recvCalls.Add(1)
	select {
	case b := <-t.ch:
		return b, nil
	case <-t.closed:
		return nil, errors.New("c20: tunnel closed")
	}
}
func (t *c20EchoTunnel) Close() error { t.once.Do(func() { close(t.closed) }); return nil }

type c20EchoWorld struct {
	mu      sync.Mutex
	tunnels []*c20EchoTunnel
}

func (w *c20EchoWorld) CreateUDPTunnel(mappingID string, targetClientID int64, host string, port int, secret string) (UDPTunnelConn, error) {
	t := &c20EchoTunnel{host: host, port: port, ch: make(chan []byte, 256), closed: make(chan struct{})}
	w.mu.Lock()
	w.tunnels = append(w.tunnels, t)
	w.mu.Unlock()
	return t, nil
}

func c20ParkedInEchoReceive() int {
	buf := make([]byte, 1<<20)
	buf = buf[:runtime.Stack(buf, true)]
	n := 0
	for _, g := range strings.Split(string(buf), "\n\n") {
		if strings.Contains(g, "c20EchoTunnel).ReceivePacket") {
			n++
		}
	}
	return n
}

func TestVerifC20UDPRelayReplyPath(t *testing.T) {
	vk.Quiet()
	run := vk.Start(t, "C20", "udp-relay-reply-path")
	defer run.Finish()
	run.Rule("per relay (real UDPRelay on loopback UDP, echoing tunnel double): 3..6 destinations covering IPv4, IPv6 and names, 2..5 datagrams each with unique tagged payloads; every reply datagram read by the application is parsed by the reference parser: " +
		"destination = the one the request was sent to, payload = 're:'+payload. A destination whose replies do not arrive is decided by the parked-goroutine classifier (no goroutine will ever read that tunnel). distinct = (ATYP, payload-length class).")
	r := run.Rand("reply")
	relays := run.Pick(40, 400)
	for ri := 0; ri < relays && run.Violations() == 0; ri++ {
		ctx, cancel := context.WithCancel(context.Background())
		w := &c20EchoWorld{}
		tcpA, tcpB := vk.BufPipe("127.0.0.1:40001", "127.0.0.1:1080")
		relay, err := NewUDPRelay(ctx, tcpA, &UDPRelayConfig{MappingID: "c20", TargetClientID: 2, SecretKey: "k"}, w)
		if err != nil {
			cancel()
			t.Fatalf("harness: NewUDPRelay: %v", err)
		}
		app, err := net.DialUDP("udp", nil, relay.GetBindAddr())
		if err != nil {
			relay.Close()
			cancel()
			t.Fatalf("harness: dial relay: %v", err)
		}
		dests := []c20Dest{
			{1, []byte{192, 0, 2, byte(1 + r.Intn(250))}, 1024 + r.Intn(60000)},
			{4, append([]byte{0x20, 0x01, 0x0d, 0xb8}, c20RandBytes(r, 12)...), 1024 + r.Intn(60000)},
			{3, c20Name(r, 1+r.Intn(40), true), 1024 + r.Intn(60000)},
		}
		for i, n := 0, r.Intn(4); i < n; i++ {
			d := dests[r.Intn(3)]
			d.port = 1024 + r.Intn(60000)
			if d.atyp == 4 {
				d.addr = append([]byte{0xfd, 0x00}, c20RandBytes(r, 14)...)
			}
			dests = append(dests, d)
		}
		type sentT struct {
			ref  c20UDPVerdict
			want []byte
			seen int
		}
		sent := map[string]*sentT{}
		total := 0
		run.Case("udp-relay-reply|relay", map[string]any{"relay": ri, "dests": len(dests)})
		for di, d := range dests {
			for k, n := 0, 2+r.Intn(4); k < n; k++ {
				pl := c20TaggedPayload(ri, di, k, []int{12, 13, 100, 1400, 12 + r.Intn(1000)}[r.Intn(5)])
				dg := append(d.header(0, 0, 0), pl...)
				want := append([]byte("re:"), pl...)
				sent[string(want)] = &sentT{ref: c20RefUDP(dg), want: want}
				total++
				if _, err := app.Write(dg); err != nil {
					t.Fatalf("harness: udp write: %v", err)
				}
			}
		}
		run.Count("datagrams_sent", int64(total))
		got := 0
		buf := make([]byte, 65535)
		idle := 0
		for got < total && idle < 30 {
			app.SetReadDeadline(time.Now().Add(100 * time.Millisecond))
			n, err := app.Read(buf)
			if err != nil {
				idle++
				continue
			}
			idle = 0
			run.Eval(1)
			v := c20RefUDP(buf[:n])
			det := map[string]any{"relay": ri, "reply_datagram_hex": c20Hex(buf[:n]), "reference_on_reply": map[string]any{"accept": c20AcceptName[v.Accept], "why": v.Why, "host": fmt.Sprintf("%q", v.hostString()), "port": v.Port}}
			if v.Accept != c20Must {
				run.Violation("C20:udp-relay-reply|malformed-reply-datagram", det)
				continue
			}
			s := sent[string(v.Payload)]
			if s == nil {
				run.Violation("C20:udp-relay-reply|payload-not-a-reply", det)
				continue
			}
			got++
			s.seen++
			det["request_destination"] = fmt.Sprintf("%q:%d", s.ref.hostString(), s.ref.Port)
			switch {
			case s.seen > 1:
				run.Violation("C20:udp-relay-reply|reply-twice", det)
			case v.Port != s.ref.Port || !c20SameDest(v.hostString(), s.ref.hostString()):
				run.Violation(fmt.Sprintf("C20:udp-relay-reply|header-mismatch|atyp=%d", s.ref.Atyp), det)
			default:
				run.Count("replies_correct", 1)
				run.Count(fmt.Sprintf("replies_correct_atyp_%d", s.ref.Atyp), 1)
				run.Distinct(fmt.Sprintf("reply|atyp=%d|len=%s", s.ref.Atyp, c20LenClass(len(v.Payload)/16)))
			}
		}
		if got < total {
			// which tunnels were never read? classify logically
			w.mu.Lock()
			tunnels := append([]*c20EchoTunnel(nil), w.tunnels...)
			w.mu.Unlock()
			live := 0
			var dead []*c20EchoTunnel
			for _, tn := range tunnels {
				select {
				case <-tn.closed:
					continue
				default:
				}
				live++
				if tn.recvCalls.Load() == 0 && tn.sent.Load() > 0 {
					dead = append(dead, tn)
				}
			}
			p1 := c20ParkedInEchoReceive()
			time.Sleep(100 * time.Millisecond)
			p2 := c20ParkedInEchoReceive()
			time.Sleep(100 * time.Millisecond)
			p3 := c20ParkedInEchoReceive()
			if len(dead) > 0 && p1 == p2 && p2 == p3 && p3 < live {
				for _, tn := range dead {
					at := 3
					if ip := net.ParseIP(tn.host); ip != nil {
						at = 4
						if ip.To4() != nil {
							at = 1
						}
					}
					run.Violation(fmt.Sprintf("C20:udp-relay-reply|reply-path-dead|atyp=%d", at), map[string]any{"relay": ri, "tunnel_destination": fmt.Sprintf("%s:%d", tn.host, tn.port),
						"replies_pending_in_tunnel": len(tn.ch), "receive_calls_on_tunnel": 0, "live_tunnels": live, "goroutines_parked_in_tunnel_receive": []int{p1, p2, p3},
						"what": "the relay forwarded datagrams into this tunnel but no goroutine reads its replies and none can start: replies from this destination can never reach the application"})
				}
			} else {
				run.Count("replies_missing_inconclusive", int64(total-got))
			}
		}
		app.Close()
		relay.Close()
		tcpB.Close()
		tcpA.Close()
		cancel()
		_ = bytes.Equal
	}
	run.Floor("replies_correct", int64(relays)*6)
	for _, a := range []int{1, 3, 4} {
		run.Floor(fmt.Sprintf("replies_correct_atyp_%d", a), int64(relays)*2)
	}
}
