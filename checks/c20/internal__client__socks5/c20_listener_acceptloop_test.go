//go:build verif && verif_c20

package socks5

// C20 — the REAL accept loop: a Listener started on a loopback TCP port (Start), bursts of
// near-simultaneous application connections, each sending its own greeting + request.
// Every connection must be negotiated by itself: it receives its own method selection and
// its own reply, and the tunnel creator is asked — for THAT connection (identified by the
// connection's remote address = the client's local address) — for exactly the target that
// connection's bytes designate (independent reference parser per connection).
//
// All verdicts are logical: bytes received by a client that differ from what the RFC
// prescribes for its request, a creator call whose (connection, target) pair does not match,
// a second dispatch. A client that receives nothing until the watchdog fires is counted
// (inconclusive), never a violation.

import (
	"bytes"
	"context"
	"errors"
	"fmt"
	"io"
	"net"
	"sync"
	"testing"
	"time"

	vk "tunnox-core/internal/verifkit"
)

type c20LoopClient struct {
	id      int
	stream  []byte
	v       c20Verdict
	succeed bool
	tag     []byte
	local   string
	got     []byte
	rerr    string
	timeout bool
	calls   []c20AccCall
}

type c20LoopWorld struct {
	mu       sync.Mutex
	byAddr   map[string]*c20LoopClient
	stray    []string
	ready    chan struct{} // closed when every client of the burst is registered
}

func (w *c20LoopWorld) CreateSOCKS5Tunnel(userConn net.Conn, mappingID string, targetClientID int64, targetHost string, targetPort int, secretKey string, onSuccess func()) error {
	<-w.ready
	addr := userConn.RemoteAddr().String()
	w.mu.Lock()
	c := w.byAddr[addr]
	if c == nil {
		w.stray = append(w.stray, fmt.Sprintf("%s -> %q:%d", addr, targetHost, targetPort))
		w.mu.Unlock()
		return errors.New("c20: unknown connection")
	}
	c.calls = append(c.calls, c20AccCall{cmd: 1, host: targetHost, port: targetPort})
	ok, tag := c.succeed, c.tag
	w.mu.Unlock()
	if !ok {
		return errors.New("c20: tunnel cannot be created")
	}
	if onSuccess != nil {
		onSuccess()
	}
	userConn.Write(tag) // first tunnel bytes: must arrive on the connection of this very client
	userConn.Close()
	return nil
}

func TestVerifC20ListenerAcceptLoop(t *testing.T) {
	vk.Quiet()
	run := vk.Start(t, "C20", "listener-accept-loop")
	defer run.Finish()
	run.Rule("a real Listener (Start, loopback TCP) with a recording tunnel-creator double; bursts of 48..96 clients released by a barrier, each dialing and sending its own greeting + CONNECT (unique name / IPv4 / IPv6 target, " +
		"1 of 6 an unsupported command, 1 of 5 a failing tunnel); every client reads until EOF. Oracle per client (reference parser on its own bytes): received bytes = method selection + one well-formed reply with the REP the RFC prescribes " +
		"(00 and then the tunnel's tag for a created tunnel, non-zero for a failed one, 07 for the unsupported command); the creator is called exactly once for a dispatched request, for that client's connection (remote address) and with its host/port. " +
		"distinct = (request class, ATYP, burst-size class).")
	ctx, cancel := context.WithCancel(context.Background())
	defer cancel()
	w := &c20LoopWorld{byAddr: map[string]*c20LoopClient{}}
	l := NewListener(ctx, &ListenerConfig{ListenAddr: "127.0.0.1:0", MappingID: "c20", TargetClientID: 2, SecretKey: "k"}, w)
	if err := l.Start(); err != nil {
		t.Fatalf("harness: listener start: %v", err)
	}
	defer l.Close()
	addr := l.GetListenAddr()
	r := run.Rand("bursts")
	cfg := *c20ListenerCfg
	cfg.Cmds = []byte{0x01} // no UDP relay creator on this listener
	judgeClient := func(bi, n int, c *c20LoopClient, phase string) {
			run.Eval(1)
			v := &c.v
			det := func(extra map[string]any) map[string]any {
				m := map[string]any{"burst": bi, "clients_in_burst": n, "client": c.id, "client_addr": c.local, "sent_hex": c20Hex(c.stream), "received_hex": c20Hex(c.got), "read_error": c.rerr,
					"reference": map[string]any{"accept": c20AcceptName[v.Accept], "why": v.Why, "host": fmt.Sprintf("%q", c20RefHost(v)), "port": v.Port}, "tunnel_double_succeeds": c.succeed,
					"creator_calls": fmt.Sprintf("%+v", c.calls)}
				for k, x := range extra {
					m[k] = x
				}
				return m
			}
			if c.local == "" {
				run.Count("dial_failed", 1)
				return
			}
			if c.timeout && len(c.got) == 0 && len(c.calls) == 0 {
				run.Count("unanswered_until_watchdog", 1) // inconclusive by itself
				return
			}
			class := "connect-ok"
			var want []byte
			switch {
			case v.Accept == c20Must && c.succeed:
				want = append(append([]byte{5, 0, 5, 0, 0, 1, 0, 0, 0, 0, 0, 0}), c.tag...)
			case v.Accept == c20Must:
				class = "connect-tunnel-fails"
			default:
				class = "refused-" + v.Why
			}
			bad := ""
			switch {
			case v.Accept == c20Must && len(c.calls) != 1:
				bad = "valid-not-dispatched"
				if len(c.calls) > 1 {
					bad = "dispatched-more-than-once"
				}
			case v.Accept == c20MustNot && len(c.calls) != 0:
				bad = "invalid-dispatched"
			case v.Accept == c20Must && (c.calls[0].host != c20RefHost(v) && !c20HostMatches(v, c.calls[0].host) || c.calls[0].port != v.Port):
				bad = "dispatch-target-mismatch"
			case want != nil && !bytes.Equal(c.got, want):
				bad = "received-bytes"
			case want == nil:
				// method selection + exactly one well-formed reply with a fitting REP
				ok := len(c.got) >= 2 && c.got[0] == 5 && c.got[1] == 0 && c20ReplyLen(c.got[2:]) == len(c.got)-2 && c.got[3] != 0
				if ok && v.ReplyAllowed != nil && !c20Has(v.ReplyAllowed, c.got[3]) {
					ok = false
				}
				if !ok {
					bad = "received-bytes"
				}
			}
			if bad != "" {
				run.Violation(fmt.Sprintf("C20:listener-acceptloop|%s|class=%s%s", bad, class, phase), det(map[string]any{"want_hex": c20Hex(want), "phase": phase}))
				return
			}
			run.Count("clients_served_correctly"+phase, 1)
			run.Count("served:"+class, 1)
			bs := "48-71"
			if n >= 72 {
				bs = "72-96"
			}
			run.Distinct(fmt.Sprintf("accept-loop|%s|atyp=%d|burst=%s", class, v.Atyp, bs))
	}
	bursts := run.Pick(25, 250)
	next := 0
	for bi := 0; bi < bursts && run.Violations() == 0; bi++ {
		n := 48 + r.Intn(49)
		run.Case("accept-loop|burst", map[string]any{"burst": bi, "clients": n})
		w.mu.Lock()
		w.byAddr = map[string]*c20LoopClient{}
		w.ready = make(chan struct{})
		w.mu.Unlock()
		clients := make([]*c20LoopClient, n)
		for i := range clients {
			next++
			cmd := byte(1)
			if r.Intn(6) == 0 {
				cmd = []byte{2, 3, 9}[r.Intn(3)]
			}
			atyp := []byte{3, 3, 1, 4}[r.Intn(4)]
			name := []byte(fmt.Sprintf("client-%d-of-burst-%d.c20.test", next, bi))
			c := &c20LoopClient{id: next, succeed: r.Intn(5) != 0, tag: []byte(fmt.Sprintf("<tunnel-of-%d>", next))}
			c.stream = c20AccStream(r, cmd, atyp, name, 1+next%65535)
			c.stream = c.stream[:len(c.stream)-len(c20Sentinel)] // the client sends the message only
			c.v = c20RefTCP(&cfg, c.stream)
			clients[i] = c
		}
		barrier := make(chan struct{})
		var dialed, wg sync.WaitGroup
		for _, c := range clients {
			wg.Add(1)
			dialed.Add(1)
			split := r.Intn(3)
			go func(c *c20LoopClient) {
				defer wg.Done()
				<-barrier
				conn, err := net.Dial("tcp", addr)
				if err != nil {
					c.rerr = "dial: " + err.Error()
					dialed.Done()
					return
				}
				defer conn.Close()
				c.local = conn.LocalAddr().String()
				w.mu.Lock()
				w.byAddr[c.local] = c
				w.mu.Unlock()
				dialed.Done()
				if split == 0 {
					conn.Write(c.stream)
				} else {
					conn.Write(c.stream[:3])
					conn.Write(c.stream[3:])
				}
				conn.SetReadDeadline(time.Now().Add(8 * time.Second)) // watchdog only
				b, err := io.ReadAll(conn)
				c.got = b
				if err != nil {
					c.rerr = err.Error()
					if ne, ok := err.(net.Error); ok && ne.Timeout() {
						c.timeout = true
					}
				}
			}(c)
		}
		close(barrier)
		dialed.Wait()
		close(w.ready)
		wg.Wait()
		run.Count("bursts", 1)
		// ---- judge
		w.mu.Lock()
		stray := append([]string(nil), w.stray...)
		w.stray = nil
		w.mu.Unlock()
		for _, s := range stray {
			run.Violation("C20:listener-acceptloop|dispatch-for-unknown-connection", map[string]any{"burst": bi, "call": s})
		}
		for _, c := range clients {
			judgeClient(bi, n, c, "")
		}
	}

	// ---- storm, then quiet, then probe (own listener): >64 connections stalled mid-handshake
	// plus >64 more arriving meanwhile, all of them then go away; afterwards ordinary valid
	// requests must be served as before. Nothing is judged during the storm (a server may
	// limit concurrent handshakes); "quiet" is logical: every storm connection has seen the
	// server close it.
	if run.Violations() == 0 {
		l2 := NewListener(ctx, &ListenerConfig{ListenAddr: "127.0.0.1:0", MappingID: "c20", TargetClientID: 2, SecretKey: "k"}, w)
		if err := l2.Start(); err != nil {
			t.Fatalf("harness: listener start: %v", err)
		}
		defer l2.Close()
		addr2 := l2.GetListenAddr()
		for round := 0; round < run.Pick(2, 6); round++ {
			run.Case("accept-loop|storm", map[string]any{"round": round})
			var storm []net.Conn
			wave := func(n int, waitSelection bool) {
				for i := 0; i < n; i++ {
					conn, err := net.Dial("tcp", addr2)
					if err != nil {
						run.Count("dial_failed", 1)
						continue
					}
					storm = append(storm, conn)
					conn.Write([]byte{5, 1, 0})
					if waitSelection {
						conn.SetReadDeadline(time.Now().Add(5 * time.Second)) // watchdog only
						sel := make([]byte, 2)
						if _, err := io.ReadFull(conn, sel); err == nil && sel[0] == 5 && sel[1] == 0 {
							run.Count("storm_stalled_mid_handshake", 1) // greeting answered, request outstanding
						}
					}
				}
			}
			wave(70+r.Intn(20), true)
			wave(70+r.Intn(20), false)
			run.Count("storm_connections", int64(len(storm)))
			for _, conn := range storm { // all of them go away
				if tc, ok := conn.(*net.TCPConn); ok {
					tc.CloseWrite()
				}
			}
			for _, conn := range storm {
				conn.SetReadDeadline(time.Now().Add(8 * time.Second)) // watchdog only
				if _, err := io.Copy(io.Discard, conn); err == nil {
					run.Count("storm_connections_closed_by_server", 1)
				} else {
					run.Count("watchdog", 1)
				}
				conn.Close()
			}
			// probes
			for pi := 0; pi < 6; pi++ {
				next++
				c := &c20LoopClient{id: next, succeed: true, tag: []byte(fmt.Sprintf("<tunnel-of-%d>", next))}
				c.stream = c20AccStream(r, 1, []byte{1, 3, 4}[pi%3], []byte(fmt.Sprintf("probe-%d.c20.test", next)), 1+next%65535)
				c.stream = c.stream[:len(c.stream)-len(c20Sentinel)]
				c.v = c20RefTCP(&cfg, c.stream)
				conn, err := net.Dial("tcp", addr2)
				if err != nil {
					run.Count("dial_failed", 1)
					continue
				}
				c.local = conn.LocalAddr().String()
				w.mu.Lock()
				w.byAddr[c.local] = c
				w.mu.Unlock()
				conn.Write(c.stream)
				conn.SetReadDeadline(time.Now().Add(8 * time.Second)) // watchdog only
				b, err := io.ReadAll(conn)
				c.got = b
				if err != nil {
					c.rerr = err.Error()
					if ne, ok := err.(net.Error); ok && ne.Timeout() {
						c.timeout = true
					}
				}
				conn.Close()
				run.Count("probes_after_storm", 1)
				judgeClient(-1, 1, c, "|phase=after-storm")
			}
		}
	}
	run.Floor("bursts", int64(bursts))
	run.Floor("storm_stalled_mid_handshake", 100)
	run.Floor("storm_connections_closed_by_server", 256)
	run.Floor("probes_after_storm", 12)
	run.Floor("clients_served_correctly|phase=after-storm", 12)
	run.Floor("clients_served_correctly", int64(bursts)*40)
	run.Floor("served:connect-ok", int64(bursts)*20)
	run.Floor("served:connect-tunnel-fails", int64(bursts))
	run.Floor("served:refused-cmd-unsupported", int64(bursts))
}
