//go:build verif && verif_c20

package socks5

// C20 — handshake histories on ONE Listener: several application connections negotiate
// at the same time, the way acceptLoop runs them (one goroutine per connection, all on
// the same *Listener). Each connection's bytes must be parsed to what RFC 1928 assigns to
// THAT connection's bytes, whatever the other connections send and however their chunks
// interleave.
//
// A scenario (seeded):
//   1. prelude   1..3 connections handled one after the other; most scenarios contain a
//                client that is refused with METHOD = FF (offers no acceptable method),
//                others a completed handshake or another refusal;
//   2. parked    1..3 connections whose stream pauses at a seeded offset inside the
//                message (mid METHODS / header / DST.ADDR / port): the scripted connection
//                reports when the real Handshake is blocked in Read at that offset (a
//                logical "parked" signal, no timing);
//   3. overlap   1..3 further connections perform their complete handshake while the
//                parked ones are still paused;
//   4. the parked connections are resumed in a seeded order.
// Every connection is judged by the same comparator as the sequential monitor against the
// independent reference parser applied to its own byte stream.

import (
	"context"
	"fmt"
	"math/rand"
	"testing"
	"time"

	vk "tunnox-core/internal/verifkit"
)

type c20ConcConn struct {
	role   string
	stream []byte
	v      c20Verdict
	conn   *c20Conn
	obs    c20Obs
	done   chan struct{}
	parked bool // was blocked at its gate when the overlap connections ran
}

func c20ConcStream(r *rand.Rand, refuse string) []byte {
	m := &c20Msg{}
	switch refuse {
	case "ff":
		nm := 1 + r.Intn(5)
		set := make([]byte, nm)
		for i := range set {
			set[i] = byte(1 + r.Intn(254)) // never 0x00
		}
		m.greeting(5, nm, set)
		if r.Intn(2) == 0 { // a client that pipelines its request anyway
			m.request(r, 5, 1, 0, 3, 1+r.Intn(30), r.Intn(65536), true)
		}
		return append(m.B, c20Sentinel...)
	case "other":
		nm := 1 + r.Intn(3)
		set := c20RandBytes(r, nm)
		set[r.Intn(nm)] = 0
		m.greeting(5, nm, set)
		switch r.Intn(3) {
		case 0:
			m.request(r, 5, []byte{0, 2, 4, 9}[r.Intn(4)], 0, 1, 0, r.Intn(65536), true)
		case 1:
			m.request(r, 5, 1, 0, []byte{0, 2, 5, 255}[r.Intn(4)], 0, r.Intn(65536), true)
		default:
			m.request(r, 4, 1, 0, 1, 0, 80, true)
		}
		return append(m.B, c20Sentinel...)
	}
	nm := 1 + r.Intn(6)
	set := make([]byte, nm)
	for i := range set {
		set[i] = byte(1 + r.Intn(254))
	}
	set[r.Intn(nm)] = 0
	m.greeting(5, nm, set)
	atyp := []byte{1, 3, 3, 3, 4}[r.Intn(5)]
	cmd := []byte{1, 1, 1, 3}[r.Intn(4)]
	m.request(r, 5, cmd, 0, atyp, 1+r.Intn(60), r.Intn(65536), r.Intn(4) != 0)
	return append(m.B, c20Sentinel...)
}

func TestVerifC20ListenerConcurrent(t *testing.T) {
	vk.Quiet()
	run := vk.Start(t, "C20", "listener-concurrent")
	defer run.Finish()
	run.Rule("seeded scenarios on ONE Listener: prelude of 1..3 sequential connections (60% of them refused with METHOD FF, 20% complete, 20% refused for version/command/address type), then 1..3 connections whose " +
		"well-formed greeting+request pauses at a seeded offset inside the message (the scripted connection signals when the real Handshake is blocked in Read there), then 1..3 complete handshakes of other connections during the pause, " +
		"then the paused connections resume in seeded order. Every connection is compared with the independent reference parser applied to its own bytes (accept/reject, CMD, address, port, output, message boundary). " +
		"distinct = (role, reference verdict, ATYP, pause field class, number of overlapping handshakes).")
	ctx, cancel := context.WithCancel(context.Background())
	defer cancel()
	l := NewListener(ctx, &ListenerConfig{ListenAddr: "127.0.0.1:0", MappingID: "c20"}, nil)
	defer l.Close()
	cfg := *c20ListenerCfg
	cfg.Target, cfg.Name = "listener-concurrent", "listener-concurrent"
	exec := func(conn *c20Conn, o *c20Obs) {
		res, err := l.Handshake(conn)
		if err != nil {
			o.Failed, o.Err = true, err.Error()
			return
		}
		if res == nil {
			o.Failed, o.Err = true, "nil result without error"
			return
		}
		o.Cmd, o.Host, o.Port = res.Command, res.TargetHost, res.TargetPort
	}
	mo := &c20Monitor{run: run, cfg: &cfg, exec: exec}
	r := run.Rand("scenarios")
	scenarios := run.Pick(3000, 30000)
	start := func(c *c20ConcConn) {
		c.done = make(chan struct{})
		go func() {
			defer close(c.done)
			c.obs = c20Exec(c.conn, exec)
		}()
	}
	waitDone := func(c *c20ConcConn) bool {
		select {
		case <-c.done:
			return true
		case <-time.After(30 * time.Second):
			run.Count("watchdog", 1)
			return false
		}
	}
	mk := func(role, refuse string) *c20ConcConn {
		s := c20ConcStream(r, refuse)
		c := &c20ConcConn{role: role, stream: s, v: c20RefTCP(&cfg, s)}
		c.conn = &c20Conn{data: s, mark: c.v.GreetEnd}
		if r.Intn(3) == 0 {
			c.conn.byteWise = true
		}
		return c
	}
	for si := 0; si < scenarios && run.Violations() < 20; si++ {
		if si%50 == 0 {
			run.Case("listener-concurrent|scenario", map[string]any{"scenario": si})
		}
		var all []*c20ConcConn
		abandoned := false
		// 1. prelude
		refusedFF := false
		for i, n := 0, 1+r.Intn(3); i < n; i++ {
			kind := []string{"ff", "ff", "ff", "ok", "other"}[r.Intn(5)]
			c := mk("prelude", kind)
			start(c)
			if !waitDone(c) {
				abandoned = true
				break
			}
			if c.v.Why == "no-acceptable-method" {
				refusedFF = true
				run.Count("prelude_refused_ff", 1)
			}
			all = append(all, c)
		}
		// 2. parked connections
		var parked []*c20ConcConn
		for i, n := 0, 1+r.Intn(3); i < n && !abandoned; i++ {
			c := mk("parked", "ok")
			msgLen := len(c.stream) - len(c20Sentinel)
			c.conn.gateAt = 1 + r.Intn(msgLen-1)
			if c.v.Accept != c20MustNot && r.Intn(2) == 0 {
				// inside DST.ADDR / port: behind the request header
				lo := c.v.NegLen + 4
				c.conn.gateAt = lo + 1 + r.Intn(msgLen-lo-1)
			}
			c.conn.gate, c.conn.parked = make(chan struct{}), make(chan struct{})
			start(c)
			select {
			case <-c.conn.parked:
				c.parked = true
				run.Count("parked_mid_message", 1)
			case <-c.done: // refused before reaching the pause
			case <-time.After(30 * time.Second):
				run.Count("watchdog", 1)
				abandoned = true
			}
			parked = append(parked, c)
			all = append(all, c)
		}
		nParked := 0
		for _, c := range parked {
			if c.parked {
				nParked++
			}
		}
		// 3. complete handshakes of other connections during the pause
		nOver := 0
		for i, n := 0, 1+r.Intn(3); i < n && !abandoned; i++ {
			c := mk("overlap", []string{"ok", "ok", "ok", "ff", "other"}[r.Intn(5)])
			start(c)
			if !waitDone(c) {
				abandoned = true
				break
			}
			all = append(all, c)
			nOver++
			if nParked > 0 {
				run.Count("handshakes_during_pause", 1)
				if refusedFF {
					run.Count("handshakes_during_pause_after_ff_refusal", 1)
				}
			}
		}
		// 4. resume
		for _, i := range r.Perm(len(parked)) {
			c := parked[i]
			if c.conn.gate != nil {
				close(c.conn.gate)
			}
			if !waitDone(c) {
				abandoned = true
			}
		}
		if abandoned {
			for _, c := range parked { // never leave a goroutine blocked at a gate
				select {
				case <-c.conn.gate:
				default:
					close(c.conn.gate)
				}
			}
			run.Count("scenarios_abandoned", 1)
			continue
		}
		run.Count("scenarios", 1)
		// ---- judge every connection against the reference for its own bytes
		for _, c := range all {
			if c.conn.gateWatchdog {
				run.Count("watchdog", 1)
				continue
			}
			pf := "-"
			if c.parked {
				switch g := c.conn.gateAt; {
				case g < c.v.GreetEnd || c.v.GreetEnd < 0:
					pf = "greeting"
				case c.v.NegLen >= 0 && g < c.v.NegLen+4:
					pf = "request-header"
				case c.v.Consumed > 0 && g >= c.v.Consumed-2:
					pf = "port"
				default:
					pf = "address"
				}
				run.Count("parked_in_"+pf, 1)
				if c.v.Accept == c20Must {
					run.Count("parked_must_accept_judged", 1)
				}
			}
			d := c20Delivery{Kind: "conc-" + c.role, ByteWise: c.conn.byteWise}
			class := fmt.Sprintf("scenario=%d|role=%s|paused_at=%d(%s)|parked_peers=%d|overlapping_handshakes=%d|ff_refusal_before=%v", si, c.role, c.conn.gateAt, pf, nParked, nOver, refusedFF)
			if !c.parked {
				class = fmt.Sprintf("scenario=%d|role=%s|parked_peers=%d|ff_refusal_before=%v", si, c.role, nParked, refusedFF)
			}
			mo.judge(c.conn, &c.obs, c.stream, d, &c.v, class, mo.mkDetail(c.conn, c.stream, d, &c.v, class))
			run.Distinct(fmt.Sprintf("conc|%s|%s|%s|atyp=%d|pause=%s|over=%d", c.role, c20AcceptName[c.v.Accept], c.v.Why, c.v.Atyp, pf, nOver))
		}
		if si < 3 {
			run.Sample(map[string]any{"scenario": si, "connections": len(all), "parked": nParked, "overlap": nOver, "ff_refusal_before": refusedFF})
		}
	}
	n := int64(scenarios)
	run.Floor("scenarios", n*9/10)
	run.Floor("parked_mid_message", n)
	run.Floor("handshakes_during_pause", n)
	run.Floor("handshakes_during_pause_after_ff_refusal", n/2)
	run.Floor("prelude_refused_ff", n/2)
	run.Floor("parked_must_accept_judged", n/2)
	run.Floor("parked_in_address", n/4)
	run.Floor("parked_in_greeting", n/20)
	run.Floor("agree_accept", n)
	run.Floor("sentinel_checked", n)
}
