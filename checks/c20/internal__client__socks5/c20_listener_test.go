//go:build verif && verif_c20

package socks5

import (
	"bytes"
	"context"
	"fmt"
	"net"
	"testing"

	vk "tunnox-core/internal/verifkit"
)

// ---------------------------------------------------------------- Listener.Handshake

var c20ListenerCfg = &c20Cfg{Target: "listener", Name: "listener", Accept: []byte{0x00}, Cmds: []byte{0x01, 0x03}}

func TestVerifC20Listener(t *testing.T) {
	vk.Quiet()
	run := vk.Start(t, "C20", "listener-handshake")
	defer run.Finish()
	run.Rule("every message of the structured grid VER{0,4,5,6,255} x NMETHODS{0,1,2,3,255} x method sets (none acceptable / 00 first / 00 last / 02 / both / FF) " +
		"and, behind a well-formed greeting, VER x CMD{0,1,2,3,4,255} x RSV{0,1} x ATYP{0,1,3,4,5,255} x name length{0,1,2,3,63,255} x port{0,1,65535}, " +
		"cut at every truncation point (complete messages are followed by an 8-byte sentinel), each delivered as: one chunk per message, one chunk for everything, " +
		"one byte per read, two chunks split at every offset (streams > 40 bytes [thorough: > 100 bytes, unless complete]: field boundaries +-1, offsets 256..258 and 6 seeded offsets; the quick tier subsamples the truncation points of messages > 100 bytes the same way); plus seeded random / mutated streams in random chunking. " +
		"Real Listener.Handshake runs on a scripted synchronous net.Conn; an independent RFC 1928 reference parser decides accept/reject, CMD, address, port, message length and the mandated output. " +
		"RSV != 0 and zero-length names are implementation-defined: either answer accepted. distinct = (reference verdict class, ATYP, truncation class) and, for agreed accepts, (ATYP, name-length class, CMD, delivery).")
	ctx, cancel := context.WithCancel(context.Background())
	defer cancel()
	l := NewListener(ctx, &ListenerConfig{ListenAddr: "127.0.0.1:0", MappingID: "c20"}, nil)
	defer l.Close()
	mo := &c20Monitor{run: run, cfg: c20ListenerCfg, exec: func(conn *c20Conn, o *c20Obs) {
		res, err := l.Handshake(conn)
		if err != nil {
			o.Failed, o.Err = true, err.Error()
			return
		}
		if res == nil {
			o.Failed, o.Err = true, "nil result without error"
			return
		}
		o.Cmd, o.Host, o.Port = res.Command, res.TargetHost, res.TargetPort
	}}
	mo.runGrid(run.Rand("grid"))
	run.Exhaustive(run.Thorough())
	mo.runRandom(run.Rand("random"), run.Pick(50000, 1000000))
	run.Floor("agree_accept", 2000)
	run.Floor("agree_reject", 5000)
	run.Floor("sentinel_checked", 2000)
	run.Floor("mandated_reply_checked", 200)
	for _, w := range []string{"ok", "no-acceptable-method", "cmd-unsupported", "atyp-unsupported", "trunc-address", "trunc-greeting", "trunc-request-header", "greeting-bad-ver", "request-bad-ver", "nmethods-0"} {
		run.Floor("why:"+w, 10)
	}
	for _, a := range []int{1, 3, 4} {
		run.Floor(fmt.Sprintf("accepted_atyp_%d", a), 100)
	}
	for _, k := range []string{"natural", "whole", "bytewise", "split"} {
		run.Floor("cases_"+k, 1000)
	}
}

// ---------------------------------------------------------------- UDP request header

type c20UDPVerdict struct {
	Accept  int
	Why     string
	Atyp    byte
	IP      net.IP
	Domain  []byte
	Port    int
	Payload []byte
}

// c20RefUDP: RFC 1928 §7 — RSV(2) FRAG ATYP DST.ADDR DST.PORT DATA.
func c20RefUDP(d []byte) c20UDPVerdict {
	v := c20UDPVerdict{Accept: c20MustNot}
	if len(d) < 4 {
		v.Why = "trunc-header"
		return v
	}
	v.Atyp = d[3]
	hl := 0
	switch d[3] {
	case 0x01:
		hl = 4 + 4 + 2
	case 0x04:
		hl = 4 + 16 + 2
	case 0x03:
		if len(d) < 5 {
			v.Why = "trunc-address"
			return v
		}
		hl = 4 + 1 + int(d[4]) + 2
	default:
		v.Why = "atyp-unsupported"
		return v
	}
	if len(d) < hl {
		v.Why = "trunc-address"
		return v
	}
	switch d[3] {
	case 0x01, 0x04:
		v.IP = net.IP(append([]byte(nil), d[4:hl-2]...))
	case 0x03:
		v.Domain = append([]byte(nil), d[5:hl-2]...)
	}
	v.Port = int(d[hl-2])<<8 | int(d[hl-1])
	v.Payload = append([]byte(nil), d[hl:]...)
	switch {
	case d[0] != 0 || d[1] != 0:
		v.Accept, v.Why = c20May, "rsv-nonzero"
	case d[2] != 0:
		// a relay that does not reassemble drops fragments; one that does would need state.
		v.Accept, v.Why = c20May, "frag-nonzero"
	case d[3] == 0x03 && len(v.Domain) == 0:
		v.Accept, v.Why = c20May, "domain-len-0"
	default:
		v.Accept, v.Why = c20Must, "ok"
	}
	return v
}

func (v *c20UDPVerdict) hostMatches(host string) bool {
	if v.Atyp == 0x03 {
		return host == string(v.Domain)
	}
	ip := net.ParseIP(host)
	return ip != nil && ip.Equal(v.IP)
}

func (v *c20UDPVerdict) hostString() string {
	if v.Atyp == 0x03 {
		return string(v.Domain)
	}
	return v.IP.String()
}

// c20SameDest: two host strings denote the same destination (IP literals by value).
func c20SameDest(a, b string) bool {
	if a == b {
		return true
	}
	ia, ib := net.ParseIP(a), net.ParseIP(b)
	return ia != nil && ib != nil && ia.Equal(ib)
}

type c20UDPMon struct {
	run   *vk.Run
	relay *UDPRelay
}

type c20UDPOut struct {
	host    string
	port    int
	payload []byte
	err     error
	panic   string
}

func (mo *c20UDPMon) parse(d []byte) (o c20UDPOut) {
	defer func() {
		if e := recover(); e != nil {
			o.panic = fmt.Sprint(e)
		}
	}()
	o.host, o.port, o.payload, o.err = mo.relay.parseUDPHeader(d)
	return
}

func (mo *c20UDPMon) build(host string, port int, payload []byte) (b []byte, pan string) {
	defer func() {
		if e := recover(); e != nil {
			pan = fmt.Sprint(e)
		}
	}()
	return mo.relay.buildUDPHeader(host, port, payload), ""
}

// check runs the real parser on datagram d (len == cap, so that an index beyond the
// datagram panics instead of reading a neighbour) and compares with the reference.
func (mo *c20UDPMon) check(d []byte, class string) {
	run := mo.run
	d = d[:len(d):len(d)]
	orig := append([]byte(nil), d...)
	v := c20RefUDP(d)
	o := mo.parse(d)
	run.Eval(1)
	plc := "0"
	if len(v.Payload) > 0 {
		plc = ">0"
	}
	det := func(extra map[string]any) map[string]any {
		m := map[string]any{"class": class, "datagram_hex": c20Hex(orig), "datagram_len": len(orig),
			"reference": map[string]any{"accept": c20AcceptName[v.Accept], "why": v.Why, "atyp": v.Atyp, "ip": fmt.Sprint(v.IP), "domain_hex": c20Hex(v.Domain), "port": v.Port, "payload_len": len(v.Payload)},
			"observed":  map[string]any{"err": fmt.Sprint(o.err), "host": fmt.Sprintf("%q", o.host), "port": o.port, "payload_len": len(o.payload), "panic": o.panic}}
		for k, x := range extra {
			m[k] = x
		}
		return m
	}
	if o.panic != "" {
		run.Violation("C20:udp-header|panic|why="+v.Why, det(nil))
		return
	}
	if !bytes.Equal(d, orig) {
		run.Violation("C20:udp-header|datagram-modified", det(nil))
	}
	accepted := o.err == nil
	switch {
	case accepted && v.Accept == c20MustNot:
		run.Violation("C20:udp-header|invalid-accepted|why="+v.Why, det(nil))
		return
	case !accepted && v.Accept == c20Must:
		if v.Atyp == 0x03 && len(orig) < 10 {
			run.Violation("C20:udp-header|short-domain-rejected", det(map[string]any{
				"what": fmt.Sprintf("a complete domain-name datagram (name of %d byte(s), payload of %d byte(s), %d bytes in all) is refused", len(v.Domain), len(v.Payload), len(orig))}))
		} else {
			run.Violation(fmt.Sprintf("C20:udp-header|valid-rejected|atyp=%d", v.Atyp), det(nil))
		}
		return
	}
	run.Count("why:"+v.Why, 1)
	if v.Accept == c20May {
		if accepted {
			run.Count("may_accepted:"+v.Why, 1)
		} else {
			run.Count("may_rejected:"+v.Why, 1)
		}
	}
	if !accepted {
		run.Count("agree_reject", 1)
		return
	}
	run.Count("agree_accept", 1)
	run.Count(fmt.Sprintf("accepted_atyp_%d", v.Atyp), 1)
	bad := false
	if !v.hostMatches(o.host) {
		bad = true
		run.Violation(fmt.Sprintf("C20:udp-header|field=host|atyp=%d", v.Atyp), det(nil))
	}
	if o.port != v.Port {
		bad = true
		run.Violation(fmt.Sprintf("C20:udp-header|field=port|atyp=%d", v.Atyp), det(nil))
	}
	if !bytes.Equal(o.payload, v.Payload) {
		bad = true
		run.Violation(fmt.Sprintf("C20:udp-header|payload|atyp=%d|len=%s", v.Atyp, plc), det(map[string]any{"payload_hex": c20Hex(o.payload)}))
	}
	// re-encode what was parsed and parse again: same destination, port and payload;
	// the re-encoded datagram must also mean the same to the reference parser
	b2, pan := mo.build(o.host, o.port, o.payload)
	if pan != "" {
		run.Violation(fmt.Sprintf("C20:udp-header|roundtrip|build-panic|atyp=%d", v.Atyp), det(map[string]any{"panic": pan}))
		return
	}
	run.Count("roundtrips", 1)
	o2 := mo.parse(b2)
	switch {
	case o2.panic != "":
		bad = true
		run.Violation(fmt.Sprintf("C20:udp-header|roundtrip|reparse-panic|atyp=%d", v.Atyp), det(map[string]any{"rebuilt_hex": c20Hex(b2), "panic": o2.panic}))
	case o2.err != nil:
		bad = true
		sig := fmt.Sprintf("C20:udp-header|roundtrip|reparse-rejected|atyp=%d", v.Atyp)
		if len(b2) < 10 {
			sig = "C20:udp-header|roundtrip|short-rebuilt-rejected"
		}
		run.Violation(sig, det(map[string]any{"rebuilt_hex": c20Hex(b2), "reparse_err": o2.err.Error()}))
	case !c20SameDest(o.host, o2.host) || o.port != o2.port || !bytes.Equal(o.payload, o2.payload):
		bad = true
		run.Violation(fmt.Sprintf("C20:udp-header|roundtrip|differs|atyp=%d", v.Atyp), det(map[string]any{"rebuilt_hex": c20Hex(b2),
			"reparsed": map[string]any{"host": fmt.Sprintf("%q", o2.host), "port": o2.port, "payload_len": len(o2.payload)}}))
	}
	if !bad && (v.Accept == c20Must || len(v.Domain) > 0 || v.Atyp != 0x03) {
		v2 := c20RefUDP(b2)
		run.Count("rebuilt_checked_by_reference", 1)
		if v2.Accept != c20Must || !c20SameDest(v2.hostString(), v.hostString()) || v2.Port != v.Port || !bytes.Equal(v2.Payload, v.Payload) {
			bad = true
			run.Violation(fmt.Sprintf("C20:udp-header|build-nonconformant|atyp=%d", v.Atyp), det(map[string]any{"rebuilt_hex": c20Hex(b2),
				"reference_on_rebuilt": map[string]any{"accept": c20AcceptName[v2.Accept], "why": v2.Why, "host": fmt.Sprintf("%q", v2.hostString()), "port": v2.Port, "payload_len": len(v2.Payload)}}))
		}
	}
	if !bad {
		dl := 0
		if v.Atyp == 0x03 {
			dl = len(v.Domain)
		}
		run.Distinct(fmt.Sprintf("udp|accept|atyp=%d|len=%s|payload=%s", v.Atyp, c20LenClass(dl), c20LenClass(len(v.Payload))))
	}
}

func TestVerifC20UDPHeader(t *testing.T) {
	vk.Quiet()
	run := vk.Start(t, "C20", "udp-header")
	defer run.Finish()
	run.Rule("every datagram of RSV{0000,0001,0100} x FRAG{0,1,255} x ATYP{0,1,3,4,5,255} x name length{0,1,2,3,63,255} x port{0,1,65535} x payload length{0,1,2,1400}, " +
		"cut at EVERY truncation point (0..len), given to the real parseUDPHeader as a slice whose capacity equals its length; an independent RFC 1928 §7 reference parser decides " +
		"accept/reject, destination (IP by value, names byte-wise), port and payload; RSV != 0, FRAG != 0 and zero-length names are implementation-defined (either answer accepted, fields must match when accepted). " +
		"Every accepted header is re-encoded with the real buildUDPHeader and parsed again by the real parser AND by the reference (same destination, port, payload). " +
		"Plus seeded random and mutated datagrams. distinct = (verdict class, ATYP, truncation class) and (ATYP, name-length class, payload-length class) for agreed accepts.")
	mo := &c20UDPMon{run: run, relay: &UDPRelay{sessions: make(map[string]*udpSession)}}
	r := run.Rand("grid")
	variants := 0
	for _, rsv := range [][2]byte{{0, 0}, {0, 1}, {1, 0}} {
		for _, frag := range []byte{0, 1, 255} {
			for _, atyp := range c20Atyps {
				dls := []int{0}
				if atyp == 0x03 {
					dls = c20DLens
				}
				for _, dl := range dls {
					for _, port := range c20Ports {
						for _, pl := range []int{0, 1, 2, 1400} {
							variants++
							d := []byte{rsv[0], rsv[1], frag, atyp}
							switch atyp {
							case 0x01:
								d = append(d, c20RandBytes(r, 4)...)
							case 0x04:
								a := c20RandBytes(r, 16)
								if variants%3 == 0 {
									copy(a, []byte{0, 0, 0, 0, 0, 0, 0, 0, 0, 0, 0xff, 0xff})
								}
								d = append(d, a...)
							case 0x03:
								d = append(d, byte(dl))
								nm := c20Name(r, dl, variants%2 == 0)
								if dl >= 3 && variants%5 == 0 {
									nm = append([]byte("::1"), nm[3:]...)[:dl]
									if dl == 3 {
										nm = []byte("::1") // a name that is also an IP literal
									}
								}
								d = append(d, nm...)
							default:
								d = append(d, c20RandBytes(r, 4)...)
							}
							hdr := len(d) + 2
							d = append(d, byte(port>>8), byte(port))
							d = append(d, vk.Pattern(uint64(variants), 0, pl)...)
							class := fmt.Sprintf("rsv=%x|frag=%d|atyp=%d|dlen=%d|port=%d|payload=%d", rsv, frag, atyp, dl, port, pl)
							run.Case("udp|"+class, map[string]any{"datagram_hex": c20Hex(d)})
							for t := 0; t <= len(d); t++ {
								mo.check(d[:t], class)
								tc := "full"
								switch {
								case t < 4:
									tc = "in-fixed-header"
								case t < hdr:
									tc = "in-address"
								case t < len(d):
									tc = "in-payload"
								}
								if t == len(d) || t < hdr+2 {
									v := c20RefUDP(d[:t])
									run.Distinct(fmt.Sprintf("udp|%s|%s|atyp=%d|trunc=%s", c20AcceptName[v.Accept], v.Why, atyp, tc))
								}
							}
							if variants%131 == 0 {
								run.Sample(map[string]any{"class": class, "datagram_hex": c20Hex(d)})
							}
						}
					}
				}
			}
		}
	}
	run.Count("grid_variants", int64(variants))
	// names that are also IP literals (buildUDPHeader re-encodes them as ATYP 1/4), and
	// the shortest well-formed datagrams of each type
	for _, nm := range []string{"1.2.3.4", "::1", "0:0:0:0:0:0:0:1", "::ffff:1.2.3.4", "2001:db8::1", "a", "ab", "a.b", "xn--p1ai", "01.2.3.4", "1.2.3", "fe80::1%eth0", "[::1]", "1.2.3.4:53"} {
		for _, pl := range []int{0, 1, 2, 3, 64} {
			d := append([]byte{0, 0, 0, 3, byte(len(nm))}, nm...)
			d = append(d, 0x00, 0x35)
			d = append(d, vk.Pattern(7, 0, pl)...)
			run.Count("extra_cases", 1)
			mo.check(d, "extra|name="+nm)
		}
	}
	run.Exhaustive(true)
	// random part
	rr := run.Rand("random")
	n := run.Pick(100000, 2000000)
	for i := 0; i < n; i++ {
		var d []byte
		switch rr.Intn(3) {
		case 0:
			d = c20RandBytes(rr, rr.Intn(40))
			if len(d) > 3 && rr.Intn(2) == 0 {
				d[0], d[1], d[2] = 0, 0, 0
				d[3] = []byte{1, 3, 4}[rr.Intn(3)]
				if d[3] == 3 && len(d) > 4 {
					d[4] %= 12
				}
			}
		default:
			atyp := []byte{1, 3, 4}[rr.Intn(3)]
			d = []byte{0, 0, 0, atyp}
			switch atyp {
			case 1:
				d = append(d, c20RandBytes(rr, 4)...)
			case 4:
				d = append(d, c20RandBytes(rr, 16)...)
			case 3:
				l := rr.Intn(20)
				d = append(d, byte(l))
				d = append(d, c20Name(rr, l, rr.Intn(2) == 0)...)
			}
			d = append(d, c20RandBytes(rr, 2+rr.Intn(6))...)
			for k := rr.Intn(3); k > 0 && len(d) > 0; k-- {
				p := rr.Intn(len(d))
				if rr.Intn(2) == 0 {
					d[p] = byte(rr.Intn(256))
				} else {
					d = append(d[:p], d[p+1:]...)
				}
			}
		}
		if i%256 == 0 {
			run.Case("udp|random", map[string]any{"i": i, "datagram_hex": c20Hex(d)})
		}
		run.Count("random_cases", 1)
		mo.check(d, "random")
	}
	run.Floor("agree_accept", 10000)
	run.Floor("agree_reject", 10000)
	run.Floor("roundtrips", 10000)
	run.Floor("rebuilt_checked_by_reference", 10000)
	for _, w := range []string{"ok", "trunc-header", "trunc-address", "atyp-unsupported", "rsv-nonzero", "frag-nonzero", "domain-len-0"} {
		run.Floor("why:"+w, 10)
	}
	for _, a := range []int{1, 3, 4} {
		run.Floor(fmt.Sprintf("accepted_atyp_%d", a), 1000)
	}
}
