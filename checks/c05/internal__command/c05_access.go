//go:build verif && verif_c05

package command

// VerifC05RPCPending reports how many duplex requests the executor's RPC manager
// still holds (read-only accessor for the C05 retention monitor; compiled only
// under the verif_c05 tag).
func VerifC05RPCPending(e interface{}) int {
	ce, ok := e.(*CommandExecutor)
	if !ok || ce == nil || ce.rpcManager == nil {
		return -1
	}
	return ce.rpcManager.GetPendingRequestCount()
}
