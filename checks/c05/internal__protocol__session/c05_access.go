//go:build verif && verif_c05

package session

// VerifC05Tables reports the sizes of the tables the session manager keeps per
// connection / per pending request (read-only accessor for the C05 retention
// monitor; compiled only under the verif_c05 tag).
func VerifC05Tables(s *SessionManager) map[string]int {
	out := map[string]int{}
	s.connLock.RLock()
	out["conn_map"] = len(s.connMap)
	s.connLock.RUnlock()
	s.bridgeLock.RLock()
	out["tunnel_bridges"] = len(s.tunnelBridges)
	s.bridgeLock.RUnlock()
	if s.clientRegistry != nil {
		out["control_conns"] = s.clientRegistry.Count()
	}
	if s.tunnelRegistry != nil {
		out["tunnel_conns"] = s.tunnelRegistry.Count()
	}
	if s.streamMgr != nil {
		out["streams"] = s.streamMgr.GetStreamCount()
	}
	dr := getDNSResolveManager()
	dr.mu.RLock()
	out["dns_resolve_pending"] = len(dr.pendingRequests)
	dr.mu.RUnlock()
	dq := getDNSQueryManager()
	dq.mu.RLock()
	out["dns_query_pending"] = len(dq.pendingRequests)
	dq.mu.RUnlock()
	tw := getTunnelWaitManager()
	tw.mu.RLock()
	out["tunnel_wait_pending"] = len(tw.pendingTunnels)
	tw.mu.RUnlock()
	return out
}
