//go:build verif && verif_c05

package httpproxy

// VerifC05Pending reports the size of the global manager's pending-request table
// (read-only accessor for the C05 monitors; compiled only under the verif_c05 tag).
func VerifC05Pending() int {
	m := GetGlobalManager()
	m.pendingMu.RLock()
	defer m.pendingMu.RUnlock()
	return len(m.pendingRequests)
}
