//go:build verif && verif_c05

package adapter

import (
	"context"
	"crypto/sha256"
	"encoding/binary"
	"encoding/hex"
	"errors"
	"fmt"
	"io"
	"math/rand"
	"net"
	"regexp"
	"runtime"
	"runtime/debug"
	"strings"
	"testing"
	"time"

	"github.com/gorilla/websocket"

	"tunnox-core/internal/constants"
	"tunnox-core/internal/packet"
	"tunnox-core/internal/stream"
	gen "tunnox-core/internal/verifc05gen"
	vk "tunnox-core/internal/verifkit"
)

// C05 over the WebSocket transport (pre-authentication).
//
// A hostile peer completes the WebSocket handshake against the repository's own
// WebSocketAdapter (Listen / handleWebSocket / Accept -> wsServerConn) and then sends
// whatever it likes: binary frames of any size, hostile packet bytes split into
// messages arbitrarily, text / empty / control frames, fragmented messages and raw
// protocol violations. The server side is played the way the adapter's read loop plays
// it: a StreamProcessor on the accepted conn, ReadPacket until the first error, on a
// goroutine of its own. Monitors: panic (recorded inside the recover handler; a panic
// on any other goroutine kills the process and is attributed through the WAL), reads
// that keep coming after the conn reported an error / endless zero-byte reads (spin),
// TotalAlloc per ReadPacket against 8 x MaxPacketBodySize, decoded body against Max,
// a nil packet without error, a Close that hangs.

const (
	c05wsMax        = constants.MaxPacketBodySize
	c05wsAllocBound = 8 * c05wsMax
	// c05wsAllocBoundMaxMsg is the bound for connections that carry messages up to the
	// largest legal size. Measured on /repo: a legal MaxPacketBodySize body written by
	// the real WritePacket over the ws client conn costs 129 MiB in one ReadPacket (97 MiB
	// for ReadMessage growing its buffer geometrically + pooled body buffer + result copy),
	// the same packet coalesced into one message 145 MiB (+ the wrapper's rest copy):
	// 8.1-9.1 x Max. 12 x Max leaves room for a different growth schedule.
	c05wsAllocBoundMaxMsg = 12 * c05wsMax
	c05wsSpinLimit        = 1000
)

var c05wsErrSpin = errors.New("verif: read loop keeps reading a finished websocket conn (spin)")

// ---- raw frames ------------------------------------------------------------------

// c05wsRawFrame builds one WebSocket frame by hand. b0 = FIN/RSV/opcode byte; lenMode
// 0 = minimal length encoding, 7/16/64 = forced; declared < 0 = actual payload length.
func c05wsRawFrame(b0 byte, masked bool, lenMode int, declared int64, declaredRaw uint64, payload []byte, key [4]byte) []byte {
	n := uint64(len(payload))
	if declared >= 0 {
		n = uint64(declared)
	}
	if declaredRaw != 0 {
		n = declaredRaw
	}
	mb := byte(0)
	if masked {
		mb = 0x80
	}
	mode := lenMode
	if mode == 0 {
		switch {
		case n < 126:
			mode = 7
		case n < 65536:
			mode = 16
		default:
			mode = 64
		}
	}
	out := make([]byte, 0, 14+len(payload))
	out = append(out, b0)
	switch mode {
	case 7:
		out = append(out, mb|byte(n&0x7f))
	case 16:
		out = append(out, mb|126, byte(n>>8), byte(n))
	default:
		var l [8]byte
		binary.BigEndian.PutUint64(l[:], n)
		out = append(out, mb|127)
		out = append(out, l[:]...)
	}
	if masked {
		out = append(out, key[:]...)
		st := len(out)
		out = append(out, payload...)
		for i := st; i < len(out); i++ {
			out[i] ^= key[(i-st)&3]
		}
	} else {
		out = append(out, payload...)
	}
	return out
}

func c05wsF(b0 byte, payload []byte) []byte {
	return c05wsRawFrame(b0, true, 0, -1, 0, payload, [4]byte{0x12, 0x34, 0x56, 0x78})
}

// ---- scripts -----------------------------------------------------------------------

type c05wsAct struct {
	Kind string // bin | text | ping | pong (through the gorilla client) | raw (bytes straight onto the TCP conn)
	Data []byte
	Note string
}

type c05wsScript struct {
	Family string
	Sub    string
	Acts   []c05wsAct
	End    string // fin (half-close after the script) | close+fin (normal close frame first) | rst
	Note   string
}

func (s *c05wsScript) bytesTotal() int {
	n := 0
	for _, a := range s.Acts {
		n += len(a.Data)
	}
	return n
}

// emptyBudget = how many frames/messages of the script can legitimately surface as a
// zero-byte read.
func (s *c05wsScript) emptyBudget() int64 { return int64(len(s.Acts)) + 8 }

func (s *c05wsScript) witness() map[string]any {
	w := map[string]any{"family": s.Family, "sub": s.Sub, "end": s.End, "acts": len(s.Acts), "bytes": s.bytesTotal()}
	if s.Note != "" {
		w["note"] = s.Note
	}
	var acts []map[string]any
	for i, a := range s.Acts {
		if i >= 24 {
			break
		}
		m := map[string]any{"kind": a.Kind, "len": len(a.Data)}
		if a.Note != "" {
			m["note"] = a.Note
		}
		if len(a.Data) <= 96 {
			m["hex"] = hex.EncodeToString(a.Data)
		} else {
			m["hex_head"] = hex.EncodeToString(a.Data[:32])
			if len(a.Data) <= 1<<20 {
				h := sha256.Sum256(a.Data)
				m["sha256"] = hex.EncodeToString(h[:8])
			}
		}
		acts = append(acts, m)
	}
	w["acts_head"] = acts
	return w
}

func c05wsBin(b []byte) c05wsAct  { return c05wsAct{Kind: "bin", Data: b} }
func c05wsText(b []byte) c05wsAct { return c05wsAct{Kind: "text", Data: b} }
func c05wsRaw(note string, b []byte) c05wsAct {
	return c05wsAct{Kind: "raw", Data: b, Note: note}
}

// c05wsPlay sends the script from the hostile client's side.
func c05wsPlay(cc *websocket.Conn, s *c05wsScript) {
	nc := cc.NetConn()
	nc.SetWriteDeadline(time.Now().Add(90 * time.Second))
	dl := time.Now().Add(90 * time.Second)
	for _, a := range s.Acts {
		var err error
		switch a.Kind {
		case "bin":
			err = cc.WriteMessage(websocket.BinaryMessage, a.Data)
		case "text":
			err = cc.WriteMessage(websocket.TextMessage, a.Data)
		case "ping":
			err = cc.WriteControl(websocket.PingMessage, a.Data, dl)
		case "pong":
			err = cc.WriteControl(websocket.PongMessage, a.Data, dl)
		default:
			_, err = nc.Write(a.Data)
		}
		if err != nil {
			break
		}
	}
	tc, _ := nc.(*net.TCPConn)
	switch s.End {
	case "rst":
		if tc != nil {
			tc.SetLinger(0)
		}
		nc.Close()
	case "close+fin":
		nc.Write(c05wsF(0x88, []byte{0x03, 0xe8}))
		fallthrough
	default:
		if tc != nil {
			tc.CloseWrite()
		} else {
			nc.Close()
		}
	}
}

// ---- server side -------------------------------------------------------------------

type c05wsMeter struct {
	r           io.Reader
	delivered   int64
	reads       int64
	zeroRun     int64
	maxZeroRun  int64
	postErr     int64
	sawErr      bool
	emptyBudget int64
}

func (m *c05wsMeter) Read(p []byte) (int, error) {
	m.reads++
	if m.sawErr {
		m.postErr++
		if m.postErr > c05wsSpinLimit {
			panic(c05wsErrSpin)
		}
	}
	n, err := m.r.Read(p)
	m.delivered += int64(n)
	if err != nil {
		m.sawErr = true
	}
	if n == 0 && err == nil && len(p) > 0 {
		m.zeroRun++
		if m.zeroRun > m.maxZeroRun {
			m.maxZeroRun = m.zeroRun
		}
		if m.zeroRun > m.emptyBudget+c05wsSpinLimit {
			panic(c05wsErrSpin)
		}
	} else {
		m.zeroRun = 0
	}
	return n, err
}

type c05wsObs struct {
	Calls    int
	OK       int
	LastErr  string // clipped, numbers normalised
	ErrFull  string
	Panic    string
	Spin     bool
	Capped   bool
	Watchdog bool
	MaxAlloc uint64
	MaxBody  int
	Reads    int64
	Bytes    int64 // bytes the conn handed to the decoder
	PostErr  int64
	ZeroRun  int64
	Types    []byte
	Close    gen.CloseResult
}

var c05wsNumRe = regexp.MustCompile(`[0-9]+`)

func c05wsClip(s string, n int) string {
	if len(s) > n {
		return s[:n]
	}
	return s
}

func c05wsTopFrames(stack string) string {
	var fr []string
	for _, l := range strings.Split(stack, "\n") {
		if (strings.HasPrefix(l, "tunnox-core/") || strings.HasPrefix(l, "github.com/gorilla/websocket")) && !strings.Contains(l, "verifkit") && !strings.Contains(l, "c05ws") && !strings.Contains(l, "TestVerif") {
			if i := strings.LastIndex(l, "("); i > 0 {
				l = l[:i]
			}
			fr = append(fr, l)
			if len(fr) == 4 {
				break
			}
		}
	}
	return strings.Join(fr, " <- ")
}

func c05wsIsTimeout(err error) bool {
	var ne net.Error
	if errors.As(err, &ne) && ne.Timeout() {
		return true
	}
	return err != nil && strings.Contains(err.Error(), "i/o timeout")
}

func c05wsBodyLen(p *packet.TransferPacket) int {
	n := len(p.Payload)
	if c := p.CommandPacket; c != nil {
		n += len(c.CommandId) + len(c.Token) + len(c.SenderId) + len(c.ReceiverId) + len(c.CommandBody)
	}
	return n
}

// c05wsServe plays the per-connection read loop on the accepted conn.
type c05wsServeOpt struct {
	bound    uint64                                // allocation bound per ReadPacket (0 = c05wsAllocBound)
	onPacket func(i int, p *packet.TransferPacket) // sees every decoded packet
}

func c05wsServe(sc *wsServerConn, maxCalls int, emptyBudget int64, report func(sig string, extra map[string]any), opt c05wsServeOpt) (obs c05wsObs) {
	bound := uint64(c05wsAllocBound)
	if opt.bound > 0 {
		bound = opt.bound
	}
	meter := &c05wsMeter{r: sc, emptyBudget: emptyBudget}
	ctx, cancel := context.WithCancel(context.Background())
	sp := stream.NewStreamProcessor(meter, sc, ctx)
	defer func() {
		obs.Reads, obs.PostErr, obs.ZeroRun, obs.Bytes = meter.reads, meter.postErr, meter.maxZeroRun, meter.delivered
		obs.Close = gen.CloseAsync(func() { sp.Close(); sc.Close() }, 2*time.Second, 20*time.Second)
		if obs.Close.Hung {
			report("C05:ws|close-hangs", map[string]any{"after_panic": obs.Panic, "closer_state": obs.Close.State, "closer_parked_at": obs.Close.Frames})
		} else if obs.Close.Panic != "" {
			report("C05:ws|panic-in-close|"+c05wsNumRe.ReplaceAllString(c05wsClip(obs.Close.Panic, 60), "N"), map[string]any{"panic": obs.Close.Panic})
		}
		cancel()
	}()
	sc.SetReadDeadline(time.Now().Add(45 * time.Second)) // watchdog only
	for i := 0; ; i++ {
		if i >= maxCalls {
			obs.Capped = true
			return
		}
		var pkt *packet.TransferPacket
		var err error
		stop := false
		var alloc uint64
		func() {
			var m0, m1 runtime.MemStats
			runtime.ReadMemStats(&m0)
			defer func() {
				runtime.ReadMemStats(&m1)
				alloc = m1.TotalAlloc - m0.TotalAlloc
				if e := recover(); e != nil {
					stop = true
					if e == c05wsErrSpin {
						obs.Spin = true
						report("C05:ws|spin|reads-after-conn-error-or-endless-empty-reads", map[string]any{"reads_after_error": meter.postErr, "zero_byte_reads_in_a_row": meter.zeroRun, "readpacket_call": i})
						return
					}
					obs.Panic = fmt.Sprint(e)
					// recorded here, immediately, before any cleanup runs
					report("C05:ws|panic|"+c05wsNumRe.ReplaceAllString(c05wsClip(obs.Panic, 60), "N")+"|at="+c05wsTopFrames(string(debug.Stack())),
						map[string]any{"panic": obs.Panic, "readpacket_call": i})
				}
			}()
			pkt, _, err = sp.ReadPacket()
		}()
		obs.Calls++
		if alloc > obs.MaxAlloc {
			obs.MaxAlloc = alloc
		}
		if alloc > bound {
			report(fmt.Sprintf("C05:ws|alloc>%dxMax", bound/c05wsMax), map[string]any{"readpacket_call": i, "allocated_bytes": alloc, "bound": bound, "bytes_handed_to_decoder_so_far": meter.delivered})
		}
		if stop {
			return
		}
		if err != nil {
			obs.ErrFull = err.Error()
			obs.LastErr = c05wsNumRe.ReplaceAllString(c05wsClip(obs.ErrFull, 110), "N")
			obs.Watchdog = c05wsIsTimeout(err)
			return
		}
		if pkt == nil {
			report("C05:ws|nil-packet-without-error", map[string]any{"readpacket_call": i})
			return
		}
		obs.OK++
		if opt.onPacket != nil {
			opt.onPacket(i, pkt)
		}
		if len(obs.Types) < 8 {
			obs.Types = append(obs.Types, byte(pkt.PacketType))
		}
		if bl := c05wsBodyLen(pkt); bl > obs.MaxBody {
			obs.MaxBody = bl
			if bl > c05wsMax {
				report("C05:ws|body>Max", map[string]any{"readpacket_call": i, "decoded_body_len": bl})
			}
		}
	}
}

// ---- environment ---------------------------------------------------------------------

type c05wsEnv struct {
	srv    *WebSocketAdapter
	url    string
	cancel context.CancelFunc
}

func c05wsNewEnv(t *testing.T) *c05wsEnv {
	t.Helper()
	ctx, cancel := context.WithCancel(context.Background())
	e := &c05wsEnv{cancel: cancel}
	e.srv = NewWebSocketAdapter(ctx, nil)
	if err := e.srv.Listen("127.0.0.1:0"); err != nil {
		t.Fatalf("websocket adapter listen: %v", err)
	}
	e.url = "ws://" + e.srv.listener.Addr().String() + WebSocketDefaultPath
	return e
}

func (e *c05wsEnv) Close() {
	e.srv.Close()
	e.cancel()
}

func (e *c05wsEnv) pair(t *testing.T) (*wsServerConn, *websocket.Conn) {
	t.Helper()
	d := websocket.Dialer{HandshakeTimeout: 20 * time.Second}
	cc, _, err := d.Dial(e.url, nil)
	if err != nil {
		t.Fatalf("hostile client dial: %v", err)
	}
	s, err := e.srv.Accept()
	if err != nil {
		t.Fatalf("websocket accept: %v", err)
	}
	sc, ok := s.(*wsServerConn)
	if !ok {
		t.Fatalf("Accept returned %T, want *wsServerConn", s)
	}
	return sc, cc
}

// c05wsExec runs one script on a fresh connection. ok=false: harness watchdog.
func c05wsExec(t *testing.T, run *vk.Run, env *c05wsEnv, s *c05wsScript, hits *int) (c05wsObs, bool) {
	return c05wsExecOpt(t, run, env, s, hits, c05wsServeOpt{})
}

func c05wsExecOpt(t *testing.T, run *vk.Run, env *c05wsEnv, s *c05wsScript, hits *int, opt c05wsServeOpt) (c05wsObs, bool) {
	run.Case("ws|"+s.Family+"/"+s.Sub, s.witness())
	sc, cc := env.pair(t)
	report := func(sig string, extra map[string]any) {
		w := s.witness()
		for k, v := range extra {
			w[k] = v
		}
		*hits++
		run.Violation(sig, w)
	}
	played := make(chan struct{})
	go func() { defer close(played); c05wsPlay(cc, s) }()
	done := make(chan c05wsObs, 1)
	go func() { done <- c05wsServe(sc, s.bytesTotal()+len(s.Acts)+2, s.emptyBudget(), report, opt) }()
	wd := time.NewTimer(150 * time.Second)
	defer wd.Stop()
	var o c05wsObs
	select {
	case o = <-done:
	case <-wd.C:
		run.Count("watchdog", 1)
		run.Observe("watchdog_case", s.witness())
		cc.Close()
		return o, false
	}
	cc.Close() // unblocks a client still writing to a server that stopped reading
	<-played
	run.Eval(1)
	if o.Watchdog {
		run.Count("watchdog", 1)
		run.Observe("watchdog_case", s.witness())
		return o, false
	}
	if !o.Close.Returned && !o.Close.Hung {
		run.Count("watchdog", 1)
		run.Observe("cleanup_undecided", s.witness())
		return o, false
	}
	if o.Capped {
		report("C05:ws|more-packets-than-bytes", map[string]any{"readpacket_calls": o.Calls})
	}
	run.Max("max_alloc_one_readpacket", int64(o.MaxAlloc))
	run.Max("max_decoded_body_len", int64(o.MaxBody))
	run.Max("max_reads_after_conn_error", o.PostErr)
	run.Max("max_zero_byte_reads_in_a_row", o.ZeroRun)
	run.Count("readpacket_calls", int64(o.Calls))
	run.Count("packets_decoded_ok", int64(o.OK))
	oc := o.LastErr
	if i := strings.Index(oc, "] "); i >= 0 && strings.HasPrefix(oc, "[") {
		oc = oc[i+2:] // drop the leading error-code tag
	}
	run.Observe("error_example:"+c05wsClip(oc, 48), o.ErrFull)
	switch full := o.ErrFull; {
	case o.Panic != "":
		oc = "panic"
	case strings.Contains(full, "unexpected websocket message type"):
		run.Count("outcome_non_binary_message_rejected", 1)
	case strings.Contains(full, "exceeds maximum"):
		run.Count("outcome_length_rejected", 1)
	case strings.Contains(full, "websocket read failed"):
		run.Count("outcome_websocket_read_error", 1)
	case strings.Contains(full, "EOF"):
		run.Count("outcome_eof", 1)
	}
	run.Distinct(fmt.Sprintf("%s|%s|ok%d|%s", s.Family, c05wsSubClass(s.Sub), c05wsMin(o.OK, 3), c05wsClip(oc, 48)))
	return o, true
}

func c05wsSubClass(sub string) string {
	if i := strings.Index(sub, "#"); i >= 0 {
		return sub[:i]
	}
	return sub
}

func c05wsMin(a, b int) int {
	if a < b {
		return a
	}
	return b
}

// ---- material --------------------------------------------------------------------------

func c05wsPattern(n int, seed byte) []byte {
	b := make([]byte, n)
	for i := range b {
		b[i] = seed + byte(i*7) + byte(i>>8)
	}
	return b
}

// c05wsPacketsFill returns exactly n bytes made of whole well-formed packets.
func c05wsPacketsFill(n int, body int) []byte {
	out := make([]byte, 0, n)
	for len(out) < n {
		left := n - len(out)
		switch {
		case left < 5:
			out = append(out, 0x03) // heartbeat: one byte
		case left < 5+body+5:
			out = append(out, gen.Frame(0x22, c05wsPattern(left-5, byte(left)))...)
		default:
			out = append(out, gen.Frame(0x22, c05wsPattern(body, byte(len(out))))...)
		}
	}
	return out
}

var c05wsHandshake = []byte(`{"client_id":0,"token":"new-client","version":"3.0","protocol":"websocket","connection_type":"control"}`)

// TestVerifC05WSBigFrames: binary messages around and far above the 64 KiB WebSocket
// buffer size, each sent both as ONE frame (hand-built) and the way the gorilla client
// sends it (a fragmented message of 4 KiB frames).
func TestVerifC05WSBigFrames(t *testing.T) {
	vk.Quiet()
	run := vk.Start(t, "C05", "ws-bigframes")
	defer run.Finish()
	run.Rule("pre-auth binary WebSocket messages of sizes {1,5,4KiB,64KiB-1,64KiB,64KiB+1,+2,+5,+6,100000,1MiB,4MiB}, each as one single frame and as a message fragmented into 4 KiB frames, into the adapter's accepted wsServerConn + ReadPacket loop; content per size: one packet filling the frame exactly, whole packets of ~1000 bytes filling it, a declared length longer than the frame, seeded random bytes, one packet spanning two frames of that size; followed by a well-formed handshake packet in a message of its own; ends fin / close+fin / rst; distinct = (size, content, outcome)")
	env := c05wsNewEnv(t)
	defer env.Close()
	r := run.Rand("gen")
	sizes := []int{1, 5, 4096, 65535, 65536, 65537, 65538, 65541, 65542, 100000, 1 << 20, 4 << 20}
	hits := 0
	hs := gen.Frame(0x01, c05wsHandshake)
	n := 0
loop:
	for rep := 0; rep < run.Pick(1, 4); rep++ {
		for _, S := range sizes {
			for ci, content := range []string{"one-packet", "packets-1k", "declared-longer", "random", "spanning-two-frames", "one-packet", "packets-1k", "declared-longer", "random", "spanning-two-frames"} {
				delivery := "single-frame"
				if ci >= 5 {
					delivery = "fragmented-4KiB"
				}
				var acts []c05wsAct
				wantOK := -1
				switch content {
				case "one-packet":
					acts = []c05wsAct{c05wsBin(c05wsPacketsFill(S, S))}
					wantOK = 2
				case "packets-1k":
					acts = []c05wsAct{c05wsBin(c05wsPacketsFill(S, 1000))}
				case "declared-longer":
					if S < 5 {
						continue
					}
					acts = []c05wsAct{c05wsBin(gen.FrameLen(0x22, uint32(S+1000), c05wsPattern(S-5, 9)))}
				case "random":
					b := make([]byte, S)
					r.Read(b)
					acts = []c05wsAct{c05wsBin(b)}
				default:
					if S < 5 {
						continue
					}
					p := gen.Frame(0x22, c05wsPattern(2*S-5, 3))
					acts = []c05wsAct{c05wsBin(p[:S]), c05wsBin(p[S:])}
					wantOK = 2
				}
				if delivery == "single-frame" {
					for i := range acts {
						acts[i] = c05wsRaw("one binary frame (FIN, opcode 2, masked)", c05wsF(0x82, acts[i].Data))
					}
				}
				acts = append(acts, c05wsBin(hs))
				s := &c05wsScript{Family: "bigframe", Sub: fmt.Sprintf("size=%d/%s/%s", S, content, delivery), Acts: acts, End: []string{"fin", "close+fin", "rst"}[n%3]}
				n++
				o, ok := c05wsExec(t, run, env, s, &hits)
				if !ok {
					break loop
				}
				if S > 65536 {
					run.Count("frames_over_64KiB", 1)
				}
				if S >= 1<<20 {
					run.Count("frames_1MiB_and_more", 1)
				}
				if wantOK > 0 && s.End != "rst" {
					// non-vacuity only: the well-formed cases really reach the decoder
					if o.OK == wantOK {
						run.Count("wellformed_big_frames_decoded", 1)
					} else {
						run.Count("wellformed_big_frames_not_decoded", 1)
						run.Observe("not_decoded:"+s.Sub, map[string]any{"ok": o.OK, "last_error": o.LastErr})
					}
				}
				if hits >= 15 || run.Violations() >= 20 {
					run.Count("stopped_early_after_violations", 1)
					break loop
				}
			}
		}
	}
	if run.Counter("watchdog") == 0 {
		run.Count("completed_without_watchdog", 1)
	}
	run.Floor("completed_without_watchdog", 1)
	run.Floor("frames_over_64KiB", 60)
	run.Floor("frames_1MiB_and_more", 20)
	run.Floor("wellformed_big_frames_decoded", 24)
}

// c05wsNoise is a legal-but-useless frame a peer may put anywhere between data frames.
func c05wsNoise(r *rand.Rand) c05wsAct {
	switch r.Intn(5) {
	case 0:
		return c05wsBin(nil) // empty binary message
	case 1:
		return c05wsAct{Kind: "ping", Data: c05wsPattern(r.Intn(126), 1)}
	case 2:
		return c05wsAct{Kind: "pong", Data: c05wsPattern(r.Intn(126), 2)}
	case 3:
		return c05wsRaw("empty-binary-fragments", append(c05wsF(0x02, nil), c05wsF(0x80, nil)...))
	default:
		return c05wsAct{Kind: "ping"}
	}
}

// c05wsSplit delivers data as binary messages according to a seeded partition; class
// "frag" sends it as ONE message of many continuation frames with pings in between.
func c05wsSplit(r *rand.Rand, data []byte) (string, []c05wsAct) {
	if len(data) == 0 {
		return "empty", []c05wsAct{c05wsBin(nil)}
	}
	k := r.Intn(10)
	switch {
	case k < 3:
		return "whole", []c05wsAct{c05wsBin(data)}
	case k < 5 && len(data) <= 400:
		acts := make([]c05wsAct, len(data))
		for i := range data {
			acts[i] = c05wsBin(data[i : i+1])
		}
		return "bytes", acts
	case k == 5:
		sizes := vk.RandPartition(r, len(data), 1+len(data)/2)
		if len(sizes) > 200 {
			return "whole", []c05wsAct{c05wsBin(data)}
		}
		var raw []byte
		off := 0
		for i, n := range sizes {
			b0 := byte(0x00)
			if i == 0 {
				b0 = 0x02
			}
			if i == len(sizes)-1 {
				b0 |= 0x80
			}
			raw = append(raw, c05wsF(b0, data[off:off+n])...)
			if r.Intn(4) == 0 && i < len(sizes)-1 {
				raw = append(raw, c05wsF(0x89, []byte("p"))...)
			}
			off += n
		}
		return "frag", []c05wsAct{c05wsRaw("fragmented binary message", raw)}
	}
	mc := []int{2, 5, 64, 4096, 70000}[r.Intn(5)]
	if len(data)/mc > 400 {
		mc = 4096
	}
	sizes := vk.RandPartition(r, len(data), mc)
	noisy := r.Intn(3) == 0
	var acts []c05wsAct
	off := 0
	for _, n := range sizes {
		acts = append(acts, c05wsBin(data[off:off+n]))
		off += n
		if noisy && r.Intn(3) == 0 {
			acts = append(acts, c05wsNoise(r))
		}
	}
	if noisy {
		return "random+noise", acts
	}
	return "random", acts
}

// TestVerifC05WSHostileBytes: the hostile byte streams of the shared C05 generator,
// carried over WebSocket messages.
func TestVerifC05WSHostileBytes(t *testing.T) {
	vk.Quiet()
	run := vk.Start(t, "C05", "ws-hostile-bytes")
	defer run.Finish()
	run.Rule("a seeded sample of the shared C05 generator's inputs (type bytes x body shapes, adversarial length fields, gzip members, hostile JSON, handshake/tunnel-open/command bodies, truncations, mutations, random frames, uniform bytes; no bombs) sent pre-auth over the WebSocket transport split into binary messages: whole / one byte per message / seeded partition / the same with empty binary messages, pings, pongs in between / one fragmented message with pings between fragments; then seeded mutants of those streams mixed with text frames, close frames and raw garbage; distinct = (family, partition class, outcome)")
	env := c05wsNewEnv(t)
	defer env.Close()
	r := run.Rand("gen")
	rs := run.Rand("sample")
	rc := run.Rand("split")
	plan := gen.Plan{Random: 250, RandFrame: 250, Mutate: 500, TruncSeeds: 8, GzipTrunc: 1, NoHeavy: true, CmdBodies: 1, LenTypes: []byte{0x22, 0x10, 0x41}}
	keep := map[string]int{"types": 9, "gzip": 5, "json": 3, "bodies": 5, "session": 8, "truncate": 10, "lengths": 1, "valid": 1, "mutate": 1, "randframe": 1, "random": 1}
	if run.Thorough() {
		plan.Random, plan.RandFrame, plan.Mutate, plan.TruncSeeds, plan.GzipTrunc, plan.CmdBodies = 2500, 2500, 5000, 8, 3, 2
		keep = map[string]int{"types": 2, "gzip": 1, "json": 1, "bodies": 1, "session": 2}
	}
	hits := 0
	stopped := false
	var pool [][]byte
	gen.Generate(r, plan, func(in gen.Input) bool {
		if k := keep[in.Family]; k > 1 && rs.Intn(k) != 0 {
			return true
		}
		if in.Heavy && len(in.Data) > 1<<20 {
			return true
		}
		class, acts := c05wsSplit(rc, in.Data)
		s := &c05wsScript{Family: in.Family, Sub: in.Sub + "#" + class, Acts: acts, End: []string{"fin", "fin", "close+fin", "rst"}[rc.Intn(4)], Note: in.Note}
		s.Family = "gen-" + in.Family
		o, ok := c05wsExec(t, run, env, s, &hits)
		if !ok {
			stopped = true
			return false
		}
		run.Count("split_"+class, 1)
		run.Count("family_"+in.Family, 1)
		if o.OK > 0 {
			run.Count("inputs_with_decoded_packet", 1)
		}
		if in.Valid && s.End != "rst" {
			if strings.Contains(o.ErrFull, "EOF") && o.OK > 0 {
				run.Count("valid_streams_decoded", 1)
			} else {
				run.Count("valid_streams_not_decoded", 1)
			}
		}
		if len(in.Data) > 5 && len(in.Data) <= 1500 && len(pool) < 400 && (in.Family == "valid" || in.Family == "mutate" || in.Family == "session" || in.Family == "randframe") {
			pool = append(pool, in.Data)
		}
		if hits >= 15 || run.Violations() >= 20 {
			run.Count("stopped_early_after_violations", 1)
			return false
		}
		return true
	})
	// seeded mixes: stream material cut into messages with non-binary and raw frames in between
	nmix := run.Pick(300, 4000)
	for i := 0; i < nmix && !stopped && len(pool) > 0 && hits < 15 && run.Violations() < 20; i++ {
		data := append([]byte(nil), pool[r.Intn(len(pool))]...)
		for k := r.Intn(3); k > 0; k-- {
			data[r.Intn(len(data))] ^= 1 << uint(r.Intn(8))
		}
		sizes := vk.RandPartition(r, len(data), 1+r.Intn(len(data)))
		var acts []c05wsAct
		off := 0
		for _, n := range sizes {
			acts = append(acts, c05wsBin(data[off:off+n]))
			off += n
			switch r.Intn(12) {
			case 0:
				acts = append(acts, c05wsText([]byte("hello")))
			case 1:
				acts = append(acts, c05wsText(nil))
			case 2:
				acts = append(acts, c05wsRaw("close frame mid-stream", c05wsF(0x88, []byte{0x03, byte(0xe8 + r.Intn(12))})))
			case 3:
				g := make([]byte, 1+r.Intn(40))
				r.Read(g)
				acts = append(acts, c05wsRaw("garbage instead of a frame", g))
			case 4, 5, 6:
				acts = append(acts, c05wsNoise(r))
			}
		}
		s := &c05wsScript{Family: "mix", Sub: "seeded", Acts: acts, End: []string{"fin", "close+fin", "rst"}[r.Intn(3)]}
		if _, ok := c05wsExec(t, run, env, s, &hits); !ok {
			stopped = true
		}
		run.Count("mixes", 1)
	}
	if !stopped {
		run.Count("completed_without_watchdog", 1)
	}
	run.Floor("completed_without_watchdog", 1)
	run.Floor("packets_decoded_ok", 500)
	run.Floor("valid_streams_decoded", 12)
	run.Floor("split_bytes", 50)
	run.Floor("split_random+noise", 50)
	run.Floor("split_frag", 30)
	run.Floor("outcome_length_rejected", 20)
	run.Floor("outcome_non_binary_message_rejected", 20)
	run.Floor("mixes", int64(run.Pick(300, 4000)))
}

// TestVerifC05WSFrames: hostility at the WebSocket framing level.
func TestVerifC05WSFrames(t *testing.T) {
	vk.Quiet()
	run := vk.Start(t, "C05", "ws-frames")
	defer run.Finish()
	run.Rule("enumerated WebSocket-level hostility sent pre-auth, each at three positions (first thing on the connection / in the middle of a packet / between two packets): text frames (empty, ASCII, invalid UTF-8, 70000 bytes, packet bytes as text), 1..50 empty binary messages, pings/pongs (0..125 bytes, bursts), close frames (codes 1000..1015, 3000, 4999, invalid codes, no payload, 1-byte payload, 123-byte reason, data after close), fragmented messages (2/3/100 fragments, pings between, empty continuations, new data frame inside a fragmented message, continuation without start, unfinished message), raw protocol violations (unmasked frame, RSV bits, reserved opcodes, fragmented / oversize control frames, 64-bit lengths with the top bit set or 2^40 followed by a few bytes, non-minimal length encodings, frame header truncated at every offset, HTTP text, seeded garbage); distinct = (hostile act, position, outcome)")
	env := c05wsNewEnv(t)
	defer env.Close()
	r := run.Rand("gen")
	p1 := gen.Frame(0x01, c05wsHandshake)
	p2 := gen.Frame(0x22, c05wsPattern(300, 5))
	key := [4]byte{0xa1, 0xb2, 0xc3, 0xd4}
	type hostile struct {
		name string
		acts []c05wsAct
	}
	var hs []hostile
	add := func(name string, acts ...c05wsAct) { hs = append(hs, hostile{name, acts}) }
	// text frames
	add("text/ascii", c05wsText([]byte("hello")))
	add("text/empty", c05wsText(nil))
	add("text/invalid-utf8", c05wsText([]byte{0xff, 0xfe, 0xc0, 0x80}))
	add("text/70000", c05wsText(c05wsPattern(70000, 'a')))
	add("text/packet-bytes", c05wsText(p1))
	// empty binary messages
	add("empty-binary/1", c05wsBin(nil))
	var e50 []c05wsAct
	for i := 0; i < 50; i++ {
		e50 = append(e50, c05wsBin(nil))
	}
	add("empty-binary/50", e50...)
	// control frames
	add("ping/empty", c05wsAct{Kind: "ping"})
	add("ping/125", c05wsAct{Kind: "ping", Data: c05wsPattern(125, 1)})
	add("pong/empty", c05wsAct{Kind: "pong"})
	add("pong/125", c05wsAct{Kind: "pong", Data: c05wsPattern(125, 2)})
	var p20 []c05wsAct
	for i := 0; i < 20; i++ {
		p20 = append(p20, c05wsAct{Kind: "ping", Data: []byte{byte(i)}}, c05wsAct{Kind: "pong", Data: []byte{byte(i)}})
	}
	add("ping-pong/burst", p20...)
	// close frames
	for _, code := range []int{1000, 1001, 1002, 1003, 1007, 1008, 1009, 1010, 1011, 1012, 1013, 1015, 3000, 4999, 0, 999, 1004, 1005, 1006, 65535} {
		add(fmt.Sprintf("close/code=%d", code), c05wsRaw("close frame", c05wsF(0x88, []byte{byte(code >> 8), byte(code)})))
	}
	add("close/no-payload", c05wsRaw("close frame", c05wsF(0x88, nil)))
	add("close/1-byte-payload", c05wsRaw("close frame", c05wsF(0x88, []byte{0x03})))
	add("close/reason-123", c05wsRaw("close frame", c05wsF(0x88, append([]byte{0x03, 0xe8}, c05wsPattern(123, 'r')...))))
	add("close/reason-invalid-utf8", c05wsRaw("close frame", c05wsF(0x88, []byte{0x03, 0xe8, 0xff, 0xfe})))
	add("close/then-data", c05wsRaw("close frame then a binary frame", append(c05wsF(0x88, []byte{0x03, 0xe8}), c05wsF(0x82, p2)...)))
	// fragmentation
	add("frag/2", c05wsRaw("", append(c05wsF(0x02, p2[:100]), c05wsF(0x80, p2[100:])...)))
	add("frag/3+ping", c05wsRaw("", append(append(append(c05wsF(0x02, p2[:3]), c05wsF(0x89, []byte("x"))...), c05wsF(0x00, p2[3:200])...), c05wsF(0x80, p2[200:])...)))
	{
		var raw []byte
		for i := 0; i < 100; i++ {
			b0 := byte(0)
			if i == 0 {
				b0 = 0x02
			}
			if i == 99 {
				b0 |= 0x80
			}
			raw = append(raw, c05wsF(b0, p2[i:i+1])...)
		}
		add("frag/100x1", c05wsRaw("", raw), c05wsBin(p2[100:]))
	}
	add("frag/empty-continuations", c05wsRaw("", append(append(append(c05wsF(0x02, nil), c05wsF(0x00, nil)...), c05wsF(0x00, p2)...), c05wsF(0x80, nil)...)))
	add("frag/new-data-frame-inside", c05wsRaw("", append(c05wsF(0x02, p2[:50]), c05wsF(0x82, p2[50:])...)))
	add("frag/text-inside-binary", c05wsRaw("", append(c05wsF(0x02, p2[:50]), c05wsF(0x81, []byte("t"))...)))
	add("frag/continuation-without-start", c05wsRaw("", c05wsF(0x80, p2)))
	add("frag/unfinished", c05wsRaw("", c05wsF(0x02, p2)))
	// raw protocol violations
	add("raw/unmasked", c05wsRaw("", c05wsRawFrame(0x82, false, 0, -1, 0, p2, key)))
	for _, rsv := range []byte{0x40, 0x20, 0x10, 0x70} {
		add(fmt.Sprintf("raw/rsv=%02x", rsv), c05wsRaw("", c05wsF(0x82|rsv, p2)))
	}
	for _, op := range []byte{3, 4, 5, 6, 7, 0xb, 0xc, 0xd, 0xe, 0xf} {
		add(fmt.Sprintf("raw/opcode=%x", op), c05wsRaw("", c05wsF(0x80|op, p2[:20])))
	}
	add("raw/ping-fin0", c05wsRaw("", c05wsF(0x09, []byte("x"))))
	add("raw/ping-126", c05wsRaw("", c05wsRawFrame(0x89, true, 16, -1, 0, c05wsPattern(126, 1), key)))
	add("raw/close-126", c05wsRaw("", c05wsRawFrame(0x88, true, 16, -1, 0, c05wsPattern(126, 1), key)))
	add("raw/pong-70000", c05wsRaw("", c05wsRawFrame(0x8a, true, 64, -1, 0, c05wsPattern(70000, 1), key)))
	add("raw/len64-top-bit", c05wsRaw("", c05wsRawFrame(0x82, true, 64, -1, 1<<63|5, p2[:5], key)))
	add("raw/len64-max", c05wsRaw("", c05wsRawFrame(0x82, true, 64, -1, ^uint64(0), p2[:5], key)))
	add("raw/len64-2^63-1", c05wsRaw("", c05wsRawFrame(0x82, true, 64, -1, 1<<63-1, p2[:5], key)))
	add("raw/len64-2^40-then-end", c05wsRaw("", c05wsRawFrame(0x82, true, 64, 1<<40, 0, p2, key)))
	add("raw/len64-2^31-then-end", c05wsRaw("", c05wsRawFrame(0x82, true, 64, 1<<31, 0, p2, key)))
	add("raw/len16-declared-longer", c05wsRaw("", c05wsRawFrame(0x82, true, 16, 60000, 0, p2, key)))
	add("raw/nonminimal-len16", c05wsRaw("", c05wsRawFrame(0x82, true, 16, -1, 0, p2[:5], key)))
	add("raw/nonminimal-len64", c05wsRaw("", c05wsRawFrame(0x82, true, 64, -1, 0, p2[:5], key)))
	full := c05wsRawFrame(0x82, true, 64, -1, 0, p2, key)
	for k := 1; k <= 14; k++ {
		add(fmt.Sprintf("raw/header-truncated#%d", k), c05wsRaw(fmt.Sprintf("first %d bytes of a 14-byte frame header", k), full[:k]))
	}
	add("raw/http-text", c05wsRaw("", []byte("GET / HTTP/1.1\r\nHost: x\r\n\r\n")))
	for i := 0; i < run.Pick(12, 200); i++ {
		g := make([]byte, 1+r.Intn(80))
		r.Read(g)
		add(fmt.Sprintf("raw/garbage#%d", i), c05wsRaw("seeded random bytes instead of a frame", g))
	}

	hits := 0
	n := 0
loop:
	for _, h := range hs {
		for _, pos := range []string{"first", "mid-packet", "between-packets"} {
			var acts []c05wsAct
			switch pos {
			case "first":
				acts = append(append(acts, h.acts...), c05wsBin(p1), c05wsBin(p2))
			case "mid-packet":
				acts = append(append(append(acts, c05wsBin(p1[:3])), h.acts...), c05wsBin(append(append([]byte(nil), p1[3:]...), p2...)))
			default:
				acts = append(append(append(acts, c05wsBin(p1)), h.acts...), c05wsBin(p2))
			}
			s := &c05wsScript{Family: "frames", Sub: h.name + "#" + pos, Acts: acts, End: []string{"fin", "close+fin", "rst"}[n%3]}
			n++
			o, ok := c05wsExec(t, run, env, s, &hits)
			if !ok {
				break loop
			}
			kind := h.name[:strings.Index(h.name, "/")]
			run.Count("hostile_"+kind, 1)
			if s.End != "rst" && o.OK >= 2 {
				run.Count("scripts_tolerated_both_packets_decoded", 1)
			}
			if hits >= 15 || run.Violations() >= 20 {
				run.Count("stopped_early_after_violations", 1)
				break loop
			}
		}
	}
	if run.Counter("watchdog") == 0 {
		run.Count("completed_without_watchdog", 1)
	}
	run.Floor("completed_without_watchdog", 1)
	run.Floor("hostile_text", 15)
	run.Floor("hostile_empty-binary", 6)
	run.Floor("hostile_close", 60)
	run.Floor("hostile_frag", 24)
	run.Floor("hostile_raw", 120)
	run.Floor("outcome_non_binary_message_rejected", 10)
	run.Floor("outcome_websocket_read_error", 50)
	run.Floor("scripts_tolerated_both_packets_decoded", 12)
}

// TestVerifC05WSOversize: messages larger than any packet can be. The server must not
// buffer them: allocation per ReadPacket stays under the bound that holds for the
// largest LEGAL message (measured, see c05wsAllocBoundMaxMsg), and the conn reports an
// error instead of handing bytes of such a message to the decoder. The counterpart
// keeps the bound honest from below: a MaxPacketBodySize body written by the real
// WritePacket over the real ws client conn must still decode.
func TestVerifC05WSOversize(t *testing.T) {
	vk.Quiet()
	run := vk.Start(t, "C05", "ws-oversize")
	defer run.Finish()
	run.Rule("pre-auth messages of 17, 24, 64 MiB (thorough: +128 MiB) into the adapter's accepted wsServerConn + ReadPacket loop, each as ONE binary frame and as the gorilla client sends it (4 KiB fragments), as the first thing on the connection and after a well-formed handshake packet; fragmented messages whose continuation frames sum past the cap (24 x 1 MiB, 400 x 64 KiB, 15.5 MiB of 64 KiB fragments + one 30 MiB final fragment, 1 MiB + 2^40 declared); content = a packet header declaring 4 GiB so that the decoder stops at once if it is given the bytes; oracle: TotalAlloc per ReadPacket <= 12 x Max (legal 16 MiB messages cost 8.1-9.1 x Max on /repo) and zero bytes of the oversize message reach the decoder (Read errors); plus the legal maximum: Max-byte body by the real WritePacket over the adapter's own client conn (and the same packet coalesced into one message) decodes identically; distinct = (case, delivery, position, outcome)")
	env := c05wsNewEnv(t)
	defer env.Close()
	hits := 0
	opt := c05wsServeOpt{bound: c05wsAllocBoundMaxMsg}

	// ---- the largest legal message --------------------------------------------------
	body := c05wsPattern(c05wsMax, 7)
	sentinel := []byte("sentinel")
	{
		ctx, cancel := context.WithCancel(context.Background())
		cli := NewWebSocketAdapter(ctx, nil)
		run.Case("ws|legal-max/real-writer", map[string]any{"body_len": len(body)})
		c, err := cli.Dial(env.url)
		if err != nil {
			t.Fatalf("adapter dial: %v", err)
		}
		s, err := env.srv.Accept()
		if err != nil {
			t.Fatalf("accept: %v", err)
		}
		sc := s.(*wsServerConn)
		wdone := make(chan error, 1)
		go func() {
			sp := stream.NewStreamProcessor(strings.NewReader(""), c, ctx)
			_, err := sp.WritePacket(&packet.TransferPacket{PacketType: packet.TunnelData, Payload: body}, false, 0)
			if err == nil {
				_, err = sp.WritePacket(&packet.TransferPacket{PacketType: packet.TunnelClose, Payload: sentinel}, false, 0)
			}
			wdone <- err
			c.Close() // normal close frame: end of the finite stream
		}()
		var got [][]byte
		report := func(sig string, extra map[string]any) {
			extra["case"] = "MaxPacketBodySize body written by the real WritePacket over the adapter's ws client conn"
			hits++
			run.Violation(sig, extra)
		}
		o := c05wsServe(sc, 8, 64, report, c05wsServeOpt{bound: c05wsAllocBoundMaxMsg, onPacket: func(i int, p *packet.TransferPacket) { got = append(got, p.Payload) }})
		werr := <-wdone
		cli.Close()
		cancel()
		run.Eval(1)
		run.Max("max_alloc_one_readpacket", int64(o.MaxAlloc))
		run.Observe("legal_max_real_writer", map[string]any{"alloc_one_readpacket": o.MaxAlloc, "decoded": o.OK, "last_error": o.ErrFull, "writer_error": fmt.Sprint(werr)})
		switch {
		case o.Watchdog:
			run.Count("watchdog", 1)
		case len(got) == 2 && string(got[0]) == string(body) && string(got[1]) == string(sentinel):
			run.Count("legal_max_message_decoded", 1)
			run.Distinct("legal-max|real-writer|decoded")
		case o.Panic == "":
			hits++
			run.Violation("C05:ws|legal-max-message-not-decoded", map[string]any{"case": "MaxPacketBodySize body written by the real WritePacket over the adapter's ws client conn, then a sentinel packet",
				"packets_decoded": o.OK, "first_payload_len": func() int {
					if len(got) > 0 {
						return len(got[0])
					}
					return -1
				}(), "last_error": o.ErrFull, "writer_error": fmt.Sprint(werr), "bytes_handed_to_decoder": o.Bytes})
		}
	}
	{
		// the same packet coalesced into one message (Max+5 bytes): evidence only — whether a
		// message may exceed the body cap by the header is the transport's choice
		s := &c05wsScript{Family: "legal-max", Sub: "coalesced-one-message", Acts: []c05wsAct{c05wsBin(gen.Frame(0x22, body)), c05wsBin(gen.Frame(0x23, sentinel))}, End: "close+fin"}
		if o, ok := c05wsExecOpt(t, run, env, s, &hits, opt); ok {
			run.Observe("legal_max_coalesced", map[string]any{"alloc_one_readpacket": o.MaxAlloc, "decoded": o.OK, "last_error": o.ErrFull})
			if o.OK == 2 {
				run.Count("legal_max_coalesced_decoded", 1)
			}
		}
	}
	body = nil
	runtime.GC()

	// ---- oversize messages -------------------------------------------------------------
	hs := gen.Frame(0x01, c05wsHandshake)
	judge := func(s *c05wsScript, o c05wsObs, prefix int, oversize int64) {
		run.Count("oversize_messages_sent", 1)
		if o.Panic != "" {
			return
		}
		if o.Bytes > int64(prefix) {
			hits++
			w := s.witness()
			w["oversize_message_bytes"] = oversize
			w["bytes_handed_to_decoder"] = o.Bytes
			w["bytes_sent_before_the_oversize_message"] = prefix
			w["alloc_one_readpacket"] = o.MaxAlloc
			w["last_error"] = o.ErrFull
			// Observation only: the property bounds allocation, it does not require the
			// message to be refused (a server streaming it in bounded pieces would comply).
			run.Count("oversize_messages_with_data_delivered", 1)
			run.Sample(w)
		} else {
			run.Count("oversize_messages_refused_without_data", 1)
		}
		if strings.Contains(o.ErrFull, "read limit") {
			run.Count("outcome_read_limit_exceeded", 1)
		}
	}
	sizesMiB := []int{17, 24, 64}
	if run.Thorough() {
		sizesMiB = append(sizesMiB, 128)
	}
	stopped := false
	for _, mb := range sizesMiB {
		if stopped {
			break
		}
		data := gen.FrameLen(0x22, 0xFFFFFFFF, make([]byte, mb<<20-5))
		single := c05wsF(0x82, data)
		for i, delivery := range []string{"single-frame", "fragmented-4KiB", "single-frame", "fragmented-4KiB"} {
			pos := "first"
			var acts []c05wsAct
			prefix := 0
			if i >= 2 {
				pos = "after-handshake-packet"
				acts = append(acts, c05wsBin(hs))
				prefix = len(hs)
			}
			if delivery == "single-frame" {
				acts = append(acts, c05wsRaw(fmt.Sprintf("one binary frame of %d MiB: type 0x22, declared length 2^32-1, zeros", mb), single))
			} else {
				acts = append(acts, c05wsAct{Kind: "bin", Data: data, Note: fmt.Sprintf("one binary message of %d MiB (gorilla client: 4 KiB frames): type 0x22, declared length 2^32-1, zeros", mb)})
			}
			s := &c05wsScript{Family: "oversize", Sub: fmt.Sprintf("%dMiB/%s#%s", mb, delivery, pos), Acts: acts, End: "fin"}
			o, ok := c05wsExecOpt(t, run, env, s, &hits, opt)
			if !ok {
				stopped = true
				break
			}
			judge(s, o, prefix, int64(len(data)))
			if delivery == "single-frame" {
				run.Count("oversize_single_frames", 1)
			}
		}
		data, single = nil, nil
		runtime.GC()
	}
	// fragmented messages whose continuation frames sum past the cap
	type fragCase struct {
		name  string
		build func() ([]byte, int64)
	}
	frag := func(first []byte, mid int, midSize int, last []byte) ([]byte, int64) {
		chunk := make([]byte, midSize)
		raw := c05wsF(0x02, first)
		total := int64(len(first))
		for i := 0; i < mid; i++ {
			raw = append(raw, c05wsF(0x00, chunk)...)
			total += int64(midSize)
		}
		raw = append(raw, c05wsF(0x80, last)...)
		return raw, total + int64(len(last))
	}
	head := gen.FrameLen(0x22, 0xFFFFFFFF, make([]byte, 1<<16-5))
	frags := []fragCase{
		{"24x1MiB", func() ([]byte, int64) { return frag(head, 23, 1<<20, make([]byte, 1<<20)) }},
		{"400x64KiB", func() ([]byte, int64) { return frag(head, 398, 1<<16, make([]byte, 1<<16)) }},
		{"15.5MiB-in-64KiB+30MiB-final", func() ([]byte, int64) { return frag(head, 247, 1<<16, make([]byte, 30<<20)) }},
		{"1MiB+declared-2^40", func() ([]byte, int64) {
			raw, n := frag(head, 15, 1<<16, nil)
			raw = raw[:len(raw)-len(c05wsF(0x80, nil))]
			return append(raw, c05wsRawFrame(0x80, true, 64, 1<<40, 0, make([]byte, 1<<16), [4]byte{1, 2, 3, 4})...), n + 1<<40
		}},
	}
	for _, fc := range frags {
		if stopped {
			break
		}
		raw, total := fc.build()
		for _, pos := range []string{"first", "after-handshake-packet"} {
			var acts []c05wsAct
			prefix := 0
			if pos != "first" {
				acts = append(acts, c05wsBin(hs))
				prefix = len(hs)
			}
			acts = append(acts, c05wsRaw("fragmented binary message, continuation frames sum to "+fmt.Sprint(total)+" bytes; starts with type 0x22, declared length 2^32-1", raw))
			s := &c05wsScript{Family: "oversize", Sub: "frag-" + fc.name + "#" + pos, Acts: acts, End: "fin"}
			o, ok := c05wsExecOpt(t, run, env, s, &hits, opt)
			if !ok {
				stopped = true
				break
			}
			judge(s, o, prefix, total)
			run.Count("oversize_fragmented_messages", 1)
		}
		raw = nil
		runtime.GC()
	}
	if !stopped && run.Counter("watchdog") == 0 {
		run.Count("completed_without_watchdog", 1)
	}
	run.Floor("completed_without_watchdog", 1)
	run.Floor("legal_max_message_decoded", 1)
	run.Floor("oversize_single_frames", 6)
	run.Floor("oversize_fragmented_messages", 8)
	run.Floor("oversize_messages_sent", 20)
}
