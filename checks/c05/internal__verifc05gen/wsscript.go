//go:build verif && verif_c05

package verifc05gen

// Hostile WebSocket traffic: scripts a peer plays after completing the WebSocket
// handshake (before any authentication), shared by the monitors of the WebSocket
// entry points. Frames are built by hand where the gorilla client would refuse to
// send them.

import (
	"crypto/sha256"
	"encoding/binary"
	"encoding/hex"
	"fmt"
	"math/rand"
	"net"
	"strings"
	"time"

	"github.com/gorilla/websocket"

	vk "tunnox-core/internal/verifkit"
)

// WSRawFrame builds one WebSocket frame by hand. b0 = FIN/RSV/opcode byte; lenMode
// 0 = minimal length encoding, 7/16/64 = forced; declared < 0 = actual payload length;
// declaredRaw != 0 overrides the length field with any 64-bit value.
func WSRawFrame(b0 byte, masked bool, lenMode int, declared int64, declaredRaw uint64, payload []byte, key [4]byte) []byte {
	n := uint64(len(payload))
	if declared >= 0 {
		n = uint64(declared)
	}
	if declaredRaw != 0 {
		n = declaredRaw
	}
	mb := byte(0)
	if masked {
		mb = 0x80
	}
	mode := lenMode
	if mode == 0 {
		switch {
		case n < 126:
			mode = 7
		case n < 65536:
			mode = 16
		default:
			mode = 64
		}
	}
	out := make([]byte, 0, 14+len(payload))
	out = append(out, b0)
	switch mode {
	case 7:
		out = append(out, mb|byte(n&0x7f))
	case 16:
		out = append(out, mb|126, byte(n>>8), byte(n))
	default:
		var l [8]byte
		binary.BigEndian.PutUint64(l[:], n)
		out = append(out, mb|127)
		out = append(out, l[:]...)
	}
	if masked {
		out = append(out, key[:]...)
		st := len(out)
		out = append(out, payload...)
		for i := st; i < len(out); i++ {
			out[i] ^= key[(i-st)&3]
		}
	} else {
		out = append(out, payload...)
	}
	return out
}

// WSF is a well-formed masked client frame with the given first byte.
func WSF(b0 byte, payload []byte) []byte {
	return WSRawFrame(b0, true, 0, -1, 0, payload, [4]byte{0x12, 0x34, 0x56, 0x78})
}

// WSAct is one step of a script.
type WSAct struct {
	Kind string // bin | text | ping | pong (through the gorilla client) | raw (bytes straight onto the TCP conn)
	Data []byte
	Note string
}

// WSScript is what one hostile peer does on one connection.
type WSScript struct {
	Family string
	Sub    string
	Acts   []WSAct
	End    string // fin (half-close after the script) | close+fin (normal close frame first) | rst
	Note   string
	// Prefix = bytes of well-formed packets sent before the hostile part (0 = none)
	Prefix int
	// Deflate: the peer offers permessage-deflate in its upgrade request and compresses its
	// data messages when the server agrees
	Deflate bool
}

func (s *WSScript) BytesTotal() int {
	n := 0
	for _, a := range s.Acts {
		n += len(a.Data)
	}
	return n
}

// EmptyBudget = how many frames/messages of the script can legitimately surface as a
// zero-byte read (empty or non-binary messages).
func (s *WSScript) EmptyBudget() int64 {
	n := int64(len(s.Acts)) + 8
	for _, a := range s.Acts {
		if a.Kind == "raw" && len(a.Data) < 1<<16 {
			n += int64(len(a.Data) / 6) // a raw act can hold that many minimal frames
		}
	}
	return n
}

func (s *WSScript) Witness() map[string]any {
	w := map[string]any{"family": s.Family, "sub": s.Sub, "end": s.End, "acts": len(s.Acts), "bytes": s.BytesTotal()}
	if s.Note != "" {
		w["note"] = s.Note
	}
	if s.Deflate {
		w["client_offers_permessage_deflate"] = true
	}
	var acts []map[string]any
	for i, a := range s.Acts {
		if i >= 24 {
			break
		}
		m := map[string]any{"kind": a.Kind, "len": len(a.Data)}
		if a.Note != "" {
			m["note"] = a.Note
		}
		if len(a.Data) <= 96 {
			m["hex"] = hex.EncodeToString(a.Data)
		} else {
			m["hex_head"] = hex.EncodeToString(a.Data[:32])
			if len(a.Data) <= 1<<20 {
				h := sha256.Sum256(a.Data)
				m["sha256"] = hex.EncodeToString(h[:8])
			}
		}
		acts = append(acts, m)
	}
	w["acts_head"] = acts
	return w
}

func WSBin(b []byte) WSAct  { return WSAct{Kind: "bin", Data: b} }
func WSText(b []byte) WSAct { return WSAct{Kind: "text", Data: b} }
func WSRaw(note string, b []byte) WSAct {
	return WSAct{Kind: "raw", Data: b, Note: note}
}

// WSPlay sends the script from the hostile client's side and ends the stream.
func WSPlay(cc *websocket.Conn, s *WSScript) {
	nc := cc.NetConn()
	nc.SetWriteDeadline(time.Now().Add(90 * time.Second))
	dl := time.Now().Add(90 * time.Second)
	for _, a := range s.Acts {
		var err error
		switch a.Kind {
		case "bin":
			err = cc.WriteMessage(websocket.BinaryMessage, a.Data)
		case "text":
			err = cc.WriteMessage(websocket.TextMessage, a.Data)
		case "ping":
			err = cc.WriteControl(websocket.PingMessage, a.Data, dl)
		case "pong":
			err = cc.WriteControl(websocket.PongMessage, a.Data, dl)
		default:
			_, err = nc.Write(a.Data)
		}
		if err != nil {
			break
		}
	}
	tc, _ := nc.(*net.TCPConn)
	switch s.End {
	case "rst":
		if tc != nil {
			tc.SetLinger(0)
		}
		nc.Close()
	case "close+fin":
		nc.Write(WSF(0x88, []byte{0x03, 0xe8}))
		fallthrough
	default:
		if tc != nil {
			tc.CloseWrite()
		} else {
			nc.Close()
		}
	}
}

// WSPattern is deterministic filler.
func WSPattern(n int, seed byte) []byte {
	b := make([]byte, n)
	for i := range b {
		b[i] = seed + byte(i*7) + byte(i>>8)
	}
	return b
}

// WSHandshakeBody is a well-typed first-connect handshake.
var WSHandshakeBody = []byte(`{"client_id":0,"token":"new-client","version":"3.0","protocol":"websocket","connection_type":"control"}`)

// WSNoise is a legal-but-useless frame a peer may put anywhere between data frames.
func WSNoise(r *rand.Rand) WSAct {
	switch r.Intn(5) {
	case 0:
		return WSBin(nil)
	case 1:
		return WSAct{Kind: "ping", Data: WSPattern(r.Intn(126), 1)}
	case 2:
		return WSAct{Kind: "pong", Data: WSPattern(r.Intn(126), 2)}
	case 3:
		return WSRaw("empty-binary-fragments", append(WSF(0x02, nil), WSF(0x80, nil)...))
	default:
		return WSAct{Kind: "ping"}
	}
}

// WSSplit delivers data as binary messages according to a seeded partition; class
// "frag" sends it as ONE message of many continuation frames with pings in between.
func WSSplit(r *rand.Rand, data []byte) (string, []WSAct) {
	if len(data) == 0 {
		return "empty", []WSAct{WSBin(nil)}
	}
	k := r.Intn(10)
	switch {
	case k < 3:
		return "whole", []WSAct{WSBin(data)}
	case k < 5 && len(data) <= 400:
		acts := make([]WSAct, len(data))
		for i := range data {
			acts[i] = WSBin(data[i : i+1])
		}
		return "bytes", acts
	case k == 5:
		sizes := vk.RandPartition(r, len(data), 1+len(data)/2)
		if len(sizes) > 200 {
			return "whole", []WSAct{WSBin(data)}
		}
		var raw []byte
		off := 0
		for i, n := range sizes {
			b0 := byte(0x00)
			if i == 0 {
				b0 = 0x02
			}
			if i == len(sizes)-1 {
				b0 |= 0x80
			}
			raw = append(raw, WSF(b0, data[off:off+n])...)
			if r.Intn(4) == 0 && i < len(sizes)-1 {
				raw = append(raw, WSF(0x89, []byte("p"))...)
			}
			off += n
		}
		return "frag", []WSAct{WSRaw("fragmented binary message", raw)}
	}
	mc := []int{2, 5, 64, 4096, 70000}[r.Intn(5)]
	if len(data)/mc > 400 {
		mc = 4096
	}
	sizes := vk.RandPartition(r, len(data), mc)
	noisy := r.Intn(3) == 0
	var acts []WSAct
	off := 0
	for _, n := range sizes {
		acts = append(acts, WSBin(data[off:off+n]))
		off += n
		if noisy && r.Intn(3) == 0 {
			acts = append(acts, WSNoise(r))
		}
	}
	if noisy {
		return "random+noise", acts
	}
	return "random", acts
}

// WSFrameScripts enumerates hostility at the WebSocket framing level, each hostile act
// at three positions (first thing on the connection / in the middle of a packet /
// between two packets). Sub = "<kind>/<variant>#<position>".
func WSFrameScripts(r *rand.Rand, garbage int) []*WSScript {
	p1 := Frame(0x01, WSHandshakeBody)
	p2 := Frame(0x22, WSPattern(300, 5))
	key := [4]byte{0xa1, 0xb2, 0xc3, 0xd4}
	type hostile struct {
		name string
		acts []WSAct
	}
	var hs []hostile
	add := func(name string, acts ...WSAct) { hs = append(hs, hostile{name, acts}) }
	// text frames
	add("text/ascii", WSText([]byte("hello")))
	add("text/empty", WSText(nil))
	add("text/invalid-utf8", WSText([]byte{0xff, 0xfe, 0xc0, 0x80}))
	add("text/70000", WSText(WSPattern(70000, 'a')))
	add("text/packet-bytes", WSText(p1))
	var t300 []WSAct
	for i := 0; i < 300; i++ {
		t300 = append(t300, WSText([]byte("flood")))
	}
	add("text/flood-300", t300...)
	// empty binary messages
	add("empty-binary/1", WSBin(nil))
	var e50 []WSAct
	for i := 0; i < 50; i++ {
		e50 = append(e50, WSBin(nil))
	}
	add("empty-binary/50", e50...)
	// control frames
	add("ping/empty", WSAct{Kind: "ping"})
	add("ping/125", WSAct{Kind: "ping", Data: WSPattern(125, 1)})
	add("pong/empty", WSAct{Kind: "pong"})
	add("pong/125", WSAct{Kind: "pong", Data: WSPattern(125, 2)})
	var p20 []WSAct
	for i := 0; i < 20; i++ {
		p20 = append(p20, WSAct{Kind: "ping", Data: []byte{byte(i)}}, WSAct{Kind: "pong", Data: []byte{byte(i)}})
	}
	add("ping-pong/burst", p20...)
	// close frames
	for _, code := range []int{1000, 1001, 1002, 1003, 1007, 1008, 1009, 1010, 1011, 1012, 1013, 1015, 3000, 4999, 0, 999, 1004, 1005, 1006, 65535} {
		add(fmt.Sprintf("close/code=%d", code), WSRaw("close frame", WSF(0x88, []byte{byte(code >> 8), byte(code)})))
	}
	add("close/no-payload", WSRaw("close frame", WSF(0x88, nil)))
	add("close/1-byte-payload", WSRaw("close frame", WSF(0x88, []byte{0x03})))
	add("close/reason-123", WSRaw("close frame", WSF(0x88, append([]byte{0x03, 0xe8}, WSPattern(123, 'r')...))))
	add("close/reason-invalid-utf8", WSRaw("close frame", WSF(0x88, []byte{0x03, 0xe8, 0xff, 0xfe})))
	add("close/then-data", WSRaw("close frame then a binary frame", append(WSF(0x88, []byte{0x03, 0xe8}), WSF(0x82, p2)...)))
	// fragmentation
	add("frag/2", WSRaw("", append(WSF(0x02, p2[:100]), WSF(0x80, p2[100:])...)))
	add("frag/3+ping", WSRaw("", append(append(append(WSF(0x02, p2[:3]), WSF(0x89, []byte("x"))...), WSF(0x00, p2[3:200])...), WSF(0x80, p2[200:])...)))
	{
		var raw []byte
		for i := 0; i < 100; i++ {
			b0 := byte(0)
			if i == 0 {
				b0 = 0x02
			}
			if i == 99 {
				b0 |= 0x80
			}
			raw = append(raw, WSF(b0, p2[i:i+1])...)
		}
		add("frag/100x1", WSRaw("", raw), WSBin(p2[100:]))
	}
	add("frag/empty-continuations", WSRaw("", append(append(append(WSF(0x02, nil), WSF(0x00, nil)...), WSF(0x00, p2)...), WSF(0x80, nil)...)))
	add("frag/new-data-frame-inside", WSRaw("", append(WSF(0x02, p2[:50]), WSF(0x82, p2[50:])...)))
	add("frag/text-inside-binary", WSRaw("", append(WSF(0x02, p2[:50]), WSF(0x81, []byte("t"))...)))
	add("frag/continuation-without-start", WSRaw("", WSF(0x80, p2)))
	add("frag/unfinished", WSRaw("", WSF(0x02, p2)))
	// raw protocol violations
	add("raw/unmasked", WSRaw("", WSRawFrame(0x82, false, 0, -1, 0, p2, key)))
	for _, rsv := range []byte{0x40, 0x20, 0x10, 0x70} {
		add(fmt.Sprintf("raw/rsv=%02x", rsv), WSRaw("", WSF(0x82|rsv, p2)))
	}
	for _, op := range []byte{3, 4, 5, 6, 7, 0xb, 0xc, 0xd, 0xe, 0xf} {
		add(fmt.Sprintf("raw/opcode=%x", op), WSRaw("", WSF(0x80|op, p2[:20])))
	}
	add("raw/ping-fin0", WSRaw("", WSF(0x09, []byte("x"))))
	add("raw/ping-126", WSRaw("", WSRawFrame(0x89, true, 16, -1, 0, WSPattern(126, 1), key)))
	add("raw/close-126", WSRaw("", WSRawFrame(0x88, true, 16, -1, 0, WSPattern(126, 1), key)))
	add("raw/pong-70000", WSRaw("", WSRawFrame(0x8a, true, 64, -1, 0, WSPattern(70000, 1), key)))
	add("raw/len64-top-bit", WSRaw("", WSRawFrame(0x82, true, 64, -1, 1<<63|5, p2[:5], key)))
	add("raw/len64-max", WSRaw("", WSRawFrame(0x82, true, 64, -1, ^uint64(0), p2[:5], key)))
	add("raw/len64-2^63-1", WSRaw("", WSRawFrame(0x82, true, 64, -1, 1<<63-1, p2[:5], key)))
	add("raw/len64-2^40-then-end", WSRaw("", WSRawFrame(0x82, true, 64, 1<<40, 0, p2, key)))
	add("raw/len64-2^31-then-end", WSRaw("", WSRawFrame(0x82, true, 64, 1<<31, 0, p2, key)))
	add("raw/len16-declared-longer", WSRaw("", WSRawFrame(0x82, true, 16, 60000, 0, p2, key)))
	add("raw/nonminimal-len16", WSRaw("", WSRawFrame(0x82, true, 16, -1, 0, p2[:5], key)))
	add("raw/nonminimal-len64", WSRaw("", WSRawFrame(0x82, true, 64, -1, 0, p2[:5], key)))
	full := WSRawFrame(0x82, true, 64, -1, 0, p2, key)
	for k := 1; k <= 14; k++ {
		add(fmt.Sprintf("raw/header-truncated#%d", k), WSRaw(fmt.Sprintf("first %d bytes of a 14-byte frame header", k), full[:k]))
	}
	add("raw/http-text", WSRaw("", []byte("GET / HTTP/1.1\r\nHost: x\r\n\r\n")))
	for i := 0; i < garbage; i++ {
		g := make([]byte, 1+r.Intn(80))
		r.Read(g)
		add(fmt.Sprintf("raw/garbage#%d", i), WSRaw("seeded random bytes instead of a frame", g))
	}

	var out []*WSScript
	n := 0
	for _, h := range hs {
		for _, pos := range []string{"first", "mid-packet", "between-packets"} {
			var acts []WSAct
			prefix := 0
			switch pos {
			case "first":
				acts = append(append(acts, h.acts...), WSBin(p1), WSBin(p2))
			case "mid-packet":
				acts = append(append(append(acts, WSBin(p1[:3])), h.acts...), WSBin(append(append([]byte(nil), p1[3:]...), p2...)))
			default:
				acts = append(append(append(acts, WSBin(p1)), h.acts...), WSBin(p2))
				prefix = len(p1)
			}
			name := h.name
			if i := strings.Index(name, "#"); i >= 0 {
				name = name[:i] + "-" + name[i+1:]
			}
			out = append(out, &WSScript{Family: "frames", Sub: name + "#" + pos, Acts: acts, End: []string{"fin", "close+fin", "rst"}[n%3], Prefix: prefix})
			n++
		}
	}
	return out
}

// WSOversize calls emit for every oversize-message script (one at a time: the data is
// large): single messages of the given sizes as ONE frame and as the gorilla client
// sends them (fragments of the client's write-buffer size), first on the connection and
// after a handshake packet; then fragmented messages whose continuation frames sum past
// any cap tied to the maximum body size. The content starts with a packet header that
// declares 2^32-1 bytes, so a decoder that is handed the bytes stops at once. emit
// returning false stops the enumeration. total = size of the oversize message.
func WSOversize(sizesMiB []int, emit func(s *WSScript, total int64) bool) {
	hs := Frame(0x01, WSHandshakeBody)
	for _, mb := range sizesMiB {
		data := FrameLen(0x22, 0xFFFFFFFF, make([]byte, mb<<20-5))
		single := WSF(0x82, data)
		for i, delivery := range []string{"single-frame", "fragmented-4KiB", "single-frame", "fragmented-4KiB"} {
			pos := "first"
			var acts []WSAct
			prefix := 0
			if i >= 2 {
				pos = "after-handshake-packet"
				acts = append(acts, WSBin(hs))
				prefix = len(hs)
			}
			if delivery == "single-frame" {
				acts = append(acts, WSRaw(fmt.Sprintf("one binary frame of %d MiB: type 0x22, declared length 2^32-1, zeros", mb), single))
			} else {
				acts = append(acts, WSAct{Kind: "bin", Data: data, Note: fmt.Sprintf("one binary message of %d MiB (gorilla client: 4 KiB frames): type 0x22, declared length 2^32-1, zeros", mb)})
			}
			s := &WSScript{Family: "oversize", Sub: fmt.Sprintf("%dMiB/%s#%s", mb, delivery, pos), Acts: acts, End: "fin", Prefix: prefix}
			if !emit(s, int64(len(data))) {
				return
			}
		}
	}
	frag := func(first []byte, mid int, midSize int, last []byte) ([]byte, int64) {
		chunk := make([]byte, midSize)
		raw := WSF(0x02, first)
		total := int64(len(first))
		for i := 0; i < mid; i++ {
			raw = append(raw, WSF(0x00, chunk)...)
			total += int64(midSize)
		}
		raw = append(raw, WSF(0x80, last)...)
		return raw, total + int64(len(last))
	}
	head := FrameLen(0x22, 0xFFFFFFFF, make([]byte, 1<<16-5))
	frags := []struct {
		name  string
		build func() ([]byte, int64)
	}{
		{"24x1MiB", func() ([]byte, int64) { return frag(head, 23, 1<<20, make([]byte, 1<<20)) }},
		{"400x64KiB", func() ([]byte, int64) { return frag(head, 398, 1<<16, make([]byte, 1<<16)) }},
		{"15.5MiB-in-64KiB+30MiB-final", func() ([]byte, int64) { return frag(head, 247, 1<<16, make([]byte, 30<<20)) }},
		{"1MiB+declared-2^40", func() ([]byte, int64) {
			raw, n := frag(head, 15, 1<<16, nil)
			raw = raw[:len(raw)-len(WSF(0x80, nil))]
			return append(raw, WSRawFrame(0x80, true, 64, 1<<40, 0, make([]byte, 1<<16), [4]byte{1, 2, 3, 4})...), n + 1<<40
		}},
	}
	for _, fc := range frags {
		raw, total := fc.build()
		for _, pos := range []string{"first", "after-handshake-packet"} {
			var acts []WSAct
			prefix := 0
			if pos != "first" {
				acts = append(acts, WSBin(hs))
				prefix = len(hs)
			}
			acts = append(acts, WSRaw("fragmented binary message, continuation frames sum to "+fmt.Sprint(total)+" bytes; starts with type 0x22, declared length 2^32-1", raw))
			s := &WSScript{Family: "oversize", Sub: "frag-" + fc.name + "#" + pos, Acts: acts, End: "fin", Prefix: prefix}
			if !emit(s, total) {
				return
			}
		}
	}
}
