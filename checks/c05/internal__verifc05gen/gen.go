//go:build verif && verif_c05

// Package verifc05gen produces the hostile byte streams shared by the two C05
// monitors (decoder in internal/stream, dispatcher in internal/app/server). It
// frames packets by hand (type byte, 4-byte big-endian length, body; heartbeat =
// type byte only) so that it does not import the code under test; the decoder
// harness cross-checks the framing against the real reader (floor valid_seed_ok).
package verifc05gen

import (
	"bytes"
	"compress/flate"
	"compress/gzip"
	"encoding/binary"
	"encoding/json"
	"fmt"
	"hash/crc32"
	"math/rand"
	"sort"
	"strings"

	"tunnox-core/internal/constants"
)

// Max is the cap on a packet body the property ties every bound to.
const Max = constants.MaxPacketBodySize

// Input is one finite byte stream a peer could send on a fresh connection.
type Input struct {
	Family string // generator family (stable)
	Sub    string // sub-class within the family (stable across seeds)
	Data   []byte
	Heavy  bool   // expensive to decode (bombs, bodies near Max): few per run
	Valid  bool   // a well-formed stream: the real decoder is expected to accept it
	Note   string // how the case was built (for witnesses whose bytes are too long to print)
}

// Plan sizes the seeded families; the enumerated families are always complete.
type Plan struct {
	Random     int
	RandFrame  int
	Mutate     int
	TruncSeeds int // valid streams truncated at every offset
	GzipTrunc  int // gzip members truncated at every offset
	BombSizes  []int64
	MultiBomb  []int // member counts (each member inflates to Max bytes)
	JSONBombMB int   // 0 = none
	MaxBodies  bool  // full-size (Max) bodies actually present on the wire
	LenTypes   []byte
	NoHeavy    bool // skip every Heavy input (dispatcher harness)
	CmdBodies  int  // body variants per command type in the bodies family
}

// ---- framing -------------------------------------------------------------

// Frame encodes one packet the way the wire format defines it.
func Frame(typ byte, body []byte) []byte {
	if typ&0x3F == 0x03 {
		return []byte{typ}
	}
	return FrameLen(typ, uint32(len(body)), body)
}

// FrameLen writes an arbitrary declared length in front of body.
func FrameLen(typ byte, declared uint32, body []byte) []byte {
	out := make([]byte, 5, 5+len(body))
	out[0] = typ
	binary.BigEndian.PutUint32(out[1:5], declared)
	return append(out, body...)
}

// Gz compresses data into one gzip member.
func Gz(data []byte, level int) []byte {
	var b bytes.Buffer
	w, err := gzip.NewWriterLevel(&b, level)
	if err != nil {
		panic(err)
	}
	w.Write(data)
	w.Close()
	return b.Bytes()
}

func rawDeflate(data []byte, level int) []byte {
	var b bytes.Buffer
	w, _ := flate.NewWriter(&b, level)
	w.Write(data)
	w.Close()
	return b.Bytes()
}

// gzWrap assembles a gzip member from parts (flags and optional header fields are
// the caller's business).
func gzWrap(flg byte, hdrExtra []byte, deflate []byte, crc, isize uint32) []byte {
	out := []byte{0x1f, 0x8b, 0x08, flg, 0, 0, 0, 0, 0, 0xff}
	out = append(out, hdrExtra...)
	out = append(out, deflate...)
	var t [8]byte
	binary.LittleEndian.PutUint32(t[0:4], crc)
	binary.LittleEndian.PutUint32(t[4:8], isize)
	return append(out, t[:]...)
}

// zeroMember returns a gzip member inflating to n zero bytes. Built from repeated
// byte-aligned deflate segments (sync-flushed), so that making a 256 MiB bomb does
// not cost compressing 256 MiB.
func zeroMember(n int64) []byte {
	const seg = 1 << 20
	var b bytes.Buffer
	w, _ := flate.NewWriter(&b, flate.BestCompression)
	zeros := make([]byte, seg)
	// first segment: warms the window with zeros
	first := n
	if first > seg {
		first = seg
	}
	w.Write(zeros[:first])
	w.Flush()
	head := append([]byte(nil), b.Bytes()...)
	rest := n - first
	var segBytes []byte
	if rest >= seg {
		b.Reset()
		w.Write(zeros)
		w.Flush()
		segBytes = append([]byte(nil), b.Bytes()...)
	}
	out := append([]byte(nil), head...)
	for rest >= seg {
		out = append(out, segBytes...)
		rest -= seg
	}
	b.Reset()
	if rest > 0 {
		w.Write(zeros[:rest])
	}
	w.Close()
	out = append(out, b.Bytes()...)
	// crc32 of n zero bytes
	h := crc32.NewIEEE()
	left := n
	for left > 0 {
		k := int64(seg)
		if k > left {
			k = left
		}
		h.Write(zeros[:k])
		left -= k
	}
	return gzWrap(0, nil, out, h.Sum32(), uint32(n))
}

// ---- JSON material ---------------------------------------------------------

var jsonVals = []string{
	`"x"`, `""`, `0`, `-1`, `1`, `255`, `256`, `9223372036854775807`, `9223372036854775808`,
	`-9223372036854775809`, `1e308`, `1e999`, `1.5`, `true`, `false`, `null`, `[]`, `{}`,
	`[1,"a",null]`, `{"a":{"b":[]}}`, `"\u0000"`, `"\ud800"`, `"` + strings.Repeat("A", 5000) + `"`,
	`12345678901234567890123456789012345678901234567890`, `"127.0.0.1:0"`, `":"`,
	`"tcp://[::1]:99999"`, `"-1"`, `"0"`, `"control"`, `"tunnel"`, `"new-client"`, `"3.0"`,
	`"tcp"`, `"udp"`, `"a.b"`, `"tunnox.net"`, `"http://localhost:3000"`, `"AAAA"`, `[[[[[[[[[[]]]]]]]]]]`,
}

var handshakeFields = []string{"client_id", "token", "version", "protocol", "connection_type", "challenge_response"}
var tunnelFields = []string{"mapping_id", "tunnel_id", "secret_key", "resume_token", "target_host", "target_port", "target_network"}
var cmdPktFields = []string{"CommandType", "CommandId", "Token", "SenderId", "ReceiverId", "CommandBody"}
var cmdBodyFields = []string{
	"target_address", "activation_ttl", "mapping_ttl", "description", "code", "listen_address", "direction", "type",
	"status", "mapping_id", "subdomain", "base_domain", "target_url", "full_domain", "domain", "qtype",
	"target_client_id", "query_id", "dns_server", "raw_query", "bytes_sent", "bytes_received", "connections",
	"timestamp", "tunnel_id", "target_host", "target_port", "protocol", "notify_id", "payload", "priority",
	"require_ack", "expire_at", "success", "ips", "ttl", "error", "request_id", "status_code", "headers", "body",
	"received", "processed", "raw_answer", "url", "reason",
}

func obj(fields []string, val func(i int, f string) (string, bool)) []byte {
	var sb strings.Builder
	sb.WriteByte('{')
	first := true
	for i, f := range fields {
		v, ok := val(i, f)
		if !ok {
			continue
		}
		if !first {
			sb.WriteByte(',')
		}
		first = false
		k, _ := json.Marshal(f)
		sb.Write(k)
		sb.WriteByte(':')
		sb.WriteString(v)
	}
	sb.WriteByte('}')
	return []byte(sb.String())
}

func randObj(r *rand.Rand, fields []string, pInclude int) []byte {
	return obj(fields, func(i int, f string) (string, bool) {
		if r.Intn(100) >= pInclude {
			return "", false
		}
		return jsonVals[r.Intn(len(jsonVals))], true
	})
}

// ValidHandshake is a well-typed handshake body.
func ValidHandshake(r *rand.Rand) []byte {
	id := []int64{0, 0, 1, 10000001, 99999999, -5}[r.Intn(6)]
	tok := []string{"new-client", "", "x"}[r.Intn(3)]
	ct := []string{"control", "tunnel", "", "other"}[r.Intn(4)]
	cr := []string{"", "", "00ff", "zz"}[r.Intn(4)]
	b, _ := json.Marshal(map[string]any{"client_id": id, "token": tok, "version": "3.0", "protocol": "tcp", "connection_type": ct, "challenge_response": cr})
	return b
}

// ValidTunnelOpen is a well-typed tunnel-open body.
func ValidTunnelOpen(r *rand.Rand) []byte {
	m := map[string]any{
		"mapping_id": []string{"", "pm_x", "mapping-1"}[r.Intn(3)],
		"tunnel_id":  []string{"", "t", "tunnel-123456789", strings.Repeat("t", 300)}[r.Intn(4)],
		"secret_key": []string{"", "k"}[r.Intn(2)],
	}
	if r.Intn(3) == 0 {
		m["resume_token"] = []string{"x", "e30=", "{}", "a.b.c"}[r.Intn(4)]
	}
	if r.Intn(3) == 0 {
		m["target_host"] = "example.org"
		m["target_port"] = []int{0, 80, -1, 70000}[r.Intn(4)]
		m["target_network"] = []string{"tcp", "udp", "x"}[r.Intn(3)]
	}
	b, _ := json.Marshal(m)
	return b
}

// CmdJSON encodes a command packet the way encoding/json encodes packet.CommandPacket
// (no tags: field names as keys).
func CmdJSON(ct int, id, body string) []byte {
	b, _ := json.Marshal(map[string]any{"CommandType": ct, "CommandId": id, "Token": "", "SenderId": "", "ReceiverId": "", "CommandBody": body})
	return b
}

func validCmd(r *rand.Rand) []byte {
	ct := []int{10, 11, 50, 70, 71, 72, 74, 75, 76, 80, 81, 82, 83, 85, 90, 100, 102, 110, 120, 121, r.Intn(256)}[r.Intn(21)]
	return CmdJSON(ct, fmt.Sprintf("c%d", r.Intn(1000)), string(randObj(r, cmdBodyFields, 12)))
}

// validPacket returns the frame of one well-formed packet.
func validPacket(r *rand.Rand) []byte {
	var typ byte
	var body []byte
	switch r.Intn(8) {
	case 0:
		return []byte{0x03}
	case 1:
		typ, body = 0x01, ValidHandshake(r)
	case 2:
		typ, body = 0x20, ValidTunnelOpen(r)
	case 3:
		typ, body = 0x10, validCmd(r)
	case 4:
		typ, body = 0x11, validCmd(r)
	case 5:
		typ = 0x22
		body = make([]byte, []int{0, 1, 7, 64, 300}[r.Intn(5)])
		r.Read(body)
	case 6:
		typ = []byte{0x02, 0x21, 0x23, 0x24}[r.Intn(4)]
		body = []byte(`{"success":true}`)
	default:
		typ = byte(r.Intn(0x40))
		if typ == 0x03 {
			return []byte{typ}
		}
		if isCmdType(typ) {
			typ = 0x22
		}
		body = make([]byte, r.Intn(12))
		r.Read(body)
	}
	if r.Intn(3) == 0 && len(body) > 0 {
		typ |= 0x40
		body = Gz(body, []int{gzip.BestSpeed, gzip.DefaultCompression, gzip.NoCompression}[r.Intn(3)])
	}
	return Frame(typ, body)
}

func validStream(r *rand.Rand, maxPk int) []byte {
	var out []byte
	n := 1 + r.Intn(maxPk)
	for i := 0; i < n; i++ {
		out = append(out, validPacket(r)...)
	}
	return out
}

// ---- families ---------------------------------------------------------------

// Generate emits every input of the plan; emit returning false stops generation.
func Generate(r *rand.Rand, p Plan, emit func(Input) bool) {
	stop := false
	out := func(in Input) {
		if stop {
			return
		}
		if in.Heavy && p.NoHeavy && in.Family != "lengths" {
			return // (declared-length cases only cost one buffer allocation: kept)
		}
		if !emit(in) {
			stop = true
		}
	}
	cmd := CmdJSON(50, "id-1", "{}")
	hs := []byte(`{"client_id":0,"token":"new-client","version":"3.0","protocol":"tcp","connection_type":"control"}`)

	// (1) every type byte x body shapes — exhaustive over the 256 type/flag bytes
	for t := 0; t < 256 && !stop; t++ {
		typ := byte(t)
		tiny := []byte{byte(t), 0x00, 0xff}
		out(Input{Family: "types", Sub: "bare", Data: []byte{typ}})
		out(Input{Family: "types", Sub: "len0", Data: FrameLen(typ, 0, nil)})
		out(Input{Family: "types", Sub: "tiny", Data: FrameLen(typ, 3, tiny)})
		out(Input{Family: "types", Sub: "json-cmd", Data: FrameLen(typ, uint32(len(cmd)), cmd)})
		out(Input{Family: "types", Sub: "json-hs", Data: FrameLen(typ, uint32(len(hs)), hs)})
		g := Gz(cmd, gzip.DefaultCompression)
		out(Input{Family: "types", Sub: "gzip-cmd", Data: FrameLen(typ, uint32(len(g)), g)})
		g2 := Gz(hs, gzip.BestSpeed)
		out(Input{Family: "types", Sub: "gzip-hs", Data: FrameLen(typ, uint32(len(g2)), g2)})
		junk := append([]byte{0x1f, 0x8b, 0x08, 0x00}, tiny...)
		out(Input{Family: "types", Sub: "gzip-junk", Data: FrameLen(typ, uint32(len(junk)), junk)})
		// two packets back to back, then a heartbeat: the loop keeps going after this type
		two := append(FrameLen(typ, 2, []byte("{}")), 0x03)
		out(Input{Family: "types", Sub: "then-heartbeat", Data: two})
	}

	// (2) adversarial length fields
	lenTypes := p.LenTypes
	if lenTypes == nil {
		lenTypes = []byte{0x00, 0x01, 0x10, 0x11, 0x20, 0x22, 0x3f, 0x41, 0x50, 0x62, 0x7f, 0x90}
	}
	body10 := []byte(`{"a":"bc"}`)
	for _, typ := range lenTypes {
		for _, actual := range [][]byte{nil, body10} {
			decl := []uint32{0, 1, uint32(len(actual)) - 1, uint32(len(actual)) + 1, 0xFFFF, 1 << 20, Max - 1, Max, Max + 1, 1<<31 - 1, 1 << 31, 1<<32 - 1, 0x01000000, 0x00000100, 0xFF000000}
			for _, d := range decl {
				heavy := d >= 1<<20 && d <= Max
				out(Input{Family: "lengths", Sub: fmt.Sprintf("decl=%s", lenClass(d, len(actual))), Data: FrameLen(typ, d, actual), Heavy: heavy,
					Note: fmt.Sprintf("type=0x%02x declared=%d actual=%d", typ, d, len(actual))})
			}
		}
	}
	// partial length field
	for k := 0; k < 4; k++ {
		out(Input{Family: "lengths", Sub: "partial-length-field", Data: append([]byte{0x10}, make([]byte, k)...)})
	}
	if p.MaxBodies && !stop {
		big := make([]byte, Max)
		for i := range big {
			big[i] = 'a'
		}
		out(Input{Family: "maxbody", Sub: "payload=Max", Data: Frame(0x22, big), Heavy: true, Valid: true, Note: "TunnelData, Max bytes of 'a'"})
		// a command whose CommandBody fills the body up to Max
		pre, post := []byte(`{"CommandType":50,"CommandId":"x","CommandBody":"`), []byte(`"}`)
		jb := append(append(append([]byte(nil), pre...), big[:Max-len(pre)-len(post)]...), post...)
		out(Input{Family: "maxbody", Sub: "cmd=Max", Data: Frame(0x10, jb), Heavy: true, Valid: true, Note: "JsonCommand, JSON of exactly Max bytes"})
		// same with escapes (decoder has to unquote) inside a stored-block gzip member of <= Max bytes
		esc := bytes.Repeat([]byte(`\n`), (Max-4096-len(pre)-len(post))/2)
		je := append(append(append([]byte(nil), pre...), esc...), post...)
		gs := Gz(je, gzip.NoCompression)
		if len(gs) <= Max {
			out(Input{Family: "maxbody", Sub: "gzip-stored-cmd~Max", Data: Frame(0x50, gs), Heavy: true, Valid: true, Note: "JsonCommand|Compressed, stored-block member just under Max, escaped JSON string"})
		}
		out(Input{Family: "maxbody", Sub: "payload=Max+1", Data: Frame(0x22, append(big, 'b')), Heavy: true, Note: "TunnelData, Max+1 bytes present"})
	}

	// (3) gzip members: well-formed variants and hand-broken ones
	gzTypes := []byte{0x62, 0x50, 0x41, 0x60, 0x7f, 0x51}
	plain := [][]byte{cmd, hs, []byte("hello hello hello hello hello"), {}, bytes.Repeat([]byte{0}, 70000)}
	for _, typ := range gzTypes {
		for pi, d := range plain {
			for _, lv := range []int{gzip.NoCompression, gzip.BestSpeed, gzip.DefaultCompression, gzip.BestCompression, gzip.HuffmanOnly} {
				out(Input{Family: "gzip", Sub: fmt.Sprintf("valid/level=%d", lv), Data: Frame(typ, Gz(d, lv)), Valid: !isCmdType(typ) || pi <= 1, Note: fmt.Sprintf("plain#%d", pi)})
			}
			m := Gz(d, gzip.DefaultCompression)
			// multi-member
			out(Input{Family: "gzip", Sub: "multi-member", Data: Frame(typ, bytes.Repeat(m, 3))})
			out(Input{Family: "gzip", Sub: "member+empty-member", Data: Frame(typ, append(append([]byte(nil), m...), Gz(nil, gzip.DefaultCompression)...))})
			out(Input{Family: "gzip", Sub: "member+garbage", Data: Frame(typ, append(append([]byte(nil), m...), 0xde, 0xad, 0xbe, 0xef))})
			out(Input{Family: "gzip", Sub: "member+half-header", Data: Frame(typ, append(append([]byte(nil), m...), 0x1f, 0x8b, 0x08))})
			// bad trailer
			bad := append([]byte(nil), m...)
			bad[len(bad)-8] ^= 0xff
			out(Input{Family: "gzip", Sub: "bad-crc", Data: Frame(typ, bad)})
			bad = append([]byte(nil), m...)
			bad[len(bad)-1] ^= 0x7f
			out(Input{Family: "gzip", Sub: "bad-isize", Data: Frame(typ, bad)})
			out(Input{Family: "gzip", Sub: "no-trailer", Data: Frame(typ, m[:len(m)-8])})
			// header variants
			df := rawDeflate(d, flate.DefaultCompression)
			crc := crc32.ChecksumIEEE(d)
			out(Input{Family: "gzip", Sub: "hdr/fextra", Data: Frame(typ, gzWrap(0x04, []byte{3, 0, 'a', 'b', 'c'}, df, crc, uint32(len(d))))})
			out(Input{Family: "gzip", Sub: "hdr/fextra-overlong", Data: Frame(typ, gzWrap(0x04, []byte{0xff, 0xff, 'a'}, df, crc, uint32(len(d))))})
			out(Input{Family: "gzip", Sub: "hdr/fname", Data: Frame(typ, gzWrap(0x08, []byte("name\x00"), df, crc, uint32(len(d))))})
			out(Input{Family: "gzip", Sub: "hdr/fname-unterminated", Data: Frame(typ, gzWrap(0x08, []byte("name"), nil, 0, 0)[:14])})
			out(Input{Family: "gzip", Sub: "hdr/fname-long", Data: Frame(typ, gzWrap(0x08, append(bytes.Repeat([]byte{'n'}, 70000), 0), df, crc, uint32(len(d))))})
			out(Input{Family: "gzip", Sub: "hdr/fcomment", Data: Frame(typ, gzWrap(0x10, []byte("c\x00"), df, crc, uint32(len(d))))})
			out(Input{Family: "gzip", Sub: "hdr/fhcrc-wrong", Data: Frame(typ, gzWrap(0x02, []byte{0x12, 0x34}, df, crc, uint32(len(d))))})
			out(Input{Family: "gzip", Sub: "hdr/all-flags", Data: Frame(typ, gzWrap(0xff, []byte{1, 0, 'x', 'n', 0, 'c', 0, 0, 0}, df, crc, uint32(len(d))))})
			wrongMethod := gzWrap(0, nil, df, crc, uint32(len(d)))
			wrongMethod[2] = 0x07
			out(Input{Family: "gzip", Sub: "hdr/method", Data: Frame(typ, wrongMethod)})
			wrongMagic := gzWrap(0, nil, df, crc, uint32(len(d)))
			wrongMagic[1] = 0x8c
			out(Input{Family: "gzip", Sub: "hdr/magic", Data: Frame(typ, wrongMagic)})
		}
		// hand-made deflate streams
		dfl := map[string][]byte{
			"deflate/empty-final-stored":   {0x01, 0x00, 0x00, 0xff, 0xff},
			"deflate/stored-len-mismatch":  {0x01, 0x05, 0x00, 0x00, 0x00, 'a', 'b', 'c', 'd', 'e'},
			"deflate/stored-short":         {0x01, 0x05, 0x00, 0xfa, 0xff, 'a'},
			"deflate/reserved-btype":       {0x07, 0x00},
			"deflate/fixed-eob":            {0x03, 0x00},
			"deflate/dynamic-garbage":      {0x05, 0xff, 0xff, 0xff, 0xff, 0xff, 0xff, 0xff, 0xff, 0xff, 0xff},
			"deflate/dynamic-zero":         {0x04, 0x00, 0x00, 0x00, 0x00, 0x00, 0x00, 0x00, 0x00, 0x00, 0x00},
			"deflate/fixed-far-distance":   {0x63, 0x00, 0x02, 0x00},
			"deflate/nonfinal-stored-only": {0x00, 0x00, 0x00, 0xff, 0xff},
			"deflate/none":                 {},
		}
		for _, name := range sortedKeys(dfl) {
			out(Input{Family: "gzip", Sub: name, Data: Frame(typ, gzWrap(0, nil, dfl[name], 0, 0))})
		}
	}
	// truncation of gzip members at every offset
	for i := 0; i < p.GzipTrunc && !stop; i++ {
		typ := gzTypes[i%len(gzTypes)]
		d := [][]byte{cmd, hs, []byte("hello hello hello"), ValidTunnelOpen(r)}[i%4]
		m := Gz(d, []int{gzip.DefaultCompression, gzip.NoCompression, gzip.BestSpeed}[i%3])
		for k := 0; k < len(m); k++ {
			out(Input{Family: "gzip", Sub: "truncated-member", Data: Frame(typ, m[:k]), Note: fmt.Sprintf("cut=%d/%d", k, len(m))})
		}
	}
	// seeded garbage behind a gzip header
	for i := 0; i < p.Random/8 && !stop; i++ {
		b := make([]byte, 1+r.Intn(60))
		r.Read(b)
		hdr := []byte{0x1f, 0x8b, 0x08, byte(r.Intn(32)) & []byte{0, 0, 0xff}[r.Intn(3)], 0, 0, 0, 0, 0, 0xff}
		out(Input{Family: "gzip", Sub: "random-deflate", Data: Frame(gzTypes[r.Intn(len(gzTypes))], append(hdr, b...))})
	}

	// (4) decompression bombs
	bombTypes := []byte{0x62, 0x50, 0x41}
	for i, n := range p.BombSizes {
		if stop {
			break
		}
		m := zeroMember(n)
		typ := bombTypes[i%len(bombTypes)]
		legit := n <= Max
		out(Input{Family: "bomb", Sub: "zeros/" + sizeClass(n), Data: Frame(typ, m), Heavy: true, Valid: legit && typ == 0x62,
			Note: fmt.Sprintf("type=0x%02x single gzip member of %d bytes inflating to %d zero bytes", typ, len(m), n)})
	}
	for _, k := range p.MultiBomb {
		if stop {
			break
		}
		m := zeroMember(Max)
		out(Input{Family: "bomb", Sub: fmt.Sprintf("multi-member/%dxMax", k), Data: Frame(0x62, bytes.Repeat(m, k)), Heavy: true,
			Note: fmt.Sprintf("%d concatenated members, each inflating to exactly Max zero bytes", k)})
	}
	if p.JSONBombMB > 0 && !stop {
		pre, post := []byte(`{"CommandType":50,"CommandId":"x","CommandBody":"`), []byte(`"}`)
		js := append(append(append([]byte(nil), pre...), bytes.Repeat([]byte{'a'}, p.JSONBombMB<<20)...), post...)
		m := Gz(js, gzip.BestSpeed)
		out(Input{Family: "bomb", Sub: "json-string/" + sizeClass(int64(len(js))), Data: Frame(0x50, m), Heavy: true,
			Note: fmt.Sprintf("JsonCommand|Compressed: member of %d bytes inflating to a %d-byte JSON command", len(m), len(js))})
	}

	// (5) JSON bodies of command packets seen by the decoder
	jsonBodies := map[string][]byte{
		"empty-object":    []byte(`{}`),
		"null":            []byte(`null`),
		"array":           []byte(`[]`),
		"string":          []byte(`"x"`),
		"number":          []byte(`1`),
		"true":            []byte(`true`),
		"whitespace":      []byte("  \n\t "),
		"bom":             append([]byte{0xef, 0xbb, 0xbf}, cmd...),
		"trailing":        append(append([]byte(nil), cmd...), []byte(` {"x":1}`)...),
		"nul-bytes":       {0, 0, 0, 0},
		"unterminated":    cmd[:len(cmd)-3],
		"dup-keys":        []byte(`{"CommandType":1,"CommandType":2,"commandtype":3,"COMMANDTYPE":"x"}`),
		"invalid-utf8":    []byte("{\"CommandId\":\"\xff\xfe\xc0\x80\",\"CommandBody\":\"\xed\xa0\x80\"}"),
		"lone-surrogate":  []byte(`{"CommandId":"\ud800","CommandBody":"\udfff\u0000"}`),
		"ctype-huge":      []byte(`{"CommandType":1e999}`),
		"ctype-256":       []byte(`{"CommandType":256}`),
		"ctype-neg":       []byte(`{"CommandType":-1}`),
		"ctype-float":     []byte(`{"CommandType":1.5}`),
		"ctype-string":    []byte(`{"CommandType":"10"}`),
		"ctype-bigint":    []byte(`{"CommandType":` + strings.Repeat("9", 400) + `}`),
		"deep-array-100":  []byte(strings.Repeat("[", 100) + strings.Repeat("]", 100)),
		"deep-array-10k":  []byte(strings.Repeat("[", 10001)),
		"deep-array-200k": []byte(strings.Repeat("[", 200000)),
		"deep-object-50k": []byte(strings.Repeat(`{"CommandBody":`, 50000)),
		"deep-in-field":   []byte(`{"CommandBody":` + strings.Repeat("[", 20000) + `}`),
		"long-key":        []byte(`{"` + strings.Repeat("k", 100000) + `":1}`),
		"many-keys":       []byte(`{` + strings.Repeat(`"a":1,`, 20000) + `"b":2}`),
		"body-is-json":    CmdJSON(72, "x", `{"code":"abc","listen_address":"127.0.0.1:1"}`),
	}
	for _, name := range sortedKeys(jsonBodies) {
		b := jsonBodies[name]
		for _, typ := range []byte{0x10, 0x11, 0x50, 0x51} {
			body := b
			if typ&0x40 != 0 {
				body = Gz(b, gzip.DefaultCompression)
			}
			out(Input{Family: "json", Sub: name, Data: Frame(typ, body)})
		}
	}
	for i := 0; i < len(cmdPktFields)*len(jsonVals) && !stop; i++ {
		f, v := cmdPktFields[i/len(jsonVals)], jsonVals[i%len(jsonVals)]
		b := obj(cmdPktFields, func(_ int, g string) (string, bool) {
			if g == f {
				return v, true
			}
			if g == "CommandType" {
				return "50", true
			}
			return `"v"`, true
		})
		out(Input{Family: "json", Sub: "cmdpkt-field/" + f, Data: Frame([]byte{0x10, 0x11}[i%2], b), Note: f + "=" + clip(v)})
	}

	// (6) bodies the dispatcher parses: handshake, tunnel-open, every command type
	for i := 0; i < len(handshakeFields)*len(jsonVals) && !stop; i++ {
		f, v := handshakeFields[i/len(jsonVals)], jsonVals[i%len(jsonVals)]
		b := obj(handshakeFields, func(_ int, g string) (string, bool) {
			if g == f {
				return v, true
			}
			switch g {
			case "client_id":
				return "0", true
			case "token":
				return `"new-client"`, true
			case "challenge_response":
				return "", false
			}
			return `"tcp"`, true
		})
		out(Input{Family: "bodies", Sub: "handshake-field/" + f, Data: Frame(0x01, b), Note: f + "=" + clip(v)})
	}
	for i := 0; i < len(tunnelFields)*len(jsonVals) && !stop; i++ {
		f, v := tunnelFields[i/len(jsonVals)], jsonVals[i%len(jsonVals)]
		b := obj(tunnelFields, func(_ int, g string) (string, bool) {
			if g == f {
				return v, true
			}
			if g == "target_port" {
				return "80", true
			}
			return `"v"`, true
		})
		out(Input{Family: "bodies", Sub: "tunnelopen-field/" + f, Data: Frame(0x20, b), Note: f + "=" + clip(v)})
	}
	payloads := map[string][]byte{
		"empty": {}, "null": []byte("null"), "array": []byte("[]"), "garbage": {0xff, 0x00, 0x7b}, "deep": []byte(strings.Repeat("[", 20000)),
		"object-deep-field": []byte(`{"tunnel_id":` + strings.Repeat("[", 12000) + `}`), "string": []byte(`"x"`),
		"unknown-fields": []byte(`{"zzz":1,"client_id":{"a":1}}`), "huge-number": []byte(`{"client_id":1e999,"target_port":1e999}`),
	}
	for _, name := range sortedKeys(payloads) {
		b := payloads[name]
		for _, typ := range []byte{0x01, 0x20, 0x41, 0x60} {
			body := b
			if typ&0x40 != 0 && len(b) > 0 {
				body = Gz(b, gzip.DefaultCompression)
			}
			out(Input{Family: "bodies", Sub: "payload/" + name, Data: Frame(typ, body)})
		}
	}
	nb := p.CmdBodies
	if nb <= 0 {
		nb = 4
	}
	for ct := 0; ct < 256 && !stop; ct++ {
		for v := 0; v < nb; v++ {
			var body string
			var sub string
			switch v {
			case 0:
				body, sub = "", "empty"
			case 1:
				body, sub = "{}", "object"
			case 2:
				body, sub = string(randObj(r, cmdBodyFields, 100)), "all-fields-random-types"
			case 3:
				body, sub = string(randObj(r, cmdBodyFields, 30)), "some-fields-random-types"
			case 4:
				body, sub = []string{"null", "[]", `"x"`, "1", "nope", strings.Repeat("[", 15000), "\x00"}[r.Intn(7)], "non-object"
			default:
				body, sub = string(randObj(r, cmdBodyFields, 10+r.Intn(80))), "random-fields"
			}
			typ := byte(0x10)
			if v%2 == 1 || ct == 81 {
				typ = 0x11
			}
			if v == 3 {
				typ = 0x10
			}
			out(Input{Family: "bodies", Sub: fmt.Sprintf("cmd=%d/%s", ct, sub), Data: Frame(typ, CmdJSON(ct, fmt.Sprintf("id-%d-%d", ct, v), body))})
			if ct >= 100 && v < 2 {
				// both directions for the commands the dispatcher special-cases by packet type
				out(Input{Family: "bodies", Sub: fmt.Sprintf("cmd=%d/%s/other-dir", ct, sub), Data: Frame(typ^0x01, CmdJSON(ct, "", body))})
			}
		}
	}

	// (6b) the same command bodies behind an anonymous first-connect handshake sent in the
	// same burst (the peer has not been authenticated when it sends the bytes; the server
	// processes the commands on the identity it has just issued)
	hsFrame := Frame(0x01, hs)
	for ct := 0; ct < 256 && !stop; ct++ {
		for v := 0; v < 3; v++ {
			var body, sub string
			switch v {
			case 0:
				body, sub = "{}", "object"
			case 1:
				body, sub = string(randObj(r, cmdBodyFields, 100)), "all-fields-random-types"
			default:
				body, sub = string(randObj(r, cmdBodyFields, 35)), "some-fields-random-types"
			}
			typ := byte(0x10)
			if ct == 81 || v == 1 && ct >= 100 {
				typ = 0x11
			}
			s := append(append([]byte(nil), hsFrame...), Frame(typ, CmdJSON(ct, fmt.Sprintf("s-%d-%d", ct, v), body))...)
			out(Input{Family: "session", Sub: fmt.Sprintf("handshake+cmd=%d/%s", ct, sub), Data: s})
		}
	}
	for i := 0; i < 60 && !stop; i++ {
		s := append(append([]byte(nil), hsFrame...), Frame(0x20, ValidTunnelOpen(r))...)
		if i%3 == 0 {
			s = append(s, Frame(0x20, randObj(r, tunnelFields, 70))...)
		}
		if i%4 == 0 {
			s = append(s, Frame(0x01, ValidHandshake(r))...)
		}
		s = append(s, 0x03)
		out(Input{Family: "session", Sub: "handshake+tunnel-open", Data: s})
	}

	// (7) truncation of well-formed streams at every offset
	for i := 0; i < p.TruncSeeds && !stop; i++ {
		s := validStream(r, 3)
		if len(s) > 700 {
			s = s[:700]
		}
		out(Input{Family: "valid", Sub: "stream", Data: s, Valid: len(s) < 700})
		for k := 0; k < len(s); k++ {
			out(Input{Family: "truncate", Sub: "prefix", Data: s[:k], Note: fmt.Sprintf("cut=%d/%d", k, len(s))})
		}
	}

	// (8) structure-aware mutations of well-formed streams
	for i := 0; i < p.Mutate && !stop; i++ {
		s := append([]byte(nil), validStream(r, 3)...)
		var sub string
		switch r.Intn(10) {
		case 0, 1:
			sub = "bitflip"
			for k := 1 + r.Intn(4); k > 0; k-- {
				s[r.Intn(len(s))] ^= 1 << uint(r.Intn(8))
			}
		case 2:
			sub = "byte-set"
			for k := 1 + r.Intn(3); k > 0; k-- {
				s[r.Intn(len(s))] = byte(r.Intn(256))
			}
		case 3:
			sub = "insert"
			at := r.Intn(len(s) + 1)
			ins := make([]byte, 1+r.Intn(6))
			r.Read(ins)
			s = append(s[:at], append(ins, s[at:]...)...)
		case 4:
			sub = "delete"
			if len(s) > 1 {
				at := r.Intn(len(s))
				n := 1 + r.Intn(minInt(8, len(s)-at))
				s = append(s[:at], s[at+n:]...)
			}
		case 5:
			sub = "duplicate"
			at := r.Intn(len(s))
			n := 1 + r.Intn(minInt(40, len(s)-at))
			seg := append([]byte(nil), s[at:at+n]...)
			s = append(s[:at+n], append(seg, s[at+n:]...)...)
		case 6:
			sub = "splice"
			o := validStream(r, 3)
			s = append(s[:r.Intn(len(s)+1)], o[r.Intn(len(o)):]...)
		case 7:
			sub = "length-nudge"
			if len(s) >= 5 && s[0]&0x3F != 0x03 {
				l := binary.BigEndian.Uint32(s[1:5])
				l += uint32(r.Intn(17) - 8)
				binary.BigEndian.PutUint32(s[1:5], l)
			}
		case 8:
			sub = "flag-flip"
			s[0] ^= []byte{0x40, 0x80, 0xc0}[r.Intn(3)]
		default:
			sub = "type-swap"
			s[0] = byte(r.Intn(256))
		}
		out(Input{Family: "mutate", Sub: sub, Data: s})
	}

	// (9) frames with a random type byte and a consistent small length
	for i := 0; i < p.RandFrame && !stop; i++ {
		var s []byte
		for k := 1 + r.Intn(4); k > 0; k-- {
			typ := byte(r.Intn(256))
			var body []byte
			switch r.Intn(5) {
			case 0:
			case 1:
				body = make([]byte, r.Intn(40))
				r.Read(body)
			case 2:
				body = randObj(r, cmdPktFields, 60)
			case 3:
				body = randObj(r, append(append([]string(nil), handshakeFields...), tunnelFields...), 40)
			default:
				body = Gz(randObj(r, cmdPktFields, 60), gzip.BestSpeed)
			}
			s = append(s, FrameLen(typ, uint32(len(body)), body)...)
		}
		out(Input{Family: "randframe", Sub: "frames", Data: s})
	}

	// (10) uniform random bytes
	for i := 0; i < p.Random && !stop; i++ {
		var n int
		switch r.Intn(10) {
		case 0:
			n = r.Intn(4096)
		case 1, 2, 3:
			n = r.Intn(64)
		default:
			n = r.Intn(9)
		}
		b := make([]byte, n)
		r.Read(b)
		sub := "uniform"
		if n >= 5 && r.Intn(2) == 0 {
			// keep the length field small so that the body path is reached
			b[1], b[2], b[3] = 0, 0, 0
			sub = "uniform-small-length"
		}
		out(Input{Family: "random", Sub: sub, Data: b})
	}
}

func sortedKeys(m map[string][]byte) []string {
	ks := make([]string, 0, len(m))
	for k := range m {
		ks = append(ks, k)
	}
	sort.Strings(ks)
	return ks
}

func minInt(a, b int) int {
	if a < b {
		return a
	}
	return b
}

func isCmdType(t byte) bool { return t&0x3F == 0x10 || t&0x3F == 0x11 }

func clip(s string) string {
	if len(s) > 40 {
		return s[:40] + "..."
	}
	return s
}

func lenClass(d uint32, actual int) string {
	switch {
	case d == uint32(actual)-1:
		return "actual-1"
	case d == uint32(actual)+1:
		return "actual+1"
	case d == Max-1:
		return "Max-1"
	case d == Max:
		return "Max"
	case d == Max+1:
		return "Max+1"
	case d == 1<<31:
		return "2^31"
	case d == 1<<31-1:
		return "2^31-1"
	case d == 1<<32-1:
		return "2^32-1"
	case d > Max:
		return ">Max"
	case d >= 1<<20:
		return "MiB.."
	default:
		return "small"
	}
}

func sizeClass(n int64) string {
	switch {
	case n < Max:
		return "<Max"
	case n == Max:
		return "Max"
	case n == Max+1:
		return "Max+1"
	case n <= 2*Max:
		return "<=2xMax"
	case n <= 4*Max:
		return "<=4xMax"
	case n <= 16*Max:
		return "<=16xMax"
	default:
		return ">16xMax"
	}
}
