//go:build verif && verif_c05

package verifc05gen

import (
	"runtime"
	"strings"
	"time"

	vk "tunnox-core/internal/verifkit"
)

// CloseResult says how a per-input cleanup (closing the stream processor / the
// connection) ended.
type CloseResult struct {
	Returned bool   // cleanup returned (possibly by panicking; see Panic)
	Hung     bool   // decided logically: parked in the same lock frames in 3 dumps 100 ms apart
	Frames   string // where it is parked (tunnox-core frames), when Hung
	State    string
	Panic    string // cleanup itself panicked
}

func goID() string {
	var buf [64]byte
	n := runtime.Stack(buf[:], false)
	f := strings.Fields(string(buf[:n]))
	if len(f) >= 2 {
		return f[1]
	}
	return ""
}

func tunnoxFrames(stack string, max int) string {
	var fr []string
	for _, l := range strings.Split(stack, "\n") {
		if strings.HasPrefix(l, "tunnox-core/") && !strings.Contains(l, "verifkit") && !strings.Contains(l, "verifc05gen") && !strings.Contains(l, "c05") && !strings.Contains(l, "TestVerif") {
			if i := strings.LastIndex(l, "("); i > 0 {
				l = l[:i]
			}
			fr = append(fr, l)
			if len(fr) == max {
				break
			}
		}
	}
	return strings.Join(fr, " <- ")
}

// CloseAsync runs cleanup on its own goroutine. A cleanup that does not return within
// grace is classified from goroutine dumps: if its goroutine sits in a mutex/semaphore
// wait with an identical stack in three consecutive dumps 100 ms apart, it is blocked
// on a lock nobody will release for it (Hung) and is abandoned. Anything else gets up
// to maxWait to finish; neither Returned nor Hung then means "undecided" (watchdog).
func CloseAsync(cleanup func(), grace, maxWait time.Duration) CloseResult {
	idc := make(chan string, 1)
	done := make(chan string, 1)
	go func() {
		idc <- goID()
		p := ""
		defer func() { done <- p }()
		defer func() {
			if e := recover(); e != nil {
				p = "panic in cleanup"
				if s, ok := e.(interface{ Error() string }); ok {
					p = s.Error()
				} else if s, ok := e.(string); ok {
					p = s
				}
			}
		}()
		cleanup()
	}()
	t := time.NewTimer(grace)
	defer t.Stop()
	select {
	case p := <-done:
		return CloseResult{Returned: true, Panic: p}
	case <-t.C:
	}
	id := <-idc
	deadline := time.Now().Add(maxWait)
	for time.Now().Before(deadline) {
		prev := ""
		same := 0
		var last vk.Goroutine
		for k := 0; k < 3; k++ {
			select {
			case p := <-done:
				return CloseResult{Returned: true, Panic: p}
			default:
			}
			var g *vk.Goroutine
			for _, x := range vk.Goroutines() {
				if x.ID == id {
					xx := x
					g = &xx
					break
				}
			}
			if g == nil {
				break
			}
			st := g.State
			if i := strings.Index(st, ","); i >= 0 {
				st = st[:i]
			}
			lockish := strings.Contains(st, "Lock") || strings.Contains(st, "semacquire") || strings.Contains(st, "sync.")
			key := st + "|" + tunnoxFrames(g.Stack, 12)
			if !lockish || (k > 0 && key != prev) {
				break
			}
			prev = key
			same++
			last = *g
			last.State = st
			if k < 2 {
				time.Sleep(100 * time.Millisecond)
			}
		}
		if same == 3 {
			return CloseResult{Hung: true, Frames: tunnoxFrames(last.Stack, 4), State: last.State}
		}
		time.Sleep(200 * time.Millisecond)
	}
	select {
	case p := <-done:
		return CloseResult{Returned: true, Panic: p}
	default:
	}
	return CloseResult{}
}
