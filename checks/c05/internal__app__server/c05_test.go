//go:build verif && verif_c05

package server

import (
	"encoding/hex"
	"fmt"
	"regexp"
	"runtime/debug"
	"strings"
	"testing"
	"time"

	coreerrors "tunnox-core/internal/core/errors"
	"tunnox-core/internal/core/types"
	"tunnox-core/internal/packet"
	"tunnox-core/internal/security"
	gen "tunnox-core/internal/verifc05gen"
	vk "tunnox-core/internal/verifkit"
)

// C05 (dispatcher half) — every packet that decodes from a hostile stream is handed
// to SessionManager.HandlePacket on a fresh, unauthenticated connection of a fully
// wired mini server (real auth/tunnel handlers, command registry), exactly the way
// adapter.connectionReadLoop does it: ReadPacket on the connection's own stream until
// the first error, HandlePacket for each packet, stop on a tunnel mode switch.
// Oracle: HandlePacket returns (error or nil) — it never panics (recovered here) and
// the process never dies (handler goroutines; attributed through the WAL by the
// runner). A dispatch that does not return within the watchdog is inconclusive.

type c05DispObs struct {
	Decoded  int
	Branches []string
	NilRet   []bool // HandlePacket returned nil for packet i
	Panic    string
	Stack    string
	PanicPkt string
	Errs     int
	Replied  bool
	ModeSw   bool
	Close    gen.CloseResult
}

// c05Report records a violation the moment it is observed, before any cleanup.
type c05Report func(sig string, extra map[string]any)

func c05PanicSig(branch, p, stack string) string {
	return "C05:dispatch|panic|branch=" + branch + "|" + c05NumRe.ReplaceAllString(c05Clip(p, 60), "N") + "|at=" + stack
}

var c05NumRe = regexp.MustCompile(`[0-9]+`)

func c05Branch(t packet.Type) string {
	switch {
	case t.IsJsonCommand():
		return "command"
	case t.IsCommandResp():
		return "command-resp"
	case t&0x3F == packet.Handshake:
		return "handshake"
	case t&0x3F == packet.TunnelOpen:
		return "tunnel-open"
	case t.IsHeartbeat():
		return "heartbeat"
	}
	return "unhandled"
}

func c05Frames(stack string) string {
	var fr []string
	for _, l := range strings.Split(stack, "\n") {
		if strings.HasPrefix(l, "tunnox-core/") && !strings.Contains(l, "verifkit") && !strings.Contains(l, "c05") && !strings.Contains(l, "TestVerif") {
			if i := strings.LastIndex(l, "("); i > 0 {
				l = l[:i]
			}
			fr = append(fr, l)
			if len(fr) == 3 {
				break
			}
		}
	}
	return strings.Join(fr, " <- ")
}

func c05NewNode(t *testing.T) *miniNode {
	bf := &security.BruteForceConfig{MaxFailures: 1000000, TimeWindow: time.Hour, BanDuration: time.Hour, PermanentBanAt: 100000000, CleanupInterval: time.Hour}
	rl := &security.RateLimitConfig{Rate: 1000000, Burst: 1000000, TTL: time.Hour}
	return newMiniNode(t, miniOpts{BruteForce: bf, RateLimit: rl})
}

// c05Serve plays the adapter's read loop for one finite inbound stream.
func c05Serve(n *miniNode, data []byte, report c05Report) (obs c05DispObs) {
	c, err := n.Connect("")
	if err != nil {
		obs.Panic = "harness: connect failed: " + err.Error()
		return
	}
	defer func() {
		// what adapter.cleanupConnection does, on its own goroutine: after a panic that
		// unwound through a held lock it can block forever (decided from goroutine dumps)
		obs.Close = gen.CloseAsync(c.CloseByPeer, 300*time.Millisecond, 20*time.Second)
		if obs.Close.Hung {
			sig := "C05:dispatch|close-hangs"
			if obs.Panic != "" {
				sig = "C05:dispatch|close-hangs-after-panic"
			}
			report(sig, map[string]any{"after_panic": obs.Panic, "closer_state": obs.Close.State, "closer_parked_at": obs.Close.Frames,
				"decided_by": "cleanup goroutine in the same lock wait with identical stack in 3 dumps 100 ms apart"})
		}
	}()
	conn, ok := n.SM.GetConnection(c.ConnID)
	if !ok || conn == nil || conn.Stream == nil {
		obs.Panic = "harness: accepted connection has no stream"
		return
	}
	st := conn.Stream
	c.hc.Write(data)
	c.hc.CloseWrite()
	for i := 0; i < len(data)+2; i++ {
		var pkt *packet.TransferPacket
		var rerr error
		func() {
			defer func() {
				if e := recover(); e != nil {
					// the decoder monitor owns this clause, but its inputs differ from ours
					// (separate PRNG stream): report here as well
					obs.Panic = fmt.Sprint(e)
					obs.Stack = c05Frames(string(debug.Stack()))
					obs.PanicPkt = "decode"
					report(c05PanicSig("decode", obs.Panic, obs.Stack), map[string]any{"panic": obs.Panic, "packets_decoded": obs.Decoded})
					rerr = fmt.Errorf("decoder panic: %v", e)
				}
			}()
			pkt, _, rerr = st.ReadPacket()
		}()
		if rerr != nil || pkt == nil {
			break
		}
		obs.Decoded++
		br := c05Branch(pkt.PacketType)
		obs.Branches = append(obs.Branches, br)
		var herr error
		func() {
			defer func() {
				if e := recover(); e != nil {
					obs.Panic = fmt.Sprint(e)
					obs.Stack = c05Frames(string(debug.Stack()))
					obs.PanicPkt = br
					report(c05PanicSig(br, obs.Panic, obs.Stack), map[string]any{"panic": obs.Panic, "packets_decoded": obs.Decoded})
				}
			}()
			herr = n.SM.HandlePacket(&types.StreamPacket{ConnectionID: c.ConnID, Packet: pkt, Timestamp: time.Now()})
		}()
		if obs.Panic != "" {
			break
		}
		obs.NilRet = append(obs.NilRet, herr == nil)
		if herr != nil {
			obs.Errs++
			if pkt.PacketType&0x3F == packet.TunnelOpen && coreerrors.IsCode(herr, coreerrors.CodeTunnelModeSwitch) {
				obs.ModeSw = true
				break
			}
		}
	}
	obs.Replied = c.hc.Pending() > 0
	return obs
}

func c05DispPlan(run *vk.Run) gen.Plan {
	if run.Thorough() {
		return gen.Plan{Random: 40000, RandFrame: 120000, Mutate: 150000, TruncSeeds: 120, GzipTrunc: 12, NoHeavy: true, CmdBodies: 24}
	}
	return gen.Plan{Random: 800, RandFrame: 2500, Mutate: 3000, TruncSeeds: 5, GzipTrunc: 2, NoHeavy: true, CmdBodies: 6}
}

func TestVerifC05Dispatch(t *testing.T) {
	vk.Quiet()
	run := vk.Start(t, "C05", "dispatch")
	defer run.Finish()
	run.Rule("the decoder monitor's byte-stream families without the heavy (bomb / Max-size) cases, each written to a fresh unauthenticated connection of a mini server (memory storage, real ServerAuthHandler/ServerTunnelHandler/ConnectionCodeService, command registry incl. connection-code/config/mapping/HTTP-domain handlers); read loop = conn.Stream.ReadPacket until first error, HandlePacket per packet; all 256 command types x body shapes in both packet directions, wrong-typed values for every HandshakeRequest/TunnelOpenRequest/CommandPacket field; distinct = (dispatcher branch, command type, outcome); non-trivial = at least one packet decoded and was dispatched")
	r := run.Rand("gen")
	node := c05NewNode(t)
	defer func() { node.Close() }()
	served := 0
	stopped := false
	var prev string

	gen.Generate(r, c05DispPlan(run), func(in gen.Input) bool {
		if len(in.Data) > 1<<20 {
			return true
		}
		det := map[string]any{"family": in.Family, "sub": in.Sub, "len": len(in.Data), "note": in.Note, "prev_case": prev}
		if len(in.Data) <= 700 {
			det["hex"] = hex.EncodeToString(in.Data)
			prev = det["hex"].(string)
		} else {
			det["hex_head"] = hex.EncodeToString(in.Data[:64])
			prev = in.Family + "/" + in.Sub
		}
		run.Case("dispatch|"+in.Family+"/"+in.Sub, det)
		if served > 0 && served%2000 == 0 {
			node.Close()
			node = c05NewNode(t)
			run.Count("nodes_recycled", 1)
		}
		served++
		n := node
		report := func(sig string, extra map[string]any) {
			m := map[string]any{}
			for k, v := range det {
				m[k] = v
			}
			for k, v := range extra {
				m[k] = v
			}
			if strings.Contains(sig, "close-hangs") {
				run.Count("close_hung_after_panic", 1)
			}
			run.Violation(sig, m)
		}
		// the read loop replica runs on its own goroutine; a dispatch that does not return is
		// classified from goroutine dumps: parked in the same lock wait with an identical stack
		// in three dumps 100 ms apart (after 1 s) = blocked on a lock nobody will release for it
		var o c05DispObs
		cres := gen.CloseAsync(func() { o = c05Serve(n, in.Data, report) }, time.Second, 50*time.Second)
		if cres.Hung {
			run.Count("dispatch_hung", 1)
			report("C05:dispatch|hang|"+cres.State+"|at="+cres.Frames, map[string]any{"goroutine_state": cres.State, "parked_at": cres.Frames,
				"decided_by": "the connection's read-loop goroutine in the same lock wait with an identical stack in 3 dumps 100 ms apart; the stream is finite and fully delivered"})
			// the server may be wedged behind that lock: abandon it, continue on a new one
			node = c05NewNode(t)
			run.Count("nodes_recycled", 1)
			run.Eval(1)
			return run.Counter("dispatch_hung") < 4
		}
		if !cres.Returned {
			run.Count("watchdog", 1)
			run.Observe("watchdog_case", det)
			stopped = true
			return false
		}
		run.Eval(1)
		if strings.HasPrefix(o.Panic, "harness:") {
			run.Count("harness_errors", 1)
			run.Observe("harness_error", o.Panic)
			return true
		}
		if !o.Close.Returned && !o.Close.Hung {
			run.Count("cleanup_undecided", 1) // neither returned nor classified as blocked: inconclusive
			stopped = true
			return false
		}
		if o.Panic != "" || o.Close.Hung {
			// (violations were recorded when observed) locks may be held by the unwound
			// call: continue on a new server
			run.Count("violating_inputs", 1)
			node = c05NewNode(t)
			run.Count("nodes_recycled", 1)
		}
		if o.Decoded > 0 {
			run.Count("inputs_dispatched", 1)
			run.Count("packets_dispatched", int64(o.Decoded))
			for _, b := range o.Branches {
				run.Count("branch_"+b, 1)
			}
			if o.Replied {
				run.Count("inputs_with_reply", 1)
			}
			run.Count("handler_errors", int64(o.Errs))
			if in.Family == "session" && o.Decoded >= 2 && o.Branches[0] == "handshake" {
				run.Count("commands_after_handshake", 1)
				if len(o.NilRet) >= 2 && o.NilRet[0] && o.NilRet[1] {
					run.Count("commands_after_handshake_accepted", 1)
				}
			}
			if o.ModeSw {
				run.Count("tunnel_mode_switches", 1)
			}
			oc := "err"
			if o.Errs == 0 {
				oc = "nil"
			}
			if o.Replied {
				oc += "+reply"
			}
			key := o.Branches[0] + "|" + oc
			if in.Family == "bodies" || in.Family == "session" {
				key += "|" + in.Sub
			} else {
				key += "|" + in.Family
			}
			run.Distinct(key)
			if in.Family != "types" && in.Family != "bodies" || served%400 == 0 {
				run.Sample(map[string]any{"family": in.Family, "sub": in.Sub, "len": len(in.Data), "branches": o.Branches, "handler_errors": o.Errs, "replied": o.Replied})
			}
		}
		if run.Counter("close_hung_after_panic") >= 4 || run.Counter("violating_inputs") >= 300 {
			run.Count("stopped_early_after_violations", 1)
			return false
		}
		return run.Violations() < 20
	})
	if !stopped {
		run.Count("completed", 1)
	}
	run.Floor("completed", 1)
	for _, b := range []string{"command", "command-resp", "handshake", "tunnel-open", "heartbeat", "unhandled"} {
		run.Floor("branch_"+b, 100)
	}
	run.Floor("inputs_with_reply", 100)
	run.Floor("commands_after_handshake", 500)
}

func c05Clip(s string, n int) string {
	if len(s) > n {
		return s[:n]
	}
	return s
}
