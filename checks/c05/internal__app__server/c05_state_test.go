//go:build verif && verif_c05

package server

import (
	"bytes"
	"context"
	"encoding/json"
	"fmt"
	"io"
	"net"
	"runtime"
	"runtime/debug"
	"sort"
	"strings"
	"sync"
	"sync/atomic"
	"testing"
	"time"

	"tunnox-core/internal/command"
	"tunnox-core/internal/core/types"
	"tunnox-core/internal/packet"
	"tunnox-core/internal/protocol/httptypes"
	"tunnox-core/internal/protocol/session"
	"tunnox-core/internal/protocol/session/httpproxy"
	"tunnox-core/internal/stream"
	gen "tunnox-core/internal/verifc05gen"
	vk "tunnox-core/internal/verifkit"
)

// ---------------------------------------------------------------------------------
// shared: play the adapter's read loop for a hostile burst on a fresh connection
// ---------------------------------------------------------------------------------

type c05PumpRes struct {
	Dispatched int
	Panic      string
	Stack      string
	Branch     string
}

// c05Wire is the transport of one hostile connection: the peer's finite byte stream
// to read, replies discarded. Close drops the buffer, so that whatever the server
// still references after the connection ended does not pin harness memory.
type c05Wire struct {
	mu     sync.Mutex
	data   []byte
	off    int
	closed bool
	wrote  int64
	keep   bool // keep what the server writes (replies) in out
	out    []byte
	remote vk.FakeAddr
}

func (w *c05Wire) Read(p []byte) (int, error) {
	w.mu.Lock()
	defer w.mu.Unlock()
	if w.closed {
		return 0, net.ErrClosed
	}
	if w.off >= len(w.data) {
		return 0, io.EOF
	}
	n := copy(p, w.data[w.off:])
	w.off += n
	return n, nil
}
func (w *c05Wire) Write(p []byte) (int, error) {
	w.mu.Lock()
	defer w.mu.Unlock()
	if w.closed {
		return 0, net.ErrClosed
	}
	w.wrote += int64(len(p))
	if w.keep {
		w.out = append(w.out, p...)
	}
	return len(p), nil
}
func (w *c05Wire) Close() error {
	w.mu.Lock()
	w.closed = true
	w.data = nil
	w.mu.Unlock()
	return nil
}
func (w *c05Wire) LocalAddr() net.Addr                { return vk.FakeAddr{Net: "tcp", Str: "127.0.0.1:7000"} }
func (w *c05Wire) RemoteAddr() net.Addr               { return w.remote }
func (w *c05Wire) SetDeadline(t time.Time) error      { return nil }
func (w *c05Wire) SetReadDeadline(t time.Time) error  { return nil }
func (w *c05Wire) SetWriteDeadline(t time.Time) error { return nil }

var c05WireSeq atomic.Int64

// dispatches currently inside HandlePacket (all pumps), and the maximum seen since reset
var c05InFlight, c05InFlightMax, c05Overlapped atomic.Int64

// c05Pump accepts a fresh unauthenticated connection from remote ("" = unique address)
// carrying data and dispatches every packet that decodes, the way the adapter's read
// loop does (ReadPacket on the connection's own stream -> HandlePacket), then ends the
// connection the way adapter.cleanupConnection does.
func c05Pump(n *miniNode, remote string, data []byte) (res c05PumpRes) {
	if remote == "" {
		k := c05WireSeq.Add(1)
		remote = fmt.Sprintf("10.%d.%d.%d:41000", 100+(k>>16)&63, (k>>8)&255, k&255)
	}
	return c05PumpW(n, &c05Wire{data: data, remote: vk.FakeAddr{Net: "tcp", Str: remote}})
}

func c05PumpW(n *miniNode, w *c05Wire) (res c05PumpRes) {
	data := w.data
	stc, err := n.SM.AcceptConnection(w, w)
	if err != nil {
		res.Panic = "harness: accept failed: " + err.Error()
		return
	}
	st := stc.Stream
	func() {
		defer func() {
			if e := recover(); e != nil {
				res.Panic = fmt.Sprint(e)
				res.Stack = c05Frames(string(debug.Stack()))
			}
		}()
		for i := 0; i < len(data)+2; i++ {
			res.Branch = "decode"
			pkt, _, rerr := st.ReadPacket()
			if rerr != nil || pkt == nil {
				return
			}
			res.Branch = c05Branch(pkt.PacketType)
			if k := c05InFlight.Add(1); k > 1 {
				c05Overlapped.Add(1) // this dispatch began while another one was inside HandlePacket
				if k > c05InFlightMax.Load() {
					c05InFlightMax.Store(k) // (racy max: an under-estimate at worst)
				}
			}
			_ = n.SM.HandlePacket(&types.StreamPacket{ConnectionID: stc.ID, Packet: pkt, Timestamp: time.Now()})
			c05InFlight.Add(-1)
			res.Dispatched++
		}
	}()
	if res.Panic == "" {
		_ = n.SM.CloseConnection(stc.ID)
		w.Close()
	}
	return res
}

// ---------------------------------------------------------------------------------
// (1) hostile packets that name live pending-request ids while server-side waiters
//     register / unregister them
// ---------------------------------------------------------------------------------

func TestVerifC05PendingRace(t *testing.T) {
	vk.Quiet()
	run := vk.Start(t, "C05", "pending-race")
	defer run.Finish()
	run.Rule("server-side waiters (the real SessionManager.SendHTTPProxyRequest towards an online client; an authenticated client's DNSResolve/DNSQuery request answered by its online target) keep registering/unregistering pending requests under known ids, while bursts of CommandResp/JsonCommand packets naming those ids (via request_id, via CommandId only, ids of the other waiters, unknown ids) are written to fresh unauthenticated connections and dispatched read-loop style by several goroutines per id; budget = hostile packets per goroutine; distinct = (table, naming variant); non-trivial = a hostile packet was dispatched while its id was pending (answered_waits counts waits ended by such a packet)")
	r := run.Rand("ids")
	node := c05NewNode(t)
	defer node.Close()
	target := node.NewClient("")
	reqA := node.NewClient("")
	perG := run.Pick(24000, 400000)
	const burst = 240

	hpIDs := []string{fmt.Sprintf("hp-%08x-a", r.Uint32()), fmt.Sprintf("hp-%08x-b", r.Uint32())}
	dnsID := fmt.Sprintf("dns-%08x", r.Uint32())
	dqID := fmt.Sprintf("dq-%08x", r.Uint32())

	var stop atomic.Bool
	var hostileLeft atomic.Int64
	var wg sync.WaitGroup
	violated := func(sig string, det map[string]any) {
		run.Violation(sig, det)
		stop.Store(true)
	}

	hostileFrame := func(rr interface{ Intn(int) int }, id string, k int) []byte {
		switch k % 8 {
		case 0, 1, 2:
			run.Distinct("httpproxy|request_id")
			return gen.Frame(0x11, gen.CmdJSON(int(packet.HTTPProxyResponse), "x", `{"request_id":"`+id+`","status_code":200,"headers":{}}`))
		case 3:
			run.Distinct("httpproxy|command-id-only")
			return gen.Frame(0x11, gen.CmdJSON(int(packet.HTTPProxyResponse), id, `{"status_code":502,"headers":null,"body":"AAAA"}`))
		case 4:
			run.Distinct("httpproxy|other-live-id")
			return gen.Frame(0x11, gen.CmdJSON(int(packet.HTTPProxyResponse), "", `{"request_id":"`+hpIDs[rr.Intn(len(hpIDs))]+`","status_code":0}`))
		case 5:
			run.Distinct("dns-resolve|command-id")
			return gen.Frame(0x11, gen.CmdJSON(int(packet.DNSResolve), dnsID, `{"success":true,"ips":["6.6.6.6"],"ttl":1}`))
		case 6:
			run.Distinct("dns-query|command-id")
			return gen.Frame(0x11, gen.CmdJSON(int(packet.DNSQuery), dqID, `{"query_id":"`+dqID+`","success":true,"raw_answer":"AAAA"}`))
		default:
			run.Distinct("unknown-id")
			return gen.Frame(0x11, gen.CmdJSON(int(packet.HTTPProxyResponse), "", fmt.Sprintf(`{"request_id":"nope-%d","status_code":200}`, rr.Intn(1000))))
		}
	}

	// hostile dispatchers: 2 per HTTP-proxy id, 1 mostly for the DNS ids
	type hostile struct {
		id    string
		label string
	}
	hs := []hostile{{hpIDs[0], "h0"}, {hpIDs[0], "h1"}, {hpIDs[1], "h2"}, {hpIDs[1], "h3"}, {hpIDs[0], "h4-dns"}}
	hostileLeft.Store(int64(len(hs)))
	for gi, h := range hs {
		gi, h := gi, h
		rr := run.Rand("hostile-" + h.label)
		wg.Add(1)
		go func() {
			defer wg.Done()
			defer hostileLeft.Add(-1)
			sent := 0
			for sent < perG && !stop.Load() {
				var data []byte
				for k := 0; k < burst; k++ {
					kk := rr.Intn(8)
					if gi == 4 && k%2 == 0 {
						kk = 5 + rr.Intn(2)
					}
					data = append(data, hostileFrame(rr, h.id, kk)...)
				}
				run.Case("pending-race|hostile-burst", map[string]any{"goroutine": h.label, "id": h.id, "frames": burst})
				res := c05Pump(node, "", data)
				sent += res.Dispatched
				run.Count("hostile_dispatches", int64(res.Dispatched))
				run.Eval(res.Dispatched)
				if strings.HasPrefix(res.Panic, "harness:") {
					run.Count("harness_errors", 1)
					run.Observe("harness_error", res.Panic)
					return
				}
				if res.Panic != "" {
					violated("C05:pending-race|panic|branch="+res.Branch+"|"+c05NumRe.ReplaceAllString(c05Clip(res.Panic, 60), "N")+"|at="+res.Stack,
						map[string]any{"panic": res.Panic, "hostile_goroutine": h.label, "named_id": h.id, "hostile_dispatches_so_far": run.Counter("hostile_dispatches"),
							"answered_waits_so_far": run.Counter("answered_waits"), "hostile_packet": "CommandResp carrying an HTTPProxyResponse / DNS response naming a pending id, from a fresh unauthenticated connection"})
					return
				}
				if res.Dispatched == 0 {
					run.Count("empty_bursts", 1)
					if run.Counter("empty_bursts") > 50 {
						return
					}
				}
			}
		}()
	}

	// waiters: the server's own HTTP front-end call, one per id
	guard := func(who string, f func()) {
		defer func() {
			if e := recover(); e != nil {
				// not a hostile dispatch: noted, decides nothing for this property
				run.Count("panic_outside_hostile_dispatch", 1)
				run.Observe("panic_outside_hostile_dispatch:"+who, fmt.Sprint(e))
				stop.Store(true)
			}
		}()
		f()
	}
	for _, id := range hpIDs {
		id := id
		wg.Add(1)
		go func() {
			defer wg.Done()
			guard("http-waiter", func() {
				k := 0
				for hostileLeft.Load() > 0 && !stop.Load() {
					resp, err := node.SM.SendHTTPProxyRequest(target.ClientID, &httptypes.HTTPProxyRequest{RequestID: id, Method: "GET", URL: "http://x.internal/", Timeout: 1})
					run.Count("http_waits", 1)
					if err == nil && resp != nil {
						run.Count("answered_waits", 1)
					} else {
						run.Count("unanswered_waits", 1)
					}
					if k++; k%64 == 0 {
						target.DrainRaw()
					}
				}
			})
		}()
	}
	// DNS: authenticated requester waits for its online target; the target answers; the
	// hostile connections name the same command ids
	for _, d := range []struct {
		ct   packet.CommandType
		id   string
		req  string
		resp string
	}{
		{packet.DNSResolve, dnsID, fmt.Sprintf(`{"domain":"a.example","qtype":1,"target_client_id":%d}`, target.ClientID), `{"success":true,"ips":["1.2.3.4"],"ttl":5}`},
		{packet.DNSQuery, dqID, fmt.Sprintf(`{"query_id":"%s","target_client_id":%d,"dns_server":"9.9.9.9:53","raw_query":"AAAA"}`, dqID, target.ClientID), fmt.Sprintf(`{"query_id":"%s","success":true,"raw_answer":"AAAA"}`, dqID)},
	} {
		d := d
		var waiting atomic.Bool
		wg.Add(2)
		go func() { // requester
			defer wg.Done()
			guard("dns-waiter", func() {
				for hostileLeft.Load() > 0 && !stop.Load() {
					waiting.Store(true)
					_ = reqA.Send(&packet.TransferPacket{PacketType: packet.JsonCommand, CommandPacket: &packet.CommandPacket{CommandType: d.ct, CommandId: d.id, CommandBody: d.req}})
					waiting.Store(false)
					run.Count("dns_waits", 1)
					reqA.DrainRaw()
				}
			})
		}()
		go func() { // the legitimate answerer (target's own connection)
			defer wg.Done()
			guard("dns-answerer", func() {
				for hostileLeft.Load() > 0 && !stop.Load() {
					if !waiting.Load() {
						runtime.Gosched()
						continue
					}
					_ = target.Send(&packet.TransferPacket{PacketType: packet.CommandResp, CommandPacket: &packet.CommandPacket{CommandType: d.ct, CommandId: d.id, CommandBody: d.resp}})
					run.Count("dns_answers", 1)
				}
			})
		}()
	}

	doneCh := make(chan struct{})
	go func() { wg.Wait(); close(doneCh) }()
	wd := time.NewTimer(240 * time.Second)
	defer wd.Stop()
	select {
	case <-doneCh:
		run.Count("completed", 1)
	case <-wd.C:
		stop.Store(true)
		run.Count("watchdog", 1)
	}
	run.Observe("pending_tables_at_end", map[string]any{"httpproxy": httpproxy.VerifC05Pending(), "session": session.VerifC05Tables(node.SM)})
	run.Floor("completed", 1)
	run.Floor("hostile_dispatches", int64(perG))
	run.Floor("answered_waits", 300)
	run.Floor("dns_waits", 20)
}

// ---------------------------------------------------------------------------------
// (2) retention: what the server still holds after N and after 4N refused packets
// ---------------------------------------------------------------------------------

type c05Snap struct {
	Heap   int64
	Inuse  int64
	Tables map[string]int
}

func c05Snapshot(n *miniNode) c05Snap {
	// let handler goroutines that were still finishing end, then collect twice (sync.Pool victims)
	for i := 0; i < 3; i++ {
		runtime.Gosched()
	}
	runtime.GC()
	runtime.GC()
	var m runtime.MemStats
	runtime.ReadMemStats(&m)
	tb := session.VerifC05Tables(n.SM)
	tb["rpc_pending"] = command.VerifC05RPCPending(n.SM.GetCommandExecutor())
	tb["httpproxy_pending"] = httpproxy.VerifC05Pending()
	return c05Snap{Heap: int64(m.HeapAlloc), Inuse: int64(m.HeapInuse), Tables: tb}
}

type c05Kind struct {
	name  string
	frame func(i int) []byte
}

func c05Kinds(mark string) []c05Kind {
	js := func(v any) []byte { b, _ := json.Marshal(v); return b }
	return []c05Kind{
		{"cmd-duplex-refused", func(i int) []byte {
			ct := []int{70, 71, 72, 74, 75, 76, 50}[i%7]
			return gen.Frame(0x10, gen.CmdJSON(ct, fmt.Sprintf("%s-c%d", mark, i), `{"code":"abc","listen_address":"127.0.0.1:1","mapping_id":"m"}`))
		}},
		{"cmd-http-domain", func(i int) []byte {
			ct := 82 + i%6
			return gen.Frame(0x10, gen.CmdJSON(ct, fmt.Sprintf("%s-d%d", mark, i), fmt.Sprintf(`{"subdomain":"s%d","base_domain":"tunnox.net","target_url":"http://localhost:1","mapping_id":"x"}`, i)))
		}},
		{"cmd-no-handler", func(i int) []byte {
			return gen.Frame(0x10, gen.CmdJSON(200+i%50, fmt.Sprintf("%s-n%d", mark, i), "{}"))
		}},
		{"cmd-special", func(i int) []byte {
			ct := []int{90, 110, 120, 121, 100, 101, 102}[i%7]
			return gen.Frame(0x10, gen.CmdJSON(ct, fmt.Sprintf("%s-s%d", mark, i), fmt.Sprintf(`{"mapping_id":"pm-%d","tunnel_id":"t-%d","target_client_id":12345678,"domain":"a.b","query_id":"q-%d","bytes_sent":1,"notify_id":"n-%d"}`, i, i, i, i)))
		}},
		{"resp-naming-ids", func(i int) []byte {
			ct := []int{81, 120, 121}[i%3]
			return gen.Frame(0x11, gen.CmdJSON(ct, fmt.Sprintf("%s-r%d", mark, i), fmt.Sprintf(`{"request_id":"%s-r%d","query_id":"%s-q%d","status_code":200,"success":true}`, mark, i, mark, i)))
		}},
		{"handshake-refused", func(i int) []byte {
			return gen.Frame(0x01, js(map[string]any{"client_id": 20000000 + i, "version": "3.0", "protocol": "tcp", "connection_type": []string{"control", "tunnel"}[i%2], "challenge_response": []string{"", "00ff"}[i%2]}))
		}},
		{"handshake-malformed", func(i int) []byte {
			return gen.Frame(0x01, []byte(fmt.Sprintf(`{"client_id":"%d`, i)))
		}},
		{"tunnel-open-refused", func(i int) []byte {
			return gen.Frame(0x20, js(map[string]any{"mapping_id": fmt.Sprintf("pm-%d", i), "tunnel_id": fmt.Sprintf("%s-t%d", mark, i), "secret_key": []string{"", "k"}[i%2], "resume_token": []string{"", "", "x.y"}[i%3]}))
		}},
		{"heartbeat", func(i int) []byte { return []byte{0x03} }},
		{"unhandled-type", func(i int) []byte {
			return gen.Frame([]byte{0x22, 0x02, 0x21, 0x23, 0x24, 0x3f}[i%6], []byte(fmt.Sprintf("payload-%d-................", i)))
		}},
	}
}

func TestVerifC05Retention(t *testing.T) {
	vk.Quiet()
	run := vk.Start(t, "C05", "retention")
	defer run.Finish()
	run.Rule("per packet kind (10 kinds of refused/ignored pre-auth packets: duplex commands, HTTP-domain commands, commands without handler, specially routed commands, responses naming request ids, refused and malformed handshakes, refused tunnel-opens, heartbeats, unhandled types) and scope (all on one fresh connection / 8 packets per fresh connection from 4 addresses): warm-up, then N packets, then 4N packets, every connection closed by the peer before measuring; after each phase: heap still reachable after two GCs and the sizes of the server's per-connection / per-request tables (conn map, control/tunnel registries, stream manager, RPC manager, HTTP-proxy / DNS / tunnel-wait pending tables). Retention that grows from the N phase to the 4N phase in proportion to the packet count is unbounded in the number of packets; distinct = (kind, scope)")
	N := run.Pick(1000, 6000)
	const perConn = 8
	const perPacket = 64 // bytes per packet below which heap growth is not judged (noise floor of the measurement)
	type growth struct {
		Kind, Scope string
		D1, D2      int64
	}
	var heapRows []map[string]any
	tableViol := map[string][]string{}
	heapViol := map[string][]growth{}
	seq := 0
	for _, scope := range []string{"one-conn", "many-conn"} {
		// production-default brute-force / rate-limit settings: with the lenient settings of
		// the other monitors the protector's per-address failure history is unbounded by
		// the harness's own configuration
		node := newMiniNode(t, miniOpts{})
		for _, k := range c05Kinds(fmt.Sprintf("k%d", run.Seed)) {
			run.Case("retention|"+k.name+"|"+scope, nil)
			phase := func(count int) bool {
				per := count
				if scope == "many-conn" {
					per = perConn
				}
				for sent := 0; sent < count; {
					var data []byte
					nn := per
					if count-sent < nn {
						nn = count - sent
					}
					for j := 0; j < nn; j++ {
						data = append(data, k.frame(seq)...)
						seq++
					}
					res := c05Pump(node, fmt.Sprintf("10.250.0.%d:%d", 1+seq%4, 20000+seq%30000), data)
					if res.Panic != "" {
						if strings.HasPrefix(res.Panic, "harness:") {
							run.Count("harness_errors", 1)
							run.Observe("harness_error", res.Panic)
						} else {
							run.Violation("C05:retention|panic|branch="+res.Branch+"|"+c05NumRe.ReplaceAllString(c05Clip(res.Panic, 60), "N")+"|at="+res.Stack, map[string]any{"kind": k.name, "scope": scope, "panic": res.Panic})
						}
						return false
					}
					run.Count("packets_dispatched", int64(res.Dispatched))
					run.Eval(res.Dispatched)
					if res.Dispatched < nn {
						run.Count("packets_not_dispatched", int64(nn-res.Dispatched))
					}
					sent += nn
				}
				return true
			}
			if !phase(N / 4) {
				break
			}
			s0 := c05Snapshot(node)
			if !phase(N) {
				break
			}
			s1 := c05Snapshot(node)
			if !phase(4 * N) {
				break
			}
			s2 := c05Snapshot(node)
			run.Count("series", 1)
			run.Distinct(k.name + "|" + scope)
			d1, d2 := s1.Heap-s0.Heap, s2.Heap-s1.Heap
			heapRows = append(heapRows, map[string]any{"kind": k.name, "scope": scope, "heap_growth_N": d1, "heap_growth_4N": d2, "per_packet_4N": d2 / int64(4*N)})
			if d1 >= int64(N)*perPacket && d2 >= int64(4*N)*perPacket && d2 >= 2*d1 {
				heapViol[scope] = append(heapViol[scope], growth{k.name, scope, d1, d2})
			}
			for name := range s2.Tables {
				g1, g2 := s1.Tables[name]-s0.Tables[name], s2.Tables[name]-s1.Tables[name]
				if g1 >= 16 && g2 >= 3*g1 {
					key := name + "|" + scope
					tableViol[key] = append(tableViol[key], fmt.Sprintf("%s: +%d after N=%d packets, +%d after 4N", k.name, g1, N, g2))
				}
			}
			if run.Violations() >= 12 {
				break
			}
		}
		run.Observe("tables_at_end:"+scope, c05Snapshot(node).Tables)
		node.Close()
	}
	run.Observe("heap_growth", heapRows)
	keys := make([]string, 0, len(tableViol))
	for k := range tableViol {
		keys = append(keys, k)
	}
	sort.Strings(keys)
	for _, key := range keys {
		p := strings.SplitN(key, "|", 2)
		run.Violation("C05:retention|table="+p[0]+"|grows-with-packets|scope="+p[1], map[string]any{"N": N, "kinds": tableViol[key],
			"reading": "every hostile connection had been closed by the peer before each measurement; the table kept growing in proportion to the number of packets/connections"})
	}
	for _, scope := range []string{"one-conn", "many-conn"} {
		if g := heapViol[scope]; len(g) > 0 {
			run.Violation("C05:retention|heap-grows-with-packets|scope="+scope, map[string]any{"N": N, "threshold_bytes_per_packet": perPacket, "kinds": g,
				"reading": "reachable heap after two GCs grew by >= 64 B per packet in the N phase and again, proportionally, in the 4N phase, with all hostile connections closed"})
		}
	}
	run.Floor("series", 20)
	run.Floor("packets_dispatched", int64(20*5*N))
}

// ---------------------------------------------------------------------------------
// (3) a hostile peer that never reads its replies must not block anyone else
// ---------------------------------------------------------------------------------

// c05GatedWire is a hostile connection whose peer does not read: every Write by the
// server parks until release() (what a full socket send buffer does; the transports
// set no write deadline).
type c05GatedWire struct {
	c05Wire
	gate    chan struct{}
	blocked atomic.Int64
}

func (w *c05GatedWire) Write(p []byte) (int, error) {
	w.blocked.Add(1)
	<-w.gate
	w.blocked.Add(-1)
	return w.c05Wire.Write(p)
}

func TestVerifC05SlowReader(t *testing.T) {
	vk.Quiet()
	run := vk.Start(t, "C05", "slow-reader")
	defer run.Finish()
	run.Rule("party 1: a fresh unauthenticated connection whose peer never reads sends one packet that makes the server write to it (heartbeat, refused/anonymous handshake, malformed handshake, refused tunnel-open, malformed tunnel-open, refused duplex command, config-get, DNS request, ...); once that write is parked in the transport (gate counter), party 2 - another fresh connection with a finite stream - is accepted, has a heartbeat, a handshake, a command and a tunnel-open dispatched, is looked up and closed, and a third connection is accepted and closed. Every party-2 step must return; a step whose goroutine sits in the same lock wait with an identical stack in three dumps 100 ms apart while party 1's write is still parked is blocked for as long as party 1 pleases. distinct = (party-1 packet kind, party-2 step); non-trivial = party 1's write was parked while party 2 ran")
	js := func(v any) []byte { b, _ := json.Marshal(v); return b }
	hostileKinds := []struct {
		name  string
		frame []byte
	}{
		{"heartbeat", []byte{0x03}},
		{"heartbeat-compressed-flag", []byte{0x43}},
		{"handshake-anonymous", gen.Frame(0x01, js(map[string]any{"client_id": 0, "token": "new-client", "version": "3.0", "protocol": "tcp", "connection_type": "control"}))},
		{"handshake-refused", gen.Frame(0x01, js(map[string]any{"client_id": 31234567, "version": "3.0", "protocol": "tcp"}))},
		{"handshake-malformed", gen.Frame(0x01, []byte(`{"client_id":"x`))},
		{"tunnel-open-refused", gen.Frame(0x20, js(map[string]any{"mapping_id": "pm-x", "tunnel_id": "t-x", "secret_key": "k"}))},
		{"tunnel-open-malformed", gen.Frame(0x20, []byte(`[`))},
		{"cmd-duplex-refused", gen.Frame(0x10, gen.CmdJSON(70, "sr-1", `{}`))},
		{"cmd-config-get", gen.Frame(0x10, gen.CmdJSON(50, "sr-2", `{}`))},
		{"cmd-http-domain", gen.Frame(0x10, gen.CmdJSON(83, "sr-3", `{"subdomain":"a","base_domain":"tunnox.net"}`))},
		{"cmd-dns-resolve", gen.Frame(0x10, gen.CmdJSON(120, "sr-4", `{"domain":"a.b","qtype":1,"target_client_id":-1}`))},
		{"cmd-dns-query", gen.Frame(0x10, gen.CmdJSON(121, "sr-5", `{"query_id":"q","target_client_id":-1,"raw_query":"AAAA"}`))},
		{"handshake-then-heartbeat", append(gen.Frame(0x01, js(map[string]any{"client_id": 0, "token": "new-client", "version": "3.0", "protocol": "tcp"})), 0x03)},
	}
	rounds := run.Pick(2, 12)
	victimStream := [][]byte{
		{0x03},
		gen.Frame(0x01, js(map[string]any{"client_id": 32345678, "version": "3.0", "protocol": "tcp"})),
		gen.Frame(0x10, gen.CmdJSON(71, "v-1", `{}`)),
		gen.Frame(0x20, js(map[string]any{"mapping_id": "pm-v", "tunnel_id": "t-v"})),
	}
	stepNames := []string{"accept", "dispatch-heartbeat", "dispatch-handshake", "dispatch-command", "dispatch-tunnel-open", "lookup", "close", "accept+close-third"}
	hungTotal := 0
	for round := 0; round < rounds && hungTotal < 4; round++ {
		node := c05NewNode(t)
		for _, hk := range hostileKinds {
			run.Case("slow-reader|hostile="+hk.name, map[string]any{"round": round})
			hw := &c05GatedWire{gate: make(chan struct{})}
			hw.data = hk.frame
			hw.remote = vk.FakeAddr{Net: "tcp", Str: fmt.Sprintf("10.240.%d.%d:5000", round, len(hk.name))}
			hstc, err := node.SM.AcceptConnection(hw, hw)
			if err != nil {
				run.Count("harness_errors", 1)
				continue
			}
			hDone := make(chan string, 1)
			go func() { // party 1's read loop
				p := ""
				defer func() {
					if e := recover(); e != nil {
						p = fmt.Sprint(e)
					}
					hDone <- p
				}()
				for i := 0; i < 4; i++ {
					pkt, _, rerr := hstc.Stream.ReadPacket()
					if rerr != nil || pkt == nil {
						return
					}
					_ = node.SM.HandlePacket(&types.StreamPacket{ConnectionID: hstc.ID, Packet: pkt, Timestamp: time.Now()})
				}
			}()
			// wait until the server's write to party 1 is parked in the transport (or party 1's loop ended without writing)
			parked := false
			hEnded := false
			wd := time.Now().Add(20 * time.Second)
			for !parked && !hEnded && time.Now().Before(wd) {
				if hw.blocked.Load() > 0 {
					parked = true
					break
				}
				select {
				case p := <-hDone:
					hEnded = true
					if p != "" {
						run.Violation("C05:slow-reader|panic|hostile="+hk.name+"|"+c05NumRe.ReplaceAllString(c05Clip(p, 60), "N"), map[string]any{"panic": p})
					}
				default:
					time.Sleep(200 * time.Microsecond)
				}
			}
			run.Eval(1)
			if !parked {
				run.Count("hostile_kind_without_parked_write", 1)
				run.Observe("no_parked_write:"+hk.name, "the server wrote nothing to party 1 for this packet")
				close(hw.gate)
				if !hEnded {
					run.Count("watchdog", 1)
				}
				_ = node.SM.CloseConnection(hstc.ID)
				continue
			}
			run.Count("hostile_writes_parked", 1)
			// party 2
			var step atomic.Int64
			var vPanic atomic.Value
			victim := func() {
				defer func() {
					if e := recover(); e != nil {
						vPanic.Store(fmt.Sprint(e))
					}
				}()
				var data []byte
				for _, f := range victimStream {
					data = append(data, f...)
				}
				vw := &c05Wire{data: data, remote: vk.FakeAddr{Net: "tcp", Str: fmt.Sprintf("10.241.%d.%d:5001", round, len(hk.name))}}
				step.Store(0)
				vstc, err := node.SM.AcceptConnection(vw, vw)
				if err != nil {
					return
				}
				for i := range victimStream {
					step.Store(int64(1 + i))
					pkt, _, rerr := vstc.Stream.ReadPacket()
					if rerr != nil || pkt == nil {
						break
					}
					_ = node.SM.HandlePacket(&types.StreamPacket{ConnectionID: vstc.ID, Packet: pkt, Timestamp: time.Now()})
				}
				step.Store(5)
				_, _ = node.SM.GetConnection(vstc.ID)
				step.Store(6)
				_ = node.SM.CloseConnection(vstc.ID)
				vw.Close()
				step.Store(7)
				tw := &c05Wire{remote: vk.FakeAddr{Net: "tcp", Str: "10.242.0.1:5002"}}
				if t3, err := node.SM.AcceptConnection(tw, tw); err == nil {
					_ = node.SM.CloseConnection(t3.ID)
				}
				tw.Close()
				step.Store(8)
			}
			res := gen.CloseAsync(victim, 300*time.Millisecond, 45*time.Second)
			stillParked := hw.blocked.Load() > 0
			st := int(step.Load())
			switch {
			case res.Hung && stillParked:
				hungTotal++
				sname := "?"
				if st < len(stepNames) {
					sname = stepNames[st]
				}
				run.Count("victim_blocked", 1)
				run.Violation("C05:slow-reader|other-connection-blocked|hostile="+hk.name+"|victim-step="+sname, map[string]any{
					"hostile_packet_hex": fmt.Sprintf("%x", hk.frame), "victim_step": sname, "victim_goroutine_state": res.State, "victim_parked_at": res.Frames,
					"hostile_write_still_parked": stillParked,
					"decided_by":                 "party 2's goroutine in the same lock wait with an identical stack in 3 dumps 100 ms apart while the server's write to party 1 (which never reads) is parked; it can only proceed when party 1 decides to read"})
			case res.Returned:
				if stillParked {
					run.Count("victim_sequences_completed_while_hostile_write_parked", 1)
					run.Distinct(hk.name + "|all-steps")
				} else {
					run.Count("hostile_write_returned_early", 1)
				}
				if p, _ := vPanic.Load().(string); p != "" {
					run.Violation("C05:slow-reader|panic|victim|hostile="+hk.name+"|"+c05NumRe.ReplaceAllString(c05Clip(p, 60), "N"), map[string]any{"panic": p, "victim_step": st})
				}
			default:
				run.Count("victim_undecided", 1) // neither returned nor classified: inconclusive
				run.Observe("victim_undecided:"+hk.name, map[string]any{"step": st, "hung": res.Hung, "hostile_parked": stillParked})
			}
			// party 1 finally reads (or goes away): everything drains
			close(hw.gate)
			select {
			case <-hDone:
			case <-time.After(45 * time.Second):
				run.Count("hostile_loop_did_not_end_after_release", 1)
			}
			_ = node.SM.CloseConnection(hstc.ID)
			hw.Close()
			if res.Hung {
				break // fresh node for the next round
			}
		}
		node.Close()
	}
	if run.Counter("victim_undecided") == 0 && run.Counter("watchdog") == 0 {
		run.Count("completed", 1)
	}
	run.Floor("completed", 1)
	run.Floor("hostile_writes_parked", 10)
	if run.Violations() == 0 {
		run.Floor("victim_sequences_completed_while_hostile_write_parked", 10)
	}
}

// ---------------------------------------------------------------------------------
// (4) several hostile peers at once: the same refused packets dispatched concurrently
// ---------------------------------------------------------------------------------

func TestVerifC05Storm(t *testing.T) {
	vk.Quiet()
	run := vk.Start(t, "C05", "storm")
	defer run.Finish()
	run.Rule("8 goroutines, each the read loop of its own stream of fresh unauthenticated connections on one server, dispatch the same kind of refused/ignored packet at the same time (phases: the 10 retention kinds, a sweep over all 256 command types in both packet directions, a seeded mix), bursts of 40 packets per connection; oracle: no panic in any dispatch (recovered) and no process-fatal error (concurrent map writes, unlock of unlocked mutex, ...: attributed by the runner to the WAL line of the phase); distinct = phase; non-trivial = at least 50 dispatches of the phase began while another dispatch was inside HandlePacket (a phase that did not get there is repeated, at most 3 times)")
	const G = 8
	const burst = 40
	perPhase := run.Pick(480, 6000) // packets per goroutine and phase
	node := c05NewNode(t)
	defer node.Close()
	r := run.Rand("mix")
	kinds := c05Kinds(fmt.Sprintf("st%d", run.Seed))
	kinds = append(kinds,
		c05Kind{"cmd-type-sweep", func(i int) []byte {
			return gen.Frame([]byte{0x10, 0x11}[(i/256)%2], gen.CmdJSON(i%256, fmt.Sprintf("sw-%d", i), `{}`))
		}},
		c05Kind{"resp-no-handler", func(i int) []byte {
			return gen.Frame(0x11, gen.CmdJSON(130+i%100, fmt.Sprintf("rn-%d", i), `{"success":false}`))
		}},
	)
	mixSeed := r.Int63()
	kinds = append(kinds, c05Kind{"seeded-mix", func(i int) []byte {
		x := uint64(i)*0x9E3779B97F4A7C15 + uint64(mixSeed)
		k := kinds[int(x>>33)%(len(kinds)-1)]
		return k.frame(i)
	}})
	var stop atomic.Bool
	for pi, k := range kinds {
		if stop.Load() {
			break
		}
		run.Case("storm|phase="+k.name, map[string]any{"goroutines": G, "packets_per_goroutine": perPhase, "burst": burst,
			"what": "the same kind of refused pre-auth packet dispatched concurrently from " + fmt.Sprint(G) + " streams of fresh connections"})
		c05InFlightMax.Store(0)
		c05Overlapped.Store(0)
		for attempt := 0; attempt < 4 && c05Overlapped.Load() < 50 && !stop.Load(); attempt++ { // repeat a phase that did not overlap (bounded)
			if attempt > 0 {
				run.Count("phase_repeats", 1)
			}
			var wg sync.WaitGroup
			start := make(chan struct{})
			for g := 0; g < G; g++ {
				g := g
				wg.Add(1)
				go func() {
					defer wg.Done()
					<-start
					seq := ((pi*4+attempt)*G + g) * 1000003
					for sent := 0; sent < perPhase && !stop.Load(); {
						var data []byte
						for j := 0; j < burst; j++ {
							data = append(data, k.frame(seq)...)
							seq++
						}
						var res c05PumpRes
						remote := fmt.Sprintf("10.230.%d.%d:%d", g, pi, 10000+sent%50000)
						cres := gen.CloseAsync(func() { res = c05Pump(node, remote, data) }, time.Second, 120*time.Second)
						if cres.Hung {
							run.Count("dispatch_hung", 1)
							run.Violation("C05:storm|hang|phase="+k.name, map[string]any{"phase": k.name, "goroutine_state": cres.State, "parked_at": cres.Frames,
								"decided_by": "a read-loop goroutine in the same lock wait with an identical stack in 3 dumps 100 ms apart; its stream is finite and fully delivered"})
							stop.Store(true)
							return
						}
						if !cres.Returned {
							run.Count("watchdog", 1)
							stop.Store(true)
							return
						}
						run.Count("storm_dispatches", int64(res.Dispatched))
						run.Eval(res.Dispatched)
						sent += burst
						if strings.HasPrefix(res.Panic, "harness:") {
							run.Count("harness_errors", 1)
							run.Observe("harness_error", res.Panic)
							return
						}
						if res.Panic != "" {
							run.Violation("C05:storm|panic|phase="+k.name+"|branch="+res.Branch+"|"+c05NumRe.ReplaceAllString(c05Clip(res.Panic, 60), "N")+"|at="+res.Stack,
								map[string]any{"panic": res.Panic, "phase": k.name, "goroutines": G})
							stop.Store(true)
							return
						}
					}
				}()
			}
			done := make(chan struct{})
			go func() { wg.Wait(); close(done) }()
			close(start)
			wd := time.NewTimer(240 * time.Second)
			select {
			case <-done:
				wd.Stop()
			case <-wd.C:
				run.Count("watchdog", 1)
				run.Observe("watchdog_phase", k.name)
				stop.Store(true)
				run.Floor("completed", 1)
				return
			}
		}
		run.Max("max_concurrent_dispatches", c05InFlightMax.Load())
		run.Count("phases", 1)
		run.Count("overlapping_dispatches", c05Overlapped.Load())
		if c05Overlapped.Load() >= 50 {
			run.Count("phases_with_concurrent_dispatches", 1)
			run.Distinct(k.name)
		}
	}
	if !stop.Load() {
		run.Count("completed", 1)
	}
	run.Floor("completed", 1)
	run.Floor("phases_with_concurrent_dispatches", int64(len(kinds)-2))
	run.Floor("storm_dispatches", int64(len(kinds)*G*perPhase*9/10))
}

// ---------------------------------------------------------------------------------
// (5) two-step pre-auth sequences through the real auth handler
// ---------------------------------------------------------------------------------

func c05Replies(out []byte) []*packet.HandshakeResponse {
	var rs []*packet.HandshakeResponse
	sp := stream.NewStreamProcessor(bytes.NewReader(out), io.Discard, context.Background())
	defer sp.Close()
	for i := 0; i < 8; i++ {
		p, _, err := sp.ReadPacket()
		if err != nil || p == nil {
			break
		}
		if p.PacketType&0x3F == packet.HandshakeResp {
			var r packet.HandshakeResponse
			if json.Unmarshal(p.Payload, &r) == nil {
				rs = append(rs, &r)
			}
		}
	}
	return rs
}

func TestVerifC05HandshakeSequences(t *testing.T) {
	vk.Quiet()
	run := vk.Start(t, "C05", "handshake-seq")
	defer run.Finish()
	run.Rule("a client id obtained by anonymous registration on the same server; then per case a fresh unauthenticated connection sends, in one burst, handshake step 1 naming that id (the real ServerAuthHandler stores a challenge on the connection and replies with it) followed by step 2 with a hostile value: challenge_response = valid hex of every length 0..N (quick N=300 plus {511,512,513,1024,4096,65536,1<<20}; thorough every length to 4096), upper/mixed case, odd length, non-hex, whitespace, NUL, unicode, JSON-escaped; hostile values in every other string field of step 2 and of step 1; step 2 without step 1, repeated step 2, control/tunnel connection types, target client online/offline; interactively: the correct HMAC upper-cased, extended, truncated, padded. Oracle: no panic (recovered in the read loop replica) / no process death (WAL). distinct = (variant class, connection type); non-trivial = the server issued a challenge on that connection before the hostile step (counted from its replies)")
	node := c05NewNode(t)
	defer node.Close()
	online := node.NewClient("")
	offline := node.NewClient("")
	offID, offSecret := offline.ClientID, offline.Secret
	offline.CloseByPeer()
	js := func(v any) []byte { b, _ := json.Marshal(v); return b }
	r := run.Rand("vals")
	hexOf := func(n int, upper bool) string {
		const lo, up = "0123456789abcdef", "0123456789ABCDEF"
		b := make([]byte, n)
		for i := range b {
			if upper {
				b[i] = up[r.Intn(16)]
			} else {
				b[i] = lo[r.Intn(16)]
			}
		}
		return string(b)
	}
	type variant struct {
		class string
		resp  string
	}
	var vs []variant
	maxAll := run.Pick(300, 4096)
	for n := 0; n <= maxAll; n++ {
		vs = append(vs, variant{"hex-len", hexOf(n, false)})
	}
	for _, n := range []int{511, 512, 513, 1024, 4096, 65536, 1 << 20} {
		vs = append(vs, variant{"hex-long", hexOf(n, false)})
	}
	for _, n := range []int{2, 62, 64, 66, 128, 1000} {
		vs = append(vs, variant{"hex-upper", hexOf(n, true)}, variant{"hex-mixed", hexOf(n/2, true) + hexOf(n-n/2, false)})
	}
	for _, x := range []string{"zz", "0x" + hexOf(64, false), hexOf(63, false) + "g", " " + hexOf(64, false), hexOf(64, false) + "\n", hexOf(32, false) + "\x00" + hexOf(31, false),
		strings.Repeat("é", 32), strings.Repeat("\u0000", 64), strings.Repeat("f", 64) + strings.Repeat(" ", 64), "-" + hexOf(63, false), strings.Repeat("00", 33), strings.Repeat("ff", 4096)} {
		vs = append(vs, variant{"non-hex", x})
	}
	hostileStr := []string{"", "x", strings.Repeat("A", 70000), "\x00", "\xff\xfe", "control\x00", "3.0\n", "../../etc", strings.Repeat("%s", 50), "🙂", hexOf(200, false)}

	serve := func(class, ctype string, id int64, data []byte, wantChallenge bool) bool {
		run.Case("handshake-seq|"+class+"|"+ctype, map[string]any{"client_id_kind": map[bool]string{true: "online", false: "offline"}[id == online.ClientID], "stream_len": len(data), "hex_head": fmt.Sprintf("%x", data[:minC05i(len(data), 300)])})
		k := c05WireSeq.Add(1)
		w := &c05Wire{data: data, keep: true, remote: vk.FakeAddr{Net: "tcp", Str: fmt.Sprintf("10.%d.%d.%d:42000", 180+(k>>16)&31, (k>>8)&255, k&255)}}
		var res c05PumpRes
		nd := node
		cres := gen.CloseAsync(func() { res = c05PumpW(nd, w) }, time.Second, 50*time.Second)
		run.Eval(1)
		if cres.Hung {
			run.Count("dispatch_hung", 1)
			run.Violation("C05:handshake-seq|hang|"+class+"|"+cres.State+"|at="+cres.Frames, map[string]any{"variant_class": class, "connection_type": ctype, "goroutine_state": cres.State, "parked_at": cres.Frames,
				"stream_hex_head": fmt.Sprintf("%x", data[:minC05i(len(data), 400)]),
				"decided_by":      "the connection's read-loop goroutine in the same lock wait with an identical stack in 3 dumps 100 ms apart; the stream is finite and fully delivered"})
			node = c05NewNode(t) // the old server may be wedged behind that lock
			online = node.NewClient("")
			o2 := node.NewClient("")
			offID, offSecret = o2.ClientID, o2.Secret
			o2.CloseByPeer()
			return run.Counter("dispatch_hung") < 3
		}
		if !cres.Returned {
			run.Count("watchdog", 1)
			return false
		}
		run.Count("packets_dispatched", int64(res.Dispatched))
		if strings.HasPrefix(res.Panic, "harness:") {
			run.Count("harness_errors", 1)
			return true
		}
		if res.Panic != "" {
			run.Violation("C05:handshake-seq|panic|"+class+"|"+c05NumRe.ReplaceAllString(c05Clip(res.Panic, 60), "N")+"|at="+res.Stack,
				map[string]any{"panic": res.Panic, "variant_class": class, "connection_type": ctype, "packets_dispatched_before": res.Dispatched, "stream_len": len(data), "stream_hex_head": fmt.Sprintf("%x", data[:minC05i(len(data), 400)])})
			node = c05NewNode(t)
			online = node.NewClient("")
			o2 := node.NewClient("")
			offID, offSecret = o2.ClientID, o2.Secret
			o2.CloseByPeer()
			return run.Violations() < 8
		}
		if wantChallenge {
			got := false
			for _, rp := range c05Replies(w.out) {
				if rp.Challenge != "" {
					got = true
				}
			}
			if got {
				run.Count("sequences_with_challenge_issued", 1)
				run.Distinct(class + "|" + ctype)
			} else {
				run.Count("sequences_without_challenge", 1)
			}
		}
		return true
	}
	hs := func(id int64, ctype, resp string, extra map[string]any) []byte {
		m := map[string]any{"client_id": id, "version": "3.0", "protocol": "tcp"}
		if ctype != "" {
			m["connection_type"] = ctype
		}
		if resp != "" {
			m["challenge_response"] = resp
		}
		for k, v := range extra {
			m[k] = v
		}
		return gen.Frame(0x01, js(m))
	}
	ok := true
	for i, v := range vs {
		if !ok {
			break
		}
		ctype := []string{"control", "tunnel", ""}[i%3]
		id := online.ClientID
		if i%4 == 3 {
			id = offID
		}
		resp := strings.NewReplacer("\\n", "\n", "\\x00", "\x00", "\\u0000", "\x00").Replace(v.resp)
		data := append(hs(id, ctype, "", nil), hs(id, ctype, resp, nil)...)
		ok = serve(v.class, ctype, id, data, true)
		if ok && v.class != "hex-len" || i%16 == 0 {
			// step 2 twice, and step 2 without step 1
			ok = ok && serve(v.class+"/twice", ctype, id, append(append(hs(id, ctype, "", nil), hs(id, ctype, resp, nil)...), hs(id, ctype, resp, nil)...), true)
			ok = ok && serve(v.class+"/no-step1", ctype, id, hs(id, ctype, resp, nil), false)
		}
	}
	// hostile values in the other string fields of step 2 / step 1
	for _, f := range []string{"token", "version", "protocol", "connection_type"} {
		for _, x := range hostileStr {
			if !ok {
				break
			}
			x = strings.NewReplacer("\\x00", "\x00", "\\xff\\xfe", "\xff\xfe", "\\n", "\n").Replace(x)
			id := online.ClientID
			ok = serve("field2/"+f, "control", id, append(hs(id, "control", "", nil), hs(id, "control", hexOf(64, false), map[string]any{f: x})...), f != "connection_type" || true)
			ok = ok && serve("field1/"+f, "control", id, append(hs(id, "control", "", map[string]any{f: x}), hs(id, "control", hexOf(64, false), nil)...), false)
		}
	}
	// a refused (and an accepted anonymous) handshake followed by every command type
	for ct := 0; ct < 256 && ok; ct++ {
		refused := hs(39000000+int64(ct), "control", "", nil)
		cmd := gen.Frame(0x10, gen.CmdJSON(ct, fmt.Sprintf("hc-%d", ct), `{}`))
		ok = serve("refused-handshake+cmd", "control", online.ClientID, append(append([]byte(nil), refused...), cmd...), false)
		if ok && (ct < 130 || ct%8 == 0) {
			step1 := hs(online.ClientID, []string{"control", "tunnel"}[ct%2], "", nil)
			ok = serve("challenge-pending+cmd", "control", online.ClientID, append(append(append([]byte(nil), step1...), cmd...), gen.Frame(0x11, gen.CmdJSON(ct, "", `{}`))...), false)
		}
		if ok {
			run.Count("handshake_then_command_sequences", 1)
		}
	}
	// interactive: derived from the correct answer (the harness holds the offline client's secret)
	for _, mk := range []struct {
		class string
		f     func(string) string
	}{
		{"correct-upper", strings.ToUpper},
		{"correct+00", func(h string) string { return h + "00" }},
		{"correct+correct", func(h string) string { return h + h }},
		{"correct-truncated", func(h string) string { return h[:62] }},
		{"correct-spaced", func(h string) string { return " " + h + " " }},
		{"correct-x64", func(h string) string { return strings.Repeat(h, 64) }},
	} {
		if !ok {
			break
		}
		for _, ctype := range []string{"control", "tunnel"} {
			run.Case("handshake-seq|interactive/"+mk.class+"|"+ctype, nil)
			c := node.MustConnect("")
			var p string
			func() {
				defer func() {
					if e := recover(); e != nil {
						p = fmt.Sprint(e)
						run.Violation("C05:handshake-seq|panic|interactive/"+mk.class+"|"+c05NumRe.ReplaceAllString(c05Clip(p, 60), "N")+"|at="+c05Frames(string(debug.Stack())), map[string]any{"panic": p, "connection_type": ctype})
					}
				}()
				r1, _ := c.Phase1(offID, ctype)
				if r1 != nil && r1.Challenge != "" {
					run.Count("sequences_with_challenge_issued", 1)
					run.Count("interactive_sequences", 1)
					run.Distinct("interactive/" + mk.class + "|" + ctype)
					r2, _ := c.Phase2(offID, mk.f(HMACResp(offSecret, r1.Challenge)), ctype)
					if r2 != nil && r2.Success {
						run.Count("interactive_accepted", 1)
					}
				}
			}()
			run.Eval(1)
			if p != "" {
				ok = false
				break
			}
			c.CloseByPeer()
		}
	}
	if ok {
		run.Count("completed", 1)
	}
	run.Floor("completed", 1)
	run.Floor("sequences_with_challenge_issued", int64(maxAll*9/10))
	run.Floor("interactive_sequences", 10)
	run.Floor("handshake_then_command_sequences", 256)
}

func minC05i(a, b int) int {
	if a < b {
		return a
	}
	return b
}
