//go:build verif && verif_c05

package websocket

import (
	"context"
	"errors"
	"fmt"
	"io"
	"net/http/httptest"
	"regexp"
	"runtime"
	"runtime/debug"
	"strings"
	"sync"
	"sync/atomic"
	"testing"
	"time"

	"github.com/gorilla/mux"
	gws "github.com/gorilla/websocket"

	"tunnox-core/internal/client/transport"
	"tunnox-core/internal/constants"
	"tunnox-core/internal/core/types"
	"tunnox-core/internal/httpservice"
	"tunnox-core/internal/packet"
	"tunnox-core/internal/stream"
	gen "tunnox-core/internal/verifc05gen"
	vk "tunnox-core/internal/verifkit"
)

// C05 on the HTTP service's WebSocket endpoint (/_tunnox).
//
// The real WebSocketModule serves its own route (RegisterRoutes on a mux router behind
// httptest); a hostile peer upgrades and then sends whatever it likes before any
// authentication. The module's own handleWebSocket wraps the upgraded conn in its
// WebSocketServerConn and its own handleConnection loop drives ReadPacket on it. The
// session is a double with three methods: AcceptConnection builds the connection's
// stream the way the session manager does (a StreamProcessor on the conn) but puts a
// read meter under it and an allocation meter around ReadPacket; HandlePacket only
// records; CloseConnection tells the harness that the module's loop has ended.
// Monitors: panic inside ReadPacket (recorded in the recover handler, then surfaced to
// the loop as an error; a panic anywhere else kills the process and is attributed
// through the WAL), reads that keep coming after the conn reported an error or endless
// zero-byte reads beyond what the peer's empty / non-binary messages explain (spin),
// TotalAlloc per ReadPacket against the bound, decoded body against Max, nil packet
// without error.

const (
	c05wsmMax = constants.MaxPacketBodySize
	// ordinary scripts carry messages of at most 4 MiB
	c05wsmAllocBound = 8 * c05wsmMax
	// connections that carry messages up to the largest legal size: a legal 16 MiB message
	// costs 8.1-9.1 x Max in one ReadPacket on /repo (ReadMessage grows its buffer
	// geometrically, + pooled body buffer + result copy); same bound as the adapter monitor
	c05wsmAllocBoundMaxMsg = 12 * c05wsmMax
	c05wsmSpinLimit        = 1000
)

var c05wsmErrSpin = errors.New("verif: read loop keeps reading a finished websocket conn (spin)")
var c05wsmNumRe = regexp.MustCompile(`[0-9]+`)

func c05wsmClip(s string, n int) string {
	if len(s) > n {
		return s[:n]
	}
	return s
}

func c05wsmTopFrames(stack string) string {
	var fr []string
	for _, l := range strings.Split(stack, "\n") {
		if (strings.HasPrefix(l, "tunnox-core/") || strings.HasPrefix(l, "github.com/gorilla/websocket")) && !strings.Contains(l, "verifkit") && !strings.Contains(l, "c05wsm") && !strings.Contains(l, "TestVerif") {
			if i := strings.LastIndex(l, "("); i > 0 {
				l = l[:i]
			}
			fr = append(fr, l)
			if len(fr) == 4 {
				break
			}
		}
	}
	return strings.Join(fr, " <- ")
}

// c05wsmObs is what the monitors saw on one connection.
type c05wsmObs struct {
	mu          sync.Mutex
	bound       uint64
	maxCalls    int
	emptyBudget int64
	report      func(sig string, extra map[string]any)
	onPacket    func(p *packet.TransferPacket)

	Calls    int
	OK       int
	ErrFull  string
	Panic    string
	Spin     bool
	Capped   bool
	MaxAlloc uint64
	MaxBody  int
	Bytes    int64
	PostErr  int64
	ZeroRun  int64
	Handled  int
	accepted chan struct{}
	ended    chan struct{} // closed by CloseConnection: the module's loop is over
	endOnce  sync.Once
}

type c05wsmMeter struct {
	r          io.Reader
	o          *c05wsmObs
	zeroRun    int64
	maxZeroRun int64
	postErr    int64
	delivered  int64
	sawErr     bool
}

func (m *c05wsmMeter) Read(p []byte) (int, error) {
	if m.sawErr {
		m.postErr++
		if m.postErr > c05wsmSpinLimit {
			panic(c05wsmErrSpin)
		}
	}
	n, err := m.r.Read(p)
	m.delivered += int64(n)
	if err != nil {
		m.sawErr = true
	}
	if n == 0 && err == nil && len(p) > 0 {
		m.zeroRun++
		if m.zeroRun > m.maxZeroRun {
			m.maxZeroRun = m.zeroRun
		}
		if m.zeroRun > m.o.emptyBudget+c05wsmSpinLimit {
			panic(c05wsmErrSpin)
		}
	} else {
		m.zeroRun = 0
	}
	return n, err
}

// IsStreamMode lets the module's loop see the conn's stream-mode flag through the meter.
func (m *c05wsmMeter) IsStreamMode() bool {
	if c, ok := m.r.(interface{ IsStreamMode() bool }); ok {
		return c.IsStreamMode()
	}
	return false
}

// c05wsmStream is the connection's packet stream with the per-ReadPacket monitors.
type c05wsmStream struct {
	stream.PackageStreamer
	meter *c05wsmMeter
	o     *c05wsmObs
}

func c05wsmBodyLen(p *packet.TransferPacket) int {
	n := len(p.Payload)
	if c := p.CommandPacket; c != nil {
		n += len(c.CommandId) + len(c.Token) + len(c.SenderId) + len(c.ReceiverId) + len(c.CommandBody)
	}
	return n
}

func (s *c05wsmStream) ReadPacket() (pkt *packet.TransferPacket, n int, err error) {
	o := s.o
	i := o.Calls
	if i >= o.maxCalls {
		o.Capped = true
		return nil, 0, errors.New("verif: more ReadPacket calls than bytes sent")
	}
	o.Calls++
	var m0, m1 runtime.MemStats
	runtime.ReadMemStats(&m0)
	defer func() {
		runtime.ReadMemStats(&m1)
		alloc := m1.TotalAlloc - m0.TotalAlloc
		if alloc > o.MaxAlloc {
			o.MaxAlloc = alloc
		}
		o.Bytes, o.PostErr, o.ZeroRun = s.meter.delivered, s.meter.postErr, s.meter.maxZeroRun
		if e := recover(); e != nil {
			if e == c05wsmErrSpin {
				o.Spin = true
				o.report("C05:wsmodule|spin|reads-after-conn-error-or-endless-empty-reads", map[string]any{"reads_after_error": s.meter.postErr, "zero_byte_reads_in_a_row": s.meter.zeroRun, "explained_by_empty_or_non_binary_messages": o.emptyBudget, "readpacket_call": i})
			} else {
				o.Panic = fmt.Sprint(e)
				// recorded here, immediately
				o.report("C05:wsmodule|panic|"+c05wsmNumRe.ReplaceAllString(c05wsmClip(o.Panic, 60), "N")+"|at="+c05wsmTopFrames(string(debug.Stack())),
					map[string]any{"panic": o.Panic, "readpacket_call": i})
			}
			pkt, n, err = nil, 0, errors.New("verif: recovered panic in ReadPacket")
			return
		}
		if alloc > o.bound {
			o.report(fmt.Sprintf("C05:wsmodule|alloc>%dxMax", o.bound/c05wsmMax), map[string]any{"readpacket_call": i, "allocated_bytes": alloc, "bound": o.bound, "bytes_handed_to_decoder_so_far": s.meter.delivered})
		}
		switch {
		case err != nil:
			o.ErrFull = err.Error()
		case pkt == nil:
			o.report("C05:wsmodule|nil-packet-without-error", map[string]any{"readpacket_call": i})
			err = errors.New("verif: nil packet without error")
		default:
			o.OK++
			if bl := c05wsmBodyLen(pkt); bl > o.MaxBody {
				o.MaxBody = bl
				if bl > c05wsmMax {
					o.report("C05:wsmodule|body>Max", map[string]any{"readpacket_call": i, "decoded_body_len": bl})
				}
			}
			if o.onPacket != nil {
				o.onPacket(pkt)
			}
		}
	}()
	return s.PackageStreamer.ReadPacket()
}

// c05wsmSession is the session double (only the three methods the module calls).
type c05wsmSession struct {
	types.Session
	mu   sync.Mutex
	cur  *c05wsmObs
	byID map[string]*c05wsmObs
	seq  atomic.Int64
	ctx  context.Context
}

func (s *c05wsmSession) AcceptConnection(reader io.Reader, writer io.Writer) (*types.StreamConnection, error) {
	s.mu.Lock()
	o := s.cur
	s.cur = nil
	id := fmt.Sprintf("c05wsm-%d", s.seq.Add(1))
	if o != nil {
		s.byID[id] = o
	}
	s.mu.Unlock()
	if o == nil {
		return nil, errors.New("verif: connection nobody asked for")
	}
	meter := &c05wsmMeter{r: reader, o: o}
	sp := stream.NewStreamProcessor(meter, writer, s.ctx)
	close(o.accepted)
	return &types.StreamConnection{ID: id, Stream: &c05wsmStream{PackageStreamer: sp, meter: meter, o: o}}, nil
}

func (s *c05wsmSession) HandlePacket(p *types.StreamPacket) error {
	s.mu.Lock()
	o := s.byID[p.ConnectionID]
	s.mu.Unlock()
	if o != nil {
		o.Handled++
	}
	return nil
}

func (s *c05wsmSession) CloseConnection(id string) error {
	s.mu.Lock()
	o := s.byID[id]
	delete(s.byID, id)
	s.mu.Unlock()
	if o != nil {
		o.endOnce.Do(func() { close(o.ended) })
	}
	return nil
}

// ---- environment ---------------------------------------------------------------------

type c05wsmEnv struct {
	mod    *WebSocketModule
	sess   *c05wsmSession
	srv    *httptest.Server
	url    string
	cancel context.CancelFunc
}

func c05wsmNewEnv(t *testing.T) *c05wsmEnv {
	t.Helper()
	ctx, cancel := context.WithCancel(context.Background())
	e := &c05wsmEnv{cancel: cancel}
	e.sess = &c05wsmSession{byID: map[string]*c05wsmObs{}, ctx: ctx}
	e.mod = NewWebSocketModule(ctx, &httpservice.WebSocketModuleConfig{Enabled: true})
	e.mod.SetSession(e.sess)
	router := mux.NewRouter()
	e.mod.RegisterRoutes(router)
	if err := e.mod.Start(); err != nil {
		t.Fatalf("module start: %v", err)
	}
	e.srv = httptest.NewServer(router)
	e.url = "ws" + strings.TrimPrefix(e.srv.URL, "http") + "/_tunnox"
	return e
}

func (e *c05wsmEnv) Close() {
	e.srv.Close()
	e.cancel()
}

func (e *c05wsmEnv) arm(o *c05wsmObs) {
	o.accepted = make(chan struct{})
	o.ended = make(chan struct{})
	e.sess.mu.Lock()
	e.sess.cur = o
	e.sess.mu.Unlock()
}

// await waits for the module's loop to end. false = harness watchdog.
func (e *c05wsmEnv) await(o *c05wsmObs) bool {
	wd := time.NewTimer(150 * time.Second)
	defer wd.Stop()
	select {
	case <-o.ended:
		return true
	case <-wd.C:
		return false
	}
}

// c05wsmExec plays one script on a fresh connection to the module's route.
func c05wsmExec(t *testing.T, run *vk.Run, env *c05wsmEnv, s *gen.WSScript, hits *int, bound uint64) (*c05wsmObs, bool) {
	run.Case("wsmodule|"+s.Family+"/"+s.Sub, s.Witness())
	o := &c05wsmObs{bound: bound, maxCalls: s.BytesTotal() + len(s.Acts) + 2, emptyBudget: s.EmptyBudget()}
	o.report = func(sig string, extra map[string]any) {
		w := s.Witness()
		for k, v := range extra {
			w[k] = v
		}
		*hits++
		run.Violation(sig, w)
	}
	env.arm(o)
	d := gws.Dialer{HandshakeTimeout: 20 * time.Second, EnableCompression: s.Deflate}
	cc, resp, err := d.Dial(env.url, nil)
	if err != nil {
		t.Fatalf("hostile client dial: %v", err)
	}
	if s.Deflate {
		run.Count("deflate_offers", 1)
		if resp != nil && strings.Contains(strings.ToLower(strings.Join(resp.Header.Values("Sec-Websocket-Extensions"), ",")), "permessage-deflate") {
			run.Count("obs_deflate_negotiated_by_server", 1)
		}
	}
	played := make(chan struct{})
	go func() { defer close(played); gen.WSPlay(cc, s) }()
	ok := env.await(o)
	cc.Close()
	<-played
	run.Eval(1)
	if !ok {
		run.Count("watchdog", 1)
		run.Observe("watchdog_case", s.Witness())
		return o, false
	}
	if o.Capped {
		o.report("C05:wsmodule|more-packets-than-bytes", map[string]any{"readpacket_calls": o.Calls})
	}
	run.Max("max_alloc_one_readpacket", int64(o.MaxAlloc))
	run.Max("max_decoded_body_len", int64(o.MaxBody))
	run.Max("max_reads_after_conn_error", o.PostErr)
	run.Max("max_zero_byte_reads_in_a_row", o.ZeroRun)
	run.Count("readpacket_calls", int64(o.Calls))
	run.Count("packets_decoded_ok", int64(o.OK))
	run.Count("packets_handed_to_session", int64(o.Handled))
	oc := c05wsmNumRe.ReplaceAllString(c05wsmClip(o.ErrFull, 110), "N")
	if i := strings.Index(oc, "] "); i >= 0 && strings.HasPrefix(oc, "[") {
		oc = oc[i+2:]
	}
	run.Observe("error_example:"+c05wsmClip(oc, 48), o.ErrFull)
	switch full := o.ErrFull; {
	case o.Panic != "":
		oc = "panic"
	case strings.Contains(full, "read limit"):
		run.Count("outcome_read_limit_exceeded", 1)
	case strings.Contains(full, "exceeds maximum"):
		run.Count("outcome_length_rejected", 1)
	case strings.Contains(full, "websocket:"):
		run.Count("outcome_websocket_read_error", 1)
	case strings.Contains(full, "EOF"):
		run.Count("outcome_eof", 1)
	}
	sub := s.Sub
	if i := strings.Index(sub, "#"); i >= 0 {
		sub = sub[:i]
	}
	okc := o.OK
	if okc > 3 {
		okc = 3
	}
	run.Distinct(fmt.Sprintf("%s|%s|ok%d|%s", s.Family, sub, okc, c05wsmClip(oc, 48)))
	return o, true
}

// TestVerifC05WSModuleFrames: hostility at the WebSocket framing level.
func TestVerifC05WSModuleFrames(t *testing.T) {
	vk.Quiet()
	run := vk.Start(t, "C05", "wsmodule-frames")
	defer run.Finish()
	run.Rule("the HTTP service's real WebSocketModule route /_tunnox behind httptest, its own handleWebSocket + handleConnection loop on its WebSocketServerConn (session double: stream built as the session manager builds it, metered); pre-auth enumerated WebSocket-level hostility, each at three positions (first / mid-packet / between packets): text frames (empty, ASCII, invalid UTF-8, 70000 bytes, packet bytes as text, a flood of 300), 1..50 empty binary messages, pings/pongs, close frames (valid and invalid codes, payload shapes, data after close), fragmented messages (2/3/100 fragments, pings between, empty continuations, new data frame inside, continuation without start, unfinished), raw protocol violations (unmasked, RSV bits, reserved opcodes, fragmented / oversize control frames, 64-bit lengths with top bit / 2^40, non-minimal encodings, header truncated at every offset, HTTP text, seeded garbage); distinct = (hostile act, outcome)")
	env := c05wsmNewEnv(t)
	defer env.Close()
	r := run.Rand("gen")
	hits := 0
	for _, s := range gen.WSFrameScripts(r, run.Pick(12, 200)) {
		o, ok := c05wsmExec(t, run, env, s, &hits, c05wsmAllocBound)
		if !ok {
			break
		}
		kind := s.Sub[:strings.Index(s.Sub, "/")]
		run.Count("hostile_"+kind, 1)
		if s.End != "rst" && o.OK >= 2 {
			run.Count("scripts_tolerated_both_packets_decoded", 1)
		}
		if hits >= 15 || run.Violations() >= 20 {
			run.Count("stopped_early_after_violations", 1)
			break
		}
	}
	if run.Counter("watchdog") == 0 {
		run.Count("completed_without_watchdog", 1)
	}
	run.Floor("completed_without_watchdog", 1)
	run.Floor("hostile_text", 18)
	run.Floor("hostile_empty-binary", 6)
	run.Floor("hostile_close", 60)
	run.Floor("hostile_frag", 24)
	run.Floor("hostile_raw", 120)
	run.Floor("outcome_websocket_read_error", 50)
	run.Floor("scripts_tolerated_both_packets_decoded", 12)
	run.Floor("max_zero_byte_reads_in_a_row", 50) // the zero-byte read path for non-binary / empty messages was really taken
}

// TestVerifC05WSModuleHostileBytes: the shared generator's byte streams over the endpoint.
func TestVerifC05WSModuleHostileBytes(t *testing.T) {
	vk.Quiet()
	run := vk.Start(t, "C05", "wsmodule-hostile-bytes")
	defer run.Finish()
	run.Rule("a seeded sample of the shared C05 generator's inputs (type bytes x body shapes, adversarial length fields, gzip members, hostile JSON, handshake/tunnel-open/command bodies, truncations, mutations, random frames, uniform bytes; no bombs) sent pre-auth to the module's /_tunnox route split into binary messages: whole / one byte per message / seeded partition / the same with empty binary messages, pings, pongs in between / one fragmented message; plus binary messages of {64KiB-1..64KiB+6, 100000, 1MiB, 4MiB} as one frame and as 4 KiB fragments; distinct = (family, partition class, outcome)")
	env := c05wsmNewEnv(t)
	defer env.Close()
	r := run.Rand("gen")
	rs := run.Rand("sample")
	rc := run.Rand("split")
	plan := gen.Plan{Random: 150, RandFrame: 150, Mutate: 300, TruncSeeds: 6, GzipTrunc: 1, NoHeavy: true, CmdBodies: 1, LenTypes: []byte{0x22, 0x10, 0x41}}
	keep := map[string]int{"types": 12, "gzip": 8, "json": 5, "bodies": 8, "session": 12, "truncate": 10, "lengths": 1, "valid": 1, "mutate": 1, "randframe": 1, "random": 1}
	if run.Thorough() {
		plan.Random, plan.RandFrame, plan.Mutate, plan.TruncSeeds, plan.GzipTrunc, plan.CmdBodies = 1500, 1500, 3000, 8, 2, 2
		keep = map[string]int{"types": 3, "gzip": 2, "json": 1, "bodies": 2, "session": 3}
	}
	hits := 0
	stopped := false
	gen.Generate(r, plan, func(in gen.Input) bool {
		if k := keep[in.Family]; k > 1 && rs.Intn(k) != 0 {
			return true
		}
		if in.Heavy && len(in.Data) > 1<<20 {
			return true
		}
		class, acts := gen.WSSplit(rc, in.Data)
		s := &gen.WSScript{Family: "gen-" + in.Family, Sub: in.Sub + "#" + class, Acts: acts, End: []string{"fin", "fin", "close+fin", "rst"}[rc.Intn(4)], Note: in.Note}
		o, ok := c05wsmExec(t, run, env, s, &hits, c05wsmAllocBound)
		if !ok {
			stopped = true
			return false
		}
		run.Count("split_"+class, 1)
		run.Count("family_"+in.Family, 1)
		if in.Valid && s.End != "rst" && o.OK > 0 && o.Handled == o.OK {
			run.Count("valid_streams_decoded_and_handed_to_session", 1)
		}
		if hits >= 15 || run.Violations() >= 20 {
			run.Count("stopped_early_after_violations", 1)
			return false
		}
		return true
	})
	// big messages below the cap
	n := 0
	for _, S := range []int{65535, 65536, 65537, 65542, 100000, 1 << 20, 4 << 20} {
		for _, delivery := range []string{"single-frame", "fragmented-4KiB"} {
			if stopped || hits >= 15 {
				break
			}
			data := gen.Frame(0x22, gen.WSPattern(S-5, 3))
			act := gen.WSBin(data)
			if delivery == "single-frame" {
				act = gen.WSRaw("one binary frame", gen.WSF(0x82, data))
			}
			s := &gen.WSScript{Family: "bigframe", Sub: fmt.Sprintf("size=%d/%s", S, delivery), Acts: []gen.WSAct{act, gen.WSBin(gen.Frame(0x01, gen.WSHandshakeBody))}, End: []string{"fin", "close+fin"}[n%2]}
			n++
			o, ok := c05wsmExec(t, run, env, s, &hits, c05wsmAllocBound)
			if !ok {
				stopped = true
				break
			}
			if o.OK == 2 {
				run.Count("big_messages_decoded", 1)
			}
		}
	}
	if !stopped {
		run.Count("completed_without_watchdog", 1)
	}
	run.Floor("completed_without_watchdog", 1)
	run.Floor("packets_decoded_ok", 300)
	run.Floor("valid_streams_decoded_and_handed_to_session", 8)
	run.Floor("split_bytes", 30)
	run.Floor("split_random+noise", 30)
	run.Floor("split_frag", 20)
	run.Floor("outcome_length_rejected", 20)
	run.Floor("big_messages_decoded", 14)
}

// TestVerifC05WSModuleOversize: messages larger than any packet can be, and the largest
// legal one.
func TestVerifC05WSModuleOversize(t *testing.T) {
	vk.Quiet()
	run := vk.Start(t, "C05", "wsmodule-oversize")
	defer run.Finish()
	run.Rule("pre-auth messages of 17, 24, 64 MiB (thorough: +128 MiB) to the module's /_tunnox route, each as ONE binary frame and as the gorilla client sends it (4 KiB fragments), first on the connection and after a handshake packet; fragmented messages whose continuation frames sum past the cap (24 x 1 MiB, 400 x 64 KiB, 15.5 MiB of 64 KiB fragments + one 30 MiB final fragment, 1 MiB + 2^40 declared); content = a packet header declaring 4 GiB; the same from a client that offers permessage-deflate (gorilla Dialer EnableCompression) with zero-filled messages inflating to 3x, 4x, 8x Max (thorough 16x); oracle: TotalAlloc per ReadPacket <= 12 x Max (what a legal 16 MiB message costs is measured in this run: legal_max_* observations); plus the legal maximum: a Max-byte body written by the real WritePacket over the real client transport conn (transport.NewWebSocketStreamConn) decodes identically and reaches the session; distinct = (case, delivery, outcome)")
	env := c05wsmNewEnv(t)
	defer env.Close()
	hits := 0

	// ---- the largest legal message --------------------------------------------------
	body := gen.WSPattern(c05wsmMax, 7)
	sentinel := []byte("sentinel")
	{
		run.Case("wsmodule|legal-max/real-writer", map[string]any{"body_len": len(body)})
		var got [][]byte
		o := &c05wsmObs{bound: c05wsmAllocBoundMaxMsg, maxCalls: 8, emptyBudget: 64, onPacket: func(p *packet.TransferPacket) { got = append(got, p.Payload) }}
		o.report = func(sig string, extra map[string]any) {
			extra["case"] = "MaxPacketBodySize body written by the real WritePacket over the client transport's WebSocket conn"
			hits++
			run.Violation(sig, extra)
		}
		env.arm(o)
		c, err := transport.NewWebSocketStreamConn(env.url)
		if err != nil {
			t.Fatalf("client transport dial: %v", err)
		}
		ctx, cancel := context.WithCancel(context.Background())
		sp := stream.NewStreamProcessor(strings.NewReader(""), c, ctx)
		_, werr := sp.WritePacket(&packet.TransferPacket{PacketType: packet.TunnelData, Payload: body}, false, 0)
		if werr == nil {
			_, werr = sp.WritePacket(&packet.TransferPacket{PacketType: packet.TunnelClose, Payload: sentinel}, false, 0)
		}
		c.Close() // normal close frame: end of the finite stream
		ok := env.await(o)
		cancel()
		run.Eval(1)
		run.Max("max_alloc_one_readpacket", int64(o.MaxAlloc))
		run.Observe("legal_max_real_writer", map[string]any{"alloc_one_readpacket": o.MaxAlloc, "decoded": o.OK, "handed_to_session": o.Handled, "last_error": o.ErrFull, "writer_error": fmt.Sprint(werr)})
		switch {
		case !ok:
			run.Count("watchdog", 1)
		case len(got) == 2 && string(got[0]) == string(body) && string(got[1]) == string(sentinel) && o.Handled == 2:
			run.Count("legal_max_message_decoded", 1)
			run.Distinct("legal-max|real-writer|decoded")
		case o.Panic == "":
			hits++
			fl := -1
			if len(got) > 0 {
				fl = len(got[0])
			}
			run.Violation("C05:wsmodule|legal-max-message-not-decoded", map[string]any{"case": "MaxPacketBodySize body written by the real WritePacket over the client transport's WebSocket conn, then a sentinel packet",
				"packets_decoded": o.OK, "handed_to_session": o.Handled, "first_payload_len": fl, "last_error": o.ErrFull, "writer_error": fmt.Sprint(werr), "bytes_handed_to_decoder": o.Bytes})
		}
	}
	{
		// the same packet coalesced into one message (Max+5 bytes): evidence only
		s := &gen.WSScript{Family: "legal-max", Sub: "coalesced-one-message", Acts: []gen.WSAct{gen.WSBin(gen.Frame(0x22, body)), gen.WSBin(gen.Frame(0x23, sentinel))}, End: "close+fin"}
		if o, ok := c05wsmExec(t, run, env, s, &hits, c05wsmAllocBoundMaxMsg); ok {
			run.Observe("legal_max_coalesced", map[string]any{"alloc_one_readpacket": o.MaxAlloc, "decoded": o.OK, "last_error": o.ErrFull})
			if o.OK == 2 {
				run.Count("legal_max_coalesced_decoded", 1)
			}
		}
	}
	body = nil
	runtime.GC()

	// ---- oversize messages -------------------------------------------------------------
	sizesMiB := []int{17, 24, 64}
	if run.Thorough() {
		sizesMiB = append(sizesMiB, 128)
	}
	stopped := false
	gen.WSOversize(sizesMiB, func(s *gen.WSScript, total int64) bool {
		o, ok := c05wsmExec(t, run, env, s, &hits, c05wsmAllocBoundMaxMsg)
		if !ok {
			stopped = true
			return false
		}
		run.Count("oversize_messages_sent", 1)
		if strings.Contains(s.Sub, "single-frame") {
			run.Count("oversize_single_frames", 1)
		}
		if strings.HasPrefix(s.Sub, "frag-") {
			run.Count("oversize_fragmented_messages", 1)
		}
		// observation only: the property bounds allocation, it does not require refusal
		if o.Bytes > int64(s.Prefix) {
			run.Count("oversize_messages_with_data_delivered", 1)
		} else {
			run.Count("oversize_messages_refused_without_data", 1)
		}
		runtime.GC()
		return hits < 15 && run.Violations() < 20
	})
	// ---- a peer that offers permessage-deflate ---------------------------------------------
	// Highly compressible messages that inflate to 3x..8x Max: whatever the server negotiates,
	// what it allocates for one ReadPacket stays under the bound (if it agrees to the
	// extension, the limit has to hold for the INFLATED message). A small well-formed packet
	// from the same kind of client must still decode.
	if !stopped && hits < 15 {
		small := &gen.WSScript{Family: "deflate", Sub: "small-valid-packets", Deflate: true, End: "close+fin",
			Acts: []gen.WSAct{gen.WSBin(gen.Frame(0x01, gen.WSHandshakeBody)), gen.WSBin(gen.Frame(0x22, make([]byte, 100000)))}}
		if o, ok := c05wsmExec(t, run, env, small, &hits, c05wsmAllocBoundMaxMsg); !ok {
			stopped = true
		} else if o.OK == 2 {
			run.Count("deflate_client_valid_packets_decoded", 1)
		}
	}
	inflated := []int{3, 4, 8}
	if run.Thorough() {
		inflated = append(inflated, 16)
	}
	for _, k := range inflated {
		for _, pos := range []string{"first", "after-handshake-packet"} {
			if stopped || hits >= 15 {
				break
			}
			var acts []gen.WSAct
			prefix := 0
			if pos != "first" {
				hs := gen.Frame(0x01, gen.WSHandshakeBody)
				acts = append(acts, gen.WSBin(hs))
				prefix = len(hs)
			}
			acts = append(acts, gen.WSAct{Kind: "bin", Data: gen.FrameLen(0x22, 0xFFFFFFFF, make([]byte, k*c05wsmMax-5)),
				Note: fmt.Sprintf("one binary message of %d x Max zero bytes behind a packet header declaring 2^32-1; compressed by the client if the server agrees to permessage-deflate", k)})
			s := &gen.WSScript{Family: "oversize", Sub: fmt.Sprintf("deflate-%dxMax#%s", k, pos), Acts: acts, End: "fin", Prefix: prefix, Deflate: true}
			o, ok := c05wsmExec(t, run, env, s, &hits, c05wsmAllocBoundMaxMsg)
			if !ok {
				stopped = true
				break
			}
			run.Count("oversize_compressible_messages_from_deflate_client", 1)
			if o.Bytes > int64(prefix) {
				run.Count("oversize_messages_with_data_delivered", 1)
			}
			runtime.GC()
		}
	}
	if !stopped && run.Counter("watchdog") == 0 {
		run.Count("completed_without_watchdog", 1)
	}
	run.Floor("completed_without_watchdog", 1)
	run.Floor("oversize_compressible_messages_from_deflate_client", 6)
	run.Floor("deflate_client_valid_packets_decoded", 1)
	run.Floor("legal_max_message_decoded", 1)
	run.Floor("oversize_single_frames", 6)
	run.Floor("oversize_fragmented_messages", 8)
	run.Floor("oversize_messages_sent", 20)
}
