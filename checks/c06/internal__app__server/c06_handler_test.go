//go:build verif && verif_c06

package server

// C06, handler level — "the mapping created ... listens for the activating client".
//
// The real command registry of the mini-server (setupConnectionCodeCommands) is driven
// over real authenticated control connections: client T generates a code, client A
// activates it with a command body that carries, besides the documented members
// {code, listen_address}, identity-like members (listen_client_id, client_id,
// target_client_id, user_id ... as numbers and strings, ids of another connected
// client V, of T, of an unknown client) and/or forged SenderId/ReceiverId packet fields.
// After every command the store is audited: at most one mapping for the code, it
// listens for A (the client authenticated on the connection), targets T and the code's
// address, and V's mapping index holds nothing.

import (
	"context"
	"encoding/json"
	"fmt"
	"sort"
	"strconv"
	"strings"
	"testing"
	"time"

	"tunnox-core/internal/cloud/models"
	"tunnox-core/internal/constants"
	"tunnox-core/internal/core/storage/memory"
	"tunnox-core/internal/packet"
	vk "tunnox-core/internal/verifkit"
)

type c06hWorld struct {
	n       *miniNode
	mem     *memory.Storage
	cancel  context.CancelFunc
	T, A, V *miniClient
	seq     int
	lastErr string
}

func c06hNewWorld(t *testing.T) *c06hWorld {
	ctx, cancel := context.WithCancel(context.Background())
	mem := memory.New(ctx)
	n := newMiniNode(t, miniOpts{Store: mem})
	w := &c06hWorld{n: n, mem: mem, cancel: cancel}
	w.T, w.A, w.V = n.NewClient(""), n.NewClient(""), n.NewClient("")
	return w
}

func (w *c06hWorld) close() { w.n.Close(); w.cancel() }

type c06hResp struct {
	Success bool            `json:"success"`
	Data    json.RawMessage `json:"data"`
	Error   string          `json:"error"`
}

func (w *c06hWorld) command(c *miniClient, ct packet.CommandType, body, sender, receiver string) (*c06hResp, bool) {
	w.seq++
	cmd := &packet.CommandPacket{CommandType: ct, CommandId: fmt.Sprintf("c06h-%d", w.seq), CommandBody: body, SenderId: sender, ReceiverId: receiver}
	resp, others, err := c.Command(cmd, 5*time.Second)
	// a refused command makes HandlePacket return an error as well as a response: the response decides
	if resp == nil {
		w.lastErr = fmt.Sprintf("command %d: err=%v resp=%v others=%d", ct, err, resp, len(others))
		w.n.t.Logf("c06h: command %d: err=%v resp=%v others=%d", ct, err, resp, len(others))
		for _, o := range others {
			w.n.t.Logf("c06h: other packet type=%v cmd=%+v", o.PacketType, o.CommandPacket)
		}
		return nil, false
	}
	var r c06hResp
	if err := json.Unmarshal([]byte(resp.CommandBody), &r); err != nil {
		w.lastErr = fmt.Sprintf("unparsable response body %q: %v", resp.CommandBody, err)
		w.n.t.Logf("c06h: unparsable response body %q: %v", resp.CommandBody, err)
		return nil, false
	}
	return &r, true
}

// c06hAudit returns the mapping records whose target address is target, and the ids
// of mappings found in client's index list.
func (w *c06hWorld) audit(target string, client int64) (mains []*models.PortMapping, inIndex []string) {
	all, _ := w.mem.QueryByPrefix("tunnox:", 0)
	for k, v := range all {
		switch {
		case strings.HasPrefix(k, constants.KeyPrefixPortMapping+":"):
			var m models.PortMapping
			if json.Unmarshal([]byte(v), &m) == nil && m.TargetAddress == target {
				mains = append(mains, &m)
			}
		case k == fmt.Sprintf("%s:%d", constants.KeyPrefixClientMappings, client):
			var items []string
			if json.Unmarshal([]byte(v), &items) == nil {
				for _, it := range items {
					var m models.PortMapping
					if json.Unmarshal([]byte(it), &m) == nil && m.TargetAddress == target {
						inIndex = append(inIndex, m.ID)
					}
				}
			}
		}
	}
	sort.Slice(mains, func(i, j int) bool { return mains[i].ID < mains[j].ID })
	return
}

type c06hCase struct {
	Fields map[string]any `json:"extra_fields"`
	Sender string         `json:"packet_sender_id,omitempty"`
	Recv   string         `json:"packet_receiver_id,omitempty"`
	Class  string         `json:"class"`
	// Reauth != "": the activating connection first authenticated as a brand-new client P,
	// issued this command under that identity ("none" = no command), then re-authenticated
	// (second handshake on the same connection) as the activator
	Reauth  string `json:"reauth_history,omitempty"`
	CloseY  bool   `json:"activators_first_connection_closed,omitempty"`
	PriorID int64  `json:"earlier_identity,omitempty"`
}

func TestVerifC06Handler(t *testing.T) {
	vk.Quiet()
	run := vk.Start(t, "C06", "handler")
	defer run.Finish()
	run.Rule("real command handlers over authenticated mini-server connections: T generates a code (unique target address), A sends ConnectionCodeActivate whose JSON body carries one identity-like extra member (10 names x 7 values: id of another connected client V as number/string, id of T, an unregistered id, 0, -1, 2^53+1) or a seeded combination of several, optionally with forged SenderId/ReceiverId; also histories in which the activating connection first issued list/generate/activate commands as a brand-new client P and then re-authenticated (second handshake on the same connection) as the activator, whose first connection is open or closed; afterwards V tries the same code; store audit after every command; distinct = (member name, value class, forged packet ids)")
	names := []string{"listen_client_id", "client_id", "ListenClientID", "listenClientId", "target_client_id", "user_id", "activated_by", "sender_id", "from_client_id", "target_address"}
	var w *c06hWorld
	inWorld := 0
	fresh := func() {
		if w != nil {
			w.close()
		}
		w = c06hNewWorld(t)
		inWorld = 0
	}
	fresh()
	defer func() { w.close() }()
	values := func() []struct {
		class string
		v     any
	} {
		return []struct {
			class string
			v     any
		}{
			{"victim-num", w.V.ClientID}, {"victim-str", strconv.FormatInt(w.V.ClientID, 10)}, {"target-num", w.T.ClientID},
			{"unknown-num", int64(87654321)}, {"zero", 0}, {"negative", -1}, {"huge", float64(1<<53 + 1)},
		}
	}
	var cases []c06hCase
	for _, nm := range names {
		for _, v := range values() {
			cases = append(cases, c06hCase{Fields: map[string]any{nm: v.class}, Class: nm + "=" + v.class})
		}
	}
	r := run.Rand("handler-combos")
	nCombo := run.Pick(40, 400)
	for i := 0; i < nCombo; i++ {
		c := c06hCase{Fields: map[string]any{}, Class: "multi"}
		for k := 0; k < 2+r.Intn(3); k++ {
			c.Fields[names[r.Intn(len(names))]] = values()[r.Intn(7)].class
		}
		if r.Intn(2) == 0 {
			c.Sender, c.Recv = "victim", "target"
			c.Class = "multi+forged-packet-ids"
		}
		cases = append(cases, c)
	}
	cases = append(cases, c06hCase{Fields: map[string]any{}, Class: "documented-body"}, c06hCase{Fields: map[string]any{}, Sender: "victim", Recv: "target", Class: "forged-packet-ids"})

	for _, prior := range []string{"list", "generate", "activate-unknown-code", "none"} {
		for _, closeY := range []bool{false, true} {
			for _, extra := range []map[string]any{{}, {"listen_client_id": "victim-num"}} {
				cases = append(cases, c06hCase{Fields: extra, Class: "reauth=" + prior, Reauth: prior, CloseY: closeY})
			}
		}
	}

	for ci, cs := range cases {
		if inWorld >= 30 { // stay below the per-client quotas (10 active codes, 50 mappings)
			fresh()
		}
		inWorld++
		run.Case("handler|"+cs.Class, cs)
		target := fmt.Sprintf("tcp://10.77.%d.%d:%d", (ci>>8)&255, ci&255, 3000+ci%60000)
		gen, ok := w.command(w.T, packet.ConnectionCodeGenerate, fmt.Sprintf(`{"target_address":%q,"activation_ttl":600,"mapping_ttl":3600,"description":"c06h"}`, target), "", "")
		var code struct {
			Code string `json:"code"`
		}
		if !ok || !gen.Success || json.Unmarshal(gen.Data, &code) != nil || code.Code == "" {
			t.Fatalf("c06h: generate failed: %+v", gen)
		}
		// body: documented members + extras (value classes resolved against this world)
		body := map[string]any{"code": code.Code, "listen_address": fmt.Sprintf("127.0.0.1:%d", 20000+ci%40000)}
		vals := map[string]any{}
		for _, v := range values() {
			vals[v.class] = v.v
		}
		for k, cl := range cs.Fields {
			if k == "target_address" {
				body[k] = "tcp://10.99.9.9:22"
				continue
			}
			body[k] = vals[cl.(string)]
		}
		bj, _ := json.Marshal(body)
		sender, recv := "", ""
		if cs.Sender != "" {
			sender, recv = strconv.FormatInt(w.V.ClientID, 10), strconv.FormatInt(w.T.ClientID, 10)
		}
		actor, actorID, victimID := w.A, w.A.ClientID, w.V.ClientID
		if cs.Reauth != "" {
			y := w.n.NewClient("") // the activator's identity, first seen on its own connection
			id, secret := y.ClientID, y.Secret
			if cs.CloseY {
				y.CloseByPeer()
			}
			x := w.n.NewClient("") // the connection that will activate: starts as another client P
			cs.PriorID = x.ClientID
			t0 := time.Now()
			switch cs.Reauth {
			case "list":
				w.command(x, packet.ConnectionCodeList, "{}", "", "")
			case "generate":
				w.command(x, packet.ConnectionCodeGenerate, `{"target_address":"tcp://10.78.0.1:80","activation_ttl":600,"mapping_ttl":3600}`, "", "")
			case "activate-unknown-code":
				w.command(x, packet.ConnectionCodeActivate, `{"code":"zzz-zzz-zzz","listen_address":"127.0.0.1:18000"}`, "", "")
			}
			if dt := time.Since(t0); dt > time.Second {
				run.Count("handler_slow_prior_commands", 1)
				run.Observe("slow_prior_command", cs.Reauth+": "+w.lastErr)
			}
			okLogin, _ := x.Login(id, secret, "")
			kc := w.n.SM.GetControlConnection(x.ConnID)
			if !okLogin || kc == nil || !kc.IsAuthenticated() || kc.GetClientID() != id {
				// the server did not accept the re-authentication: nothing to judge
				run.Count("handler_reauth_not_accepted", 1)
				continue
			}
			run.Count("handler_reauth_histories", 1)
			actor, actorID, victimID = x, id, cs.PriorID
		}
		act, ok := w.command(actor, packet.ConnectionCodeActivate, string(bj), sender, recv)
		if !ok {
			run.Count("watchdog", 1)
			continue
		}
		run.Eval(1)
		run.Distinct(cs.Class)
		mains, victimIdx := w.audit(target, victimID)
		detail := func(reason string) map[string]any {
			var ms []string
			for _, m := range mains {
				ms = append(ms, fmt.Sprintf("%s listen_client=%d target_client=%d target=%s", m.ID, m.ListenClientID, m.TargetClientID, m.TargetAddress))
			}
			return map[string]any{"case": cs, "activate_body": string(bj), "authenticated_activator": actorID, "victim": victimID, "target_client": w.T.ClientID,
				"code_target_address": target, "response_success": act.Success, "response_error": act.Error, "mapping_records": ms, "victim_index": victimIdx, "reason": reason}
		}
		field := cs.Class
		if i := strings.IndexByte(field, '='); i > 0 {
			field = field[:i]
		} else if strings.HasPrefix(field, "multi") {
			field = "multi"
		}
		if act.Success {
			run.Count("handler_activations_ok", 1)
		} else {
			run.Count("handler_activations_rejected", 1)
		}
		if len(mains) > 1 {
			run.Violation("C06:handler|double-activation", detail("more than one mapping for one code"))
		}
		if !act.Success && len(mains) > 0 {
			run.Violation("C06:handler|failed-activation-left|main-record", detail("activation was refused but a mapping for the code exists"))
		}
		for _, m := range mains {
			if m.ListenClientID != actorID {
				run.Violation("C06:handler|listens-for-other-client|field="+field, detail(fmt.Sprintf("mapping %s listens for client %d, the client authenticated on the activating connection is %d", m.ID, m.ListenClientID, actorID)))
			}
			if m.TargetClientID != w.T.ClientID || m.TargetAddress != target {
				run.Violation("C06:handler|wrong-target|field="+field, detail("mapping does not target the client/address fixed at generation"))
			}
		}
		if len(victimIdx) > 0 {
			run.Violation("C06:handler|indexed-under-other-client|field="+field, detail("an uninvolved client's mapping index holds the mapping"))
		}
		// the code is used up: another client trying it afterwards gets nothing
		if act.Success {
			again, ok2 := w.command(w.V, packet.ConnectionCodeActivate, fmt.Sprintf(`{"code":%q,"listen_address":"127.0.0.1:19999"}`, code.Code), "", "")
			m2, _ := w.audit(target, w.V.ClientID)
			if !ok2 {
				run.Count("handler_reuse_attempts_unanswered", 1)
				run.Observe("last_unanswered_command", w.lastErr)
			}
			if ok2 {
				run.Count("handler_reuse_attempts", 1)
				if again.Success || len(m2) > 1 {
					run.Violation("C06:handler|double-activation|sequential-reuse", detail("a second client activated an already used code"))
				}
			}
		}
		if run.Counter("samples_taken") < 3 && act.Success {
			run.Count("samples_taken", 1)
			run.Sample(detail("sample"))
		}
	}
	run.Floor("handler_activations_ok", 60)
	run.Floor("handler_reauth_histories", 8)
	run.Floor("handler_reuse_attempts", 60)
	if run.Counter("watchdog") > 0 {
		run.Floor("watchdog_free", 1)
	}
}
