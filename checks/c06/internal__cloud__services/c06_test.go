//go:build verif && verif_c06

package services

// C06 — a connection code creates at most one mapping, and only while valid.
//
// Real conncode.Service + real ConnectionCodeRepository + real portMappingService /
// PortMappingRepo + real IDManager over the real memory storage wrapped in a gated
// double (vk.Gated): every storage operation is a scheduling point and a fault
// injection point. Several Service instances over one store stand for several nodes.
//
// Three monitors share one quiescent-state oracle (c06Judge):
//   TestVerifC06Schedules  preemption-bounded exhaustive + seeded random interleavings
//   TestVerifC06Orders     all sequential orders of revoke/expire/activate/activate
//   TestVerifC06Faults     the i-th storage write fails (alone / with a concurrent activator)

import (
	"context"
	"encoding/json"
	"fmt"
	"hash/fnv"
	"math/rand"
	"os"
	"regexp"
	"runtime"
	"sort"
	"strconv"
	"strings"
	"sync"
	"sync/atomic"
	"testing"
	"time"

	"github.com/alicebob/miniredis/v2"

	"tunnox-core/internal/cloud/models"
	"tunnox-core/internal/cloud/repos"
	"tunnox-core/internal/constants"
	"tunnox-core/internal/core/idgen"
	"tunnox-core/internal/core/storage"
	"tunnox-core/internal/core/storage/memory"
	"tunnox-core/internal/core/storage/types"
	vk "tunnox-core/internal/verifkit"
)

// ---------------------------------------------------------------------------
// world
// ---------------------------------------------------------------------------

type c06Node struct {
	svc    *ConnectionCodeService
	ccRepo *repos.ConnectionCodeRepository
}

type c06World struct {
	cancel       context.CancelFunc
	backend      string                // "memory": one store shared by all nodes; "hybrid": one hybrid.Storage per node (own local cache, one shared cache)
	rds          *storage.RedisStorage // redis backends: the shared store
	mem          *memory.Storage       // the store holding shared data (memory backend: the only store; hybrid: the shared cache tier)
	locals       []*memory.Storage     // hybrid: node-local cache tiers
	gates        []*vk.Gated           // every gated tier double
	nodes        []*c06Node
	code         *models.TunnelConnectionCode
	createCall   time.Time // instants around CreateConnectionCode (interval oracle)
	createRet    time.Time
	target       string
	targetClient int64
	clock        atomic.Int64    // logical clock: one tick per call / return event
	expiredAt    int64           // logical instant after which the code is certainly expired (0 = never)
	foreign      map[string]bool // target addresses of other codes deliberately present in the store
	postRead     atomic.Value    // func(op, key string): post-read gate (only with c06Opts.PostRead)
}

var c06WorldSeq atomic.Int64

const c06TargetClient = int64(20000001)

func (w *c06World) setHook(h vk.Hook) {
	for _, g := range w.gates {
		g.SetHook(h)
	}
}

func c06NewWorld(t testing.TB, nNodes int, activationTTL time.Duration) *c06World {
	return c06NewWorldB(t, "memory", nNodes, activationTTL)
}

func c06NewWorldB(t testing.TB, backend string, nNodes int, activationTTL time.Duration) *c06World {
	return c06NewWorldOpt(t, c06Opts{Backend: backend, Nodes: nNodes, TTL: activationTTL})
}

// c06Opts: Backend is one of
//
//	memory        one memory store shared by all nodes
//	hybrid        one hybrid.Storage per node: own local memory cache + one shared memory cache
//	redis         one Redis store (miniredis) shared by all nodes
//	hybrid-redis  one hybrid.Storage per node: own local memory cache + shared Redis (miniredis)
type c06Opts struct {
	Backend      string
	Nodes        int
	TTL          time.Duration
	TargetClient int64  // 0 = c06TargetClient
	Target       string // "" = a unique tcp://10.66.x.y:port
	// PostRead: the shared store additionally has a gate AFTER every Get, i.e. a read
	// whose value has been taken from the store can be held before it is delivered
	PostRead bool
}

// c06PostGated adds a second gate to reads: after the value was read, before it is returned.
type c06PostGated struct {
	*vk.Gated
	w *c06World
}

func (p *c06PostGated) Get(key string) (any, error) {
	v, err := p.Gated.Get(key)
	if f, _ := p.w.postRead.Load().(func(string, string)); f != nil {
		f("Get", key)
	}
	return v, err
}

func c06NewWorldOpt(t testing.TB, o c06Opts) *c06World {
	ctx, cancel0 := context.WithCancel(context.Background())
	cancel := cancel0
	backend, nNodes, activationTTL := o.Backend, o.Nodes, o.TTL
	if backend == "" {
		backend = "memory"
	}
	w := &c06World{targetClient: c06TargetClient, backend: backend}
	if o.TargetClient != 0 {
		w.targetClient = o.TargetClient
	}
	var sharedInner types.FullStorage
	tier := "mem"
	switch backend {
	case "redis", "hybrid-redis":
		mr, err := miniredis.Run()
		if err != nil {
			cancel0()
			t.Fatalf("c06: miniredis: %v", err)
		}
		rs, err := storage.NewRedisStorage(ctx, &storage.RedisConfig{Addr: mr.Addr()})
		if err != nil {
			mr.Close()
			cancel0()
			t.Fatalf("c06: redis storage: %v", err)
		}
		w.rds = rs
		sharedInner = rs
		tier = "redis"
		cancel = func() { cancel0(); _ = rs.Close(); mr.Close() }
	default:
		w.mem = memory.New(ctx)
		sharedInner = w.mem
	}
	w.cancel = cancel
	if backend == "hybrid" {
		tier = "shared"
	}
	gShared := vk.NewGated(tier, sharedInner)
	w.gates = append(w.gates, gShared)
	for i := 0; i < nNodes; i++ {
		var st storage.Storage = gShared
		if o.PostRead {
			st = &c06PostGated{Gated: gShared, w: w}
		}
		if backend == "hybrid" || backend == "hybrid-redis" {
			// a node of a clustered deployment: own local cache, the cluster's shared cache, no database
			local := memory.New(ctx)
			gLocal := vk.NewGated(fmt.Sprintf("local%d", i), local)
			w.locals = append(w.locals, local)
			w.gates = append(w.gates, gLocal)
			st = storage.NewHybridStorageWithSharedCache(ctx, gLocal, gShared, nil, nil)
		}
		repo := repos.NewRepository(st)
		ccRepo := repos.NewConnectionCodeRepository(repo)
		pmRepo := repos.NewPortMappingRepo(repo)
		idm := idgen.NewIDManager(st, ctx)
		pmSvc := NewPortMappingService(pmRepo, idm, nil, ctx)
		svc := NewConnectionCodeService(ccRepo, pmSvc, pmRepo, nil, ctx)
		w.nodes = append(w.nodes, &c06Node{svc: svc, ccRepo: ccRepo})
	}
	w.setHook(nil)
	n := c06WorldSeq.Add(1)
	// unique target address per code: attribution of mappings to the code is exact
	w.target = fmt.Sprintf("tcp://10.66.%d.%d:%d", (n>>8)&0xff, n&0xff, 20000+int(n%40000))
	if o.Target != "" {
		w.target = o.Target
	}
	w.createCall = time.Now()
	code, err := w.nodes[0].svc.CreateConnectionCode(&CreateConnectionCodeRequest{
		TargetClientID:  w.targetClient,
		TargetAddress:   w.target,
		ActivationTTL:   activationTTL,
		MappingDuration: time.Hour,
		Description:     "c06",
		CreatedBy:       "c06",
	})
	w.createRet = time.Now()
	if err != nil {
		cancel()
		t.Fatalf("c06: CreateConnectionCode failed in setup: %v", err)
	}
	w.code = code
	return w
}

func (w *c06World) close() { w.cancel() }

// c06Call is one client-boundary call with its result.
type c06Call struct {
	Thread    string `json:"thread"`
	Kind      string `json:"kind"` // activate | revoke
	Node      int    `json:"node"`
	Client    int64  `json:"client,omitempty"`
	Listen    string `json:"listen,omitempty"`
	CallStep  int64  `json:"call_step"`
	RetStep   int64  `json:"ret_step"`
	OK        bool   `json:"ok"`
	Err       string `json:"err,omitempty"`
	MappingID string `json:"mapping_id,omitempty"`
	Panic     string `json:"panic,omitempty"`
	// uncertain: the call overlapped a wall-clock expiry deadline (interval rule), any outcome accepted
	Uncertain bool `json:"uncertain,omitempty"`
	// Spelling: how the code string is written in this call ("" = exactly as generated):
	// upper, lead-blank, trail-blank, newline, upper-padded
	Spelling string `json:"code_spelling,omitempty"`
	// commitAfterExpiry: the call performed a pre-commit storage operation (claim, id
	// reservation, mapping write, index append) that certainly started after the code's
	// activation window had ended, so its commit step certainly ran on an expired code
	CommitAfterExpiry bool                `json:"commit_after_expiry,omitempty"`
	ret               *models.PortMapping // returned object
	callT             time.Time
	retT              time.Time
	done              bool
}

func (w *c06World) do(c *c06Call) {
	defer func() {
		if e := recover(); e != nil {
			c.Panic = fmt.Sprint(e)
			c.RetStep = w.clock.Add(1)
			c.done = true
		}
	}()
	c.callT = time.Now()
	c.CallStep = w.clock.Add(1)
	switch c.Kind {
	case "activate":
		m, err := w.nodes[c.Node].svc.ActivateConnectionCode(&ActivateConnectionCodeRequest{
			Code: c06Spell(w.code.Code, c.Spelling), ListenClientID: c.Client, ListenAddress: c.Listen,
		})
		if err != nil {
			c.Err = c06ShortErr(err)
		} else if m == nil {
			c.Err = "nil mapping, nil error"
		} else {
			c.OK = true
			c.MappingID = m.ID
			cp := *m
			c.ret = &cp
		}
	case "list":
		_, err := w.nodes[c.Node].svc.ListConnectionCodesByTargetClient(w.targetClient)
		if err != nil {
			c.Err = c06ShortErr(err)
		} else {
			c.OK = true
		}
	case "lookup":
		_, err := w.nodes[c.Node].svc.GetConnectionCode(w.code.Code)
		if err != nil {
			c.Err = c06ShortErr(err)
		} else {
			c.OK = true
		}
	case "revoke":
		err := w.nodes[c.Node].svc.RevokeConnectionCode(c06Spell(w.code.Code, c.Spelling), "c06-revoker")
		if err != nil {
			c.Err = c06ShortErr(err)
		} else {
			c.OK = true
		}
	}
	c.RetStep = w.clock.Add(1)
	c.retT = time.Now()
	c.done = true
}

func c06Spell(code, spelling string) string {
	switch spelling {
	case "upper":
		return strings.ToUpper(code)
	case "lead-blank":
		return " " + code
	case "trail-blank":
		return code + " "
	case "newline":
		return code + "\n"
	case "upper-padded":
		return "\t" + strings.ToUpper(code) + " "
	}
	return code
}

func c06ShortErr(err error) string {
	s := err.Error()
	if len(s) > 160 {
		s = s[:160]
	}
	return s
}

// ---------------------------------------------------------------------------
// store scan + oracle
// ---------------------------------------------------------------------------

type c06Scan struct {
	Mains    map[string]*models.PortMapping // main records tunnox:port_mapping:<id>
	IdxRefs  map[string][]string            // mapping id -> index keys holding a copy
	CodeBy   map[string]*models.TunnelConnectionCode
	RawKeys  []string
	BadItems int
}

func (w *c06World) scan() *c06Scan {
	sc := &c06Scan{Mains: map[string]*models.PortMapping{}, IdxRefs: map[string][]string{}, CodeBy: map[string]*models.TunnelConnectionCode{}}
	all := map[string]string{}
	if w.mem != nil {
		all, _ = w.mem.QueryByPrefix("tunnox:", 0)
	}
	if w.rds != nil {
		// same representation as the memory dump: strings as they are, lists as JSON arrays of strings
		keys, _ := w.rds.GetKeys("tunnox:*")
		for _, k := range keys {
			if v, err := w.rds.Get(k); err == nil {
				if s, ok := v.(string); ok {
					all[k] = s
				}
				continue
			}
			if l, err := w.rds.GetList(k); err == nil {
				b, _ := json.Marshal(l)
				all[k] = string(b)
			}
		}
	}
	for i, l := range w.locals {
		// anything a node keeps only in its local tier is still part of the observable state
		part, _ := l.QueryByPrefix("tunnox:", 0)
		for k, v := range part {
			if _, dup := all[k]; !dup {
				all[k] = v
			} else {
				all[fmt.Sprintf("%s#local%d", k, i)] = v
			}
		}
	}
	for k, v := range all {
		sc.RawKeys = append(sc.RawKeys, k)
		switch {
		case strings.HasPrefix(k, constants.KeyPrefixPortMapping+":"):
			var m models.PortMapping
			if json.Unmarshal([]byte(v), &m) == nil && m.ID != "" {
				if !w.foreign[m.TargetAddress] {
					sc.Mains[m.ID] = &m
				}
			} else {
				sc.BadItems++
			}
		case strings.HasPrefix(k, constants.KeyPrefixClientMappings+":"), k == constants.KeyPrefixMappingList, strings.HasPrefix(k, constants.KeyPrefixUserMappings+":"):
			var items []string
			if json.Unmarshal([]byte(v), &items) != nil {
				sc.BadItems++
				continue
			}
			for _, it := range items {
				var m models.PortMapping
				if json.Unmarshal([]byte(it), &m) == nil && m.ID != "" {
					if !w.foreign[m.TargetAddress] {
						sc.IdxRefs[m.ID] = append(sc.IdxRefs[m.ID], k)
					}
				} else {
					sc.BadItems++
				}
			}
		case strings.HasPrefix(k, constants.KeyPrefixRuntimeConnectionCodeByCode):
			var c models.TunnelConnectionCode
			if json.Unmarshal([]byte(v), &c) == nil && !w.foreign[c.TargetAddress] {
				sc.CodeBy["code"] = &c
			}
		case strings.HasPrefix(k, constants.KeyPrefixRuntimeConnectionCodeByID):
			var c models.TunnelConnectionCode
			if json.Unmarshal([]byte(v), &c) == nil && !w.foreign[c.TargetAddress] {
				sc.CodeBy["id"] = &c
			}
		}
	}
	sort.Strings(sc.RawKeys)
	for _, v := range sc.IdxRefs {
		sort.Strings(v)
	}
	return sc
}

type c06Finding struct {
	Sig    string
	Reason string
}

// c06Judge is the quiescent-state oracle. It is exactly the property statement:
//
//	(1) at most one activation call returned a mapping, and at most one mapping
//	    attributable to the code exists;
//	(2) no activation that began after a successful revoke returned / after the code
//	    certainly expired returned a mapping;
//	(3) every mapping in the store (and every returned mapping) targets the code's
//	    client+address and listens for the activator that was told "success";
//	(4) no mapping main record and no index copy exists that belongs to no
//	    successful activation (a failed activation left it behind).
//
// Outcomes that the statement does not forbid (all activations fail; a revoke that
// overlaps an activation is overwritten; the code record is burnt by a failed
// activation) are only counted.
func c06Judge(w *c06World, calls []*c06Call, sc *c06Scan, run *vk.Run) []c06Finding {
	var out []c06Finding
	add := func(sig, reason string) { out = append(out, c06Finding{sig, reason}) }

	var succ []*c06Call
	late := false
	for _, c := range calls {
		if c.Panic != "" {
			add("C06:panic|"+c.Kind, "call panicked: "+c.Panic)
		}
		if c.Kind == "activate" && c.OK {
			succ = append(succ, c)
			if c.Thread == "late" {
				late = true
			}
		}
	}
	// (1)
	// (mapping records that no successful call owns are reported under (4), not here)
	if len(succ) > 1 {
		sig := fmt.Sprintf("C06:double-activation|ok=%d", c06Cap(len(succ)))
		if late {
			sig += "|sequential-reuse"
		}
		add(sig, fmt.Sprintf("%d activation calls returned a mapping, %d mapping records exist for one code", len(succ), len(sc.Mains)))
	}
	// (2)
	for _, a := range succ {
		for _, r := range calls {
			// a revoke acknowledged for the code as generated binds every later activation of the record;
			// one acknowledged for another spelling binds later activations written the same way
			if r.Kind == "revoke" && r.OK && r.RetStep < a.CallStep && r.Spelling != "" && r.Spelling != a.Spelling {
				run.Count("obs_revoke_and_activation_in_different_noncanonical_spellings_not_judged", 1)
			}
			if r.Kind == "revoke" && r.OK && r.RetStep < a.CallStep && (r.Spelling == "" || r.Spelling == a.Spelling) {
				add("C06:activated-after-revoke", fmt.Sprintf("activation %s began (step %d) after revoke %s had returned success (step %d) and returned mapping %s", a.Thread, a.CallStep, r.Thread, r.RetStep, a.MappingID))
			}
		}
		if a.CommitAfterExpiry {
			add("C06:activated-after-expiry|expired-during-activation", fmt.Sprintf("activation %s was still before its commit step when the code certainly expired, yet it returned mapping %s", a.Thread, a.MappingID))
		}
		if w.expiredAt > 0 && a.CallStep > w.expiredAt && !a.Uncertain {
			add("C06:activated-after-expiry", fmt.Sprintf("activation %s began (step %d) after the code had certainly expired (step %d) and returned mapping %s", a.Thread, a.CallStep, w.expiredAt, a.MappingID))
		}
	}
	// (3)
	// the monitor's own reading of the address fixed at generation (decimal port), not the parser under test
	host, port, proto, refOK := c06RefAddr(w.target)
	content := func(where string, m *models.PortMapping, s *c06Call) {
		if m.TargetClientID != w.targetClient || m.TargetAddress != w.target ||
			(refOK && (m.TargetHost != host || m.TargetPort != port || string(m.Protocol) != proto)) {
			add("C06:wrong-target|"+where, fmt.Sprintf("mapping %s targets client %d %q (%s:%d/%s), code fixes client %d %q", m.ID, m.TargetClientID, m.TargetAddress, m.TargetHost, m.TargetPort, m.Protocol, w.targetClient, w.target))
		}
		if s != nil {
			if m.ListenClientID != s.Client {
				add("C06:wrong-listen-client|"+where, fmt.Sprintf("mapping %s listens for client %d, the successful activator is %d", m.ID, m.ListenClientID, s.Client))
			}
			if m.ListenAddress != s.Listen {
				add("C06:wrong-listen-address|"+where, fmt.Sprintf("mapping %s listen address %q, requested %q", m.ID, m.ListenAddress, s.Listen))
			} else if _, lp, _, ok := c06RefAddr(s.Listen); ok && m.SourcePort != lp {
				add("C06:wrong-listen-port|"+where, fmt.Sprintf("mapping %s listens on port %d, the activator asked for %q (decimal %d)", m.ID, m.SourcePort, s.Listen, lp))
			}
		}
	}
	byID := map[string]*c06Call{}
	for _, s := range succ {
		byID[s.MappingID] = s
		if s.ret != nil {
			content("returned", s.ret, s)
		}
		if _, ok := sc.Mains[s.MappingID]; !ok {
			run.Count("success_without_stored_mapping", 1)
		}
	}
	ids := make([]string, 0, len(sc.Mains))
	for id := range sc.Mains {
		ids = append(ids, id)
	}
	sort.Strings(ids)
	for _, id := range ids {
		m := sc.Mains[id]
		s := byID[id]
		content("stored", m, s)
		// (4)
		if s == nil {
			add("C06:failed-activation-left|main-record", fmt.Sprintf("mapping record %s (listen client %d) exists but no activation call returned it", id, m.ListenClientID))
		}
	}
	// (4) index copies
	refIDs := make([]string, 0, len(sc.IdxRefs))
	for id := range sc.IdxRefs {
		refIDs = append(refIDs, id)
	}
	sort.Strings(refIDs)
	for _, id := range refIDs {
		if byID[id] != nil {
			continue
		}
		if _, ok := sc.Mains[id]; ok {
			continue // already reported through the main record
		}
		kinds := map[string]bool{}
		for _, k := range sc.IdxRefs[id] {
			switch {
			case k == constants.KeyPrefixMappingList:
				kinds["global-list"] = true
			default:
				kinds["client-index"] = true
			}
		}
		ks := make([]string, 0, 2)
		for k := range kinds {
			ks = append(ks, k)
		}
		sort.Strings(ks)
		add("C06:failed-activation-left|index-copy|"+strings.Join(ks, "+"), fmt.Sprintf("index lists %v still hold a copy of mapping %s that no activation call returned and whose record is gone", sc.IdxRefs[id], id))
	}

	// observations (not part of the statement)
	if len(succ) == 0 {
		run.Count("outcome_no_activation_succeeded", 1)
	} else if len(succ) == 1 {
		run.Count("outcome_exactly_one_activation", 1)
	}
	if c := sc.CodeBy["code"]; c != nil && c.IsActivated && c.MappingID != nil {
		if _, ok := sc.Mains[*c.MappingID]; !ok {
			run.Count("obs_code_record_activated_but_mapping_absent", 1)
		}
	}
	if a, b := sc.CodeBy["code"], sc.CodeBy["id"]; a != nil && b != nil && (a.IsActivated != b.IsActivated || a.IsRevoked != b.IsRevoked) {
		run.Count("obs_code_records_by_code_and_by_id_differ", 1)
	}
	for _, r := range calls {
		if r.Kind == "revoke" && r.OK && len(succ) > 0 {
			run.Count("obs_revoke_ok_and_activation_ok_overlapping", 1)
		}
	}
	return out
}

var c06PortRe = regexp.MustCompile(`^\+?[0-9]{1,9}$`)

// c06RefAddr is the monitor's reference reading of "[scheme://]host:port": the port is
// the DECIMAL number written there (leading zeros and a plus sign do not change a
// decimal number). ok=false: the spelling has no unambiguous decimal reading (or is not
// of this shape) and nothing is demanded about host/port.
func c06RefAddr(addr string) (host string, port int, proto string, ok bool) {
	proto = "tcp"
	rest := addr
	if i := strings.Index(addr, "://"); i >= 0 {
		proto = strings.ToLower(addr[:i])
		rest = addr[i+3:]
	}
	i := strings.LastIndexByte(rest, ':')
	if i <= 0 {
		return "", 0, "", false
	}
	host, ps := rest[:i], rest[i+1:]
	if strings.HasPrefix(host, "[") && strings.HasSuffix(host, "]") {
		host = host[1 : len(host)-1]
	} else if strings.ContainsAny(host, ":[]/@ ") {
		return "", 0, "", false
	}
	if !c06PortRe.MatchString(ps) {
		return "", 0, "", false
	}
	n, err := strconv.ParseInt(strings.TrimPrefix(ps, "+"), 10, 64)
	if err != nil {
		return "", 0, "", false
	}
	return host, int(n), proto, true
}

func c06Cap(n int) int {
	if n > 3 {
		return 3
	}
	return n
}

// ---------------------------------------------------------------------------
// scenarios under a controlled schedule
// ---------------------------------------------------------------------------

type c06Thread struct {
	Name   string `json:"name"`
	Kind   string `json:"kind"`
	Node   int    `json:"node"`
	Client int64  `json:"client,omitempty"`
}

type c06Scenario struct {
	Kind    string      `json:"kind"`
	Nodes   int         `json:"nodes"`
	Threads []c06Thread `json:"threads"`
	Backend string      `json:"backend,omitempty"`
	// PostRead: reads of the shared store have a second gate after the value was taken
	PostRead bool `json:"post_read_gate,omitempty"`
}

// the cross-node scenarios again with one hybrid.Storage per node ("hy-" prefix)
func init() {
	for _, k := range []string{"2act-cross-node", "2act-same-client", "1act+revoke", "2act+revoke", "3act", "2act+list"} {
		sc := c06Scenarios[k]
		sc.Kind = "hy-" + k
		sc.Backend = "hybrid"
		c06Scenarios[sc.Kind] = sc
	}
}

var c06Scenarios = map[string]c06Scenario{
	"2act-same-node":   {Kind: "2act-same-node", Nodes: 1, Threads: []c06Thread{{"A", "activate", 0, 30000001}, {"B", "activate", 0, 30000002}}},
	"2act-cross-node":  {Kind: "2act-cross-node", Nodes: 2, Threads: []c06Thread{{"A", "activate", 0, 30000001}, {"B", "activate", 1, 30000002}}},
	"2act-same-client": {Kind: "2act-same-client", Nodes: 2, Threads: []c06Thread{{"A", "activate", 0, 30000001}, {"B", "activate", 1, 30000001}}},
	"1act+revoke":      {Kind: "1act+revoke", Nodes: 2, Threads: []c06Thread{{"A", "activate", 0, 30000001}, {"R", "revoke", 1, 0}}},
	"2act+revoke":      {Kind: "2act+revoke", Nodes: 2, Threads: []c06Thread{{"A", "activate", 0, 30000001}, {"B", "activate", 1, 30000002}, {"R", "revoke", 0, 0}}},
	"1act":             {Kind: "1act", Nodes: 1, Threads: []c06Thread{{"A", "activate", 0, 30000001}}},
	"2act+list":        {Kind: "2act+list", Nodes: 2, Threads: []c06Thread{{"A", "activate", 0, 30000001}, {"Lst", "list", 1, 0}, {"B", "activate", 1, 30000002}}},
	"3act":             {Kind: "3act", Nodes: 2, Threads: []c06Thread{{"A", "activate", 0, 30000001}, {"B", "activate", 1, 30000002}, {"C", "activate", 0, 30000003}}},
}

func newC06Rand(seed int64) *rand.Rand { return rand.New(rand.NewSource(seed)) }

func c06IsWrite(op string) bool {
	switch op {
	case "Get", "Exists", "GetList", "GetHash", "GetAllHash", "GetExpiration", "BatchGet", "QueryByField", "QueryByPrefix":
		return false
	}
	return true
}

var c06IDRe = regexp.MustCompile(`(pmap_|conncode_)[A-Za-z0-9]+`)

func (w *c06World) normTrace(tr []string) []string {
	out := make([]string, len(tr))
	for i, e := range tr {
		e = strings.ReplaceAll(e, w.code.Code, "CODE")
		e = c06IDRe.ReplaceAllString(e, "$1*")
		out[i] = e
	}
	return out
}

func c06Hash(ss []string) string {
	h := fnv.New64a()
	for _, s := range ss {
		h.Write([]byte(s))
		h.Write([]byte{0})
	}
	return strconv.FormatUint(h.Sum64(), 36)
}

// c06Overlap reports whether two activators' read..last-write windows overlap in
// the schedule (the only schedules in which the one-time guarantee is at stake).
func c06Overlap(tr []string, sc c06Scenario) bool {
	type win struct{ lo, hi int }
	wins := map[string]*win{}
	for i, e := range tr {
		at := strings.IndexByte(e, '@')
		if at < 0 {
			continue
		}
		name, point := e[:at], e[at+1:]
		wn := wins[name]
		if wn == nil {
			if strings.Contains(point, "Get:"+constants.KeyPrefixRuntimeConnectionCodeByCode) {
				wins[name] = &win{i, i}
			}
			continue
		}
		wn.hi = i
	}
	var acts []string
	for _, th := range sc.Threads {
		if wins[th.Name] != nil {
			acts = append(acts, th.Name)
		}
	}
	for i := 0; i < len(acts); i++ {
		for j := i + 1; j < len(acts); j++ {
			a, b := wins[acts[i]], wins[acts[j]]
			if a.lo < b.hi && b.lo < a.hi {
				return true
			}
		}
	}
	return false
}

type c06SchedResult struct {
	Scenario string      `json:"scenario"`
	FailAt   int         `json:"fail_write_index,omitempty"`
	FailedOp string      `json:"failed_op,omitempty"`
	Trace    []string    `json:"trace"`
	Calls    []*c06Call  `json:"calls"`
	Mappings []string    `json:"mapping_records"`
	Index    interface{} `json:"index_copies"`
	Code     interface{} `json:"code_record"`
	Reason   string      `json:"reason,omitempty"`
	Replay   string      `json:"replay_hint,omitempty"`
}

// c06RunScheduled builds a fresh world for sc, starts its threads on s and returns
// the function to call after the schedule ended. failAt > 0: the failAt-th storage
// write (in schedule order, counted from the moment the threads start) fails.
func c06RunScheduled(t testing.TB, run *vk.Run, sc c06Scenario, s *vk.Sched, failAt int, mode string) func(ok bool) {
	w := c06NewWorldOpt(t, c06Opts{Backend: sc.Backend, Nodes: sc.Nodes, TTL: 10 * time.Minute, PostRead: sc.PostRead})
	if sc.PostRead {
		w.postRead.Store(func(op, key string) { s.Yield("mem.ret." + op + ":" + key) })
	}
	var writes atomic.Int64
	var failedOp atomic.Value
	w.setHook(func(tier, op, key string) error {
		s.Yield(tier + "." + op + ":" + key)
		if failAt > 0 && c06IsWrite(op) {
			if int(writes.Add(1)) == failAt {
				failedOp.Store(op + ":" + key)
				return vk.ErrInjected
			}
		}
		return nil
	})
	var wg sync.WaitGroup
	calls := make([]*c06Call, 0, len(sc.Threads)+1)
	for i, th := range sc.Threads {
		c := &c06Call{Thread: th.Name, Kind: th.Kind, Node: th.Node, Client: th.Client}
		if th.Kind == "activate" {
			c.Listen = fmt.Sprintf("0.0.0.0:%d", 7001+i)
		}
		if th.Kind == "probe" { // an activation attempt that is rejected for its malformed listen address
			c.Kind, c.Listen = "activate", "no-port-here"
		}
		calls = append(calls, c)
		wg.Add(1)
		s.Go(th.Name, func() {
			defer wg.Done()
			w.do(c)
		})
	}
	return func(ok bool) {
		defer w.close()
		// the scheduler is stopped: gates are no-ops, every thread runs to completion
		fin := make(chan struct{})
		go func() { wg.Wait(); close(fin) }()
		select {
		case <-fin:
		case <-time.After(20 * time.Second):
			run.Count("watchdog", 1)
			return
		}
		w.setHook(nil)
		run.Eval(1)
		if !ok {
			// step bound / unresolved stall: the interleaving was not the controlled one
			run.Count("schedules_not_controlled", 1)
		}
		if s.Stalls() > 0 {
			run.Count("schedules_with_offgate_block", 1)
		}
		tr := s.Trace()
		norm := w.normTrace(tr)
		overlap := c06Overlap(tr, sc)
		if overlap {
			run.Count("schedules_overlapping_windows", 1)
			run.Distinct(mode + "|" + sc.Kind + "|" + strconv.Itoa(failAt) + "|" + c06Hash(norm))
		}
		nOK := 0
		for _, c := range calls {
			if c.Kind == "activate" && c.OK {
				nOK++
			}
		}
		// window: a revoke was acknowledged strictly inside an activation whose own write of the
		// code record (its commit) then failed
		if f, _ := failedOp.Load().(string); strings.Contains(f, ":conncode:code:") || strings.Contains(f, ":conncode:id:") {
			for _, rv := range calls {
				if rv.Kind != "revoke" || !rv.OK {
					continue
				}
				for _, a := range calls {
					if a.Kind == "activate" && !a.OK && a.CallStep < rv.CallStep && rv.RetStep < a.RetStep && strings.Contains(a.Err, "injected") {
						run.Count("window_revoke_acknowledged_inside_activation_whose_commit_write_failed", 1)
					}
				}
			}
		}
		// window: a listing of the target client's codes ran strictly inside one activation and
		// another activation began after it returned
		for _, l := range calls {
			if l.Kind != "list" {
				continue
			}
			inside, afterwards := false, false
			for _, a := range calls {
				if a.Kind == "activate" && a.CallStep < l.CallStep && l.RetStep < a.RetStep {
					inside = true
				}
				if a.Kind == "activate" && a.CallStep > l.RetStep {
					afterwards = true
				}
			}
			if inside && afterwards {
				run.Count("window_list_inside_activation_then_second_activation", 1)
			}
		}
		// whatever happened, a later sequential activator on another node follows: at most once
		// overall, and never after an acknowledged revoke
		{
			late := &c06Call{Thread: "late", Kind: "activate", Node: sc.Nodes - 1, Client: 30000009, Listen: "0.0.0.0:7099"}
			w.do(late)
			calls = append(calls, late)
			run.Count("late_activations_tried", 1)
			if nOK == 0 {
				run.Count("late_activations_after_no_success", 1)
			}
		}
		scan := w.scan()
		fs := c06Judge(w, calls, scan, run)
		if f, _ := failedOp.Load().(string); f != "" {
			run.Count("faults_delivered", 1)
		}
		if len(fs) == 0 {
			if run.Counter("samples_taken") < 4 && overlap {
				run.Count("samples_taken", 1)
				run.Sample(map[string]any{"scenario": sc.Kind, "mode": mode, "fail_write_index": failAt, "trace": norm, "calls": calls})
			}
			return
		}
		res := c06SchedResult{Scenario: sc.Kind, FailAt: failAt, Trace: norm, Calls: calls, Index: scan.IdxRefs, Code: scan.CodeBy}
		if f, _ := failedOp.Load().(string); f != "" {
			res.FailedOp = c06IDRe.ReplaceAllString(strings.ReplaceAll(f, w.code.Code, "CODE"), "$1*")
		}
		for id, m := range scan.Mains {
			res.Mappings = append(res.Mappings, fmt.Sprintf("%s listen_client=%d target_client=%d target=%s", id, m.ListenClientID, m.TargetClientID, m.TargetAddress))
		}
		sort.Strings(res.Mappings)
		res.Replay = "thread order = prefix of each trace entry before '@'; run scenario with a chooser that follows it"
		for _, f := range fs {
			r := res
			r.Reason = f.Reason
			run.Violation(f.Sig, r)
		}
	}
}

// c06FollowChooser replays a recorded thread order.
type c06FollowChooser struct {
	order []string
	pos   int
}

func (c *c06FollowChooser) Choose(enabled []string, _ []string, cur int) int {
	for c.pos < len(c.order) {
		want := c.order[c.pos]
		c.pos++
		for i, n := range enabled {
			if n == want {
				return i
			}
		}
	}
	if cur >= 0 {
		return cur
	}
	return 0
}

func c06TraceOrder(tr []string) []string {
	var out []string
	for _, e := range tr {
		if at := strings.IndexByte(e, '@'); at > 0 {
			out = append(out, e[:at])
		}
	}
	return out
}

// c06Replay re-executes the schedule stored in a replay file written by vcheck.
func c06Replay(t *testing.T, run *vk.Run, test string) {
	p := os.Getenv("VERIF_REPLAY")
	if p == "" {
		return
	}
	b, err := os.ReadFile(p)
	if err != nil {
		return
	}
	var rf struct {
		Test   string `json:"test"`
		Detail struct {
			Scenario string   `json:"scenario"`
			FailAt   int      `json:"fail_write_index"`
			Trace    []string `json:"trace"`
		} `json:"detail"`
	}
	if json.Unmarshal(b, &rf) != nil || rf.Test != test {
		return
	}
	sc, ok := c06Scenarios[rf.Detail.Scenario]
	if !ok || len(rf.Detail.Trace) == 0 {
		return
	}
	s := vk.NewSched(&c06FollowChooser{order: c06TraceOrder(rf.Detail.Trace)})
	after := c06RunScheduled(t, run, sc, s, rf.Detail.FailAt, "replay")
	okRun := s.Run(400)
	s.Stop()
	after(okRun)
	run.Count("replayed", 1)
}

// ---------------------------------------------------------------------------
// monitor 1: interleavings
// ---------------------------------------------------------------------------

func TestVerifC06Schedules(t *testing.T) {
	vk.Quiet()
	run := vk.Start(t, "C06", "schedules")
	defer run.Finish()
	run.Rule("one fresh store + code per schedule; 2-3 concurrent Activate calls (distinct listen clients, same/other node, same client twice) with or without a concurrent Revoke; every storage operation of the real services is a gate; (a) all schedules with <=2 preemptions per scenario (DFS, capped at quick tier), (b) seeded uniformly random schedules; distinct = normalised schedule fingerprint of runs in which two activators' read..last-write windows overlap")
	c06Replay(t, run, "schedules")

	type plan struct {
		kind    string
		preempt int
		cap     int
	}
	plans := []plan{
		{"2act-same-node", 2, run.Pick(400, 100000)},
		{"2act-cross-node", 2, run.Pick(400, 100000)},
		{"1act+revoke", 2, run.Pick(150, 100000)},
		{"2act-same-client", 1, run.Pick(60, 100000)},
		{"2act+revoke", 2, run.Pick(1500, 6000)},
		{"3act", 2, run.Pick(600, 6000)},
		{"2act+list", run.Pick(1, 2), run.Pick(400, 8000)},
	}
	if run.Thorough() {
		plans = append(plans, plan{"2act-cross-node", 3, 8000}, plan{"2act-cross-node", 4, 6000}, plan{"1act+revoke", 4, 6000})
	}
	allComplete := true
	for _, p := range plans {
		sc := c06Scenarios[p.kind]
		run.Case("dfs|"+p.kind, p)
		st := vk.Explore(p.preempt, p.cap, 400, func(s *vk.Sched) func(bool) {
			return c06RunScheduled(t, run, sc, s, 0, "dfs")
		})
		run.Count("dfs_runs", int64(st.Runs))
		run.Count("dfs_runs_with_preemption", int64(st.Preempted))
		run.Max("dfs_max_depth", int64(st.MaxDepth))
		run.Observe("dfs|"+p.kind+fmt.Sprintf("|preempt<=%d", p.preempt), st)
		if !st.Complete {
			allComplete = false
		}
	}
	run.Observe("dfs_all_bounded_spaces_complete", allComplete)

	// (b) seeded random schedules
	r := run.Rand("random-schedules")
	kinds := []string{"2act-same-node", "2act-cross-node", "2act+revoke", "3act", "1act+revoke", "2act-cross-node", "2act+revoke", "3act", "2act+list"}
	n := run.Pick(250, 12000)
	for i := 0; i < n; i++ {
		sc := c06Scenarios[kinds[r.Intn(len(kinds))]]
		seed := r.Int63()
		run.Case("random|"+sc.Kind, seed)
		s := vk.NewSched(vk.RandomChooser{R: newC06Rand(seed)})
		after := c06RunScheduled(t, run, sc, s, 0, "random")
		ok := s.Run(400)
		s.Stop()
		after(ok)
		run.Count("random_runs", 1)
	}
	run.Floor("schedules_overlapping_windows", 50)
	run.Floor("outcome_exactly_one_activation", 20)
	run.Floor("dfs_runs_with_preemption", 100)
	run.Floor("window_list_inside_activation_then_second_activation", 10)
	if run.Counter("watchdog") > 0 {
		run.Floor("watchdog_free", 1)
	}
}

// ---------------------------------------------------------------------------
// monitor 2: sequential orders of create / revoke / expire / activate / activate
// ---------------------------------------------------------------------------

func c06Perms(xs []string) [][]string {
	if len(xs) <= 1 {
		return [][]string{append([]string(nil), xs...)}
	}
	var out [][]string
	for i := range xs {
		rest := append(append([]string(nil), xs[:i]...), xs[i+1:]...)
		for _, p := range c06Perms(rest) {
			out = append(out, append([]string{xs[i]}, p...))
		}
	}
	return out
}

func TestVerifC06Orders(t *testing.T) {
	vk.Quiet()
	run := vk.Start(t, "C06", "orders")
	defer run.Finish()
	run.Rule("create, then every permutation of every subset of {revoke, expire} together with {activateA, activateB}, executed sequentially; B on the same or on a second node; 'expire' is either the real activation TTL elapsing (60 ms, interval rule: only activations that certainly began after creation-return+TTL are judged as expired) or a stored record whose ActivationExpiresAt lies in the past while the key is still present; distinct = (order, node variant, expiry variant)")
	const ttl = 60 * time.Millisecond
	type variant struct {
		cross  bool
		expiry string // "", "ttl", "record"
	}
	var orders [][]string
	for _, extra := range [][]string{{}, {"revoke"}, {"expire"}, {"revoke", "expire"}} {
		orders = append(orders, c06Perms(append([]string{"actA", "actB"}, extra...))...)
	}
	reps := run.Pick(1, 6)
	for rep := 0; rep < reps; rep++ {
		for _, ord := range orders {
			hasExp := false
			for _, e := range ord {
				if e == "expire" {
					hasExp = true
				}
			}
			var vars []variant
			for _, cross := range []bool{false, true} {
				if hasExp {
					vars = append(vars, variant{cross, "ttl"}, variant{cross, "record"})
				} else {
					vars = append(vars, variant{cross, ""})
				}
			}
			for _, v := range vars {
				c06RunOrder(t, run, ord, v.cross, v.expiry, ttl)
			}
		}
	}
	// code spellings: revoke written as X, then activate written as X' (same / second node)
	spell := []string{"", "upper", "lead-blank", "trail-blank", "newline", "upper-padded"}
	for _, rs := range spell {
		for _, as := range spell {
			for _, cross := range []bool{false, true} {
				w := c06NewWorld(t, 2, 10*time.Minute)
				rv := &c06Call{Thread: "R", Kind: "revoke", Node: 0, Spelling: rs}
				a := &c06Call{Thread: "actA", Kind: "activate", Node: 0, Client: 30000001, Listen: "0.0.0.0:7001", Spelling: as}
				if cross {
					a.Node = 1
				}
				b := &c06Call{Thread: "actB", Kind: "activate", Node: 1, Client: 30000002, Listen: "0.0.0.0:7002"}
				calls := []*c06Call{rv, a, b}
				for _, c := range calls {
					w.do(c)
				}
				run.Eval(1)
				run.Distinct(fmt.Sprintf("spelling|revoke=%s|activate=%s|cross=%v", rs, as, cross))
				run.Count("spelling_cases", 1)
				if rs != "" && rs == as {
					run.Count("spelling_same_noncanonical_revoke_then_activate_tried", 1)
				}
				if rv.OK {
					run.Count("spelling_revokes_acknowledged", 1)
				}
				scan := w.scan()
				for _, f := range c06Judge(w, calls, scan, run) {
					run.Violation(f.Sig+"|code-spelling", map[string]any{"revoke_spelling": rs, "activate_spelling": as, "cross_node": cross, "calls": calls, "code_record": scan.CodeBy, "reason": f.Reason})
				}
				w.close()
			}
		}
	}
	run.Exhaustive(true)
	run.Floor("spelling_same_noncanonical_revoke_then_activate_tried", 10)
	run.Floor("spelling_revokes_acknowledged", 12)
	run.Floor("orders_first_valid_activation_succeeded", 30)
	run.Floor("orders_activation_after_certain_expiry_tried", 20)
	run.Floor("orders_activation_after_revoke_tried", 20)
}

func c06RunOrder(t testing.TB, run *vk.Run, ord []string, cross bool, expiry string, ttl time.Duration) {
	c06RunOrderB(t, run, "memory", ord, cross, expiry, ttl)
}

// c06RunOrderB executes one sequential order. Events: actA (node 0), actB (node 1 if
// cross), revoke (node 1 if cross), revoke0/revoke1 (explicit node), expire,
// probe0/probe1 (an activation attempt through that node that is rejected because its
// listen address is malformed - it reads the code but must not change anything).
func c06RunOrderB(t testing.TB, run *vk.Run, backend string, ord []string, cross bool, expiry string, ttl time.Duration) {
	sig := strings.Join(ord, ">") + fmt.Sprintf("|cross=%v|expiry=%s", cross, expiry)
	if backend != "memory" {
		sig = backend + "|" + sig
	}
	run.Case("order|"+sig, nil)
	actTTL := 10 * time.Minute
	if expiry == "ttl" {
		actTTL = ttl
	}
	w := c06NewWorldB(t, backend, 2, actTTL)
	defer w.close()
	var calls []*c06Call
	revoked, used := false, false
	for i, ev := range ord {
		switch ev {
		case "actA", "actB":
			c := &c06Call{Thread: ev, Kind: "activate", Node: 0, Client: 30000001, Listen: fmt.Sprintf("0.0.0.0:%d", 7001+i)}
			if ev == "actB" {
				c.Client = 30000002
				if cross {
					c.Node = 1
				}
			}
			w.do(c)
			calls = append(calls, c)
			if expiry == "ttl" {
				// interval rule: creation established the deadline d = t+ttl with t in [createCall, createRet]
				certainlyBefore := c.retT.Before(w.createCall.Add(ttl))
				certainlyAfter := c.callT.After(w.createRet.Add(ttl))
				if !certainlyBefore && !certainlyAfter {
					c.Uncertain = true
					run.Count("orders_activation_uncertain_wrt_deadline", 1)
				}
				if certainlyBefore && !revoked && !used && w.expiredAt == 0 {
					if c.OK {
						run.Count("orders_first_valid_activation_succeeded", 1)
					} else {
						run.Count("orders_first_valid_activation_failed", 1)
					}
				}
			} else if !revoked && !used && w.expiredAt == 0 {
				if c.OK {
					run.Count("orders_first_valid_activation_succeeded", 1)
				} else {
					run.Count("orders_first_valid_activation_failed", 1)
				}
			}
			if w.expiredAt > 0 && c.CallStep > w.expiredAt && !c.Uncertain {
				run.Count("orders_activation_after_certain_expiry_tried", 1)
			}
			if revoked {
				run.Count("orders_activation_after_revoke_tried", 1)
			}
			if c.OK {
				used = true
			}
		case "probe0", "probe1":
			c := &c06Call{Thread: ev, Kind: "activate", Node: int(ev[5] - '0'), Client: 30000004, Listen: "no-port-here"}
			w.do(c)
			calls = append(calls, c)
			if !c.OK {
				run.Count("orders_rejected_probe_attempts", 1)
			}
			if c.OK {
				used = true
			}
		case "revoke", "revoke0", "revoke1":
			c := &c06Call{Thread: "R", Kind: "revoke", Node: 0}
			if (ev == "revoke" && cross) || ev == "revoke1" {
				c.Node = 1
			}
			w.do(c)
			calls = append(calls, c)
			if c.OK {
				revoked = true
			}
		case "expire":
			if expiry == "ttl" {
				// wait (bounded) until certainly after the deadline
				dl := w.createRet.Add(ttl + 3*time.Millisecond)
				for k := 0; k < 2000 && !time.Now().After(dl); k++ {
					time.Sleep(time.Millisecond)
				}
				if !time.Now().After(dl) {
					run.Count("watchdog", 1)
					return
				}
			} else {
				// the stored records say: activation window ended one second ago (keys still present)
				for _, key := range []string{constants.KeyPrefixRuntimeConnectionCodeByCode + w.code.Code, constants.KeyPrefixRuntimeConnectionCodeByID + w.code.ID} {
					v, err := w.mem.Get(key)
					if err != nil {
						continue
					}
					var rec models.TunnelConnectionCode
					if s, ok := v.(string); !ok || json.Unmarshal([]byte(s), &rec) != nil {
						t.Fatalf("c06: unexpected code record %T", v)
					}
					rec.ActivationExpiresAt = time.Now().Add(-time.Second)
					b, _ := json.Marshal(&rec)
					_ = w.mem.Set(key, string(b), 10*time.Minute)
				}
			}
			w.expiredAt = w.clock.Add(1)
		}
	}
	run.Eval(1)
	run.Distinct(sig)
	scan := w.scan()
	fs := c06Judge(w, calls, scan, run)
	if len(fs) == 0 {
		if run.Counter("samples_taken") < 4 && len(ord) == 4 {
			run.Count("samples_taken", 1)
			run.Sample(map[string]any{"order": ord, "cross_node": cross, "expiry": expiry, "calls": calls})
		}
		return
	}
	var maps []string
	for id, m := range scan.Mains {
		maps = append(maps, fmt.Sprintf("%s listen_client=%d target_client=%d target=%s", id, m.ListenClientID, m.TargetClientID, m.TargetAddress))
	}
	sort.Strings(maps)
	for _, f := range fs {
		run.Violation(f.Sig+"|sequential", map[string]any{"backend": backend, "order": ord, "cross_node": cross, "expiry": expiry, "calls": calls, "mapping_records": maps, "index_copies": scan.IdxRefs, "code_record": scan.CodeBy, "reason": f.Reason})
	}
}

// ---------------------------------------------------------------------------
// monitor 3: single storage-write failures
// ---------------------------------------------------------------------------

func TestVerifC06Faults(t *testing.T) {
	vk.Quiet()
	run := vk.Start(t, "C06", "faults")
	defer run.Finish()
	run.Rule("the i-th storage write (Set/SetNX/AppendToList/RemoveFromList/Delete..., counted from the start of the activation) returns an injected error, for every i up to the number of writes of the fault-free execution (+ rollback writes); (a) single activator, (b) two activators on two nodes under every schedule with <=1 preemption (<=2 thorough) and seeded random schedules; distinct = (scenario, i, failed operation kind, schedule fingerprint)")
	c06Replay(t, run, "faults")

	// fault-free write counts
	count := func(sc c06Scenario) (int, []string) {
		w := c06NewWorld(t, sc.Nodes, 10*time.Minute)
		defer w.close()
		var ops []string
		var mu sync.Mutex
		w.setHook(func(tier, op, key string) error {
			if c06IsWrite(op) {
				mu.Lock()
				ops = append(ops, op+":"+c06IDRe.ReplaceAllString(strings.ReplaceAll(key, w.code.Code, "CODE"), "$1*"))
				mu.Unlock()
			}
			return nil
		})
		for i, th := range sc.Threads {
			c := &c06Call{Thread: th.Name, Kind: th.Kind, Node: th.Node, Client: th.Client, Listen: fmt.Sprintf("0.0.0.0:%d", 7001+i)}
			w.do(c)
		}
		return len(ops), ops
	}
	single := c06Scenarios["1act"]
	n1, ops1 := count(single)
	run.Observe("fault_free_writes_single_activator", ops1)
	if n1 < 5 {
		t.Fatalf("c06: implausible write count %d", n1)
	}
	// (a) single activator: i = 1 .. n1+6 (rollback paths add writes; indices beyond the
	// last write deliver no fault and are counted as such)
	delivered := map[int]bool{}
	for i := 1; i <= n1+6; i++ {
		run.Case("fault-single", i)
		s := vk.NewSched(nil)
		before := run.Counter("faults_delivered")
		after := c06RunScheduled(t, run, single, s, i, "fault-single")
		ok := s.Run(400)
		s.Stop()
		after(ok)
		if run.Counter("faults_delivered") > before {
			delivered[i] = true
			run.Count("single_fault_positions_delivered", 1)
		}
	}
	for i := 1; i <= n1; i++ {
		if !delivered[i] {
			run.Count("single_fault_positions_missed", 1)
		}
	}
	run.Observe("single_fault_positions", n1)

	// (b) with a concurrent second activator on another node
	// two overlapping activators perform up to 2*n1 writes (+ rollback writes)
	two := c06Scenarios["2act-cross-node"]
	maxI := 2*n1 + 2
	pre := run.Pick(1, 2)
	capPer := run.Pick(40, 3000)
	for i := 1; i <= maxI; i++ {
		run.Case("fault-2act-dfs", i)
		st := vk.Explore(pre, capPer, 400, func(s *vk.Sched) func(bool) {
			return c06RunScheduled(t, run, two, s, i, "fault-dfs")
		})
		run.Count("fault_dfs_runs", int64(st.Runs))
	}
	// (c) one activator and a revoker on another node: every write index, every schedule with
	// <=1 preemption (<=2 thorough) - includes "revoke completes inside the activation, then the
	// activation's commit write fails"; a further activation follows every run
	ar := c06Scenarios["1act+revoke"]
	for i := 1; i <= n1+4; i++ {
		run.Case("fault-1act+revoke-dfs", i)
		st := vk.Explore(pre, capPer, 400, func(s *vk.Sched) func(bool) {
			return c06RunScheduled(t, run, ar, s, i, "fault-dfs")
		})
		run.Count("fault_dfs_runs", int64(st.Runs))
	}
	r := run.Rand("fault-random")
	nr := run.Pick(150, 6000)
	kinds := []string{"2act-cross-node", "2act-same-node", "2act+revoke"}
	for k := 0; k < nr; k++ {
		sc := c06Scenarios[kinds[r.Intn(len(kinds))]]
		i := 1 + r.Intn(maxI)
		seed := r.Int63()
		run.Case("fault-random|"+sc.Kind, []int64{int64(i), seed})
		s := vk.NewSched(vk.RandomChooser{R: newC06Rand(seed)})
		after := c06RunScheduled(t, run, sc, s, i, "fault-random")
		ok := s.Run(400)
		s.Stop()
		after(ok)
	}
	run.Floor("single_fault_positions_delivered", int64(n1))
	run.Floor("faults_delivered", 100)
	run.Floor("schedules_overlapping_windows", 30)
	run.Floor("window_revoke_acknowledged_inside_activation_whose_commit_write_failed", 4)
	run.Floor("late_activations_after_no_success", 20)
	if run.Counter("watchdog") > 0 {
		run.Floor("watchdog_free", 1)
	}
}

// ---------------------------------------------------------------------------
// monitor 4: the code expires while an activation is in progress
// ---------------------------------------------------------------------------

func c06Gid() int64 {
	var buf [64]byte
	n := runtime.Stack(buf[:], false)
	f := strings.Fields(string(buf[:n]))
	if len(f) < 2 {
		return -1
	}
	id, _ := strconv.ParseInt(f[1], 10, 64)
	return id
}

type c06TimedOp struct {
	gid int64
	op  string
	key string
	at  time.Time // instant at which the operation was let through (after any hold)
}

// c06PreCommit: operations ActivateConnectionCode performs strictly before its commit
// step (connCode.Activate + code record update) on the success path.
func c06PreCommit(o c06TimedOp) bool {
	switch {
	case strings.HasPrefix(o.key, constants.KeyPrefixRuntimeConnectionCodeByCode),
		strings.HasPrefix(o.key, constants.KeyPrefixRuntimeConnectionCodeByID),
		strings.HasPrefix(o.key, constants.KeyPrefixIndexConnectionCodeByTarget):
		return false
	case o.op == "GetList":
		return false // quota read; kept out to stay independent of where the quota lock sits
	}
	return o.op == "SetNX" || o.op == "Set" || o.op == "AppendToList" || (o.op == "Get" && strings.HasPrefix(o.key, constants.KeyPrefixPortMapping+":"))
}

// c06HoldUntil blocks (bounded) until the wall clock is certainly past dl.
func c06HoldUntil(dl time.Time) bool {
	for k := 0; k < 5000; k++ {
		if time.Now().After(dl) {
			return true
		}
		time.Sleep(time.Millisecond)
	}
	return time.Now().After(dl)
}

func TestVerifC06ExpiresDuring(t *testing.T) {
	vk.Quiet()
	run := vk.Start(t, "C06", "expires-during")
	defer run.Finish()
	run.Rule("code with a real 100 ms activation TTL; (a) one activator is held by the storage gate in front of its k-th storage operation, for every k after the initial read of the code, until creation-return+TTL+3ms has certainly passed, then released; (b) the activator passes validation and then queues on the per-client quota lock held by a slow activation of another code by the same client until the deadline has passed. Interval rule: only activations with a pre-commit operation (claim, id reservation, mapping write, index append) let through certainly after the deadline are judged: they must not return a mapping and nothing may remain in the store; distinct = (variant, k, node) with the hold certainly begun before the deadline")
	const ttl = 100 * time.Millisecond

	// number of storage operations of an undisturbed activation
	nOps := 0
	{
		w := c06NewWorld(t, 1, 10*time.Minute)
		var n atomic.Int64
		w.setHook(func(string, string, string) error { n.Add(1); return nil })
		c := &c06Call{Thread: "A", Kind: "activate", Node: 0, Client: 30000001, Listen: "0.0.0.0:7001"}
		w.do(c)
		w.close()
		nOps = int(n.Load())
		if !c.OK || nOps < 6 {
			t.Fatalf("c06: undisturbed activation: ok=%v ops=%d err=%s", c.OK, nOps, c.Err)
		}
	}
	run.Observe("storage_ops_of_undisturbed_activation", nOps)

	report := func(w *c06World, variant string, k int, calls []*c06Call, ops []c06TimedOp) {
		scan := w.scan()
		fs := c06Judge(w, calls, scan, run)
		if len(fs) == 0 {
			return
		}
		var tr []string
		for _, o := range ops {
			tr = append(tr, fmt.Sprintf("g%d %s:%s +%.1fms", o.gid, o.op, c06IDRe.ReplaceAllString(o.key, "$1*"), float64(o.at.Sub(w.createRet))/1e6))
		}
		var maps []string
		for id, m := range scan.Mains {
			maps = append(maps, fmt.Sprintf("%s listen_client=%d target=%s", id, m.ListenClientID, m.TargetAddress))
		}
		sort.Strings(maps)
		for _, f := range fs {
			run.Violation(f.Sig, map[string]any{"variant": variant, "held_before_op": k, "activation_ttl_ms": ttl.Milliseconds(), "ops_with_offset_from_code_creation": tr, "calls": calls, "mapping_records": maps, "index_copies": scan.IdxRefs, "reason": f.Reason})
		}
	}

	// (a) single activator held in front of its k-th operation
	reps := run.Pick(1, 4)
	for rep := 0; rep < reps; rep++ {
		for node := 0; node < 2; node++ {
			for k := 2; k <= nOps; k++ {
				run.Case("hold", []int{k, node})
				w := c06NewWorld(t, 2, ttl)
				dl := w.createRet.Add(ttl)
				var mu sync.Mutex
				var ops []c06TimedOp
				var holdStart time.Time
				held, timedOut := false, false
				w.setHook(func(tier, op, key string) error {
					mu.Lock()
					idx := len(ops) + 1
					mu.Unlock()
					if idx == k && !held {
						held = true
						holdStart = time.Now()
						if !c06HoldUntil(dl.Add(3 * time.Millisecond)) {
							timedOut = true
						}
					}
					mu.Lock()
					ops = append(ops, c06TimedOp{0, op, key, time.Now()})
					mu.Unlock()
					return nil
				})
				c := &c06Call{Thread: "A", Kind: "activate", Node: node, Client: 30000001, Listen: "0.0.0.0:7001"}
				w.do(c)
				w.setHook(nil)
				if timedOut {
					run.Count("watchdog", 1)
					w.close()
					continue
				}
				run.Eval(1)
				for _, o := range ops {
					if c06PreCommit(o) && o.at.After(dl) {
						c.CommitAfterExpiry = true
					}
				}
				if c.CommitAfterExpiry {
					run.Count("judged_commit_certainly_after_expiry", 1)
					if held && holdStart.Before(w.createCall.Add(ttl)) {
						run.Count("judged_and_validated_certainly_before_expiry", 1)
						run.Distinct(fmt.Sprintf("hold|k=%d|node=%d", k, node))
					}
					if !c.OK {
						run.Count("rejected_after_expiry_during_activation", 1)
					}
				} else if held {
					run.Count("held_at_or_after_commit_not_judged", 1)
				}
				report(w, "hold-at-op", k, []*c06Call{c}, ops)
				if run.Counter("samples_taken") < 2 && c.CommitAfterExpiry {
					run.Count("samples_taken", 1)
					run.Sample(map[string]any{"variant": "hold-at-op", "k": k, "node": node, "call": c})
				}
				w.close()
			}
		}
	}

	// (b) queued on the per-client quota lock behind a slow activation of another code
	nb := run.Pick(4, 24)
	for i := 0; i < nb; i++ {
		run.Case("queued-on-quota-lock", i)
		w := c06NewWorld(t, 1, ttl)
		dl := w.createRet.Add(ttl)
		otherTarget := strings.Replace(w.target, "tcp://10.66.", "tcp://10.67.", 1)
		w.foreign = map[string]bool{otherTarget: true}
		other, err := w.nodes[0].svc.CreateConnectionCode(&CreateConnectionCodeRequest{
			TargetClientID: 20000002, TargetAddress: otherTarget, ActivationTTL: 10 * time.Minute, MappingDuration: time.Hour, CreatedBy: "c06",
		})
		if err != nil {
			t.Fatalf("c06: second code: %v", err)
		}
		const client = int64(30000001)
		var mu sync.Mutex
		var ops []c06TimedOp
		xHeld := make(chan struct{})
		yRead := make(chan struct{})
		var xOnce, yOnce sync.Once
		var yGid atomic.Int64
		timedOut := atomic.Bool{}
		claimKeyX := other.ID
		w.setHook(func(tier, op, key string) error {
			g := c06Gid()
			if op == "SetNX" && strings.Contains(key, claimKeyX) {
				// X is inside the client's quota critical section: hold it there
				xOnce.Do(func() { close(xHeld) })
				if !c06HoldUntil(dl.Add(3 * time.Millisecond)) {
					timedOut.Store(true)
				}
			}
			mu.Lock()
			ops = append(ops, c06TimedOp{g, op, key, time.Now()})
			mu.Unlock()
			if g == yGid.Load() && op == "Get" && strings.HasPrefix(key, constants.KeyPrefixRuntimeConnectionCodeByCode) {
				yOnce.Do(func() { close(yRead) })
			}
			return nil
		})
		var wg sync.WaitGroup
		var xOK bool
		wg.Add(1)
		go func() {
			defer wg.Done()
			m, err := w.nodes[0].svc.ActivateConnectionCode(&ActivateConnectionCodeRequest{Code: other.Code, ListenClientID: client, ListenAddress: "0.0.0.0:7050"})
			xOK = err == nil && m != nil
		}()
		okSetup := true
		select {
		case <-xHeld:
		case <-time.After(5 * time.Second):
			okSetup = false
		}
		y := &c06Call{Thread: "Y", Kind: "activate", Node: 0, Client: client, Listen: "0.0.0.0:7001"}
		wg.Add(1)
		go func() {
			defer wg.Done()
			yGid.Store(c06Gid())
			w.do(y)
		}()
		fin := make(chan struct{})
		go func() { wg.Wait(); close(fin) }()
		select {
		case <-fin:
		case <-time.After(20 * time.Second):
			okSetup = false
		}
		w.setHook(nil)
		if !okSetup || timedOut.Load() {
			run.Count("watchdog", 1)
			w.close()
			continue
		}
		run.Eval(1)
		if xOK {
			run.Count("lock_holder_activation_ok", 1)
		}
		var yFirst time.Time
		yOpsAfter := 0
		for _, o := range ops {
			if o.gid != yGid.Load() {
				continue
			}
			if yFirst.IsZero() {
				yFirst = o.at
			}
			if c06PreCommit(o) && o.at.After(dl) {
				y.CommitAfterExpiry = true
				yOpsAfter++
			}
		}
		if y.CommitAfterExpiry {
			run.Count("judged_commit_certainly_after_expiry", 1)
			if !yFirst.IsZero() && yFirst.Before(w.createCall.Add(ttl)) {
				run.Count("judged_queued_on_quota_lock", 1)
				run.Distinct(fmt.Sprintf("queued|%d", i))
			}
			if !y.OK {
				run.Count("rejected_after_expiry_during_activation", 1)
			}
		}
		report(w, "queued-on-quota-lock", 0, []*c06Call{y}, ops)
		w.close()
	}
	run.Floor("judged_and_validated_certainly_before_expiry", 8)
	run.Floor("rejected_after_expiry_during_activation", 8)
	run.Floor("judged_queued_on_quota_lock", 2)
	if run.Counter("watchdog") > 0 {
		run.Floor("watchdog_free", 1)
	}
}

// ---------------------------------------------------------------------------
// monitor 5: the same oracles on the tiered store, one hybrid.Storage per node
// ---------------------------------------------------------------------------

func TestVerifC06Hybrid(t *testing.T) {
	vk.Quiet()
	run := vk.Start(t, "C06", "hybrid")
	defer run.Finish()
	run.Rule("each node = its own conncode.Service over its own hybrid.Storage (own local memory cache, one shared memory cache for all nodes, no database), every tier call is a gate; (a) cross-node scenarios (2-3 activators on different nodes, with/without revoker) under all schedules with <=2 preemptions (capped at quick tier) and seeded random schedules; (b) sequential orders with operations alternating between nodes: the base orders of the 'orders' monitor (B and the revoker on node 1, real-TTL expiry) and every permutation of {rejected attempt via node 0, rejected attempt via node 1, revoke via node r, activateA via node 0, activateB via node 1}; distinct = overlapping schedule fingerprints + (order, variant)")
	c06Replay(t, run, "hybrid")

	type plan struct {
		kind    string
		preempt int
		cap     int
	}
	plans := []plan{
		{"hy-2act-cross-node", 2, run.Pick(600, 100000)},
		{"hy-1act+revoke", 2, run.Pick(300, 100000)},
		{"hy-2act-same-client", 1, run.Pick(60, 100000)},
		{"hy-2act+revoke", 2, run.Pick(400, 8000)},
		{"hy-3act", 2, run.Pick(200, 8000)},
		{"hy-2act+list", 1, run.Pick(200, 8000)},
	}
	for _, p := range plans {
		sc := c06Scenarios[p.kind]
		run.Case("dfs|"+p.kind, p)
		st := vk.Explore(p.preempt, p.cap, 600, func(s *vk.Sched) func(bool) {
			return c06RunScheduled(t, run, sc, s, 0, "dfs")
		})
		run.Count("dfs_runs", int64(st.Runs))
		run.Count("dfs_runs_with_preemption", int64(st.Preempted))
		run.Max("dfs_max_depth", int64(st.MaxDepth))
		run.Observe("dfs|"+p.kind+fmt.Sprintf("|preempt<=%d", p.preempt), st)
	}
	r := run.Rand("hybrid-random-schedules")
	kinds := []string{"hy-2act-cross-node", "hy-2act+revoke", "hy-3act", "hy-1act+revoke"}
	n := run.Pick(150, 6000)
	for i := 0; i < n; i++ {
		sc := c06Scenarios[kinds[r.Intn(len(kinds))]]
		seed := r.Int63()
		run.Case("random|"+sc.Kind, seed)
		s := vk.NewSched(vk.RandomChooser{R: newC06Rand(seed)})
		after := c06RunScheduled(t, run, sc, s, 0, "random")
		ok := s.Run(600)
		s.Stop()
		after(ok)
		run.Count("random_runs", 1)
	}

	// (b) sequential orders alternating between nodes
	const ttl = 60 * time.Millisecond
	for _, extra := range [][]string{{}, {"revoke"}, {"expire"}, {"revoke", "expire"}} {
		for _, ord := range c06Perms(append([]string{"actA", "actB"}, extra...)) {
			expiry := ""
			if len(extra) > 0 && extra[len(extra)-1] == "expire" {
				expiry = "ttl"
			}
			c06RunOrderB(t, run, "hybrid", ord, true, expiry, ttl)
			run.Count("orders_base", 1)
		}
	}
	for _, rv := range []string{"revoke0", "revoke1"} {
		for _, ord := range c06Perms([]string{"probe0", "probe1", rv, "actA", "actB"}) {
			c06RunOrderB(t, run, "hybrid", ord, true, "", ttl)
			run.Count("orders_with_rejected_attempts", 1)
		}
	}
	run.Floor("schedules_overlapping_windows", 50)
	run.Floor("outcome_exactly_one_activation", 20)
	run.Floor("window_list_inside_activation_then_second_activation", 10)
	run.Floor("orders_rejected_probe_attempts", 100)
	run.Floor("orders_activation_after_revoke_tried", 50)
	run.Floor("orders_first_valid_activation_succeeded", 30)
	if run.Counter("watchdog") > 0 {
		run.Floor("watchdog_free", 1)
	}
}

// ---------------------------------------------------------------------------
// monitor 6: client ids across the whole int64 range, on serialising stores
// ---------------------------------------------------------------------------

func TestVerifC06WideIDs(t *testing.T) {
	vk.Quiet()
	run := vk.Start(t, "C06", "wide-ids")
	defer run.Finish()
	run.Rule("target client id (fixed at generation) and listen client id (activator) drawn from {8-digit ordinary, 2^53-1, 2^53+1, 2^53+3, 2^62+1, MaxInt64-1, MaxInt64}, every pair, on four backends (memory; hybrid with shared memory cache; Redis via miniredis; hybrid with shared Redis); sequence: rejected attempt via node 1 (reads the code), activation via node 1, second activation via node 0 by another client; same quiescent-state oracle (mapping targets exactly the code's client and listens for exactly the activator); distinct = (backend, target id, listen id)")
	ids := []int64{34567890, 1<<53 - 1, 1<<53 + 1, 1<<53 + 3, 1<<62 + 1, 1<<63 - 2, 1<<63 - 1}
	backends := []string{"memory", "hybrid", "redis", "hybrid-redis"}
	for _, be := range backends {
		for _, tid := range ids {
			for li, lid := range ids {
				if lid == tid {
					lid = ids[(li+1)%len(ids)] - 5
				}
				run.Case("wide|"+be, []int64{tid, lid})
				w := c06NewWorldOpt(t, c06Opts{Backend: be, Nodes: 2, TTL: 10 * time.Minute, TargetClient: tid})
				probe := &c06Call{Thread: "probe1", Kind: "activate", Node: 1, Client: lid, Listen: "no-port-here"}
				a := &c06Call{Thread: "A", Kind: "activate", Node: 1, Client: lid, Listen: "0.0.0.0:7001"}
				b := &c06Call{Thread: "late", Kind: "activate", Node: 0, Client: 45678901, Listen: "0.0.0.0:7002"}
				calls := []*c06Call{probe, a, b}
				for _, c := range calls {
					w.do(c)
				}
				run.Eval(1)
				run.Distinct(fmt.Sprintf("%s|%d|%d", be, tid, lid))
				if a.OK {
					run.Count("wide_activations_ok", 1)
					if tid > 1<<53 || lid > 1<<53 {
						run.Count("wide_activations_ok_id_above_2^53", 1)
					}
				}
				scan := w.scan()
				if rec := scan.CodeBy["code"]; rec != nil && rec.TargetClientID != tid {
					run.Count("obs_code_record_target_differs", 1)
				}
				for _, f := range c06Judge(w, calls, scan, run) {
					var maps []string
					for id, m := range scan.Mains {
						maps = append(maps, fmt.Sprintf("%s listen_client=%d target_client=%d target=%s", id, m.ListenClientID, m.TargetClientID, m.TargetAddress))
					}
					sort.Strings(maps)
					run.Violation(f.Sig+"|wide-id", map[string]any{"backend": be, "target_client_id": tid, "listen_client_id": lid, "calls": calls, "mapping_records": maps, "index_copies": scan.IdxRefs, "code_record": scan.CodeBy, "reason": f.Reason})
				}
				w.close()
			}
		}
	}
	run.Exhaustive(true)
	run.Floor("wide_activations_ok", 150)
	run.Floor("wide_activations_ok_id_above_2^53", 100)
}

// ---------------------------------------------------------------------------
// monitor 7: a read whose value is already taken is delivered late (revoke acknowledged in between)
// ---------------------------------------------------------------------------

// c06HeldReadChooser drives: R (revoke) until it has read the record and stands before
// its first write; L (a lookup of the same code) until its storage read has taken the
// value but not yet delivered it; R to the end (revoke acknowledged); then A (activate)
// for as long as it can run; then everybody else.
type c06HeldReadChooser struct {
	stage  int
	window bool // L's read was held across the complete, acknowledged revoke
}

func (c *c06HeldReadChooser) Choose(enabled []string, points []string, cur int) int {
	idx := func(name string) int {
		for i, n := range enabled {
			if n == name {
				return i
			}
		}
		return -1
	}
	codeRead := "ret.Get:" + constants.KeyPrefixRuntimeConnectionCodeByCode
	for {
		switch c.stage {
		case 0:
			i := idx("R")
			if i >= 0 && !strings.Contains(points[i], ".Set:") && !strings.Contains(points[i], ".Delete:") {
				return i
			}
			c.stage = 1
		case 1:
			i := idx("L")
			if i >= 0 && !strings.Contains(points[i], codeRead) {
				return i
			}
			if i >= 0 {
				c.window = true
			}
			c.stage = 2
		case 2:
			if i := idx("R"); i >= 0 {
				return i
			}
			c.stage = 3
		case 3:
			if i := idx("A"); i >= 0 {
				return i
			}
			c.stage = 4
		default:
			return 0
		}
	}
}

func TestVerifC06HeldReads(t *testing.T) {
	vk.Quiet()
	run := vk.Start(t, "C06", "held-reads")
	defer run.Finish()
	run.Rule("storage reads are not instantaneous: the shared store has a second gate after every Get (value taken, not yet delivered). Directed schedule on one node: the revoker reads the code; a concurrent lookup of the same code (status query, or an activation attempt rejected for its listen address; same or other client) takes its value from the store and is held; the revoke writes and is acknowledged; only then an activation starts and runs as far as it can; then the held read is delivered. Oracle as everywhere: an activation that began after an acknowledged revoke returns no mapping, nothing is left in the store. Plus seeded random schedules over the same three threads. distinct = (lookup kind, clients, node placement) with the window reached")
	c06Replay(t, run, "held-reads")
	type variant struct {
		lkind   string
		lclient int64
		lnode   int
		anode   int
	}
	var vars []variant
	for _, lk := range []string{"lookup", "probe"} {
		for _, lc := range []int64{30000001, 30000002} {
			for _, place := range [][2]int{{0, 0}, {1, 0}, {0, 1}} {
				vars = append(vars, variant{lk, lc, place[0], place[1]})
			}
		}
	}
	for _, v := range vars {
		sc := c06Scenario{Kind: fmt.Sprintf("held-read|%s|lclient=%d|lnode=%d|anode=%d", v.lkind, v.lclient, v.lnode, v.anode), Nodes: 2, PostRead: true,
			Threads: []c06Thread{{"R", "revoke", 0, 0}, {"L", v.lkind, v.lnode, v.lclient}, {"A", "activate", v.anode, 30000001}}}
		c06Scenarios[sc.Kind] = sc
		run.Case("held-read", sc)
		ch := &c06HeldReadChooser{}
		s := vk.NewSched(ch)
		after := c06RunScheduled(t, run, sc, s, 0, "directed")
		ok := s.Run(400)
		s.Stop()
		after(ok)
		if ch.window {
			run.Count("window_read_held_across_acknowledged_revoke", 1)
			run.Distinct(sc.Kind)
		}
	}
	// seeded random schedules over the same threads (post-read gates make stale deliveries schedulable)
	r := run.Rand("held-reads-random")
	n := run.Pick(120, 4000)
	for i := 0; i < n; i++ {
		v := vars[r.Intn(len(vars))]
		sc := c06Scenarios[fmt.Sprintf("held-read|%s|lclient=%d|lnode=%d|anode=%d", v.lkind, v.lclient, v.lnode, v.anode)]
		seed := r.Int63()
		run.Case("held-read-random", seed)
		s := vk.NewSched(vk.RandomChooser{R: newC06Rand(seed)})
		after := c06RunScheduled(t, run, sc, s, 0, "random")
		ok := s.Run(400)
		s.Stop()
		after(ok)
		run.Count("random_runs", 1)
	}
	run.Floor("window_read_held_across_acknowledged_revoke", int64(len(vars)))
	if run.Counter("watchdog") > 0 {
		run.Floor("watchdog_free", 1)
	}
}

// ---------------------------------------------------------------------------
// monitor 8: spellings of the target / listen address
// ---------------------------------------------------------------------------

func TestVerifC06Addresses(t *testing.T) {
	vk.Quiet()
	run := vk.Start(t, "C06", "addresses")
	defer run.Finish()
	run.Rule("the code's target address and the activator's listen address are written with port spellings {100, 0100, 0053, 0777, 00080, 08, 09, +80, ' 80', '80 ', 0x50, 0o17, 8_0, 0, 65535, 65536, 99999, -1, empty} on hosts {IPv4, bracketed IPv6, name} and schemes {tcp, udp, TCP, none}; one activation, then a second one by another client; either the activation is refused and nothing is stored, or the mapping's target host/port/protocol and listen port equal the monitor's own decimal reading of the address (spellings without an unambiguous decimal reading are only counted); distinct = (which address, spelling)")
	ports := []string{"100", "0100", "0053", "0777", "00080", "08", "09", "+80", " 80", "80 ", "0x50", "0o17", "8_0", "0", "65535", "65536", "99999", "-1", ""}
	type acase struct {
		which, target, listen, class string
	}
	var cases []acase
	for _, p := range ports {
		for _, h := range []string{"10.1.2.3", "[fd00::7]", "db.internal"} {
			cases = append(cases, acase{"target", "tcp://" + h + ":" + p, "0.0.0.0:7001", "target|port=" + p})
		}
		for _, h := range []string{"0.0.0.0", "[::]", "127.0.0.1"} {
			cases = append(cases, acase{"listen", "tcp://10.1.2.3:5432", h + ":" + p, "listen|port=" + p})
		}
	}
	for _, p := range []string{"0100", "0053", "443"} {
		cases = append(cases, acase{"target", "udp://10.1.2.3:" + p, "0.0.0.0:7001", "target|udp|port=" + p},
			acase{"target", "TCP://10.1.2.3:" + p, "0.0.0.0:7001", "target|TCP|port=" + p},
			acase{"target", "10.1.2.3:" + p, "0.0.0.0:7001", "target|noscheme|port=" + p})
	}
	behaviour := map[string]string{}
	for _, cs := range cases {
		run.Case("addr|"+cs.class, cs)
		w := c06NewWorldOpt(t, c06Opts{Backend: "memory", Nodes: 2, TTL: 10 * time.Minute, Target: cs.target})
		a := &c06Call{Thread: "A", Kind: "activate", Node: 0, Client: 30000001, Listen: cs.listen}
		b := &c06Call{Thread: "late", Kind: "activate", Node: 1, Client: 30000002, Listen: "0.0.0.0:7002"}
		calls := []*c06Call{a}
		w.do(a)
		if a.OK {
			w.do(b)
			calls = append(calls, b)
		}
		run.Eval(1)
		run.Distinct(cs.class)
		addr := cs.target
		if cs.which == "listen" {
			addr = cs.listen
		}
		_, rp, _, refOK := c06RefAddr(addr)
		switch {
		case a.OK && refOK:
			run.Count("addr_accepted_and_judged", 1)
			if strings.HasPrefix(addr[strings.LastIndexByte(addr, ':')+1:], "0") && rp > 0 {
				run.Count("addr_accepted_leading_zero_port_judged", 1)
			}
			behaviour[cs.class] = "accepted"
		case a.OK:
			run.Count("addr_accepted_without_decimal_reading_not_judged", 1)
			behaviour[cs.class] = "accepted (no decimal reading: not judged)"
		default:
			run.Count("addr_refused", 1)
			behaviour[cs.class] = "refused"
		}
		scan := w.scan()
		for _, f := range c06Judge(w, calls, scan, run) {
			var maps []string
			for id, m := range scan.Mains {
				maps = append(maps, fmt.Sprintf("%s listen_client=%d source_port=%d target=%s -> %s:%d/%s", id, m.ListenClientID, m.SourcePort, m.TargetAddress, m.TargetHost, m.TargetPort, m.Protocol))
			}
			sort.Strings(maps)
			run.Violation(f.Sig+"|address-spelling", map[string]any{"case": cs.class, "target_address": cs.target, "listen_address": cs.listen, "calls": calls, "mapping_records": maps, "reason": f.Reason})
		}
		w.close()
	}
	run.Observe("behaviour_per_spelling", behaviour)
	run.Exhaustive(true)
	run.Floor("addr_accepted_and_judged", 30)
	run.Floor("addr_accepted_leading_zero_port_judged", 15)
	run.Floor("addr_refused", 20)
}
