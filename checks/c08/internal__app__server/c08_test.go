//go:build verif && verif_c08

package server

import (
	"context"
	"fmt"
	"math/rand"
	"os"
	"reflect"
	"strconv"
	"strings"
	"sync"
	"testing"
	"time"
	"unsafe"

	"github.com/alicebob/miniredis/v2"

	coreerrors "tunnox-core/internal/core/errors"
	"tunnox-core/internal/core/storage"
	"tunnox-core/internal/packet"
	"tunnox-core/internal/protocol/session"
	"tunnox-core/internal/security"
	vk "tunnox-core/internal/verifkit"
)

// C08 — cross-node lookup finds a connected client at its current node.
//
// Trace monitor over 2–3 real mini-server nodes that share one store (memory, Redis
// client code over miniredis, tiered store with Redis / with memory as the shared tier,
// one tiered store per node over one Redis). The harness plays one or two clients:
// real handshakes, heartbeats, reconnects on another node while the old node has not
// noticed yet, late cleanup of the abandoned connection (explicit CloseConnection or the
// real stale-connection sweeper), close of the current connection. After every event
// every node is asked FindClientNode(client) and the answer is compared with the
// reference
//
//	current = connection of the client's most recent successful control handshake,
//	          until the harness closes it;
//	connected   -> (node, conn) of current
//	otherwise   -> not connected.
//
// Time: connstate and the memory store read time.Now() themselves, so expiry-related
// expectations use the interval rule (DESIGN §2.3): a lookup is *required* to find the
// client only if it returned before (call instant of the latest completed keep-alive on
// the current connection) + TTL, and only while every keep-alive so far was itself
// certainly inside the lifetime established by the previous one. miniredis has a
// virtual clock; it is advanced to the real clock at the start of every event and of
// every round of lookups, and the call instant used by the rule is that sync instant.

const (
	c08LongTTL  = 5 * time.Minute
	c08ShortTTL = 300 * time.Millisecond
)

// c08Tick is the heartbeat spacing of the timed histories. VERIF_C08_TICK_MS exists only
// to self-test the oracle's tolerance paths (late heartbeats, current connection swept by
// its node): with a spacing near/above the sweeper timeout or the lifetime the monitor
// must stay silent on a correct tree (verdicts become "tolerated", floors may fail).
var c08Tick = func() time.Duration {
	if v, err := strconv.Atoi(os.Getenv("VERIF_C08_TICK_MS")); err == nil && v > 0 {
		return time.Duration(v) * time.Millisecond
	}
	return 60 * time.Millisecond
}()

var c08BackendNames = []string{"memory", "redis", "hybrid-redis", "hybrid-memory", "hybrid-pernode"}

// ---------------------------------------------------------------- backends

type c08Backend struct {
	name    string
	ctx     context.Context
	cancel  context.CancelFunc
	shared  storage.Storage
	perNode []storage.Storage
	mr      *miniredis.Miniredis
	pers    *vk.MapPersistent
	last    time.Time // real instant the miniredis clock currently shows
}

func c08NewBackend(name string) (*c08Backend, error) {
	ctx, cancel := context.WithCancel(context.Background())
	b := &c08Backend{name: name, ctx: ctx, cancel: cancel}
	needRedis := name == "redis" || name == "hybrid-redis" || name == "hybrid-pernode"
	if needRedis {
		mr, err := miniredis.Run()
		if err != nil {
			cancel()
			return nil, fmt.Errorf("miniredis: %w", err)
		}
		b.mr = mr
		b.last = time.Now()
	}
	switch name {
	case "memory":
		b.shared = storage.NewMemoryStorage(ctx)
	case "redis":
		rs, err := b.redis()
		if err != nil {
			b.close()
			return nil, err
		}
		b.shared = rs
	case "hybrid-redis":
		rs, err := b.redis()
		if err != nil {
			b.close()
			return nil, err
		}
		b.shared = storage.NewHybridStorageWithSharedCache(ctx, storage.NewMemoryStorage(ctx), rs, nil, storage.DefaultHybridConfig())
	case "hybrid-memory":
		b.shared = storage.NewHybridStorageWithSharedCache(ctx, storage.NewMemoryStorage(ctx), nil, nil, storage.DefaultHybridConfig())
	case "hybrid-pernode":
		b.pers = vk.NewMapPersistent("persistent")
	default:
		cancel()
		return nil, fmt.Errorf("unknown backend %s", name)
	}
	return b, nil
}

func (b *c08Backend) redis() (*storage.RedisStorage, error) {
	return storage.NewRedisStorage(b.ctx, &storage.RedisConfig{Addr: b.mr.Addr(), PoolSize: 4})
}

// storeFor returns the store node i is configured with.
func (b *c08Backend) storeFor(i int) (storage.Storage, error) {
	if b.name != "hybrid-pernode" {
		return b.shared, nil
	}
	// a cluster as deployed: every node has its own local cache, all nodes share one
	// Redis (shared tier) and one persistent tier
	rs, err := b.redis()
	if err != nil {
		return nil, err
	}
	cfg := storage.DefaultHybridConfig()
	cfg.EnablePersistent = true
	st := storage.NewHybridStorageWithSharedCache(b.ctx, storage.NewMemoryStorage(b.ctx), rs, b.pers, cfg)
	b.perNode = append(b.perNode, st)
	return st, nil
}

// sync advances the miniredis clock to the real clock and returns the instant it now
// shows (for stores without a virtual clock: now).
func (b *c08Backend) sync() time.Time {
	now := time.Now()
	if b.mr != nil {
		if d := now.Sub(b.last); d > 0 {
			b.mr.FastForward(d)
			b.last = now
		}
	}
	return now
}

func (b *c08Backend) close() {
	b.cancel()
	if b.mr != nil {
		b.mr.Close()
	}
}

// ---------------------------------------------------------------- world

type c08Span struct{ c, r time.Time }

type c08Conn struct {
	mc     *miniClient
	node   int
	id     string
	hs     c08Span       // latest successful handshake on this connection
	lastKA c08Span       // latest completed keep-alive (handshake or heartbeat)
	chain  bool          // every keep-alive so far certainly fell inside the previous lifetime
	aged   time.Duration // the stored registration was made to look this old (long session), 0 = not aged since its last handshake
}

type c08Client struct {
	idx        int
	id         int64
	secret     string
	cur        *c08Conn
	zombies    []*c08Conn        // abandoned by the client, not yet cleaned up by their node
	closed     map[string]string // connID -> how it ended (one map shared by all clients of a history)
	active     bool              // took part in this history (a provisioned but idle identity is not looked up)
	lost       []*c08Conn        // connections this identity lost to another client's handshake on them (still open)
	cloudDirty string            // "tunnel_conn": a tunnel-type handshake happened since this client's last control handshake (classifies cloud-state violations)
	unsure     string            // the node dropped cur on its own and the harness has not yet played the adapter cleanup: no verdicts
	lastNode   int               // node of the most recent connect
	broken     string            // signature of the running failure episode ("" = last lookup fine)
	cleaned    int               // lookup rounds for which a just-observed cleanup of an abandoned connection counts as the cause of a loss
}

type c08World struct {
	run               *vk.Run
	be                *c08Backend
	ttl               time.Duration
	sweeper           bool
	nodes             []*miniNode
	clients           []*c08Client
	trace             []string
	kinds             []string
	lastEv            string
	lastCl            int
	herr              string
	ctx               context.Context
	hsSeq             int             // control handshakes so far in this world (selects the connection_type variant)
	nodeTTL           []time.Duration // per-node connection-state lifetimes (nil: all nodes use ttl)
	ageSeq            int             // aging events so far in this world
	tag               string          // appended to every signature judged while set (names the interleaving of the heartbeat-window histories)
	noSweepUnregister bool            // observed: the sweeper's close leaves the connection record behind
	spareID           int64           // a provisioned second identity reused across the histories of a world
	spareSecret       string
}

func c08NodeName(i int) string { return fmt.Sprintf("node-%c", 'a'+i) }

func c08NewWorld(t *testing.T, run *vk.Run, backend string, ttl time.Duration, nNodes int, sweeper bool) *c08World {
	return c08NewWorldF(t, run, backend, ttl, nNodes, sweeper, nil)
}

// c08Fault fails exactly one storage operation while armed: the j-th occurrence of a
// given "<op> <key class>" (so that operations of unrelated background goroutines do
// not shift the target).
type c08Fault struct {
	mu     sync.Mutex
	armed  bool
	target string
	j      int
	seen   map[string]int
	order  []string // distinct "<op> <key class>" in first-seen order
	fired  string
	// one-shot hold: the next Get of holdKey parks its goroutine until release
	holdKey string
	parked  chan struct{}
	release chan struct{}
}

// holdNextGet arranges that the next Get of key parks; returns the channels to wait on /
// to close.
func (f *c08Fault) holdNextGet(key string) (parked <-chan struct{}, release chan<- struct{}) {
	p, r := make(chan struct{}), make(chan struct{})
	f.mu.Lock()
	f.holdKey, f.parked, f.release = key, p, r
	f.mu.Unlock()
	return p, r
}

func c08KeyClass(key string) string {
	if i := strings.LastIndex(key, ":"); i >= 0 {
		return key[:i+1]
	}
	return key
}

func (f *c08Fault) hook(tier, op, key string) error {
	f.mu.Lock()
	if f.holdKey != "" && op == "Get" && key == f.holdKey {
		p, r := f.parked, f.release
		f.holdKey = ""
		f.mu.Unlock()
		close(p)
		select {
		case <-r:
		case <-time.After(10 * time.Second): // never a verdict: the history is discarded by its watchdog
		}
		return nil
	}
	defer f.mu.Unlock()
	if !f.armed {
		return nil
	}
	id := op + " " + c08KeyClass(key)
	if f.seen[id] == 0 {
		f.order = append(f.order, id)
	}
	f.seen[id]++
	if id == f.target && f.seen[id] == f.j && f.fired == "" {
		f.fired = id
		return vk.ErrInjected
	}
	return nil
}

// arm starts observing; target "" only records what the handshake does.
func (f *c08Fault) arm(target string, j int) {
	f.mu.Lock()
	f.armed, f.target, f.j, f.fired = true, target, j, ""
	f.seen, f.order = map[string]int{}, nil
	f.mu.Unlock()
}

// disarm stops observing and returns (operation kinds seen in order, their counts, what was failed).
func (f *c08Fault) disarm() ([]string, map[string]int, string) {
	f.mu.Lock()
	defer f.mu.Unlock()
	f.armed = false
	return f.order, f.seen, f.fired
}

// c08NewWorldF: with fault != nil every node's store is a gated double whose hook is fault.hook.
func c08NewWorldF(t *testing.T, run *vk.Run, backend string, ttl time.Duration, nNodes int, sweeper bool, fault *c08Fault) *c08World {
	return c08NewWorldT(t, run, backend, ttl, nNodes, sweeper, fault, nil)
}

// life is the lifetime of a registration made for connection c: the one its own node
// (the writer of the record) is configured with.
func (w *c08World) life(c *c08Conn) time.Duration {
	if c != nil && c.node < len(w.nodeTTL) {
		return w.nodeTTL[c.node]
	}
	return w.ttl
}

// c08NewWorldT: nodeTTL (optional) gives every node its own connection-state lifetime.
func c08NewWorldT(t *testing.T, run *vk.Run, backend string, ttl time.Duration, nNodes int, sweeper bool, fault *c08Fault, nodeTTL []time.Duration) *c08World {
	be, err := c08NewBackend(backend)
	if err != nil {
		t.Fatalf("c08: backend %s: %v", backend, err)
	}
	w := &c08World{run: run, be: be, ttl: ttl, sweeper: sweeper, ctx: context.Background(), nodeTTL: nodeTTL}
	bf := &security.BruteForceConfig{MaxFailures: 1000000, TimeWindow: time.Hour, BanDuration: time.Hour, PermanentBanAt: 100000000, CleanupInterval: time.Hour}
	rl := &security.RateLimitConfig{Rate: 1000000, Burst: 1000000, TTL: time.Hour}
	for i := 0; i < nNodes; i++ {
		st, err := be.storeFor(i)
		if err != nil {
			t.Fatalf("c08: store for node %d: %v", i, err)
		}
		if fault != nil {
			fs, ok := st.(storage.FullStorage)
			if !ok {
				t.Fatalf("c08: store of backend %s is not a FullStorage", backend)
			}
			g := vk.NewGated(c08NodeName(i), fs)
			g.SetHook(fault.hook)
			st = g
		}
		nttl := ttl
		if i < len(nodeTTL) {
			nttl = nodeTTL[i]
		}
		sc := &session.SessionConfig{HeartbeatTimeout: time.Hour, CleanupInterval: time.Hour, MaxConnections: 1000000, MaxControlConnections: 1000000}
		if sweeper {
			sc.HeartbeatTimeout = 150 * time.Millisecond
			sc.CleanupInterval = 40 * time.Millisecond
		} else {
			// the real sweeper runs often, but only connections the harness ages
			// explicitly (sweepCur) are ever stale
			sc.CleanupInterval = 2 * time.Millisecond
		}
		w.nodes = append(w.nodes, newMiniNode(t, miniOpts{NodeID: c08NodeName(i), Store: st, Session: sc, BruteForce: bf, RateLimit: rl, ConnStateTTL: nttl, NoCommands: true}))
	}
	return w
}

func (w *c08World) close() {
	for _, n := range w.nodes {
		n.Close()
	}
	w.be.close()
}

// reset forgets the clients of the previous history (all their connections are closed).
func (w *c08World) reset(nClients int) {
	w.clients = w.clients[:0]
	closed := map[string]string{}
	for i := 0; i < nClients; i++ {
		w.clients = append(w.clients, &c08Client{idx: i, closed: closed})
	}
	w.trace = w.trace[:0]
	w.kinds = w.kinds[:0]
	w.lastEv, w.lastCl = "", -1
	// connections of finished histories are never looked at again
	for _, n := range w.nodes {
		n.mu.Lock()
		n.clients = n.clients[:0]
		n.mu.Unlock()
	}
}

// c08CtlTypes: the values of HandshakeRequest.ConnectionType that the session layer treats
// as a control connection ("control", absent, anything that is not "tunnel").
var c08CtlTypes = []string{"control", "", "main"}

// ctl returns the connection_type of the next control handshake: the variants rotate
// deterministically over all control handshakes of a world, so every scenario is
// exercised with every variant.
func (w *c08World) ctl() string {
	t := c08CtlTypes[w.hsSeq%len(c08CtlTypes)]
	w.hsSeq++
	w.run.Count(fmt.Sprintf("control_handshakes_type=%q", t), 1)
	return t
}

// firstConnect registers a brand-new anonymous client with the given connection_type.
func c08FirstConnect(mc *miniClient, ctype string) (*packet.HandshakeResponse, error) {
	r, err := mc.handshake(&packet.HandshakeRequest{ClientID: 0, Token: "new-client", Version: "3.0", Protocol: "tcp", ConnectionType: ctype})
	if r != nil && r.Success {
		mc.ClientID, mc.Secret = r.ClientID, r.SecretKey
	}
	return r, err
}

func (w *c08World) ev(cl *c08Client, kind, desc string) {
	w.lastEv, w.lastCl = kind, cl.idx
	w.kinds = append(w.kinds, kind)
	w.trace = append(w.trace, fmt.Sprintf("c%d:%s", cl.idx, desc))
}

func (w *c08World) tail() []string {
	t := w.trace
	if len(t) > 60 {
		t = t[len(t)-60:]
	}
	return append([]string(nil), t...)
}

func (w *c08World) harnessError(format string, a ...any) {
	if w.herr == "" {
		w.herr = fmt.Sprintf(format, a...) + " trace=" + strings.Join(w.tail(), ",")
	}
	w.run.Count("harness_errors", 1)
}

// ---------------------------------------------------------------- events

// connect opens a new connection on node and performs a control handshake for cl
// (first-connect path for a fresh client, challenge-response afterwards). Whatever
// connection the client had before is abandoned without the server being told.
func (w *c08World) connect(cl *c08Client, node int) bool {
	w.settleDropped(cl)
	n := w.nodes[node]
	c0 := w.be.sync()
	mc, err := n.Connect("")
	if err != nil {
		w.harnessError("connect on %s: %v", n.NodeID, err)
		return false
	}
	ok := false
	ctype := w.ctl()
	if cl.id == 0 {
		r, herr := c08FirstConnect(mc, ctype)
		if herr == nil && r != nil && r.Success && r.ClientID > 0 {
			cl.id, cl.secret, ok = r.ClientID, r.SecretKey, true
		} else {
			err = fmt.Errorf("first connect: %v %+v", herr, r)
		}
	} else {
		ok, err = mc.Login(cl.id, cl.secret, ctype)
	}
	r0 := time.Now()
	if !ok {
		mc.CloseByPeer()
		w.harnessError("handshake on %s refused: %v", n.NodeID, err)
		return false
	}
	sp := c08Span{c0, r0}
	if cl.cur != nil {
		cl.zombies = append(cl.zombies, cl.cur)
	}
	cl.cur = &c08Conn{mc: mc, node: node, id: mc.ConnID, hs: sp, lastKA: sp, chain: true}
	cl.unsure = ""
	cl.cleaned = 0
	cl.cloudDirty = ""
	cl.active = true
	cl.lastNode = node
	w.ev(cl, "c"+strings.ToUpper(string(rune('a'+node))), fmt.Sprintf("connect[type=%q]@%s=%s", ctype, n.NodeID, mc.ConnID))
	w.run.Count("handshakes", 1)
	if len(cl.zombies) > 0 && cl.zombies[len(cl.zombies)-1].node != node {
		w.run.Count("reconnect_other_node|"+w.be.name, 1)
	}
	return true
}

// relogin repeats the challenge-response on the current connection.
func (w *c08World) relogin(cl *c08Client) bool {
	c := cl.cur
	if c == nil || cl.unsure != "" {
		return false
	}
	c0 := w.be.sync()
	ok, err := c.mc.Login(cl.id, cl.secret, w.ctl())
	r0 := time.Now()
	if !ok {
		if _, alive := w.nodes[c.node].SM.GetConnection(c.id); !alive {
			// the node's sweeper dropped the connection just before the message
			cl.unsure = "current connection dropped by its node"
			w.run.Count("current_dropped_by_node", 1)
			return false
		}
		w.harnessError("re-login on %s refused: %v", w.nodes[c.node].NodeID, err)
		return false
	}
	c.hs = c08Span{c0, r0}
	c.lastKA = c.hs
	c.chain = true
	c.aged = 0
	cl.cloudDirty = ""
	w.ev(cl, "re", "relogin "+c.id)
	w.run.Count("relogins", 1)
	return true
}

func (w *c08World) heartbeat(cl *c08Client) bool {
	c := cl.cur
	if c == nil || cl.unsure != "" {
		return false
	}
	c0 := w.be.sync()
	_ = c.mc.Send(&packet.TransferPacket{PacketType: packet.Heartbeat})
	r0 := time.Now()
	c.mc.DrainRaw()
	if !r0.Before(c.lastKA.c.Add(w.life(c))) {
		// this heartbeat may have arrived after the registration lapsed: a correct
		// server may have nothing left to refresh
		if c.chain {
			w.run.Count("keepalive_chain_broken", 1)
		}
		c.chain = false
	}
	c.lastKA = c08Span{c0, r0}
	w.ev(cl, "hb", "heartbeat "+c.id)
	w.run.Count("heartbeats", 1)
	return true
}

// provisionSpare registers one more identity (first connect, then close) that later
// re-authenticates on other clients' connections.
func (w *c08World) provisionSpare() {
	mc, err := w.nodes[0].Connect("")
	if err != nil {
		w.harnessError("spare identity: connect: %v", err)
		return
	}
	r, herr := mc.FirstConnect()
	if herr != nil || r == nil || !r.Success || r.ClientID == 0 {
		w.harnessError("spare identity: first connect: %v %+v", herr, r)
		return
	}
	w.spareID, w.spareSecret = r.ClientID, r.SecretKey
	mc.CloseByPeer()
}

// takeover: a second successful handshake (real challenge-response) on cl's live current
// connection under ANOTHER client id. From then on `by` is located at that connection
// (its most recent successful handshake); cl no longer owns a connection (the connection
// it had stays open, so until it closes both "not connected" and that connection are
// accepted answers for cl).
func (w *c08World) takeover(cl, by *c08Client) bool {
	c := cl.cur
	if c == nil || cl.unsure != "" || by == cl || by.id == 0 || by.unsure != "" {
		return false
	}
	w.settleDropped(by)
	c0 := w.be.sync()
	ok, err := c.mc.Login(by.id, by.secret, w.ctl())
	r0 := time.Now()
	if !ok {
		if _, alive := w.nodes[c.node].SM.GetConnection(c.id); !alive {
			cl.unsure = "current connection dropped by its node"
			w.run.Count("current_dropped_by_node", 1)
			return false
		}
		w.harnessError("re-login as another client on %s refused: %v", w.nodes[c.node].NodeID, err)
		return false
	}
	if by.cur != nil {
		by.zombies = append(by.zombies, by.cur)
	}
	c.hs = c08Span{c0, r0}
	c.lastKA = c.hs
	c.chain = true
	c.aged = 0
	by.cur, by.cleaned, by.lastNode, by.cloudDirty, by.active = c, 0, c.node, "", true
	cl.cur = nil
	cl.lost = append(cl.lost, c)
	cl.cloudDirty = ""
	w.ev(by, "ri", fmt.Sprintf("relogin-as-c%d on c%d's connection %s@%s", by.idx, cl.idx, c.id, w.nodes[c.node].NodeID))
	w.run.Count("identity_changes|"+w.be.name, 1)
	return true
}

// reloginZombie: the client authenticates again on its newest abandoned (still open)
// connection, which thereby becomes its current connection again.
func (w *c08World) reloginZombie(cl *c08Client) bool {
	if len(cl.zombies) == 0 || cl.unsure != "" {
		return false
	}
	z := cl.zombies[len(cl.zombies)-1]
	c0 := w.be.sync()
	ok, err := z.mc.Login(cl.id, cl.secret, w.ctl())
	r0 := time.Now()
	if !ok {
		// swept meanwhile, or its node already closed its stream when the client
		// re-registered there through a newer connection: nothing to re-login on
		_ = err
		w.run.Count("relogin_on_abandoned_refused", 1)
		return false
	}
	cl.zombies = cl.zombies[:len(cl.zombies)-1]
	if cl.cur != nil {
		cl.zombies = append(cl.zombies, cl.cur)
	}
	z.hs = c08Span{c0, r0}
	z.lastKA = z.hs
	z.chain = true
	z.aged = 0
	cl.cur, cl.cleaned, cl.lastNode, cl.cloudDirty = z, 0, z.node, ""
	w.ev(cl, "rz", fmt.Sprintf("relogin-on-abandoned %s@%s", z.id, w.nodes[z.node].NodeID))
	w.run.Count("relogins_on_abandoned|"+w.be.name, 1)
	return true
}

// ageSession moves the history forward in logical time: the client has been connected on
// its current connection for `age` and has kept heartbeating all along. The stored
// registration is rewritten to exactly what RegisterConnection at (now-age) followed by
// heartbeat refreshes up to now leave behind: CreatedAt = now-age, ExpiresAt = now+lifetime,
// everything else unchanged (same value type, same lifetime as a refresh writes it).
// The reference does not change: the client is still connected there.
func (w *c08World) ageSession(cl *c08Client, age time.Duration) bool {
	c := cl.cur
	if c == nil || cl.unsure != "" {
		return false
	}
	n := w.nodes[c.node]
	w.be.sync()
	info, err := n.ConnSt.GetConnectionState(w.ctx, c.id)
	if err != nil || info == nil {
		w.run.Count("age_no_record", 1)
		return false
	}
	st := w.be.shared
	if w.be.name == "hybrid-pernode" {
		st = w.be.perNode[c.node]
	}
	now := time.Now()
	aged := *info
	aged.CreatedAt = now.Add(-age)
	aged.ExpiresAt = now.Add(w.life(c))
	if err := st.Set("tunnox:conn_state:"+c.id, &aged, w.life(c)); err != nil {
		w.harnessError("age: rewriting the registration of %s: %v", c.id, err)
		return false
	}
	// self-check through the public API: the record every node reads is the aged one
	back, err := w.nodes[(c.node+1)%len(w.nodes)].ConnSt.GetConnectionState(w.ctx, c.id)
	if err != nil || back == nil || back.ConnectionID != c.id || now.Sub(back.CreatedAt) < age-time.Minute {
		w.harnessError("age: the aged registration of %s is not what the store API reads back (%+v, %v)", c.id, back, err)
		return false
	}
	c.aged = age
	c.lastKA = c08Span{now, time.Now()} // the rewrite also renews the lifetime, like a heartbeat refresh
	kind := "ag"
	if age > 48*time.Hour {
		kind = "aG"
	}
	w.ev(cl, kind, fmt.Sprintf("session-aged-by-%s %s", age, c.id))
	w.run.Count("aged_sessions|"+w.be.name, 1)
	return true
}

// heartbeatZombie delivers a late / in-flight heartbeat on an abandoned connection that
// its node has not cleaned up yet. It must not change where the client is found.
func (w *c08World) heartbeatZombie(cl *c08Client, newest bool) bool {
	if len(cl.zombies) == 0 {
		return false
	}
	z := cl.zombies[0]
	kind := "hO"
	if newest {
		z = cl.zombies[len(cl.zombies)-1]
		kind = "hz"
	}
	c0 := w.be.sync()
	_ = z.mc.Send(&packet.TransferPacket{PacketType: packet.Heartbeat})
	r0 := time.Now()
	z.mc.DrainRaw()
	z.lastKA = c08Span{c0, r0}
	w.ev(cl, kind, fmt.Sprintf("late-heartbeat-on-abandoned %s@%s", z.id, w.nodes[z.node].NodeID))
	w.run.Count("zombie_heartbeats|"+w.be.name, 1)
	if cl.cur != nil && cl.cur.node != z.node {
		w.run.Count("zombie_heartbeat_while_current_elsewhere|"+w.be.name, 1)
	}
	return true
}

// c08Age makes a control connection look idle for two hours (white-box: LastActiveAt is
// guarded by the connection's unexported mutex, which is taken properly).
func c08Age(cc *session.ControlConnection) bool {
	v := reflect.ValueOf(cc).Elem()
	f := v.FieldByName("mu")
	if !f.IsValid() || !f.CanAddr() || f.Type() != reflect.TypeOf(sync.RWMutex{}) {
		return false
	}
	mu := (*sync.RWMutex)(unsafe.Pointer(f.UnsafeAddr()))
	mu.Lock()
	cc.LastActiveAt = time.Now().Add(-2 * time.Hour)
	mu.Unlock()
	return true
}

// sweepCur: the client falls silent and the node's real stale-connection sweeper closes
// the client's current (possibly only) connection; the harness then plays the adapter
// (its read loop ends because the node closed the transport -> CloseConnection).
func (w *c08World) sweepCur(cl *c08Client) bool {
	c := cl.cur
	if c == nil || cl.unsure != "" {
		return false
	}
	n := w.nodes[c.node]
	cc := n.SM.GetControlConnection(c.id)
	if cc == nil {
		w.harnessError("sweep: current connection %s not in the registry of %s", c.id, n.NodeID)
		return false
	}
	w.be.sync()
	if !c08Age(cc) {
		w.harnessError("sweep: cannot age the connection (ControlConnection layout changed)")
		return false
	}
	deadline := time.Now().Add(5 * time.Second)
	for !c.mc.ServerClosedTransport() {
		if time.Now().After(deadline) {
			w.run.Count("watchdog_sweep", 1)
			w.harnessError("sweep: the node did not sweep %s within 5 s", c.id)
			return false
		}
		time.Sleep(500 * time.Microsecond)
	}
	// let the sweeper's own CloseConnection finish (its last store operation removes the
	// connection record) before the history goes on: its unregistration is a
	// read-then-delete, and the untimed histories must not race the client's next
	// handshake against it by accident. A tree that never unregisters here is given
	// 100 ms once per world.
	if !w.noSweepUnregister {
		limit := time.Now().Add(100 * time.Millisecond)
		for {
			if _, err := n.ConnSt.GetConnectionState(w.ctx, c.id); err != nil {
				break
			}
			if time.Now().After(limit) {
				w.noSweepUnregister = true
				w.run.Count("sweep_left_connection_record", 1)
				break
			}
			time.Sleep(200 * time.Microsecond)
		}
	}
	c.mc.CloseByPeer()
	cl.closed[c.id] = "swept"
	cl.cur = nil
	w.ev(cl, "sw", fmt.Sprintf("swept-by-node+adapter-cleanup %s@%s", c.id, n.NodeID))
	w.run.Count("current_swept|"+w.be.name, 1)
	if len(cl.zombies) == 0 {
		w.run.Count("last_conn_swept|"+w.be.name, 1)
	}
	return true
}

// settleDropped plays the adapter for a current connection its node dropped on its own:
// from then on the client is not connected.
func (w *c08World) settleDropped(cl *c08Client) {
	c := cl.cur
	if c == nil || cl.unsure == "" {
		return
	}
	c.mc.CloseByPeer()
	cl.closed[c.id] = "swept"
	cl.cur = nil
	cl.unsure = ""
	w.trace = append(w.trace, fmt.Sprintf("c%d:adapter-cleanup of dropped current %s", cl.idx, c.id))
	w.run.Count("current_swept|"+w.be.name, 1)
	if len(cl.zombies) == 0 {
		w.run.Count("last_conn_swept|"+w.be.name, 1)
	}
}

// cleanup lets the node of an abandoned connection finally notice (what the adapter
// read loop / the stale sweeper do: SessionManager.CloseConnection).
func (w *c08World) cleanup(cl *c08Client, newest bool) bool {
	return w.cleanupVia(cl, newest, false)
}

// cleanupVia: with viaCommand the abandoned connection ends with the client's Disconnect
// command still in flight on it (make-before-break move: the client said goodbye on the
// old connection after it had already handshaken elsewhere), then the transport end.
func (w *c08World) cleanupVia(cl *c08Client, newest, viaCommand bool) bool {
	if len(cl.zombies) == 0 {
		return false
	}
	k := 0
	if newest {
		k = len(cl.zombies) - 1
	}
	z := cl.zombies[k]
	cl.zombies = append(cl.zombies[:k], cl.zombies[k+1:]...)
	w.be.sync()
	unexpired := time.Now().Before(z.lastKA.c.Add(w.life(z)))
	if viaCommand {
		_ = z.mc.Send(&packet.TransferPacket{PacketType: packet.JsonCommand, CommandPacket: &packet.CommandPacket{CommandType: packet.Disconnect, CommandId: "c08-bye-old"}})
		w.run.Count("disconnect_cmd_on_abandoned|"+w.be.name, 1)
	}
	z.mc.CloseByPeer()
	cl.closed[z.id] = "late-cleanup"
	cl.cleaned = 1
	kind := "zO"
	if newest {
		kind = "zN"
	}
	if viaCommand {
		kind = "zd"
	}
	w.ev(cl, kind, fmt.Sprintf("late-cleanup %s@%s", z.id, w.nodes[z.node].NodeID))
	if cl.cur != nil && cl.cur.node != z.node && unexpired {
		w.run.Count("reconnect_then_late_cleanup|"+w.be.name, 1)
	}
	w.run.Count("late_cleanups", 1)
	return true
}

// closeCur ends the client's current connection (transport end seen by the node, or a
// Disconnect command followed by the transport end).
func (w *c08World) closeCur(cl *c08Client, viaCommand bool) bool {
	c := cl.cur
	if c == nil {
		return false
	}
	w.be.sync()
	kind := "x"
	if viaCommand {
		kind = "xd"
		_ = c.mc.Send(&packet.TransferPacket{PacketType: packet.JsonCommand, CommandPacket: &packet.CommandPacket{CommandType: packet.Disconnect, CommandId: "c08-bye"}})
	}
	c.mc.CloseByPeer()
	cl.closed[c.id] = "closed"
	cl.cur = nil
	cl.unsure = ""
	w.ev(cl, kind, fmt.Sprintf("close %s@%s", c.id, w.nodes[c.node].NodeID))
	w.run.Count("closes_of_current", 1)
	return true
}

// tunnelConn authenticates a tunnel-type connection of cl on node and closes it again;
// neither step may disturb where the control connection is found.
func (w *c08World) tunnelConn(cl *c08Client, node int) bool {
	if cl.id == 0 {
		return false
	}
	n := w.nodes[node]
	w.be.sync()
	mc, err := n.Connect("")
	if err != nil {
		w.harnessError("connect on %s: %v", n.NodeID, err)
		return false
	}
	if ok, lerr := mc.Login(cl.id, cl.secret, "tunnel"); !ok {
		mc.CloseByPeer()
		w.harnessError("tunnel-type handshake refused: %v", lerr)
		return false
	}
	if cl.cloudDirty == "" {
		// clean tree: a tunnel-type handshake rewrites the client's runtime state to the
		// tunnel connection and closing that connection removes the state. A heartbeat
		// rebuilds a missing state for whichever connection it arrives on (possibly an
		// abandoned one) and afterwards only touches it, so only the next control
		// handshake (ConnectClient) is certain to restore it. Wrong cloud-control answers
		// in between are reported under their own signature (see judgeCloud).
		cl.cloudDirty = "tunnel_conn"
	}
	w.ev(cl, "t"+strings.ToUpper(string(rune('a'+node))), fmt.Sprintf("tunnel-conn@%s=%s", n.NodeID, mc.ConnID))
	w.check()
	mc.CloseByPeer()
	w.trace = append(w.trace, fmt.Sprintf("c%d:tunnel-conn-closed %s", cl.idx, mc.ConnID))
	w.run.Count("tunnel_type_conns", 1)
	return true
}

// closeAll ends every connection of every client (current first).
func (w *c08World) closeAll() {
	for _, cl := range w.clients {
		if cl.cur != nil {
			w.closeCur(cl, false)
			w.check()
		}
		for len(cl.zombies) > 0 {
			w.cleanup(cl, false)
		}
	}
	w.check()
}

// ---------------------------------------------------------------- oracle

type c08Pending struct {
	sig    string
	detail map[string]any
}

// noteSweeps notices connections the node dropped on its own (stale sweeper).
func (w *c08World) noteSweeps() {
	for _, cl := range w.clients {
		for k := 0; k < len(cl.zombies); {
			z := cl.zombies[k]
			if _, ok := w.nodes[z.node].SM.GetConnection(z.id); ok {
				k++
				continue
			}
			cl.zombies = append(cl.zombies[:k], cl.zombies[k+1:]...)
			cl.closed[z.id] = "swept"
			// the sweeper drops the connection from the node's table first and
			// unregisters it afterwards: the effect may show one round later
			cl.cleaned = 2
			z.mc.CloseByPeer() // the adapter's read loop ends as well
			w.trace = append(w.trace, fmt.Sprintf("c%d:swept %s@%s", cl.idx, z.id, w.nodes[z.node].NodeID))
			w.run.Count("zombies_swept_by_node", 1)
			if cl.cur != nil && cl.cur.node != z.node {
				w.run.Count("reconnect_then_sweep|"+w.be.name, 1)
			}
		}
		if c := cl.cur; c != nil && cl.unsure == "" {
			if _, ok := w.nodes[c.node].SM.GetConnection(c.id); !ok {
				cl.unsure = "current connection dropped by its node"
				w.trace = append(w.trace, fmt.Sprintf("c%d:current %s dropped by %s", cl.idx, c.id, w.nodes[c.node].NodeID))
				w.run.Count("current_dropped_by_node", 1)
			}
		}
	}
}

func c08KindClass(kind string) string {
	switch {
	case kind == "hb":
		return "heartbeat"
	case kind == "re" || kind == "ri" || kind == "rz":
		return "relogin"
	case kind == "hz" || kind == "hO":
		return "late-heartbeat"
	case kind == "sw":
		return "sweep"
	case kind == "ag" || kind == "aG" || kind == "a*":
		return "session-aged"
	case strings.HasPrefix(kind, "c"):
		return "connect"
	case strings.HasPrefix(kind, "t"):
		return "tunnel-conn"
	case strings.HasPrefix(kind, "z"):
		return "late-cleanup"
	case strings.HasPrefix(kind, "x"):
		return "close"
	}
	return "start"
}

func c08NotConnected(err error) bool {
	return coreerrors.IsCode(err, coreerrors.CodeNotFound) || coreerrors.IsCode(err, coreerrors.CodeExpired)
}

type c08Answer struct {
	node, conn string
	err        error
	c2, r2     time.Time
}

func (w *c08World) ask(cl *c08Client, ni int) c08Answer {
	var a c08Answer
	a.c2 = time.Now()
	a.node, a.conn, a.err = w.nodes[ni].ConnSt.FindClientNode(w.ctx, cl.id)
	a.r2 = time.Now()
	w.run.Count("lookups", 1)
	return a
}

func (w *c08World) isCurrent(cl *c08Client, a c08Answer) bool {
	c := cl.cur
	return c != nil && a.err == nil && a.node == w.nodes[c.node].NodeID && a.conn == c.id
}

// check asks every node where every client is and judges the answers.
func (w *c08World) check() {
	w.be.sync()
	w.noteSweeps()
	for _, cl := range w.clients {
		w.settleDropped(cl)
	}
	all := make([][]c08Answer, len(w.clients))
	type cloudAnswer struct {
		node string
		err  error
	}
	cloud := make([][]cloudAnswer, len(w.clients))
	for ci, cl := range w.clients {
		if cl.id == 0 || !cl.active {
			continue
		}
		for ni := range w.nodes {
			all[ci] = append(all[ci], w.ask(cl, ni))
		}
		// the cloud-control view of the same question (shared client runtime state)
		for _, n := range w.nodes {
			var a cloudAnswer
			a.node, a.err = n.CC.GetClientNodeID(cl.id)
			cloud[ci] = append(cloud[ci], a)
			w.run.Count("cloud_lookups", 1)
		}
	}
	// what the nodes' own sweepers did while we were asking is taken into account
	// before judging (a node drops a connection from its table before it unregisters it)
	w.noteSweeps()
	for ci, cl := range w.clients {
		for ni, a := range all[ci] {
			if p := w.judge(cl, ni, a); p != nil {
				w.run.Violation(p.sig+w.tag, p.detail)
			}
		}
		for ni, a := range cloud[ci] {
			if p := w.judgeCloud(cl, ni, a.node, a.err); p != nil {
				w.run.Violation(p.sig+w.tag, p.detail)
			}
		}
	}
	for _, cl := range w.clients {
		if cl.cleaned > 0 {
			cl.cleaned--
		}
	}
}

// judgeCloud judges the cloud-control answer (GetClientNodeID: node id, "" = offline)
// with the same reference as the connection-state lookup. The runtime state behind it
// has its own 90 s lifetime, far beyond any history here.
func (w *c08World) judgeCloud(cl *c08Client, asker int, got string, err error) *c08Pending {
	be := w.be.name
	mk := func(sig string, expected string) *c08Pending {
		return &c08Pending{sig: sig, detail: map[string]any{
			"backend": be, "ttl": w.ttl.String(), "sweeper": w.sweeper, "nodes": len(w.nodes),
			"asked_node": w.nodes[asker].NodeID, "client": cl.idx, "trace": w.tail(),
			"view": "CloudControl.GetClientNodeID", "got": fmt.Sprintf("node=%q err=%v", got, err), "expected": expected,
		}}
	}
	if cl.unsure != "" {
		w.run.Count("cloud_unjudged_current_dropped", 1)
		return nil
	}
	// a wrong answer while a tunnel-type handshake of this client happened since its last
	// control handshake gets its own signature: that handshake rewrites the client's
	// runtime state to the tunnel connection and closing the tunnel connection deletes it
	tunnel := func(p *c08Pending) *c08Pending {
		if cl.cloudDirty == "tunnel_conn" {
			p.sig = "C08:cloud-state|tunnel-handshake-erased-control-state|backend=" + be
			p.detail["minimal_witness"] = "control handshake on node X; tunnel-type handshake (ConnectionType=tunnel) of the same client on any node: GetClientNodeID now names the tunnel connection's node; close the tunnel-type connection: GetClientNodeID reports offline although the control connection is alive (a later heartbeat on an abandoned connection can rebuild the state on the wrong node)"
		}
		return p
	}
	c := cl.cur
	if c == nil {
		if err != nil || got == "" {
			w.run.Count("cloud_offline_ok", 1)
			return nil
		}
		for _, z := range cl.zombies {
			if w.nodes[z.node].NodeID == got {
				w.run.Count("cloud_tolerated_abandoned_conn", 1)
				return nil
			}
		}
		for _, z := range cl.lost {
			if w.nodes[z.node].NodeID == got {
				// another identity authenticated on this client's connection: this
				// client no longer has a connection, yet its runtime state survives
				p := mk("C08:cloud-state|replaced-identity-lingers|backend="+be, "offline")
				p.detail["minimal_witness"] = "client X: control handshake on connection c; client Y: successful challenge-response on the same connection c; GetClientNodeID(X) still names c's node, also after c is closed (until the 90 s state lifetime ends)"
				p.detail["connection_now_closed"] = cl.closed[z.id] != ""
				return tunnel(p) // a tunnel-type handshake since then explains it differently
			}
		}
		return tunnel(mk("C08:cloud-state|online-after-close|backend="+be, "offline"))
	}
	want := w.nodes[c.node].NodeID
	switch {
	case err != nil:
		return mk("C08:cloud-state|got=error|backend="+be, want)
	case got == want:
		w.run.Count("cloud_found_ok", 1)
		return nil
	case got == "":
		return tunnel(mk("C08:cloud-state|got=offline|backend="+be, want))
	}
	return tunnel(mk("C08:cloud-state|got=wrong-node|backend="+be, want))
}

func (w *c08World) judge(cl *c08Client, asker int, a c08Answer) *c08Pending {
	gotNode, gotConn, err, c2, r2 := a.node, a.conn, a.err, a.c2, a.r2
	be := w.be.name
	mk := func(sig string, extra map[string]any) *c08Pending {
		d := map[string]any{
			"backend": be, "ttl": w.ttl.String(), "sweeper": w.sweeper, "nodes": len(w.nodes),
			"asked_node": w.nodes[asker].NodeID, "client": cl.idx, "trace": w.tail(),
			"got": fmt.Sprintf("node=%q conn=%q err=%v", gotNode, gotConn, err),
		}
		for k, v := range extra {
			d[k] = v
		}
		return &c08Pending{sig: sig, detail: d}
	}
	if cl.unsure != "" {
		w.run.Count("lookups_unjudged_current_dropped", 1)
		return nil
	}
	c := cl.cur
	if c == nil {
		// not connected (possibly with abandoned connections their nodes still hold)
		switch {
		case err != nil && c08NotConnected(err):
			w.run.Count("lookups_notconnected_ok", 1)
		case err != nil:
			w.run.Count("lookups_notconnected_other_error", 1)
		default:
			for _, z := range cl.lost {
				if z.id == gotConn {
					// the connection now carries another identity (its most recent
					// successful handshake): this client is no longer connected there
					return mk("C08:replaced-identity-lingers|backend="+be, map[string]any{"expected": "not connected",
						"minimal_witness": "client X: control handshake on connection c; client Y: successful challenge-response on the same connection c; FindClientNode(X) still answers (node, c)"})
				}
			}
			if how, was := cl.closed[gotConn]; was {
				sig := "C08:reported-connected-after-close|backend=" + be
				if how == "swept" {
					sig = "C08:reported-connected-after-sweep|backend=" + be
				}
				return mk(sig, map[string]any{"conn_ended_by": how, "expected": "not connected"})
			}
			for _, z := range cl.zombies {
				if z.id == gotConn {
					// the client is gone but that node has not noticed yet: either answer is defensible
					w.run.Count("lookups_tolerated_abandoned_conn", 1)
					return nil
				}
			}
			return mk("C08:reported-connected-after-close|backend="+be, map[string]any{"conn_ended_by": "unknown connection", "expected": "not connected"})
		}
		return nil
	}
	wantNode := w.nodes[c.node].NodeID
	exp := fmt.Sprintf("node=%q conn=%q", wantNode, c.id)
	mustFind := c.chain && r2.Before(c.lastKA.c.Add(w.life(c)))
	if err == nil {
		if gotNode == wantNode && gotConn == c.id {
			w.run.Count("lookups_found_ok", 1)
			if c.aged > 0 {
				w.run.Count("found_ok_long_session|"+be, 1)
			}
			if asker < len(w.nodeTTL) && w.nodeTTL[asker] < w.life(c) {
				w.run.Count("found_ok_reader_with_shorter_lifetime|"+be, 1)
			}
			if mustFind && c2.After(c.hs.r.Add(w.life(c))) {
				w.run.Count("kept_alive_past_ttl|"+be, 1)
			}
			cl.broken = ""
			return nil
		}
		what := "unknown-conn"
		switch {
		case gotConn == c.id:
			what = "wrong-node"
		case cl.closed[gotConn] != "":
			what = "closed-conn"
		default:
			for _, z := range cl.zombies {
				if z.id == gotConn {
					what = "older-conn"
				}
			}
		}
		return mk(fmt.Sprintf("C08:wrong-location|got=%s|backend=%s", what, be), map[string]any{"expected": exp})
	}
	if !mustFind {
		w.run.Count("lookups_tolerated_near_or_past_deadline", 1)
		return nil
	}
	if !c08NotConnected(err) {
		return mk("C08:lookup-error|backend="+be, map[string]any{"expected": exp})
	}
	if asker != c.node {
		// lost for this node only? ask it again, then the node holding the connection:
		// registrations do not come back without a client event, so "still missing here,
		// present there afterwards" cannot be an effect of timing
		if again := w.ask(cl, asker); again.err != nil && c08NotConnected(again.err) && again.r2.Before(c.lastKA.c.Add(w.life(c))) {
			if home := w.ask(cl, c.node); w.isCurrent(cl, home) {
				return mk("C08:not-visible-from-other-node|backend="+be, map[string]any{"expected": exp, "holding_node_finds_it": true})
			}
		}
	}
	if cl.broken == "" {
		switch {
		case c.aged > 0:
			// the registration looks as old as the session is long (> 24 h), lifetime renewed
			cl.broken = "C08:long-session-unlocatable|backend=" + be
		case !r2.Before(c.hs.c.Add(w.life(c))):
			// the lifetime given at the handshake may be over; only heartbeats
			// (delivered in time, see mustFind) stand between the client and expiry
			cl.broken = "C08:expired-despite-heartbeat|backend=" + be
		case w.lastCl == cl.idx && (strings.HasPrefix(w.lastEv, "c") || w.lastEv == "re" || w.lastEv == "ri" || w.lastEv == "rz"):
			cl.broken = "C08:not-registered-after-handshake|backend=" + be
		case cl.cleaned > 0:
			cl.broken = "C08:late-cleanup-erased-current|backend=" + be
		default:
			after := c08KindClass(w.lastEv)
			if w.lastCl != cl.idx {
				after = "other-client-" + after
			}
			cl.broken = fmt.Sprintf("C08:lost-registration|after=%s|backend=%s", after, be)
		}
	}
	return mk(cl.broken, map[string]any{
		"expected":                  exp,
		"since_handshake_returned":  c2.Sub(c.hs.r).String(),
		"since_last_keepalive_call": r2.Sub(c.lastKA.c).String(),
	})
}

// ---------------------------------------------------------------- exhaustive

// alphabet of the enumeration (one client, two nodes)
var c08Alpha = []string{"cA", "cB", "hb", "re", "zO", "zd", "x", "xd", "tB", "hz", "sw", "ri"}

func (w *c08World) apply(cl *c08Client, sym string) bool {
	switch sym {
	case "cA":
		return w.connect(cl, 0)
	case "cB":
		return w.connect(cl, 1)
	case "cC":
		return w.connect(cl, 2)
	case "hb":
		return w.heartbeat(cl)
	case "re":
		return w.relogin(cl)
	case "ri":
		// the other identity of the history re-authenticates on cl's current connection
		return w.takeover(cl, w.clients[1-cl.idx])
	case "rz":
		return w.reloginZombie(cl)
	case "hz":
		return w.heartbeatZombie(cl, true)
	case "hO":
		return w.heartbeatZombie(cl, false)
	case "a*": // 25 h and 72 h alternate over the aging events of a world
		w.ageSeq++
		if w.ageSeq%2 == 0 {
			return w.ageSession(cl, 72*time.Hour)
		}
		return w.ageSession(cl, 25*time.Hour)
	case "ag":
		return w.ageSession(cl, 25*time.Hour)
	case "aG":
		return w.ageSession(cl, 72*time.Hour)
	case "sw":
		return w.sweepCur(cl)
	case "zO":
		return w.cleanup(cl, false)
	case "zN":
		return w.cleanup(cl, true)
	case "zd":
		return w.cleanupVia(cl, true, true)
	case "x":
		return w.closeCur(cl, false)
	case "xd":
		return w.closeCur(cl, true)
	case "tA":
		return w.tunnelConn(cl, 0)
	case "tB":
		return w.tunnelConn(cl, 1)
	case "tC":
		return w.tunnelConn(cl, 2)
	}
	return false
}

func c08NonTrivial(kinds []string) bool {
	connects := 0
	for _, k := range kinds {
		if len(k) == 2 && k[0] == 'c' {
			connects++
		}
		if k == "x" || k == "xd" || k == "sw" || k == "ri" {
			return true
		}
	}
	return connects >= 2
}

func c08Floors(run *vk.Run, names ...string) {
	for _, n := range names {
		for _, b := range c08BackendNames {
			run.Floor(n+"|"+b, 1)
		}
	}
}

func TestVerifC08Exhaustive(t *testing.T) {
	run := vk.Start(t, "C08", "exhaustive")
	defer run.Finish()
	depth := run.Pick(4, 5)
	run.Rule(fmt.Sprintf("per backend (%s), registration lifetime 5 min, two nodes, one fresh client per sequence: every applicable sequence of %d events over {connect@A, connect@B, heartbeat, re-login on current, late cleanup of the oldest abandoned connection, Disconnect command on the newest abandoned connection + its cleanup, close current (transport end), close current (Disconnect command), tunnel-type connection on B, late heartbeat on the newest abandoned connection, current connection closed by the node's real stale sweeper (connection aged white-box) followed by the adapter cleanup, a second provisioned identity re-authenticating (real challenge-response) on the client's current connection}; the connection-state lookup and the cloud-control view (GetClientNodeID) of every node are judged; all nodes looked up after every event and after closing what is left; distinct = backend x event sequence; non-trivial = contains a reconnect or a close", strings.Join(c08BackendNames, ", "), depth))
	// the backends are independent worlds (own store, own nodes): enumerate them side by side
	worlds := make([]*c08World, len(c08BackendNames))
	for i, be := range c08BackendNames {
		worlds[i] = c08NewWorld(t, run, be, c08LongTTL, 2, false)
		worlds[i].provisionSpare()
	}
	var wg sync.WaitGroup
	for i, be := range c08BackendNames {
		w, be := worlds[i], be
		var rec func(seq []string)
		rec = func(seq []string) {
			if run.Violations() > 20 || w.herr != "" {
				return
			}
			if len(seq) == depth {
				run.Case(be, seq)
				w.reset(2)
				cl := w.clients[0]
				w.clients[1].id, w.clients[1].secret = w.spareID, w.spareSecret
				for _, s := range seq {
					if !w.apply(cl, s) {
						w.harnessError("sequence %v: %s not applicable on replay", seq, s)
						return
					}
					w.check()
				}
				w.closeAll()
				run.Eval(1)
				if c08NonTrivial(seq) {
					run.Distinct(be + "|" + strings.Join(seq, ","))
				}
				run.Sample(map[string]any{"backend": be, "events": w.tail()})
				return
			}
			for _, s := range c08Alpha {
				if !c08Applicable(seq, s) {
					continue
				}
				rec(append(append([]string(nil), seq...), s))
			}
		}
		wg.Add(1)
		go func() {
			defer wg.Done()
			rec(nil)
		}()
	}
	wg.Wait()
	for i, w := range worlds {
		herr := w.herr
		w.close()
		if herr != "" {
			t.Fatalf("c08: harness error on backend %s: %s", c08BackendNames[i], herr)
		}
	}
	run.Exhaustive(true)
	c08Floors(run, "reconnect_then_late_cleanup", "reconnect_other_node", "zombie_heartbeat_while_current_elsewhere", "last_conn_swept", "identity_changes")
	run.Floor("lookups_notconnected_ok", 100)
	run.Floor("closes_of_current", 50)
	run.Floor("cloud_found_ok", 1000)
}

// c08Applicable replays the abstract client state over seq and says whether sym can
// be applied next (has a current connection / has an abandoned one).
func c08Applicable(seq []string, sym string) bool {
	cur, zombies, known := false, 0, false
	for _, s := range seq {
		switch {
		case len(s) == 2 && s[0] == 'c':
			if cur {
				zombies++
			}
			cur, known = true, true
		case s == "zO" || s == "zN" || s == "zd":
			zombies--
		case s == "x" || s == "xd" || s == "sw" || s == "ri":
			cur = false
		}
	}
	switch {
	case len(sym) == 2 && sym[0] == 'c':
		return true
	case sym == "hb" || sym == "re" || sym == "x" || sym == "xd" || sym == "sw" || sym == "ri" || sym == "ag" || sym == "aG" || sym == "a*":
		return cur
	case sym == "zO" || sym == "zN" || sym == "zd" || sym == "hz" || sym == "hO":
		return zombies > 0
	case sym[0] == 't':
		return known
	}
	return false
}

// ---------------------------------------------------------------- nodes with different lifetimes

// TestVerifC08MixedLifetimes: the nodes sharing the store are configured with different
// connection-state lifetimes (rolling configuration change): "any node asking the shared
// store" includes a node whose own lifetime is far shorter than that of the node that
// wrote the registration. The lifetime that governs a registration is its writer's.
func TestVerifC08MixedLifetimes(t *testing.T) {
	run := vk.Start(t, "C08", "mixedlifetimes")
	defer run.Finish()
	nh := run.Pick(25, 300)
	ttls := []time.Duration{5 * time.Minute, 30 * time.Second, 2 * time.Second}
	run.Rule(fmt.Sprintf("per backend %d seeded histories (same generator as the random monitor: two clients, 10-40 events) over three nodes sharing the store whose connection-state lifetimes are %v; all nodes looked up after every event (both views); a lookup is demanded to succeed by the interval rule with the lifetime of the node holding the current connection; distinct = backend x event-kind sequence", nh, ttls))
	worlds := make([]*c08World, len(c08BackendNames))
	for i, be := range c08BackendNames {
		worlds[i] = c08NewWorldT(t, run, be, c08LongTTL, 3, false, nil, ttls)
		worlds[i].tag = "|mixed-lifetimes"
	}
	var wg sync.WaitGroup
	for i, be := range c08BackendNames {
		w, be := worlds[i], be
		r := run.Rand("mixed|" + be)
		wg.Add(1)
		go func() {
			defer wg.Done()
			c08RandomHistories(run, w, r, be, nh)
		}()
	}
	wg.Wait()
	for i, w := range worlds {
		herr := w.herr
		w.close()
		if herr != "" {
			t.Fatalf("c08: harness error on backend %s: %s", c08BackendNames[i], herr)
		}
	}
	c08Floors(run, "found_ok_reader_with_shorter_lifetime", "reconnect_other_node")
}

// c08RandomHistories runs nh seeded histories (two clients) in world w.
func c08RandomHistories(run *vk.Run, w *c08World, r *rand.Rand, be string, nh int) {
	for h := 0; h < nh && run.Violations() <= 20 && w.herr == ""; h++ {
		w.reset(2)
		n := 10 + r.Intn(31)
		run.Case(fmt.Sprintf("%s/h%d", be, h), nil)
		for i := 0; i < n && w.herr == ""; i++ {
			cl := w.clients[r.Intn(2)]
			if r.Intn(4) == 0 {
				cl = w.clients[0]
			}
			done := false
			for try := 0; try < 8 && !done; try++ {
				done = w.apply(cl, c08Pick(r, cl))
			}
			if done {
				w.check()
				run.Eval(1)
			}
		}
		kinds := append([]string(nil), w.kinds...)
		w.closeAll()
		if c08NonTrivial(kinds) {
			run.Distinct(be + "|" + strings.Join(kinds, ","))
		}
	}
}

// ---------------------------------------------------------------- long sessions (logical time)

var c08LongAlpha = []string{"cA", "cB", "hb", "re", "zO", "x", "a*"}

func TestVerifC08LongSession(t *testing.T) {
	run := vk.Start(t, "C08", "longsession")
	defer run.Finish()
	const depth = 4
	run.Rule(fmt.Sprintf("per backend, two nodes, lifetime 5 min: every applicable sequence of %d events over {connect@A, connect@B, heartbeat, re-login, late cleanup of the oldest abandoned connection, close, session aged (25 h / 72 h alternating)} that contains an aging event. Aging = logical time: the stored registration of the current connection is rewritten to what a handshake that long ago plus continuous heartbeat refreshes leave behind (CreatedAt in the past, lifetime renewed); the client is still connected, so every node must keep locating it (both views); distinct = backend x sequence", depth))
	worlds := make([]*c08World, len(c08BackendNames))
	for i, be := range c08BackendNames {
		worlds[i] = c08NewWorld(t, run, be, c08LongTTL, 2, false)
	}
	var wg sync.WaitGroup
	for i, be := range c08BackendNames {
		w, be := worlds[i], be
		var rec func(seq []string, hasAge bool)
		rec = func(seq []string, hasAge bool) {
			if run.Violations() > 20 || w.herr != "" {
				return
			}
			if len(seq) == depth {
				if !hasAge {
					return
				}
				run.Case(be, seq)
				w.reset(1)
				cl := w.clients[0]
				for _, s := range seq {
					if !w.apply(cl, s) {
						if s == "a*" {
							continue // no registration to age on this tree: nothing to do
						}
						w.harnessError("sequence %v: %s not applicable on replay", seq, s)
						return
					}
					w.check()
				}
				w.closeAll()
				run.Eval(1)
				run.Distinct(be + "|" + strings.Join(seq, ","))
				run.Sample(map[string]any{"backend": be, "events": w.tail()})
				return
			}
			for _, s := range c08LongAlpha {
				if !c08Applicable(seq, s) {
					continue
				}
				rec(append(append([]string(nil), seq...), s), hasAge || s == "a*")
			}
		}
		wg.Add(1)
		go func() {
			defer wg.Done()
			rec(nil, false)
		}()
	}
	wg.Wait()
	for i, w := range worlds {
		herr := w.herr
		w.close()
		if herr != "" {
			t.Fatalf("c08: harness error on backend %s: %s", c08BackendNames[i], herr)
		}
	}
	c08Floors(run, "aged_sessions", "found_ok_long_session")
}

// ---------------------------------------------------------------- random histories

func TestVerifC08Random(t *testing.T) {
	run := vk.Start(t, "C08", "random")
	defer run.Finish()
	nh := run.Pick(60, 800)
	run.Rule(fmt.Sprintf("per backend %d seeded histories of 10-40 events over two clients and three nodes, registration lifetime 5 min: connect on a random node (reconnects leave the old connection to its node), heartbeat, re-login, late cleanup of the oldest/newest abandoned connection, close of the current connection (transport end / Disconnect command / swept by the node's real stale sweeper), late heartbeats on abandoned connections, re-login on an abandoned connection, re-login of the other client on this client's current connection, tunnel-type connections; all nodes looked up for both clients after every event; distinct = backend x event-kind sequence of a history containing a reconnect or a close", nh))
	worlds := make([]*c08World, len(c08BackendNames))
	for i, be := range c08BackendNames {
		worlds[i] = c08NewWorld(t, run, be, c08LongTTL, 3, false)
	}
	var wg sync.WaitGroup
	for i, be := range c08BackendNames {
		w, be := worlds[i], be
		r := run.Rand("hist|" + be) // one stream per backend: the histories do not depend on scheduling
		wg.Add(1)
		go func() {
			defer wg.Done()
			for h := 0; h < nh && run.Violations() <= 20 && w.herr == ""; h++ {
				w.reset(2)
				n := 10 + r.Intn(31)
				run.Case(fmt.Sprintf("%s/h%d", be, h), nil)
				for i := 0; i < n && w.herr == ""; i++ {
					cl := w.clients[r.Intn(2)]
					if r.Intn(4) == 0 {
						cl = w.clients[0]
					}
					done := false
					for try := 0; try < 8 && !done; try++ {
						sym := c08Pick(r, cl)
						done = w.apply(cl, sym)
					}
					if done {
						w.check()
						run.Eval(1)
					}
				}
				kinds := append([]string(nil), w.kinds...)
				w.closeAll()
				if c08NonTrivial(kinds) {
					run.Distinct(be + "|" + strings.Join(kinds, ","))
				}
				if h < 1 {
					run.Sample(map[string]any{"backend": be, "events": w.tail()})
				}
			}
		}()
	}
	wg.Wait()
	for i, w := range worlds {
		herr := w.herr
		w.close()
		if herr != "" {
			t.Fatalf("c08: harness error on backend %s: %s", c08BackendNames[i], herr)
		}
	}
	c08Floors(run, "reconnect_then_late_cleanup", "reconnect_other_node", "zombie_heartbeat_while_current_elsewhere", "last_conn_swept", "identity_changes", "relogins_on_abandoned")
	run.Floor("lookups_notconnected_ok", 100)
	run.Floor("heartbeats", 100)
	run.Floor("cloud_found_ok", 1000)
}

func c08Pick(r *rand.Rand, cl *c08Client) string {
	node := string(rune('A' + r.Intn(3)))
	x := r.Intn(100)
	switch {
	case cl.cur == nil && x < 60:
		return "c" + node
	case x < 22:
		return "c" + node
	case x < 42:
		return "hb"
	case x < 62:
		switch r.Intn(3) {
		case 0:
			return "zN"
		case 1:
			return "zd"
		}
		return "zO"
	case x < 72:
		return "x"
	case x < 77:
		return "xd"
	case x < 85:
		return "re"
	case x < 90:
		return "t" + node
	case x < 94:
		if r.Intn(2) == 0 {
			return "hO"
		}
		return "hz"
	case x < 96:
		return "sw"
	case x < 97:
		return "rz"
	case x < 98:
		return "ri"
	}
	if r.Intn(2) == 0 {
		return "aG"
	}
	return "ag"
}

// ---------------------------------------------------------------- single storage faults

// located asks every node (both views) without judging: is cl found at its current connection?
func (w *c08World) located(cl *c08Client) (connOK, cloudOK bool, got string) {
	w.be.sync()
	connOK, cloudOK = true, true
	want := w.nodes[cl.cur.node].NodeID
	for ni, n := range w.nodes {
		a := w.ask(cl, ni)
		if !w.isCurrent(cl, a) {
			connOK = false
			got += fmt.Sprintf("[%s: FindClientNode node=%q conn=%q err=%v]", n.NodeID, a.node, a.conn, a.err)
		}
		cn, cerr := n.CC.GetClientNodeID(cl.id)
		w.run.Count("cloud_lookups", 1)
		if cerr != nil || cn != want {
			cloudOK = false
			got += fmt.Sprintf("[%s: GetClientNodeID node=%q err=%v]", n.NodeID, cn, cerr)
		}
	}
	return
}

// handshakeWithFault performs the scenario's handshake with the k-th storage operation of
// the handshake failing once (k = 0: none). Returns operations seen and what failed.
func (w *c08World) handshakeWithFault(f *c08Fault, cl *c08Client, scen string, target string, j int) (order []string, seen map[string]int, fired string, accepted bool) {
	f.arm(target, j)
	switch scen {
	case "connect", "reconnect-other-node":
		node := 0
		if scen == "reconnect-other-node" {
			node = 1
		}
		accepted = w.connectQuiet(cl, node)
	case "relogin":
		c := cl.cur
		c0 := w.be.sync()
		ok, _ := c.mc.Login(cl.id, cl.secret, w.ctl())
		if ok {
			c.hs = c08Span{c0, time.Now()}
			c.lastKA, c.chain = c.hs, true
			w.ev(cl, "re", "relogin "+c.id)
		}
		accepted = ok
	}
	order, seen, fired = f.disarm()
	return
}

// connectQuiet is connect() for fault histories: a refused handshake is an outcome, not a
// harness error (the client keeps whatever connection it had).
func (w *c08World) connectQuiet(cl *c08Client, node int) bool {
	n := w.nodes[node]
	c0 := w.be.sync()
	mc, err := n.Connect("")
	if err != nil {
		return false
	}
	ctype := w.ctl()
	if ok, _ := mc.Login(cl.id, cl.secret, ctype); !ok {
		mc.CloseByPeer()
		w.trace = append(w.trace, fmt.Sprintf("c%d:handshake refused@%s", cl.idx, n.NodeID))
		return false
	}
	sp := c08Span{c0, time.Now()}
	if cl.cur != nil {
		cl.zombies = append(cl.zombies, cl.cur)
	}
	cl.cur = &c08Conn{mc: mc, node: node, id: mc.ConnID, hs: sp, lastKA: sp, chain: true}
	cl.active, cl.lastNode, cl.cloudDirty, cl.cleaned = true, node, "", 0
	w.ev(cl, "c"+strings.ToUpper(string(rune('a'+node))), fmt.Sprintf("connect[type=%q]@%s=%s", ctype, n.NodeID, mc.ConnID))
	return true
}

const c08RecoveryHeartbeats = 3

func TestVerifC08Faults(t *testing.T) {
	run := vk.Start(t, "C08", "faults")
	defer run.Finish()
	scens := []string{"connect", "reconnect-other-node", "relogin"}
	run.Rule(fmt.Sprintf("per backend, two nodes on gated stores, registration lifetime 5 min, one provisioned client per history; scenarios {first control handshake, reconnect on the other node while the old connection is left to its node, re-login on the current connection}; for every storage operation (reads and writes) the handshake performed in a fault-free dry run, identified as j-th occurrence of (operation, key class), that operation fails once; then the fault is over. Bounded-recovery clause judged: if the handshake was accepted (success reply) the client heartbeats on that connection and after at most %d heartbeats every node must locate it at (node, connection) of that handshake in the connection-state lookup and in the cloud-control view; nothing is demanded earlier. After its close: not connected. A refused handshake leaves the reference unchanged. distinct = backend x scenario x failed operation (op + key class)", c08RecoveryHeartbeats))
	type res struct{ herr string }
	worlds := make([]*c08World, len(c08BackendNames))
	faults := make([]*c08Fault, len(c08BackendNames))
	for i, be := range c08BackendNames {
		faults[i] = &c08Fault{}
		worlds[i] = c08NewWorldF(t, run, be, c08LongTTL, 2, false, faults[i])
	}
	var wg sync.WaitGroup
	for i, be := range c08BackendNames {
		w, f, be := worlds[i], faults[i], be
		wg.Add(1)
		go func() {
			defer wg.Done()
			for _, scen := range scens {
				// history prefix up to (excluding) the faulted handshake
				prefix := func() *c08Client {
					w.reset(1)
					cl := w.clients[0]
					// provision the identity without faults
					mc, err := w.nodes[0].Connect("")
					if err != nil {
						w.harnessError("fault history: connect: %v", err)
						return nil
					}
					r, herr := mc.FirstConnect()
					if herr != nil || r == nil || !r.Success {
						w.harnessError("fault history: provisioning: %v", herr)
						return nil
					}
					cl.id, cl.secret = r.ClientID, r.SecretKey
					mc.CloseByPeer()
					if scen != "connect" {
						if !w.connect(cl, 0) {
							return nil
						}
						w.check()
					}
					return cl
				}
				// dry run: how many storage operations does this handshake perform?
				cl := prefix()
				if cl == nil {
					return
				}
				order, seen, _, ok := w.handshakeWithFault(f, cl, scen, "", 0)
				if !ok {
					w.harnessError("fault history: fault-free %s refused", scen)
					return
				}
				w.check()
				w.closeAll()
				type tgt struct {
					id string
					j  int
				}
				var targets []tgt
				nOps := 0
				for _, id := range order {
					for j := 1; j <= seen[id]; j++ {
						targets = append(targets, tgt{id, j})
					}
					nOps += seen[id]
				}
				run.Max("handshake_storage_ops|"+scen, int64(nOps))
				for _, tg := range targets {
					if run.Violations() > 60 || w.herr != "" {
						break
					}
					k := fmt.Sprintf("%s#%d", tg.id, tg.j)
					run.Case(fmt.Sprintf("%s/%s/%s", be, scen, k), nil)
					cl := prefix()
					if cl == nil {
						return
					}
					_, _, fired, accepted := w.handshakeWithFault(f, cl, scen, tg.id, tg.j)
					run.Eval(1)
					if fired == "" {
						run.Count("fault_not_reached", 1)
					} else {
						run.Distinct(be + "|" + scen + "|" + fired)
						run.Count("faults_injected|"+be, 1)
						w.trace = append(w.trace, "FAULT: "+fired+" failed once")
					}
					if !accepted {
						run.Count("fault_handshake_refused", 1)
					} else if fired != "" {
						run.Count("fault_handshake_accepted|"+be, 1)
					}
					if cl.cur != nil {
						recoveredAt := -1
						var connOK, cloudOK bool
						var got string
						for hb := 0; hb <= c08RecoveryHeartbeats; hb++ {
							if hb > 0 {
								w.heartbeat(cl)
							}
							connOK, cloudOK, got = w.located(cl)
							if connOK && cloudOK {
								recoveredAt = hb
								break
							}
						}
						if recoveredAt >= 0 {
							run.Count(fmt.Sprintf("located_after_%d_heartbeats", recoveredAt), 1)
						} else {
							// observation only (no verdict): how long does it last, and does the
							// old node's cleanup of the abandoned connection end it?
							extraHB, afterCleanup := 0, -1
							c1, c2 := connOK, cloudOK
							for ; extraHB < 5 && !(c1 && c2); extraHB++ {
								w.heartbeat(cl)
								c1, c2, _ = w.located(cl)
							}
							stillWrong := !(c1 && c2)
							if stillWrong && len(cl.zombies) > 0 {
								w.cleanup(cl, false)
								for hb := 0; hb <= 2; hb++ {
									if hb > 0 {
										w.heartbeat(cl)
									}
									if a, b, _ := w.located(cl); a && b {
										afterCleanup = hb
										break
									}
								}
							}
							// the fault is injected above the backend, the outcome does not
							// depend on it: the backend is in the detail, not in the signature
							for _, v := range []struct {
								name string
								bad  bool
							}{{"connstate", !connOK}, {"cloud-state", !cloudOK}} {
								if !v.bad {
									continue
								}
								run.Violation(fmt.Sprintf("C08:fault|not-recovered|view=%s|failed=%s|scenario=%s", v.name, c08OrNone(fired), scen), map[string]any{
									"backend": be, "scenario": scen, "target": k, "failed_operation": fired, "handshake_accepted": accepted,
									"heartbeats_after_fault": c08RecoveryHeartbeats, "answers": got,
									"observed_still_wrong_after_heartbeats": c08RecoveryHeartbeats + extraHB, "observed_still_wrong": stillWrong,
									"observed_located_after_old_connection_cleanup_plus_heartbeats": afterCleanup,
									"expected": fmt.Sprintf("node=%q conn=%q", w.nodes[cl.cur.node].NodeID, cl.cur.id), "trace": w.tail(),
								})
							}
						}
						if recoveredAt >= 0 {
							w.check() // from here on the ordinary reference applies
						}
					}
					// end of history: close what is left, then "not connected" is demanded
					for _, c := range w.clients {
						if c.cur != nil {
							c.cur.mc.CloseByPeer()
							c.closed[c.cur.id] = "closed"
							c.cur = nil
						}
						for _, z := range c.zombies {
							z.mc.CloseByPeer()
							c.closed[z.id] = "late-cleanup"
						}
						c.zombies = nil
					}
					w.lastEv, w.lastCl = "x", cl.idx
					w.check()
				}
			}
		}()
	}
	wg.Wait()
	for i, w := range worlds {
		herr := w.herr
		w.close()
		if herr != "" {
			t.Fatalf("c08: harness error on backend %s: %s", c08BackendNames[i], herr)
		}
	}
	c08Floors(run, "faults_injected", "fault_handshake_accepted")
	run.Floor("located_after_1_heartbeats", 1)
}

// ---------------------------------------------------------------- heartbeat in flight vs close / re-login

// TestVerifC08HeartbeatWindow: a heartbeat of connection X is parked inside the handler at
// one of its storage reads (gated store), the competing event runs to completion on the
// same node, then the heartbeat is released; the usual reference is judged at quiescence.
func TestVerifC08HeartbeatWindow(t *testing.T) {
	run := vk.Start(t, "C08", "hbwindow")
	defer run.Finish()
	run.Rule("per backend, two nodes on gated stores, lifetime 5 min: a heartbeat of the client's connection X is held inside handleHeartbeat at {its read of the connection record, its read of the runtime state}; meanwhile {X is closed (last connection), the client re-handshakes on a new connection on the same node (supersedes X)} runs to completion; the heartbeat is released and finishes; then all nodes are looked up (both views) with the ordinary reference, X is cleaned up if still open and all nodes are looked up again; variants: X's location record {present, deleted beforehand = lost/expired}; distinct = backend x hold point x competing event x record variant")
	worlds := make([]*c08World, len(c08BackendNames))
	faults := make([]*c08Fault, len(c08BackendNames))
	for i, be := range c08BackendNames {
		faults[i] = &c08Fault{}
		worlds[i] = c08NewWorldF(t, run, be, c08LongTTL, 2, false, faults[i])
	}
	var wg sync.WaitGroup
	for i, be := range c08BackendNames {
		w, f, be := worlds[i], faults[i], be
		wg.Add(1)
		go func() {
			defer wg.Done()
			for _, hold := range []string{"conn-record", "runtime-state"} {
				for _, other := range []string{"close", "relogin-same-node"} {
					for _, lost := range []bool{false, true} {
						if run.Violations() > 40 || w.herr != "" {
							return
						}
						name := fmt.Sprintf("%s|hold=%s|vs=%s|record-lost-before=%v", be, hold, other, lost)
						run.Case(name, nil)
						w.reset(1)
						cl := w.clients[0]
						if !w.connect(cl, 0) {
							return
						}
						w.heartbeat(cl)
						w.check()
						x := cl.cur
						st, _ := w.be.storeFor(0)
						if w.be.name == "hybrid-pernode" {
							st = w.be.perNode[0]
						}
						if lost {
							// the location record of X is gone (write lost / lifetime over)
							_ = st.Delete("tunnox:conn_state:" + x.id)
							_ = st.Delete(fmt.Sprintf("tunnox:client_conn:%d", cl.id))
							w.trace = append(w.trace, "c0:location record of "+x.id+" lost")
						}
						key := "tunnox:conn_state:" + x.id
						if hold == "runtime-state" {
							key = fmt.Sprintf("tunnox:runtime:client:state:%d", cl.id)
						}
						parked, release := f.holdNextGet(key)
						done := make(chan struct{})
						go func() {
							defer close(done)
							_ = x.mc.Send(&packet.TransferPacket{PacketType: packet.Heartbeat})
						}()
						select {
						case <-parked:
						case <-done:
							// the handler never read that key: no window
							run.Count("window_not_reached", 1)
							f.holdNextGet("")
							close(release)
							w.closeAll()
							continue
						case <-time.After(10 * time.Second):
							run.Count("watchdog", 1)
							close(release)
							<-done
							w.harnessError("heartbeat window %s: heartbeat neither parked nor returned", name)
							return
						}
						w.trace = append(w.trace, fmt.Sprintf("c0:heartbeat %s IN FLIGHT (held at its read of %s)", x.id, hold))
						switch other {
						case "close":
							w.closeCur(cl, false)
						case "relogin-same-node":
							w.connect(cl, 0)
						}
						close(release)
						select {
						case <-done:
						case <-time.After(10 * time.Second):
							run.Count("watchdog", 1)
							w.harnessError("heartbeat window %s: released heartbeat did not return", name)
							return
						}
						x.mc.DrainRaw()
						w.trace = append(w.trace, "c0:heartbeat "+x.id+" completed")
						run.Count("heartbeat_windows|"+be, 1)
						run.Count("heartbeat_windows_vs_"+other, 1)
						w.lastEv, w.lastCl = "hz", cl.idx
						w.tag = fmt.Sprintf("|heartbeat-in-flight(held-at=%s,vs=%s)", hold, other)
						w.check()
						run.Eval(1)
						run.Distinct(name)
						// the superseded connection is cleaned up late; the client must stay locatable
						for len(cl.zombies) > 0 {
							w.cleanup(cl, false)
							w.check()
						}
						if cl.cur != nil {
							w.heartbeat(cl)
							w.check()
						}
						w.closeAll()
						w.tag = ""
					}
				}
			}
		}()
	}
	wg.Wait()
	for i, w := range worlds {
		herr := w.herr
		w.close()
		if herr != "" {
			t.Fatalf("c08: harness error on backend %s: %s", c08BackendNames[i], herr)
		}
	}
	c08Floors(run, "heartbeat_windows")
	run.Floor("heartbeat_windows_vs_close", 10)
	run.Floor("heartbeat_windows_vs_relogin-same-node", 10)
}

// ---------------------------------------------------------------- keep-alive (timed)

type c08KAVariant struct {
	name    string
	ttl     time.Duration
	sweeper bool
}

var c08KAVariants = []c08KAVariant{
	{"ttl300ms-explicit-cleanup", c08ShortTTL, false},
	{"ttl300ms-sweeper", c08ShortTTL, true},
	{"ttl5m-sweeper", c08LongTTL, true},
}

// c08KAScript lays out one timed history: tick -> event ("" = heartbeat).
func c08KAScript(r *rand.Rand, explicit bool) map[int]string {
	s := map[int]string{}
	nodes := []string{"A", "B", "C"}
	cur := r.Intn(3)
	s[0] = "c" + nodes[cur]
	place := func(lo, hi int) {
		p := lo + r.Intn(hi-lo+1)
		nxt := (cur + 1 + r.Intn(2)) % 3
		s[p] = "c" + nodes[nxt]
		cur = nxt
		d := 1 + r.Intn(3)
		if explicit {
			s[p+d] = "zO"
		}
		if d >= 2 && r.Intn(2) == 0 {
			s[p+1] = "hz" // a late heartbeat on the abandoned connection (plus the regular one)
		}
	}
	place(1, 4)
	if r.Intn(3) > 0 {
		place(13, 16)
	}
	if r.Intn(4) == 0 {
		s[9] = "re"
	}
	return s
}

func (w *c08World) runKeepAlive(script map[int]string, ticks int) {
	w.reset(1)
	cl := w.clients[0]
	start := time.Now()
	for k := 0; k < ticks && w.herr == ""; k++ {
		if d := time.Until(start.Add(time.Duration(k) * c08Tick)); d > 0 {
			time.Sleep(d)
		} else if k > 0 {
			w.run.Count("ticks_late", 1)
		}
		sym := script[k]
		if sym == "" {
			sym = "hb"
		}
		if sym == "hz" {
			if w.heartbeatZombie(cl, true) { // not applicable if its node already swept it
				w.check()
			}
			sym = "hb"
		}
		if !w.apply(cl, sym) {
			if cl.cur != nil && cl.unsure == "" {
				w.harnessError("keep-alive script: %s not applicable at tick %d", sym, k)
				return
			}
			// the node dropped the current connection (a heartbeat came too late): reconnect
			if !w.connect(cl, cl.lastNode) {
				return
			}
		}
		w.check()
		w.run.Eval(1)
	}
	if w.sweeper && w.herr == "" {
		// the client falls silent: the node's sweeper closes its last live connection;
		// once the adapter cleanup has been played every node must say "not connected"
		deadline := time.Now().Add(5 * time.Second)
		for cl.cur != nil && cl.unsure == "" {
			if time.Now().After(deadline) {
				w.run.Count("watchdog_final_sweep", 1)
				break
			}
			time.Sleep(10 * time.Millisecond)
			w.be.sync()
			w.noteSweeps()
		}
		if cl.cur != nil && cl.unsure != "" {
			w.trace = append(w.trace, "c0:fell silent until swept")
			w.lastEv, w.lastCl = "sw", cl.idx
			w.check() // settles the dropped connection, then judges
			w.run.Count("silent_client_swept|"+w.be.name, 1)
		}
	}
	w.closeAll()
}

func TestVerifC08KeepAlive(t *testing.T) {
	run := vk.Start(t, "C08", "keepalive")
	defer run.Finish()
	reps := run.Pick(2, 12)
	ticks := 26
	run.Rule(fmt.Sprintf("per backend x {lifetime 300 ms + explicit late cleanup, lifetime 300 ms + real stale sweeper (heartbeat timeout 150 ms, sweep every 40 ms), lifetime 5 min + real stale sweeper} %d timed histories of %d ticks of 60 ms over three nodes: connect, heartbeat on every tick (>= 4 lifetimes), one or two reconnects on another node (the old connection is left to its node), optional re-login, optional late heartbeat on the abandoned connection, final close (sweeper variants: the client falls silent and its last connection is swept by the node first); all nodes looked up after every tick; verdicts by the interval rule only; distinct = backend x variant x script", reps, ticks))
	type job struct {
		be     string
		v      c08KAVariant
		k      int
		script map[int]string
		w      *c08World
	}
	var jobs []*job
	for _, be := range c08BackendNames {
		for _, v := range c08KAVariants {
			for k := 0; k < reps; k++ {
				r := run.Rand(fmt.Sprintf("ka|%s|%s|%d", be, v.name, k))
				jobs = append(jobs, &job{be: be, v: v, k: k, script: c08KAScript(r, !v.sweeper)})
			}
		}
	}
	// worlds are independent (own store, own nodes, own miniredis clock): run a few side by side
	const workers = 6
	for lo := 0; lo < len(jobs) && run.Violations() <= 20; lo += workers {
		hi := lo + workers
		if hi > len(jobs) {
			hi = len(jobs)
		}
		batch := jobs[lo:hi]
		for _, j := range batch {
			j.w = c08NewWorld(t, run, j.be, j.v.ttl, 3, j.v.sweeper)
			run.Case(fmt.Sprintf("%s/%s/%d", j.be, j.v.name, j.k), j.script)
		}
		var wg sync.WaitGroup
		for _, j := range batch {
			wg.Add(1)
			go func(j *job) {
				defer wg.Done()
				j.w.runKeepAlive(j.script, ticks)
			}(j)
		}
		wg.Wait()
		for _, j := range batch {
			keys := make([]string, 0, len(j.script))
			for k := 0; k < ticks; k++ {
				if s := j.script[k]; s != "" {
					keys = append(keys, fmt.Sprintf("%d:%s", k, s))
				}
			}
			run.Distinct(j.be + "|" + j.v.name + "|" + strings.Join(keys, ","))
			if lo == 0 {
				run.Sample(map[string]any{"backend": j.be, "variant": j.v.name, "events": j.w.tail()})
			}
			herr := j.w.herr
			j.w.close()
			if herr != "" {
				t.Fatalf("c08: harness error (%s/%s): %s", j.be, j.v.name, herr)
			}
		}
	}
	// every backend must have been looked up, with an unbroken heartbeat chain, after the
	// lifetime of the original registration had certainly passed — unless lookups fail
	// for another reason on that backend (then a violation is reported anyway)
	for _, b := range c08BackendNames {
		if run.Violations() == 0 {
			run.Floor("kept_alive_past_ttl|"+b, 10)
		}
		run.Floor("reconnect_other_node|"+b, 1)
		run.Floor("silent_client_swept|"+b, 1)
	}
	run.Floor("heartbeats", 200)
}

func c08OrNone(s string) string {
	if s == "" {
		return "none"
	}
	return s
}
