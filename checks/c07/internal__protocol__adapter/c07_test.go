//go:build verif && verif_c07

package adapter

import (
	"context"
	"fmt"
	"strings"
	"testing"
	"time"

	"tunnox-core/internal/core/idgen"
	"tunnox-core/internal/core/storage"
	"tunnox-core/internal/protocol/session"
	vk "tunnox-core/internal/verifkit"
)

// C07 at the adapter boundary: the REAL BaseAdapter.handleConnection / connectionReadLoop /
// cleanupConnection path over an in-memory transport, several adapters feeding one
// SessionManager. A connection that ends must disappear from every lookup and the counts must
// return to the baseline — also when the adapter that accepted it has been closed in the
// meantime while the shared SessionManager keeps running (listener reconfiguration, one
// protocol switched off).

func c07aUntil(cond func() bool) bool {
	deadline := time.Now().Add(15 * time.Second)
	for i := 0; !cond(); i++ {
		time.Sleep(100 * time.Microsecond)
		if i&255 == 255 && time.Now().After(deadline) {
			return false
		}
	}
	return true
}

func TestVerifC07AdapterCleanup(t *testing.T) {
	run := vk.Start(t, "C07", "adapter-cleanup")
	defer run.Finish()
	vk.Quiet()
	rounds := run.Pick(120, 2000)
	variants := []string{"adapter-running", "adapter-closed-then-peer-eof", "peer-eof-then-adapter-closed", "other-adapter-closed"}
	run.Rule(fmt.Sprintf("%d rounds x %v: two TCP adapters share one SessionManager; a connection is handled by the real handleConnection over an in-memory transport, registered and authenticated as a control connection of client X through the session API; per variant the accepting adapter (or the other one) is closed before/after the peer ends the connection; when the handler goroutine has returned: no lookup returns the connection, its transport is closed, counts equal the baseline; distinct = variant x authenticated?", rounds, variants))
	ctx, cancel := context.WithCancel(context.Background())
	defer cancel()
	idm := idgen.NewIDManager(storage.NewMemoryStorage(ctx), ctx)
	sm := session.NewSessionManagerWithConfig(idm, ctx, &session.SessionConfig{HeartbeatTimeout: time.Hour, CleanupInterval: time.Hour})
	defer sm.Close()
	base := sm.GetConnectionStats()
	other := NewTcpAdapter(ctx, sm)
	for rd := 0; rd < rounds && run.Violations() <= 20; rd++ {
		v := variants[rd%len(variants)]
		auth := (rd/len(variants))%2 == 0
		run.Case("adapter-cleanup-round", map[string]any{"round": rd, "variant": v})
		a := NewTcpAdapter(ctx, sm)
		if v == "other-adapter-closed" {
			other = NewTcpAdapter(ctx, sm)
		}
		before := map[string]bool{}
		for _, c := range sm.ListConnections() {
			before[c.ID] = true
		}
		srv, peer := vk.BufPipe(fmt.Sprintf("10.7.9.%d:6000", rd%250+1), "127.0.0.1:7000")
		done := make(chan struct{})
		go func() { defer close(done); a.handleConnection(a, srv) }()
		id := ""
		if !c07aUntil(func() bool {
			for _, c := range sm.ListConnections() {
				if !before[c.ID] {
					id = c.ID
					return true
				}
			}
			return false
		}) {
			run.Count("watchdog_accept", 1)
			peer.Close()
			continue
		}
		x := int64(20000000 + rd)
		if auth {
			if c, ok := sm.GetConnection(id); ok && c.Stream != nil {
				sm.RegisterControlConnection(session.NewControlConnection(id, c.Stream, srv.RemoteAddr(), "tcp"))
				_ = sm.UpdateControlConnectionAuth(id, x, "")
			}
			if k := sm.GetControlConnectionByClientID(x); k == nil || k.ConnID != id {
				t.Fatalf("c07 adapter: precondition: client not indexed")
			}
		}
		switch v {
		case "adapter-closed-then-peer-eof":
			_ = a.Close()
			run.Count("adapter_closed_while_conn_alive", 1)
			peer.Close()
		case "peer-eof-then-adapter-closed":
			peer.Close()
			_ = a.Close()
		case "other-adapter-closed":
			_ = other.Close()
			peer.Close()
		default:
			peer.Close()
		}
		select {
		case <-done:
		case <-time.After(20 * time.Second):
			run.Count("watchdog_handler", 1)
			continue
		}
		run.Count("connections_ended", 1)
		// the handler goroutine (read loop + cleanupConnection) has returned: quiescent
		sig := func(what string) string { return "C07:" + what + "|adapter-boundary|" + v }
		detail := map[string]any{"round": rd, "variant": v, "conn": id, "authenticated": auth, "stats": sm.GetConnectionStats(), "baseline": base}
		if _, ok := sm.GetConnection(id); ok {
			run.Violation(sig("dead-conn-returned|lookup=GetConnection"), detail)
		}
		if sm.GetControlConnection(id) != nil {
			run.Violation(sig("dead-conn-returned|lookup=GetControlConnection"), detail)
		}
		if auth {
			if k := sm.GetControlConnectionByClientID(x); k != nil {
				run.Violation(sig("by-client-returns-dead-conn"), detail)
			}
		}
		for _, k := range sm.GetClientRegistry().List() {
			if k.ConnID == id {
				run.Violation(sig("dead-conn-returned|lookup=List"), detail)
			}
		}
		if !srv.IsClosed() {
			run.Violation(sig("closed-conn-transport-open"), detail)
		}
		if st := sm.GetConnectionStats(); st != base || sm.GetActiveChannels() != 0 {
			run.Violation(sig("counts-not-back-to-baseline"), detail)
			// re-base so that one leak is reported once per variant, not in every later round
			_ = sm.CloseConnection(id)
		}
		run.Eval(1)
		run.Distinct(fmt.Sprintf("%s|auth=%v", v, auth))
	}
	run.Floor("connections_ended", int64(rounds*9/10))
	run.Floor("adapter_closed_while_conn_alive", int64(rounds/5))
	_ = strings.TrimSpace
}
