//go:build verif && verif_c07

package session

import (
	"context"
	"encoding/json"
	"fmt"
	"math/rand"
	"os"
	"reflect"
	"sort"
	"strings"
	"sync"
	"sync/atomic"
	"testing"
	"time"
	"unsafe"

	"tunnox-core/internal/cloud/models"
	"tunnox-core/internal/cloud/stats"
	"tunnox-core/internal/core/idgen"
	"tunnox-core/internal/core/storage"
	"tunnox-core/internal/core/types"
	"tunnox-core/internal/packet"
	"tunnox-core/internal/stream"
	vk "tunnox-core/internal/verifkit"
)

// C07 — the server's view of control connections is consistent, one per client.
//
// Registry/session level. The harness drives the real SessionManager (real
// ClientRegistry, TunnelRegistry, connection lifecycle, handleHandshake,
// handleHeartbeat, handleDisconnectCommand, stale sweep) over in-memory transports
// and plays the protocol adapter: whenever the server closed a connection's
// transport, the harness calls CloseConnection for it and closes the transport, which
// is what adapter.cleanupConnection does when the read loop ends. Authentication is
// replaced by a trivial AuthHandler (token "ok" authenticates as the requested id), so
// that re-authentication of a live connection under another id is one cheap step.
//
// Oracle: an invariant checker (not a model), evaluated after every operation and
// again after the adapter cleanup; see (*c07World).check.

// c07Pipe gives the transport a caller-chosen connection id (CreateConnection honours
// GetConnectionID), so enumeration does not depend on the id generator.
type c07Pipe struct {
	*vk.BufConn
	id         string
	gate       atomic.Pointer[c07Gate]
	closeGate  atomic.Pointer[c07CloseGate]
	failWrites atomic.Bool // transient write error injected (config push)
}

// c07CloseGate makes closing a transport slow (network I/O): while armed, the first Close of a
// transport parks until release is closed. Shared by the transports of one round.
type c07CloseGate struct {
	armed   atomic.Bool
	inClose atomic.Int32
	release chan struct{}
	reg     *ClientRegistry // if set: park only when the registry lock is free (a Close issued while the
	// closer holds the registry lock would merely stall every other registry operation)
}

func (p *c07Pipe) Close() error {
	if g := p.closeGate.Load(); g != nil && g.armed.Load() && !p.BufConn.IsClosed() {
		free := g.reg == nil || c07RegLockFree(g.reg)
		if free {
			g.inClose.Add(1)
			<-g.release
		}
	}
	return p.BufConn.Close()
}

func (p *c07Pipe) GetConnectionID() string { return p.id }

// c07Gate holds back the server's writes on one transport: while armed, a Write parks until
// release is closed and then reports success even if the server closed the transport in the
// meantime (the bytes had already been handed to the kernel when the socket was closed).
type c07Gate struct {
	armed   atomic.Bool
	inWrite atomic.Int32
	release chan struct{}
}

func (p *c07Pipe) Write(b []byte) (int, error) {
	if p.failWrites.Load() {
		return 0, fmt.Errorf("c07: injected transient write error")
	}
	if g := p.gate.Load(); g != nil && g.armed.Load() {
		g.inWrite.Add(1)
		<-g.release
		return len(b), nil
	}
	return p.BufConn.Write(b)
}

// c07Auth authenticates a handshake as req.ClientID iff Token == "ok".
type c07Auth struct{}

func (c07Auth) HandleHandshake(conn ControlConnectionInterface, req *packet.HandshakeRequest) (*packet.HandshakeResponse, error) {
	if req.Token != "ok" {
		return &packet.HandshakeResponse{Success: false, Error: "bad credentials"}, fmt.Errorf("bad credentials")
	}
	conn.SetClientID(req.ClientID)
	conn.SetAuthenticated(true)
	return &packet.HandshakeResponse{Success: true, ClientID: req.ClientID}, nil
}

func (c07Auth) GetClientConfig(conn ControlConnectionInterface) (string, error) { return "", nil }

// c07Cloud is a CloudControlAPI double with fault injection at the cloud-control / storage
// boundary: mode 1 fails every state call, mode 2 every other one, mode 3 follows a seeded
// pattern. The registry invariants must hold whether or not the notification succeeded.
type c07Cloud struct {
	mode    int
	calls   atomic.Int64
	pattern uint64
	run     *vk.Run
}

func (c *c07Cloud) fault(what string) error {
	n := c.calls.Add(1)
	bad := false
	switch c.mode {
	case 1:
		bad = true
	case 2:
		bad = n%2 == 1
	case 3:
		bad = (c.pattern>>(uint(n)%64))&1 == 1
	}
	if bad {
		c.run.Count("cloud_faults_injected", 1)
		if what == "disconnect" {
			c.run.Count("cloud_faults_on_disconnect", 1)
		}
		return fmt.Errorf("c07: injected cloud-control storage fault (%s)", what)
	}
	return nil
}

func (c *c07Cloud) GetPortMapping(string) (*models.PortMapping, error) {
	return nil, fmt.Errorf("c07: no mappings")
}
func (c *c07Cloud) UpdatePortMappingStats(string, *stats.TrafficStats) error { return nil }
func (c *c07Cloud) GetClientPortMappings(int64) ([]*models.PortMapping, error) {
	return nil, nil
}
func (c *c07Cloud) TouchClient(int64)            {}
func (c *c07Cloud) DisconnectClient(int64) error { return c.fault("disconnect") }
func (c *c07Cloud) DisconnectClientIfMatch(int64, string, string) (bool, error) {
	if err := c.fault("disconnect"); err != nil {
		return false, err
	}
	return true, nil
}
func (c *c07Cloud) EnsureClientOnline(int64, string, string, string, string, string) error {
	return c.fault("ensure-online")
}

type c07Conn struct {
	slot    int
	connID  string
	srv     *vk.BufConn  // server end: what the server reads/writes/closes
	peer    *vk.BufConn  // remote end
	cleaned atomic.Bool  // CloseConnection(connID) has returned (adapter cleanup / disconnect / API close)
	aged    atomic.Bool  // LastActiveAt was pushed into the past and no heartbeat was delivered since
	hbAfter atomic.Bool  // a heartbeat was delivered after ageing
	tunnel  atomic.Bool  // converted by Unregister (tunnel conversion)
	everReg atomic.Bool  // the harness saw it registered as a control connection at some point
	regOnce atomic.Bool  // regauth registered it already
	shared  atomic.Bool  // another harness connection carries the same connection id (id reuse)
	ctlAs   atomic.Int64 // identity of its latest successful authentication if that was a control-type handshake, else 0
	stream  interface{}  // the stream AcceptConnection returned (stream.PackageStreamer)
	pipe    *c07Pipe     // the server-side transport object
}

func (c *c07Conn) dead() (bool, string) {
	if c.cleaned.Load() {
		return true, "closed"
	}
	if c.srv.IsClosed() {
		return true, "evicted"
	}
	return false, ""
}

type c07Op struct {
	Kind string
	Slot int // connection slot (-1 = none)
	Cli  int // client index (-1 = none)
}

func (o c07Op) String() string {
	if o.Kind == "reuse" {
		return fmt.Sprintf("reuse(c%d<-id-of-c%d)", o.Slot, o.Cli)
	}
	s := o.Kind
	if o.Slot >= 0 {
		s += fmt.Sprintf("(c%d", o.Slot)
		if o.Cli >= 0 {
			s += fmt.Sprintf(",%c", 'A'+o.Cli)
		}
		return s + ")"
	}
	if o.Cli >= 0 {
		return s + fmt.Sprintf("(%c)", 'A'+o.Cli)
	}
	return s
}

type c07World struct {
	run       *vk.Run
	sm        *SessionManager
	cancel    context.CancelFunc
	clients   []int64
	mu        sync.Mutex // guards slots/all/trace/seq in concurrent runs
	slots     []*c07Conn
	all       map[string]*c07Conn   // every connection of this world by harness key
	byID      map[string][]*c07Conn // ... by connection id (several after an id was reused)
	orphans   []*c07Conn            // concurrent runs: replaced connections whose adapter cleanup is played at the barrier
	seq       int
	trace     []string
	prevReg   map[*c07Conn]bool
	reported  map[string]bool
	left      int // connections that left the registry so far (evicted, closed, swept, converted)
	base      ConnectionStats
	conc      bool // concurrent phase: no per-op checks, no field reads
	regOnly   bool // -race mix: registry/session API calls only (no packet handlers)
	cloudMode int
	direct    bool // UpdateControlConnectionAuth was called directly (bypasses the eviction done by handleHandshake)
}

// Client ids over the int64 range: ordinary 8-digit ids, ids that differ by 2^32 and 2^31,
// ids next to MaxInt64, small ids. The world number selects the set.
var c07ClientIDs = [][]int64{
	{12345678, 12345678 + 1<<32, 12345678 + 1<<31},
	{10000001, 99999999, 55555555},
	{1<<63 - 1, 1<<63 - 1 - 1<<32, 7},
	{87654321 + 3<<32, 87654321, 87654321 + 1<<33},
}

var (
	c07IDMgrOnce sync.Once
	c07IDMgr     *idgen.IDManager
	c07WorldSeq  atomic.Int64
)

// cloudMode: 0 = no cloud control configured, 1 = every call fails, 2 = every other call fails,
// 3 = seeded pattern, 4 = healthy double.
func c07NewWorld(run *vk.Run, nslots, nclients, ctlCap, cloudMode int, pattern uint64) *c07World {
	vk.Quiet()
	c07IDMgrOnce.Do(func() {
		c07IDMgr = idgen.NewIDManager(storage.NewMemoryStorage(context.Background()), context.Background())
	})
	ctx, cancel := context.WithCancel(context.Background())
	cfg := &SessionConfig{HeartbeatTimeout: time.Hour, CleanupInterval: time.Hour, MaxConnections: 0, MaxControlConnections: ctlCap}
	sm := NewSessionManagerWithConfig(c07IDMgr, ctx, cfg)
	sm.SetAuthHandler(c07Auth{})
	if cloudMode != 0 {
		sm.SetCloudControl(&c07Cloud{mode: cloudMode, pattern: pattern, run: run})
		sm.SetNodeID("node-c07")
	}
	w := &c07World{run: run, sm: sm, cancel: cancel, slots: make([]*c07Conn, nslots), all: map[string]*c07Conn{}, byID: map[string][]*c07Conn{}, prevReg: map[*c07Conn]bool{}, reported: map[string]bool{}}
	for i := 0; i < nclients; i++ {
		w.clients = append(w.clients, c07ClientIDs[int(c07WorldSeq.Load())%len(c07ClientIDs)][i])
	}
	w.cloudMode = cloudMode
	w.base = sm.GetConnectionStats()
	w.seq = int(c07WorldSeq.Add(1)) * 1000
	return w
}

func (w *c07World) dispose() {
	w.sm.Close()
	w.cancel()
}

func (w *c07World) log(s string) {
	w.mu.Lock()
	w.trace = append(w.trace, s)
	w.mu.Unlock()
}

func (w *c07World) tail() []string {
	w.mu.Lock()
	defer w.mu.Unlock()
	t := w.trace
	if len(t) > 60 {
		t = t[len(t)-60:]
	}
	return append([]string(nil), t...)
}

func (w *c07World) slot(i int) *c07Conn {
	w.mu.Lock()
	defer w.mu.Unlock()
	if i < 0 || i >= len(w.slots) {
		return nil
	}
	return w.slots[i]
}

func (w *c07World) accept(slot int) *c07Conn {
	w.mu.Lock()
	w.seq++
	id := fmt.Sprintf("k%d-s%d", w.seq, slot)
	w.mu.Unlock()
	srv, peer := vk.BufPipe(fmt.Sprintf("10.7.0.%d:4000", slot+1), "127.0.0.1:7000")
	p := &c07Pipe{BufConn: srv, id: id}
	sc, err := w.sm.AcceptConnection(p, p)
	if err != nil || sc == nil || sc.ID != id {
		w.run.Count("accept_failed", 1)
		srv.Close()
		peer.Close()
		return nil
	}
	c := &c07Conn{slot: slot, connID: id, srv: srv, peer: peer, stream: sc.Stream, pipe: p}
	w.mu.Lock()
	w.slots[slot] = c
	w.all[id] = c
	w.byID[id] = append(w.byID[id], c)
	w.mu.Unlock()
	return c
}

func (w *c07World) handshake(c *c07Conn, id int64, token, ctype string) error {
	b, _ := json.Marshal(&packet.HandshakeRequest{ClientID: id, Token: token, Version: "3.0", Protocol: "tcp", ConnectionType: ctype})
	return w.sm.HandlePacket(&types.StreamPacket{ConnectionID: c.connID, Packet: &packet.TransferPacket{PacketType: packet.Handshake, Payload: b}, Timestamp: time.Now()})
}

// c07SetLastActive writes LastActiveAt under the connection's own (unexported) mutex.
func c07SetLastActive(k *ControlConnection, t time.Time) {
	f := reflect.ValueOf(k).Elem().FieldByName("mu")
	mu := (*sync.RWMutex)(unsafe.Pointer(f.UnsafeAddr()))
	mu.Lock()
	k.LastActiveAt = t
	mu.Unlock()
}

// ownerOf maps a registry entry to the harness connection whose stream it carries.
func (w *c07World) ownerOf(k *ControlConnection) *c07Conn {
	if k == nil {
		return nil
	}
	w.mu.Lock()
	defer w.mu.Unlock()
	cands := w.byID[k.ConnID]
	for _, c := range cands {
		if interface{}(k.Stream) == c.stream {
			return c
		}
	}
	if k.Stream == nil && len(cands) == 1 {
		return cands[0] // the entry's stream was cleared (ControlConnection.Close): identify by id
	}
	return nil
}

// regEntry returns the registry entry that carries c's stream (nil if c is not registered).
func (w *c07World) regEntry(c *c07Conn) *ControlConnection {
	if k := w.sm.GetControlConnection(c.connID); k != nil && interface{}(k.Stream) == c.stream {
		return k
	}
	return nil
}

// reuse: a NEW transport arrives under the connection id of the live registered connection
// src (reconnect with a caller-supplied / reused connection id) and is registered as a
// control connection. SessionManager.AcceptConnection refuses a reused id (the stream
// manager still knows it), so the entry point is RegisterControlConnection with a stream
// from the manager's own factory — the path ClientRegistry.Register handles as
// "already exists, replacing". The replaced connection is evicted: the statement requires
// that no lookup returns it and that its transport is closed.
func (w *c07World) reuse(slot int, src *c07Conn) *c07Conn {
	w.mu.Lock()
	w.seq++
	hkey := fmt.Sprintf("%s#r%d", src.connID, w.seq)
	w.mu.Unlock()
	srv, peer := vk.BufPipe(fmt.Sprintf("10.7.0.%d:4100", slot+1), "127.0.0.1:7000")
	p := &c07Pipe{BufConn: srv, id: src.connID}
	st := w.sm.streamFactory.NewStreamProcessor(p, p)
	c := &c07Conn{slot: slot, connID: src.connID, srv: srv, peer: peer, stream: st}
	c.shared.Store(true)
	src.shared.Store(true)
	c.regOnce.Store(true)
	w.mu.Lock()
	w.slots[slot] = c
	w.all[hkey] = c
	w.byID[src.connID] = append(w.byID[src.connID], c)
	w.mu.Unlock()
	w.sm.RegisterControlConnection(NewControlConnection(src.connID, st, srv.RemoteAddr(), "tcp"))
	w.run.Count("reuse_registered", 1)
	return c
}

// adapterCleanup is adapter.cleanupConnection: CloseConnection, then close the transport.
func (w *c07World) adapterCleanup(c *c07Conn, why string) {
	_, known := w.sm.GetConnection(c.connID)
	_ = w.sm.CloseConnection(c.connID)
	if known && !w.conc && !c.shared.Load() && !c.srv.IsClosed() {
		w.run.Violation("C07:closeconnection-left-transport-open", map[string]any{"conn": c.connID, "trace": w.tail()})
	}
	c.srv.Close()
	c.peer.Close()
	c.cleaned.Store(true)
	w.mu.Lock()
	if w.slots[c.slot] == c {
		w.slots[c.slot] = nil
	}
	w.mu.Unlock()
	w.log("adapter-cleanup(" + c.connID + ") " + why)
}

// reap plays the adapter for every connection whose transport the server closed.
func (w *c07World) reap() int {
	n := 0
	w.mu.Lock()
	orph := w.orphans
	w.orphans = nil
	w.mu.Unlock()
	for _, c := range orph {
		if !c.cleaned.Load() {
			w.adapterCleanup(c, "replaced connection: read loop ended")
			n++
		}
	}
	for again := true; again; {
		again = false
		for i := range w.slots {
			c := w.slot(i)
			if c != nil && c.srv.IsClosed() {
				w.adapterCleanup(c, "transport closed by server")
				n++
				again = true // the cleanup of one connection may close another (shared connection id)
			}
		}
	}
	return n
}

// apply executes one operation. It returns false when the operation is disabled in
// the current state (it would not change anything), so enumeration can prune.
func (w *c07World) apply(op c07Op) bool {
	sm := w.sm
	var c *c07Conn
	if op.Slot >= 0 {
		c = w.slot(op.Slot)
	}
	if op.Kind == "reuse" && w.conc {
		// concurrent runs: the owner replaces its OWN connection (a new transport under the same
		// id in the same slot), so that packets under one connection id still come from one
		// goroutine; the replaced connection's read loop "ends" at the next barrier
		if c == nil || w.regEntry(c) == nil {
			return false
		}
		if d, _ := c.dead(); d {
			return false
		}
		w.log(op.String() + " own")
		c.everReg.Store(true)
		w.mu.Lock()
		w.orphans = append(w.orphans, c)
		w.slots[op.Slot] = nil
		w.mu.Unlock()
		w.reuse(op.Slot, c)
		return true
	}
	if op.Kind == "reuse" {
		// Slot = empty target slot, Cli = source slot whose connection id is reused
		src := w.slot(op.Cli)
		if c != nil || src == nil || op.Cli == op.Slot {
			return false
		}
		if d, _ := src.dead(); d || w.regEntry(src) == nil {
			return false
		}
		w.log(op.String())
		w.reuse(op.Slot, src)
		return true
	}
	var x int64
	if op.Cli >= 0 {
		x = w.clients[op.Cli]
	}
	if op.Kind == "accept" {
		if c != nil {
			return false
		}
		w.log(op.String())
		return w.accept(op.Slot) != nil
	}
	if op.Kind == "sweep" {
		var revived []*c07Conn
		if !w.conc {
			any := false
			for _, k := range sm.GetClientRegistry().List() {
				if cc := w.ownerOf(k); cc != nil && (cc.aged.Load() || cc.hbAfter.Load()) {
					any = true
					if cc.hbAfter.Load() {
						revived = append(revived, cc)
					}
				}
			}
			if !any {
				return false
			}
		}
		w.log(op.String())
		type agedConn struct {
			c    *c07Conn
			auth bool
		}
		var agedBefore []agedConn
		if !w.conc {
			for _, k := range sm.GetClientRegistry().List() {
				if cc := w.ownerOf(k); cc != nil && cc.aged.Load() && !cc.shared.Load() {
					agedBefore = append(agedBefore, agedConn{cc, k.Authenticated})
				}
			}
		}
		n := sm.cleanupStaleConnections()
		w.run.Count("sweep_removed", int64(n))
		// heartbeat timeout: here the server itself closes the connection (the sweep's callback is
		// CloseConnection), no read loop has to end first — so a swept connection, authenticated
		// or not, must be gone from the session's connection map as well right after the sweep
		for _, a := range agedBefore {
			if w.regEntry(a.c) != nil {
				continue
			}
			kind := "unauthenticated"
			if a.auth {
				kind = "authenticated"
			}
			w.run.Count("swept_"+kind, 1)
			if _, ok := sm.GetConnection(a.c.connID); ok {
				w.run.Violation("C07:swept-conn-still-in-session-connmap|conn="+kind, map[string]any{"conn": a.c.connID, "trace": w.tail(), "stats": sm.GetConnectionStats()})
			}
		}
		for _, cc := range revived {
			// aged, then heartbeat, then sweep: counted, not judged (the statement does not say who survives)
			if sm.GetControlConnection(cc.connID) != nil {
				w.run.Count("sweep_spared_heartbeated_conn", 1)
			} else {
				w.run.Count("sweep_removed_heartbeated_conn", 1)
			}
			cc.hbAfter.Store(false)
		}
		return true
	}
	if op.Kind == "kick" {
		newID := ""
		if op.Slot >= 0 {
			if c == nil {
				return false
			}
			newID = c.connID
		}
		cur := sm.GetControlConnectionByClientID(x)
		if cur == nil || cur.GetConnID() == newID {
			if !w.conc {
				return false
			}
		}
		w.log(op.String() + " new=" + newID)
		sm.KickOldControlConnection(x, newID)
		w.run.Count("kick_calls", 1)
		return true
	}
	if c == nil {
		return false
	}
	reg := w.regEntry(c) // the registry entry carrying this connection's stream
	if !w.conc && reg != nil && reg.Authenticated && op.Cli >= 0 && reg.ClientID != x && (op.Kind == "login" || op.Kind == "tlogin" || op.Kind == "auth") {
		w.run.Count("reauth_under_other_id", 1)
	}
	if !w.conc && reg != nil && reg.Authenticated && (op.Kind == "close" || op.Kind == "unreg" || op.Kind == "disc") {
		if cur := sm.GetControlConnectionByClientID(reg.ClientID); cur != nil && cur != reg {
			w.run.Count("older_removed_after_newer_took_index", 1)
		}
	}
	if !w.conc && reg != nil && reg.Authenticated && op.Cli >= 0 && reg.ClientID == x {
		// same identity again: nothing changes if the connection already holds the index (login/auth) / at all (tlogin)
		holds := sm.GetControlConnectionByClientID(x) == reg
		if (op.Kind == "tlogin") || ((op.Kind == "login" || op.Kind == "auth") && holds) {
			return false
		}
	}
	if !w.conc && reg != nil && op.Kind == "fail" {
		return false // a refused handshake on a registered connection changes nothing
	}
	if !w.conc && reg == nil && (op.Kind == "fail" || op.Kind == "login" || op.Kind == "tlogin") {
		if cp := sm.getMaxControlConnections(); cp > 0 && sm.GetClientRegistry().Count() >= cp {
			w.run.Count("register_at_cap", 1)
		}
	}
	switch op.Kind {
	case "login":
		if !w.conc {
			if cur := sm.GetControlConnectionByClientID(x); cur != nil && cur.ConnID != c.connID {
				w.run.Count("duplicate_login_evicting", 1)
			}
		}
		w.log(op.String())
		if w.handshake(c, x, "ok", "control") == nil {
			c.ctlAs.Store(x)
		}
	case "tlogin":
		w.log(op.String())
		if w.handshake(c, x, "ok", "tunnel") == nil {
			c.ctlAs.Store(0)
		}
	case "fail":
		w.log(op.String())
		_ = w.handshake(c, w.clients[0], "bad", "control")
		w.run.Count("failed_handshakes", 1)
	case "auth":
		if reg == nil {
			return false
		}
		w.log(op.String())
		if !w.conc {
			w.direct = true
		}
		c.ctlAs.Store(0)
		_ = sm.UpdateControlConnectionAuth(c.connID, x, "")
	case "age":
		if reg == nil || c.aged.Load() {
			return false
		}
		w.log(op.String())
		c07SetLastActive(reg, time.Now().Add(-3*time.Hour))
		c.aged.Store(true)
		c.hbAfter.Store(false)
	case "hb":
		if !w.conc && (reg == nil || !c.aged.Load()) {
			return false
		}
		w.log(op.String())
		// the ageing flag is cleared before delivery: a sweep overlapping the heartbeat may go either way
		c.aged.Store(false)
		c.hbAfter.Store(true)
		_ = sm.HandlePacket(&types.StreamPacket{ConnectionID: c.connID, Packet: &packet.TransferPacket{PacketType: packet.Heartbeat}, Timestamp: time.Now()})
		w.run.Count("heartbeats", 1)
	case "unreg":
		if reg == nil {
			return false
		}
		w.log(op.String())
		// tunnel conversion: what handleTunnelOpen does with a connection that turns out to carry a tunnel
		// (a connection is registered as a tunnel at most once: after TunnelOpen the real read loop
		// leaves packet mode, so a second registration under the same connection id cannot happen)
		first := !c.tunnel.Swap(true)
		sm.GetClientRegistry().Unregister(c.connID)
		// a connection converted to a tunnel is no control connection any more: no control lookup
		// returns it (only its owner could register it again, and the owner is here)
		if !c.shared.Load() && sm.GetControlConnection(c.connID) != nil {
			w.run.Violation("C07:converted-conn-still-registered|op=unreg", map[string]any{"conn": c.connID, "trace": w.tail(), "registered_as_client": reg.ClientID, "authenticated": reg.Authenticated, "index_holder": sm.GetControlConnectionByClientID(reg.ClientID).GetConnID()})
		}
		if _, ok := sm.GetConnection(c.connID); ok && first {
			tc := NewTunnelConnection(c.connID, c.stream.(stream.PackageStreamer), c.srv.RemoteAddr(), "tcp")
			sm.RegisterTunnelConnection(tc)
			_ = sm.UpdateTunnelConnectionAuth(c.connID, "tun-"+c.connID, "map-1")
		}
		w.run.Count("tunnel_conversions", 1)
	case "close":
		w.adapterCleanup(c, "peer EOF")
	case "disc":
		if reg == nil && !w.conc {
			return false
		}
		w.log(op.String())
		_ = sm.HandlePacket(&types.StreamPacket{ConnectionID: c.connID, Packet: &packet.TransferPacket{PacketType: packet.JsonCommand, CommandPacket: &packet.CommandPacket{CommandType: packet.Disconnect, CommandId: "d"}}, Timestamp: time.Now()})
	case "regauth":
		// registry API only: register (if absent) and authenticate, without the packet handler
		w.log(op.String())
		if reg == nil && !c.regOnce.Swap(true) {
			// registered at most once per connection: re-registering a connection that a sweep is
			// closing right now would make RemoveControlConnection read the new object's fields
			// outside the registry lock (a report outside this property's allowlist)
			sm.RegisterControlConnection(NewControlConnection(c.connID, c.stream.(stream.PackageStreamer), c.srv.RemoteAddr(), "tcp"))
		}
		_ = sm.UpdateControlConnectionAuth(c.connID, x, "")
	case "lookups":
		for _, id := range w.clients {
			_ = sm.GetControlConnectionByClientID(id)
		}
		_ = sm.GetClientRegistry().List()
		_ = sm.GetClientRegistry().ListAuthenticated()
		_ = sm.GetConnectionStats()
	case "loginfw":
		// control login as X whose handshake REPLY cannot be written (transient transport error).
		// Counted, not judged: whichever order the server uses (reply before or after committing the
		// registry update), the resulting states satisfy the statement — the new connection did
		// present valid credentials and is alive, the previous holder (if evicted) is closed and
		// unlisted; that the client lost a working connection for a login it never saw succeed is an
		// availability matter outside this property
		if w.conc || c.pipe == nil {
			return false
		}
		var holder *c07Conn
		if cur := sm.GetControlConnectionByClientID(x); cur != nil {
			if h := w.ownerOf(cur); h != nil && h != c {
				holder = h
			}
		}
		w.log(op.String() + " reply write fails")
		c.pipe.failWrites.Store(true)
		err := w.handshake(c, x, "ok", "control")
		c.pipe.failWrites.Store(false)
		w.run.Count("logins_with_failing_reply", 1)
		if err == nil {
			c.ctlAs.Store(x)
		} else if k := w.regEntry(c); k != nil && k.Authenticated && k.ClientID == x && sm.GetControlConnectionByClientID(x) == k {
			c.ctlAs.Store(x) // committed although the reply failed
			w.run.Count("obs_login_committed_although_reply_failed", 1)
		}
		if holder != nil {
			w.run.Count("logins_with_failing_reply_while_client_online", 1)
			if d, _ := holder.dead(); d {
				w.run.Count("obs_live_holder_evicted_by_login_whose_reply_failed", 1)
			}
		}
	case "notify":
		// configuration push to an online client (NotifyClientUpdate after a mapping change) whose
		// write hits a transient error; needs cloud control (it is dereferenced unconditionally)
		if w.conc || c.pipe == nil || w.cloudMode == 0 || reg == nil || !reg.Authenticated || sm.GetControlConnectionByClientID(reg.ClientID) != reg {
			return false
		}
		w.log(op.String() + " config push with failing write")
		c.pipe.failWrites.Store(true)
		sm.NotifyClientUpdate(reg.ClientID)
		c.pipe.failWrites.Store(false)
		w.run.Count("config_push_write_failures", 1)
	case "apiclose":
		// CloseConnection from outside the connection's own read loop (API / other goroutine)
		w.log(op.String())
		_ = sm.CloseConnection(c.connID)
	default:
		panic("c07: unknown op " + op.Kind)
	}
	return true
}

// viol records a violation once per (class, subject) and world: a bad state that persists is
// attributed to the operation after which it first appeared, not to every later operation.
func (w *c07World) viol(sig string, op c07Op, extra map[string]any) {
	key := strings.SplitN(sig, "|dead=", 2)[0] + fmt.Sprint(extra["conn"], extra["client"])
	if w.reported[key] {
		return
	}
	w.reported[key] = true
	d := map[string]any{"trace": w.tail(), "first_seen_after": op.String(), "class": sig}
	for k, v := range extra {
		d[k] = v
	}
	if strings.Contains(sig, "concurrent-login") || strings.Contains(sig, "interface-lookup") {
		w.run.Violation(sig, d)
		return
	}
	if strings.Contains(sig, "dead") {
		w.run.Violation(strings.SplitN(sig, "|dead=", 2)[0], d)
		return
	}
	w.run.Violation(sig+"|op="+strings.TrimPrefix(op.Kind, "reap-after-"), d)
}

// check evaluates the invariants of the statement on the real state.
//
//	I1 lookup by client id X returns nil or a connection that is not closed/evicted,
//	   is authenticated, has client id X (and is the registered connection of its id);
//	I2 a closed/evicted connection is returned by no lookup (GetControlConnection,
//	   by client, List, ListAuthenticated, tunnel lookups; GetConnection once the
//	   adapter cleanup ran);
//	I3 a connection that left the registry other than by tunnel conversion had its
//	   transport closed by the server.
func (w *c07World) check(op c07Op) {
	sm := w.sm
	reg := sm.GetClientRegistry()
	inList := map[string]*ControlConnection{}
	for _, k := range reg.List() {
		inList[k.ConnID] = k
	}
	inAuth := map[string]*ControlConnection{}
	for _, k := range reg.ListAuthenticated() {
		inAuth[k.ConnID] = k
	}
	// a harness connection is "returned" by a lookup iff the entry carries its stream
	// (after a connection id was reused, two harness connections share one id)
	carries := func(k *ControlConnection, c *c07Conn) bool {
		return k != nil && (interface{}(k.Stream) == c.stream || (k.Stream == nil && !c.shared.Load()))
	}
	if len(inList) != reg.Count() {
		w.viol("C07:count-differs-from-list", op, map[string]any{"count": reg.Count(), "list": len(inList)})
	}
	w.mu.Lock()
	all := make([]*c07Conn, 0, len(w.all))
	for _, c := range w.all {
		all = append(all, c)
	}
	w.mu.Unlock()
	for _, c := range all {
		dead, how := c.dead()
		if !dead {
			continue
		}
		if carries(sm.GetControlConnection(c.connID), c) {
			w.viol("C07:dead-conn-returned|lookup=GetControlConnection|dead="+how, op, map[string]any{"conn": c.connID})
		} else if carries(inList[c.connID], c) {
			w.viol("C07:dead-conn-returned|lookup=List|dead="+how, op, map[string]any{"conn": c.connID})
		}
		if carries(inAuth[c.connID], c) && !carries(inList[c.connID], c) {
			w.viol("C07:dead-conn-returned|lookup=ListAuthenticated|dead="+how, op, map[string]any{"conn": c.connID})
		}
		if c.cleaned.Load() && !c.shared.Load() {
			if _, ok := sm.GetConnection(c.connID); ok {
				w.viol("C07:dead-conn-returned|lookup=GetConnection|dead="+how, op, map[string]any{"conn": c.connID})
			}
			if sm.GetTunnelConnectionByConnID(c.connID) != nil || sm.GetTunnelConnectionByTunnelID("tun-"+c.connID) != nil {
				w.viol("C07:dead-conn-returned|lookup=tunnel|dead="+how, op, map[string]any{"conn": c.connID})
			}
		}
	}
	ids := append([]int64(nil), w.clients...)
	_, indexed := c07IndexAudit(reg)
	for _, k := range indexed {
		known := false
		for _, x := range ids {
			if x == k {
				known = true
			}
		}
		if !known {
			ids = append(ids, k)
		}
	}
	for _, x := range ids {
		k := sm.GetControlConnectionByClientID(x)
		// the interface-returning accessor must agree: "nothing" has to be a nil interface (what its
		// callers test), anything else must hold exactly the connection the typed lookup returns
		if ci := sm.GetControlConnectionInterface(x); ci != nil {
			rv := reflect.ValueOf(ci)
			if rv.Kind() == reflect.Ptr && rv.IsNil() {
				w.viol("C07:interface-lookup-returns-typed-nil-for-absent-client", op, map[string]any{"client": x})
			} else if cc, ok := ci.(*ControlConnection); !ok || cc != k {
				w.viol("C07:interface-lookup-disagrees-with-typed-lookup", op, map[string]any{"client": x})
			}
		} else if k != nil {
			w.viol("C07:interface-lookup-disagrees-with-typed-lookup", op, map[string]any{"client": x})
		}
		if k == nil {
			w.run.Count("absent_client_lookups", 1)
			continue
		}
		c := w.ownerOf(k)
		extra := map[string]any{"client": x, "returned_conn": k.ConnID, "returned_conn_client": k.GetClientID(), "returned_conn_auth": k.IsAuthenticated()}
		if c == nil {
			w.viol("C07:by-client-returns-unknown-conn", op, extra)
			continue
		}
		dead, how := c.dead()
		switch {
		case dead:
			w.viol("C07:by-client-returns-dead-conn|dead="+how, op, extra)
		case !k.IsAuthenticated():
			w.viol("C07:by-client-returns-unauthenticated-conn", op, extra)
		case k.GetClientID() != x:
			w.viol("C07:by-client-returns-conn-of-other-client", op, extra)
		case sm.GetControlConnection(k.ConnID) != k:
			w.viol("C07:by-client-returns-unregistered-conn", op, extra)
		}
	}
	for _, c := range all {
		if !w.prevReg[c] || carries(inList[c.connID], c) {
			continue
		}
		w.left++
		if c.tunnel.Load() {
			continue
		}
		if !c.srv.IsClosed() {
			w.viol("C07:left-registry-transport-open", op, map[string]any{"conn": c.connID})
		} else {
			w.run.Count("removed_with_transport_closed", 1)
		}
	}
	// at most one control connection per client is current: in a quiescent state reached through
	// handshakes only, two live registered connections whose latest authentication was a
	// control-type handshake never carry the same client id (judged in sequential runs only;
	// at barriers the same is judged under the signature suffix concurrent-login)
	if !w.direct {
		per := map[int64][]string{}
		for _, c := range all {
			k := inList[c.connID]
			if d, _ := c.dead(); d || !carries(k, c) {
				continue
			}
			if x := c.ctlAs.Load(); x != 0 && k.Authenticated && k.ClientID == x {
				per[x] = append(per[x], c.connID)
			}
		}
		for x, ids := range per {
			if len(ids) > 1 {
				sort.Strings(ids)
				sig := "C07:two-live-control-conns-for-client"
				if strings.HasPrefix(op.Kind, "barrier") {
					// quiescent state after simultaneous logins: the loser was neither evicted nor is it current
					sig += "|concurrent-login"
				}
				w.viol(sig, op, map[string]any{"client": x, "conns": ids, "by_client_returns": w.sm.GetControlConnectionByClientID(x).GetConnID()})
			}
		}
	}
	w.prevReg = map[*c07Conn]bool{}
	for _, c := range all {
		if carries(inList[c.connID], c) {
			c.everReg.Store(true)
			w.prevReg[c] = true
			continue
		}
		if c.everReg.Load() && !c.tunnel.Load() && !c.cleaned.Load() && !c.srv.IsClosed() {
			w.viol("C07:left-registry-transport-open", op, map[string]any{"conn": c.connID, "rule": "seen registered earlier"})
		}
	}
}

// step = operation, invariants, adapter cleanup, invariants.
func (w *c07World) step(op c07Op) bool {
	before := map[int64]*ControlConnection{}
	for _, x := range w.clients {
		before[x] = w.sm.GetControlConnectionByClientID(x)
	}
	if !w.apply(op) {
		return false
	}
	// counted, not judged (the statement allows a lookup to return nothing): the index entry of X
	// vanished although its holder is still registered, alive and authenticated as X
	for x, k := range before {
		if k == nil || w.sm.GetControlConnectionByClientID(x) != nil {
			continue
		}
		if c := w.ownerOf(k); c != nil && (op.Slot != c.slot || op.Kind == "kick") && op.Kind != "reuse" {
			if d, _ := c.dead(); !d && w.sm.GetControlConnection(k.ConnID) == k && k.Authenticated && k.ClientID == x {
				w.run.Count("obs_index_lost_while_holder_untouched", 1)
			}
		}
	}
	if op.Kind == "login" {
		x := w.clients[op.Cli]
		if k := before[x]; k != nil {
			if c := w.ownerOf(k); c != nil && c.slot != op.Slot {
				if d, _ := c.dead(); !d && w.sm.GetControlConnection(k.ConnID) == k && w.sm.GetControlConnectionByClientID(x) != k {
					w.run.Count("obs_duplicate_login_left_old_conn_registered", 1)
				}
			}
		}
	}
	w.check(op)
	if n := w.reap(); n > 0 {
		w.run.Count("evicted_conns_reaped", int64(n))
		w.run.Count("reaped_after_"+op.Kind, int64(n))
		w.check(c07Op{Kind: "reap-after-" + op.Kind, Slot: -1, Cli: -1})
	}
	return true
}

// finish closes everything that is still open (peer EOF on every connection) and
// compares the counts with the baseline taken before the first connection.
func (w *c07World) finish() {
	w.reap()
	for i := range w.slots {
		if c := w.slot(i); c != nil {
			w.adapterCleanup(c, "final")
		}
	}
	w.check(c07Op{Kind: "final", Slot: -1, Cli: -1})
	st := w.sm.GetConnectionStats()
	reg := w.sm.GetClientRegistry()
	idx, _ := c07IndexAudit(reg)
	if idx < 0 {
		idx = 0 // index not inspectable on this tree: the lookups in check() still cover it
	}
	if st != w.base || reg.Count() != 0 || w.sm.GetActiveChannels() != 0 || idx != 0 {
		w.run.Violation("C07:counts-not-back-to-baseline", map[string]any{"trace": w.tail(), "baseline": w.base, "now": st, "control_count": reg.Count(), "client_index_entries": idx})
	}
}

// ---------------------------------------------------------------------------

func c07Alphabet(nslots, nclients int, reduced bool) []c07Op {
	var out []c07Op
	for s := 0; s < nslots; s++ {
		out = append(out, c07Op{"accept", s, -1}, c07Op{"fail", s, -1}, c07Op{"age", s, -1}, c07Op{"hb", s, -1},
			c07Op{"unreg", s, -1}, c07Op{"close", s, -1})
		if !reduced {
			out = append(out, c07Op{"disc", s, -1}, c07Op{"notify", s, -1})
		}
		for x := 0; x < nclients; x++ {
			out = append(out, c07Op{"login", s, x}, c07Op{"auth", s, x})
			if !reduced {
				out = append(out, c07Op{"tlogin", s, x}, c07Op{"loginfw", s, x})
			}
		}
	}
	for x := 0; x < nclients; x++ {
		for s := -1; s < nslots; s++ {
			if reduced && s > 0 {
				continue
			}
			out = append(out, c07Op{"kick", s, x})
		}
	}
	for s := 0; s < nslots; s++ {
		for src := 0; src < nslots; src++ {
			if src == s || (reduced && !((s == 2 && src == 0) || (s == 0 && src == 1))) {
				continue
			}
			out = append(out, c07Op{"reuse", s, src})
		}
	}
	out = append(out, c07Op{"sweep", -1, -1})
	return out
}

type c07Prefix struct {
	name  string
	cap   int
	cloud int // cloud-control double mode (see c07NewWorld)
	ops   []c07Op
}

func c07Prefixes() []c07Prefix {
	return []c07Prefix{
		{"three-registered-unauth", 0, 0, []c07Op{{"accept", 0, -1}, {"accept", 1, -1}, {"accept", 2, -1}, {"fail", 0, -1}, {"fail", 1, -1}, {"fail", 2, -1}}},
		{"A-on-c0,B-on-c1,c2-accepted|cloud-control-failing", 0, 1, []c07Op{{"accept", 0, -1}, {"accept", 1, -1}, {"accept", 2, -1}, {"login", 0, 0}, {"login", 1, 1}}},
		{"A-on-c0-then-index-taken-by-c1,c2-registered|cloud-control-healthy", 0, 4, []c07Op{{"accept", 0, -1}, {"accept", 1, -1}, {"accept", 2, -1}, {"login", 0, 0}, {"fail", 1, -1}, {"auth", 1, 0}, {"fail", 2, -1}}},
		{"cap2:A-on-c0,B-on-c1,c2-accepted|cloud-control-failing-every-other-call", 2, 2, []c07Op{{"accept", 0, -1}, {"accept", 1, -1}, {"accept", 2, -1}, {"login", 0, 0}, {"login", 1, 1}}},
	}
}

func c07Names(ops []c07Op) string {
	s := make([]string, len(ops))
	for i, o := range ops {
		s[i] = o.String()
	}
	return strings.Join(s, " ")
}

func TestVerifC07RegistryExhaustive(t *testing.T) {
	run := vk.Start(t, "C07", "registry-exhaustive")
	defer run.Finish()
	depth := run.Pick(3, 4)
	full := c07Alphabet(3, 2, false)
	red := c07Alphabet(3, 2, true)
	run.Rule(fmt.Sprintf("every sequence of enabled operations up to depth %d over the reduced alphabet (%d ops: without tunnel-type logins, disconnect commands and most kick targets) and up to depth %d over the full alphabet, over 3 connection slots and clients A,B from %d prefix states (cloud control: none / every call fails / healthy / every other call fails); full alphabet (%d ops): accept, failed handshake, control login as X (real handleHandshake incl. eviction of the previous holder), tunnel-type login as X, UpdateControlConnectionAuth(X), KickOldControlConnection(X,new), age (LastActiveAt into the past), heartbeat, stale sweep, Unregister (tunnel conversion), disconnect command, configuration push with a failing write (NotifyClientUpdate), peer EOF (adapter cleanup), reuse (a new transport registered under the connection id of a live registered connection); an operation that is disabled in the current state (no effect) prunes its subtree; distinct = prefix + operation sequence; non-trivial = at least one connection left the registry", depth, len(red), depth-1, len(c07Prefixes()), len(full)))
	run.Observe("alphabet_full", c07Names(full))
	samples := 0
	var seq []c07Op
	stop := false
	exec := func(p c07Prefix) (lastEnabled bool) {
		w := c07NewWorld(run, 3, 2, p.cap, p.cloud, 0)
		defer w.dispose()
		for _, o := range p.ops {
			if !w.step(o) {
				t.Fatalf("c07: prefix %s: op %s disabled", p.name, o)
			}
		}
		w.log("-- prefix " + p.name + " done")
		left0 := w.left
		for i, o := range seq {
			if !w.step(o) {
				if i != len(seq)-1 {
					t.Fatalf("c07: non-final op %s disabled in %s", o, c07Names(seq))
				}
				return false
			}
		}
		nontrivial := w.left > left0
		w.finish()
		run.Eval(1)
		if nontrivial {
			run.Distinct(p.name + "|" + c07Names(seq))
		}
		if samples < 4 && len(seq) == 3 && seq[0].Kind == "login" && seq[1].Kind == "login" {
			samples++
			run.Sample(w.tail())
		}
		return true
	}
	var rec func(p c07Prefix, alpha []c07Op, d int)
	rec = func(p c07Prefix, alpha []c07Op, d int) {
		for _, o := range alpha {
			if stop {
				return
			}
			seq = append(seq, o)
			run.Case(p.name, c07Names(seq))
			if exec(p) {
				if d > 1 {
					rec(p, alpha, d-1)
				}
			} else {
				run.Count("pruned_disabled", 1)
			}
			seq = seq[:len(seq)-1]
			if run.Violations() > 20 {
				stop = true
			}
		}
	}
	for _, p := range c07Prefixes() {
		seq = seq[:0]
		exec(p)
		// depth over the reduced alphabet, depth-1 over the full one
		rec(p, red, depth)
		rec(p, full, depth-1)
	}
	run.Exhaustive(!stop)
	run.Floor("reauth_under_other_id", 10)
	run.Floor("older_removed_after_newer_took_index", 10)
	run.Floor("sweep_spared_heartbeated_conn", 5)
	run.Floor("duplicate_login_evicting", 10)
	run.Floor("sweep_removed", 10)
	run.Floor("evicted_conns_reaped", 10)
	run.Floor("tunnel_conversions", 10)
	run.Floor("cloud_faults_on_disconnect", 50)
	run.Floor("reuse_registered", 10)
	run.Floor("absent_client_lookups", 100)
	run.Floor("swept_unauthenticated", 5)
	run.Floor("swept_authenticated", 5)
	run.Floor("config_push_write_failures", 20)
}

// ---------------------------------------------------------------------------

func TestVerifC07RegistryRandom(t *testing.T) {
	run := vk.Start(t, "C07", "registry-random")
	defer run.Finish()
	run.Rule("seeded random sequences of 30-100 enabled operations over 4 connection slots and clients A,B,C, control-connection cap 0 (none) or 3, cloud-control double absent / failing always / alternating / seeded pattern / healthy, drawn from the full registry-level alphabet plus CloseConnection from outside the read loop; invariants after every operation and after the adapter cleanup; distinct = 3-grams of executed operation kinds(+same/other-identity flag)")
	r := run.Rand("seq")
	alpha := append(c07Alphabet(4, 3, false), c07Op{"apiclose", 0, -1}, c07Op{"apiclose", 1, -1}, c07Op{"apiclose", 2, -1}, c07Op{"apiclose", 3, -1})
	nseq := run.Pick(2000, 40000)
	for s := 0; s < nseq && run.Violations() <= 20; s++ {
		capv := 0
		if r.Intn(2) == 0 {
			capv = 3
		}
		w := c07NewWorld(run, 4, 3, capv, r.Intn(5), r.Uint64())
		n := 30 + r.Intn(71)
		run.Case("random-sequence", s)
		var grams []string
		for i, tries := 0, 0; i < n && tries < 20*n; tries++ {
			op := alpha[r.Intn(len(alpha))]
			if !w.step(op) {
				continue
			}
			i++
			grams = append(grams, op.Kind)
			if len(grams) >= 3 {
				run.Distinct(strings.Join(grams[len(grams)-3:], ">"))
			}
		}
		w.finish()
		run.Eval(1)
		if s < 2 {
			run.Sample(w.tail())
		}
		w.dispose()
	}
	run.Floor("reauth_under_other_id", 50)
	run.Floor("older_removed_after_newer_took_index", 20)
	run.Floor("duplicate_login_evicting", 50)
	run.Floor("sweep_removed", 20)
	run.Floor("sweep_spared_heartbeated_conn", 3)
	run.Floor("cloud_faults_on_disconnect", 50)
	run.Floor("reuse_registered", 20)
	run.Floor("config_push_write_failures", 50)
	run.Floor("logins_with_failing_reply_while_client_online", 20)
	run.Floor("register_at_cap", 2) // eviction of the oldest connection at the control-connection cap
}

// TestVerifC07RegistryConcurrent runs the operation mix from 8 goroutines. Each
// goroutine owns one connection slot (packets of one connection are handled by one
// read loop) and additionally issues global operations (kick, ageing of any
// connection, sweep, CloseConnection of any connection). Invariants are evaluated
// only at barriers, after the adapter cleanup of every closed transport.
func TestVerifC07RegistryConcurrent(t *testing.T) {
	run := vk.Start(t, "C07", "registry-concurrent")
	defer run.Finish()
	regOnly := os.Getenv("VERIF_RACE") == "1"
	const G = 8
	rounds := run.Pick(1500, 30000)
	if regOnly {
		rounds = run.Pick(300, 1500)
	}
	run.Rule(fmt.Sprintf("%d goroutines x 3 phases x 12 seeded random operations per round over 8 connection slots (one owner each) and clients A,B,C; own-slot operations: accept, reuse of another slot's connection id (not in the -race mix), login/tunnel-login/failed handshake, UpdateControlConnectionAuth, heartbeat, Unregister, disconnect command, peer EOF; global: KickOldControlConnection, ageing, stale sweep, CloseConnection of any slot, lookups; registry-only mix (no packet handlers) when run under -race: %v; cloud-control double mode = round mod 5 (absent, always failing, alternating, seeded pattern, healthy); invariants at barriers after adapter cleanup; distinct = round x phase outcomes (registered set shape)", G, regOnly))
	run.Observe("registry_only_mix", regOnly)
	// (no direct UpdateControlConnectionAuth here: it takes the index without evicting, which would
	// blur the "one current control connection per client" judgement at the barriers)
	ownFull := []string{"reuse", "accept", "accept", "login", "login", "login", "tlogin", "fail", "hb", "hb", "unreg", "disc", "close"}
	ownReg := []string{"accept", "accept", "regauth", "regauth", "regauth", "unreg", "close"}
	global := []string{"kick", "kick", "age", "age", "sweep", "apiclose", "lookups"}
	if regOnly {
		// ageing happens at the barriers in this mix: CleanupStale reads LastActiveAt of a stale
		// connection without the connection's own mutex (client_registry.go:280)
		global = []string{"kick", "kick", "sweep", "lookups"}
	}
	for rd := 0; rd < rounds && run.Violations() <= 20; rd++ {
		capv := 0
		if rd%3 == 2 {
			capv = 5
		}
		w := c07NewWorld(run, G, 3, capv, rd%5, uint64(rd)*0x9E3779B97F4A7C15)
		w.regOnly = regOnly
		run.Case("concurrent-round", rd)
		ok := true
		for ph := 0; ph < 3 && ok; ph++ {
			if regOnly {
				ra := run.Rand(fmt.Sprintf("r%d-p%d-age", rd, ph))
				for _, k := range w.sm.GetClientRegistry().List() {
					if ra.Intn(3) == 0 {
						c07SetLastActive(k, time.Now().Add(-3*time.Hour))
					}
				}
			}
			w.conc = true
			var wg sync.WaitGroup
			for g := 0; g < G; g++ {
				wg.Add(1)
				rg := run.Rand(fmt.Sprintf("r%d-p%d-g%d", rd, ph, g))
				go func(g int, rg *rand.Rand) {
					defer wg.Done()
					for i := 0; i < 12; i++ {
						if c := w.slot(g); c != nil && c.srv.IsClosed() {
							w.adapterCleanup(c, "read loop ended")
						}
						var op c07Op
						if rg.Intn(3) > 0 {
							own := ownFull
							if regOnly {
								own = ownReg
							}
							op = c07Op{own[rg.Intn(len(own))], g, rg.Intn(3)}
							if op.Kind == "reuse" {
								op.Cli = rg.Intn(G) // source slot whose connection id is reused
							}
						} else {
							op = c07Op{global[rg.Intn(len(global))], rg.Intn(G), rg.Intn(3)}
							if op.Kind == "kick" {
								op.Slot = g
								if rg.Intn(3) == 0 {
									op.Slot = -1
								}
							}
						}
						w.apply(op)
					}
				}(g, rg)
			}
			done := make(chan struct{})
			go func() { wg.Wait(); close(done) }()
			select {
			case <-done:
			case <-time.After(30 * time.Second):
				run.Count("watchdog", 1)
				ok = false
				continue
			}
			w.conc = false
			bar := c07Op{Kind: "barrier", Slot: -1, Cli: -1}
			// I3 first (who left the registry with an open transport), then adapter cleanup, then the rest
			w.checkTransportOnly(bar)
			if n := w.reap(); n > 0 {
				run.Count("evicted_conns_reaped", int64(n))
			}
			w.check(bar)
			run.Count("barriers", 1)
			shape := fmt.Sprintf("reg=%d auth=%d idx=%d", w.sm.GetClientRegistry().Count(), len(w.sm.GetClientRegistry().ListAuthenticated()), w.indexEntries())
			run.Distinct(fmt.Sprintf("%d|%s", ph, shape))
			w.observeDuplicates()
		}
		if ok {
			w.finish()
			run.Eval(1)
			run.Count("rounds_completed", 1)
		}
		if rd < 1 {
			run.Sample(w.tail())
		}
		w.dispose()
	}
	run.Floor("rounds_completed", int64(rounds*9/10))
	run.Floor("evicted_conns_reaped", 50)
	run.Floor("kick_calls", 50)
	run.Floor("sweep_removed", 10)
	run.Floor("cloud_faults_on_disconnect", 20)
}

func (w *c07World) indexEntries() int {
	n, _ := c07IndexAudit(w.sm.GetClientRegistry())
	return n
}

// c07IndexAudit reads the registry's private client-id index by reflection, so that the harness
// keeps compiling when the index is re-keyed or renamed: n = number of entries (-1 if there is no
// map field "clientIDMap"), ids = the keys (if integers) and the ClientID of every indexed
// connection. Only called at quiescent points (no registry operation in flight).
func c07IndexAudit(reg *ClientRegistry) (n int, ids []int64) {
	f := reflect.ValueOf(reg).Elem().FieldByName("clientIDMap")
	if !f.IsValid() || f.Kind() != reflect.Map {
		return -1, nil
	}
	n = f.Len()
	for it := f.MapRange(); it.Next(); {
		if k := it.Key(); k.CanInt() {
			ids = append(ids, k.Int())
		} else if k.CanUint() {
			ids = append(ids, int64(k.Uint()))
		}
		if v := it.Value(); v.Kind() == reflect.Ptr && !v.IsNil() && v.Elem().Kind() == reflect.Struct {
			if cf := v.Elem().FieldByName("ClientID"); cf.IsValid() && cf.CanInt() {
				ids = append(ids, cf.Int())
			}
		}
	}
	return n, ids
}

// c07RegLockFree reports whether the registry's lock (private field "mu", if it is a
// sync.RWMutex) is free right now; true if there is no such field.
func c07RegLockFree(reg *ClientRegistry) bool {
	f := reflect.ValueOf(reg).Elem().FieldByName("mu")
	if !f.IsValid() || f.Type() != reflect.TypeOf(sync.RWMutex{}) {
		return true
	}
	mu := (*sync.RWMutex)(unsafe.Pointer(f.UnsafeAddr()))
	if mu.TryLock() {
		mu.Unlock()
		return true
	}
	return false
}

// checkTransportOnly: a connection the harness saw registered, that is no longer
// registered, was not converted to a tunnel and not closed by the harness, must have
// had its transport closed by the server.
func (w *c07World) checkTransportOnly(op c07Op) {
	in := map[string]*ControlConnection{}
	for _, k := range w.sm.GetClientRegistry().List() {
		in[k.ConnID] = k
	}
	w.mu.Lock()
	defer w.mu.Unlock()
	for _, c := range w.all {
		if k := in[c.connID]; k != nil && interface{}(k.Stream) == c.stream {
			c.everReg.Store(true)
			continue
		}
		if c.everReg.Load() && !c.tunnel.Load() && !c.cleaned.Load() && !c.srv.IsClosed() {
			w.run.Violation("C07:left-registry-transport-open|op="+op.Kind, map[string]any{"conn": c.connID, "trace_tail": len(w.trace)})
		}
	}
}

// observeDuplicates counts (does not judge) quiescent states in which two live
// registered connections are authenticated as the same client.
func (w *c07World) observeDuplicates() {
	seen := map[int64]int{}
	for _, k := range w.sm.GetClientRegistry().ListAuthenticated() {
		seen[k.ClientID]++
	}
	for _, n := range seen {
		if n > 1 {
			w.run.Count("obs_two_registered_conns_same_client_at_barrier", 1)
		}
	}
}

var _ = sort.Strings
