//go:build verif && verif_c07

package session

import (
	"fmt"
	"runtime"
	"sync"
	"sync/atomic"
	"testing"
	"time"

	vk "tunnox-core/internal/verifkit"
)

// TestVerifC07RegistryLoginStorm: 2-5 connections complete a control handshake for the SAME
// client at the same moment (spin barrier, seeded spin delays), in a third of the rounds with
// an already registered holder, while closing a transport is slow: the first Close of each
// storm transport parks on a gate, so that other logins for the client run INSIDE the window
// in which one login displaces the previous holder. The gates are opened once no further
// progress is possible or after a seeded number of scheduler yields (exploration only — the
// verdict is taken at quiescence: all handshakes returned, all gates released, adapter cleanup
// played): at most one live registered control connection authenticated as the client, every
// connection that left the registry has its transport closed, counts back to baseline.
func TestVerifC07RegistryLoginStorm(t *testing.T) {
	run := vk.Start(t, "C07", "registry-login-storm")
	defer run.Finish()
	rounds := run.Pick(1500, 30000)
	run.Rule(fmt.Sprintf("%d rounds: n in 2..5 connections log in as client A simultaneously through the real handleHandshake (spin barrier + seeded spin delays, then lined up in the gated write of the handshake response and released together), every third round with a holder of A already registered, every fifth round with a control-connection cap; Close of the storm transports is gated (parks until released, unless issued under the registry lock); gates are released when all handshakes have returned or after a seeded number of yields following the first parked Close; odd rounds are the deterministic form (see c07StormDirect): holder c0 with a slow Close, UpdateAuthExclusive(c1,A) parks in the displacement of c0, 1-3 further logins for A (registry API or full handshake) complete inside that window, then the gate opens; invariants at quiescence; floor: rounds in which a login for A completed while a displacement Close was parked; distinct = (n, holder, cap, number of survivors, logins completed inside the window)", rounds))
	r := run.Rand("storm")
	for rd := 0; rd < rounds && run.Violations() <= 20; rd++ {
		if rd%2 == 1 {
			c07StormDirect(t, run, rd, r.Intn(3)+1, r.Intn(2) == 0)
			continue
		}
		n := 2 + r.Intn(4)
		holder := rd%3 == 0
		capv := 0
		if rd%5 == 4 {
			capv = 3
		}
		w := c07NewWorld(run, n+1, 2, capv, rd%5, uint64(rd)*0x9E3779B97F4A7C15)
		run.Case("login-storm-round", map[string]any{"round": rd, "n": n, "holder": holder})
		if holder {
			w.step(c07Op{"accept", 0, -1})
			w.step(c07Op{"login", 0, 0})
		}
		g := &c07CloseGate{release: make(chan struct{}), reg: w.sm.GetClientRegistry()}
		g.armed.Store(true)
		// all handshakes are first lined up in the (gated) write of their response, then let go
		// together, so that they reach the registry update at the same moment
		wgate := &c07Gate{release: make(chan struct{})}
		wgate.armed.Store(true)
		conns := make([]*c07Conn, 0, n)
		for i := 1; i <= n; i++ {
			c := w.accept(i)
			if c == nil {
				t.Fatalf("c07 storm: accept")
			}
			c.pipe.closeGate.Store(g)
			c.pipe.gate.Store(wgate)
			conns = append(conns, c)
		}
		w.conc = true
		var start, finished atomic.Int32
		var wg sync.WaitGroup
		for i, c := range conns {
			wg.Add(1)
			delay := r.Intn(1 + []int{0, 30, 300, 3000}[r.Intn(4)])
			go func(i int, c *c07Conn, delay int) {
				defer wg.Done()
				start.Add(1)
				for k := 0; start.Load() < int32(n); k++ {
					if k&255 == 255 {
						runtime.Gosched()
					}
				}
				x := 0
				for k := 0; k < delay; k++ {
					x += k
				}
				_ = x
				if w.handshake(c, w.clients[0], "ok", "control") == nil {
					c.ctlAs.Store(w.clients[0])
				}
				finished.Add(1)
			}(i, c, delay)
		}
		if !c07Until(func() bool { return wgate.inWrite.Load() >= int32(n) }) {
			run.Count("watchdog_lineup", 1)
		}
		close(wgate.release)
		// release policy (exploration, not verdict)
		yields := 50 + r.Intn(2000)
		inside := int32(0)
		parkedSeen := false
		var finAtPark int32
		deadline := time.Now().Add(20 * time.Second)
		for k := 0; ; k++ {
			if finished.Load() == int32(n) {
				break
			}
			if !parkedSeen && g.inClose.Load() > 0 {
				parkedSeen = true
				finAtPark = finished.Load()
			}
			if parkedSeen {
				yields--
				if yields <= 0 {
					break
				}
			}
			runtime.Gosched()
			if k&4095 == 4095 && time.Now().After(deadline) {
				run.Count("watchdog_storm", 1)
				break
			}
		}
		if parkedSeen {
			inside = finished.Load() - finAtPark
			run.Count("rounds_with_parked_close", 1)
			if inside > 0 {
				run.Count("rounds_with_login_completed_inside_window", 1)
			}
		}
		g.armed.Store(false)
		close(g.release)
		doneCh := make(chan struct{})
		go func() { wg.Wait(); close(doneCh) }()
		select {
		case <-doneCh:
		case <-time.After(30 * time.Second):
			run.Count("watchdog_storm_join", 1)
			continue
		}
		w.conc = false
		bar := c07Op{Kind: "barrier", Slot: -1, Cli: -1}
		w.checkTransportOnly(bar)
		w.reap()
		w.check(bar)
		survivors := 0
		for _, k := range w.sm.GetClientRegistry().ListAuthenticated() {
			if k.ClientID == w.clients[0] {
				survivors++
			}
		}
		run.Distinct(fmt.Sprintf("n=%d holder=%v cap=%d survivors=%d inside=%d", n, holder, capv, survivors, inside))
		w.finish()
		run.Eval(1)
		w.dispose()
	}
	run.Floor("rounds_with_login_completed_inside_window", int64(rounds/4))
}

// c07StormDirect is the deterministic form of the displacement window, at the registry API
// (what handleHandshake does once its own look-up saw no previous holder): A is held by c0 whose
// transport is slow to close; UpdateAuthExclusive(c1, A) displaces c0 and parks in c0's Close;
// while it is parked, m further connections take the index for A one after the other (each of
// them completes inside the window); then the gate opens. Quiescence checks as in the storm.
func c07StormDirect(t *testing.T, run *vk.Run, rd, m int, viaHandshake bool) {
	w := c07NewWorld(run, m+2, 2, 0, rd%5, uint64(rd)*0x9E3779B97F4A7C15)
	defer w.dispose()
	run.Case("login-storm-direct-round", map[string]any{"round": rd, "m": m, "later_logins_via_handshake": viaHandshake})
	a := w.clients[0]
	w.step(c07Op{"accept", 0, -1})
	w.step(c07Op{"login", 0, 0})
	for i := 1; i <= m+1; i++ {
		w.step(c07Op{"accept", i, -1})
		w.step(c07Op{"fail", i, -1}) // registered, not authenticated: the state right after the auth handler ran
	}
	c0 := w.slot(0)
	g := &c07CloseGate{release: make(chan struct{})}
	g.armed.Store(true)
	c0.pipe.closeGate.Store(g)
	take := func(c *c07Conn) {
		if k := w.regEntry(c); k != nil {
			k.SetClientID(a) // what the auth handler does before the registry is updated
			k.SetAuthenticated(true)
		}
		if _, err := w.sm.GetClientRegistry().UpdateAuthExclusive(c.connID, a, ""); err == nil {
			c.ctlAs.Store(a)
		}
	}
	w.conc = true
	done := make(chan struct{})
	c1 := w.slot(1)
	w.log("UpdateAuthExclusive(c1,A) started; Close of the displaced c0 gated")
	go func() { defer close(done); take(c1) }()
	returned := func() bool {
		select {
		case <-done:
			return true
		default:
			return false
		}
	}
	if !c07Until(func() bool { return g.inClose.Load() >= 1 || returned() }) || g.inClose.Load() < 1 {
		// the displaced connection's transport was never closed (or closed elsewhere): judged below
		run.Count("direct_close_not_parked", 1)
	} else {
		run.Count("rounds_with_parked_close", 1)
		for i := 2; i <= m+1; i++ {
			c := w.slot(i)
			if viaHandshake {
				w.log(fmt.Sprintf("login(c%d,A) inside the window", i))
				if w.handshake(c, a, "ok", "control") == nil {
					c.ctlAs.Store(a)
				}
			} else {
				w.log(fmt.Sprintf("UpdateAuthExclusive(c%d,A) inside the window", i))
				take(c)
			}
		}
		run.Count("rounds_with_login_completed_inside_window", 1)
	}
	g.armed.Store(false)
	close(g.release)
	select {
	case <-done:
	case <-time.After(30 * time.Second):
		run.Count("watchdog_storm_join", 1)
		return
	}
	w.conc = false
	bar := c07Op{Kind: "barrier", Slot: -1, Cli: -1}
	w.checkTransportOnly(bar)
	w.reap()
	w.check(bar)
	survivors := 0
	for _, k := range w.sm.GetClientRegistry().ListAuthenticated() {
		if k.ClientID == a {
			survivors++
		}
	}
	run.Distinct(fmt.Sprintf("direct m=%d viaHandshake=%v survivors=%d", m, viaHandshake, survivors))
	w.finish()
	run.Eval(1)
}
