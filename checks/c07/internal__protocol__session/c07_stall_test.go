//go:build verif && verif_c07

package session

import (
	"fmt"
	"io"
	"runtime"
	"strings"
	"sync"
	"sync/atomic"
	"testing"
	"time"

	vk "tunnox-core/internal/verifkit"
)

// c07Stall is a transport whose peer has stalled: Read parks until the transport is
// closed (an adapter read loop waiting for the next packet), Write succeeds until
// stall() and from then on parks until the transport is closed (send buffer full,
// peer not reading). It is deliberately NOT a net.Conn, like the wrapped transports
// of some adapters, so CloseConnection has no RawConn to fall back on.
type c07Stall struct {
	id      string
	mu      sync.Mutex
	cond    *sync.Cond
	stalled bool
	closed  bool
	closes  atomic.Int64
	inWrite atomic.Int32
	inRead  atomic.Int32
}

func c07NewStall(id string) *c07Stall {
	s := &c07Stall{id: id}
	s.cond = sync.NewCond(&s.mu)
	return s
}

func (s *c07Stall) GetConnectionID() string { return s.id }

func (s *c07Stall) Read(p []byte) (int, error) {
	s.mu.Lock()
	defer s.mu.Unlock()
	s.inRead.Add(1)
	defer s.inRead.Add(-1)
	for !s.closed {
		s.cond.Wait()
	}
	return 0, io.ErrClosedPipe
}

func (s *c07Stall) Write(p []byte) (int, error) {
	s.mu.Lock()
	defer s.mu.Unlock()
	if s.closed {
		return 0, io.ErrClosedPipe
	}
	if !s.stalled {
		return len(p), nil
	}
	s.inWrite.Add(1)
	defer s.inWrite.Add(-1)
	for !s.closed {
		s.cond.Wait()
	}
	return 0, io.ErrClosedPipe
}

func (s *c07Stall) Close() error {
	s.closes.Add(1)
	s.mu.Lock()
	s.closed = true
	s.cond.Broadcast()
	s.mu.Unlock()
	return nil
}

func (s *c07Stall) stall() {
	s.mu.Lock()
	s.stalled = true
	s.mu.Unlock()
}

// c07AuthPush is c07Auth with a non-empty client configuration, so that the real
// pushConfigToClient writes a ConfigSet packet to the client's control stream.
type c07AuthPush struct{ c07Auth }

func (c07AuthPush) GetClientConfig(conn ControlConnectionInterface) (string, error) {
	return `{"mappings":[{"mapping_id":"m1","local_port":8080}]}`, nil
}

// c07MarkedEvictor only marks the goroutine of an operation in goroutine dumps.
//
//go:noinline
func c07MarkedEvictor(f func()) { f() }

// c07RunParked runs f in a goroutine. Outcome "returned": f returned. Outcome "parked": the
// goroutine is blocked (not running/runnable) in identical frames in 3 consecutive dumps
// 100 ms apart while endpoints() — the harness-side state that could unblock it — did not
// change: a state that cannot change without external input. Outcome "watchdog": neither
// within 60 s (inconclusive). where = the parked goroutine's leading frames.
func c07RunParked(f func(), endpoints func() string) (outcome string, done chan struct{}, where string) {
	done = make(chan struct{})
	go func() {
		defer close(done)
		c07MarkedEvictor(f)
	}()
	// fast path
	for i := 0; i < 40; i++ {
		select {
		case <-done:
			return "returned", done, ""
		case <-time.After(250 * time.Microsecond):
		}
	}
	last, same := "", 0
	for i := 0; i < 600; i++ {
		select {
		case <-done:
			return "returned", done, ""
		case <-time.After(100 * time.Millisecond):
		}
		sig := ""
		for _, g := range vk.Goroutines() {
			if !strings.Contains(g.Stack, "c07MarkedEvictor") {
				continue
			}
			if strings.HasPrefix(g.State, "running") || strings.HasPrefix(g.State, "runnable") {
				sig = ""
				break
			}
			var fr []string
			for _, l := range strings.Split(g.Stack, "\n") {
				if strings.HasPrefix(l, "tunnox-core/") || strings.HasPrefix(l, "sync.") || strings.HasPrefix(l, "internal/sync.") {
					fr = append(fr, strings.SplitN(l, "(0x", 2)[0])
				}
				if len(fr) >= 8 {
					break
				}
			}
			st := g.State
			if i := strings.Index(st, ","); i >= 0 {
				st = st[:i] // drop "N minutes"
			}
			sig = st + " | " + strings.Join(fr, " < ") + " | " + endpoints()
		}
		if sig != "" && sig == last {
			same++
			if same >= 2 {
				return "parked", done, sig
			}
		} else {
			same = 0
		}
		last = sig
	}
	return "watchdog", done, last
}

// c07Until spins (yielding) until cond holds; false = watchdog.
func c07Until(cond func() bool) bool {
	deadline := time.Now().Add(10 * time.Second)
	for i := 0; !cond(); i++ {
		if i&15 == 15 {
			time.Sleep(50 * time.Microsecond)
		} else {
			runtime.Gosched()
		}
		if i&1023 == 1023 && time.Now().After(deadline) {
			return false
		}
	}
	return true
}

// TestVerifC07RegistryStalledPeer: a control connection whose peer stopped reading is
// evicted while a server-side write to it (configuration push) is blocked in the
// transport and its read loop is parked in ReadPacket. Whatever evicts it (duplicate
// login from a second connection, heartbeat-timeout sweep, CloseConnection from
// another goroutine), the server must close the transport — that is the only thing
// that lets the blocked write and the read loop return, so that the adapter cleanup
// can run. Verdict is logical: the eviction call has returned and the transport's
// Close was never called (nothing else in the system will call it).
func TestVerifC07RegistryStalledPeer(t *testing.T) {
	run := vk.Start(t, "C07", "registry-stalled-peer")
	defer run.Finish()
	rounds := run.Pick(240, 3000)
	evictors := []string{"duplicate-login", "sweep", "apiclose"}
	run.Rule(fmt.Sprintf("%d rounds: connection c1 on a stalling non-net.Conn transport logs in as A (real handleHandshake); its read loop runs in a goroutine (parked in ReadPacket); the peer stalls; a real pushConfigToClient write blocks in the transport; when both are observed parked, c1 is evicted by one of %v (cloud-control double mode = round mod 5); then: transport Close called by the server, no lookup returns c1, the read loop ends and its adapter cleanup brings the counts back to the baseline; distinct = evictor x cloud mode", rounds, evictors))
	for rd := 0; rd < rounds && run.Violations() <= 20; rd++ {
		ev := evictors[rd%len(evictors)]
		w := c07NewWorld(run, 2, 2, 0, rd%5, uint64(rd)*0x9E3779B97F4A7C15)
		w.sm.SetAuthHandler(c07AuthPush{})
		sm := w.sm
		run.Case("stalled-peer-round", map[string]any{"round": rd, "evictor": ev})
		id := fmt.Sprintf("stall-%d", rd)
		tr := c07NewStall(id)
		sc, err := sm.AcceptConnection(tr, tr)
		if err != nil {
			t.Fatalf("c07 stall: accept: %v", err)
		}
		a := w.clients[0]
		if err := w.handshake(&c07Conn{connID: id}, a, "ok", "control"); err != nil {
			t.Fatalf("c07 stall: login: %v", err)
		}
		k := sm.GetControlConnectionByClientID(a)
		if k == nil || k.ConnID != id {
			t.Fatalf("c07 stall: precondition: A not on %s", id)
		}
		// adapter read loop: ReadPacket until it fails, then cleanupConnection
		loopDone := make(chan struct{})
		go func() {
			defer close(loopDone)
			for {
				if _, _, err := sc.Stream.ReadPacket(); err != nil {
					break
				}
			}
			_ = sm.CloseConnection(id)
			tr.Close()
		}()
		// the peer stalls; a configuration push blocks in the transport
		tr.stall()
		pushDone := make(chan struct{})
		go func() { defer close(pushDone); sm.pushConfigToClient(k) }()
		if !c07Until(func() bool { return tr.inWrite.Load() >= 1 && tr.inRead.Load() >= 1 }) {
			run.Count("watchdog_park", 1)
			tr.Close()
			<-loopDone
			w.dispose()
			continue
		}
		closesBefore := tr.closes.Load()
		var c2 *c07Conn
		if ev == "duplicate-login" {
			if c2 = w.accept(1); c2 == nil {
				t.Fatalf("c07 stall: accept c2")
			}
		}
		// the eviction runs in its own goroutine: if it parks for good behind the stalled peer
		// (same frames in consecutive goroutine dumps while the transport's blocked writer and parked
		// reader do not move and nobody closed the transport) that is a terminal state, judged below
		outcome, evDone, where := c07RunParked(func() {
			switch ev {
			case "duplicate-login":
				_ = w.handshake(c2, a, "ok", "control")
			case "sweep":
				c07SetLastActive(k, time.Now().Add(-3*time.Hour))
				sm.cleanupStaleConnections()
			case "apiclose":
				_ = sm.CloseConnection(id)
			}
		}, func() string {
			return fmt.Sprint(tr.inWrite.Load(), tr.inRead.Load(), tr.closes.Load())
		})
		run.Count("evictions_with_blocked_write", 1)
		detail := map[string]any{"round": rd, "evictor": ev, "writers_blocked": tr.inWrite.Load(), "readers_parked": tr.inRead.Load(), "eviction": outcome}
		if outcome == "watchdog" {
			run.Count("watchdog_eviction", 1)
			tr.Close()
			<-evDone
			w.dispose()
			continue
		}
		if outcome == "parked" {
			// terminal: the old peer never reads again, the eviction never finishes. What the
			// statement requires of this state: the evicted connection's transport is closed and a
			// lookup of the client returns nothing or a live connection of that client.
			detail["eviction_parked_in"] = where
			run.Count("evictions_parked_behind_stalled_peer", 1)
			if sm.GetControlConnection(id) == nil && tr.closes.Load() == closesBefore {
				run.Violation("C07:evicted-conn-transport-not-closed|stalled-peer|eviction-parked|evictor="+ev, detail)
			} else {
				run.Violation("C07:eviction-never-completes|stalled-peer|evictor="+ev, detail)
			}
			tr.Close() // let everything finish; nothing more is judged in this round
			select {
			case <-evDone:
			case <-time.After(20 * time.Second):
				run.Count("watchdog_release", 1)
			}
			w.dispose()
			if run.Counter("evictions_parked_behind_stalled_peer") >= 6 {
				break // each parked round costs ~0.3 s of dumps; the class is established
			}
			continue
		}
		// --- oracle (the eviction call has returned) ---
		if cur := sm.GetControlConnection(id); cur != nil {
			run.Violation("C07:dead-conn-returned|lookup=GetControlConnection|stalled-peer|evictor="+ev, detail)
		}
		if cur := sm.GetControlConnectionByClientID(a); cur != nil && cur.ConnID == id {
			run.Violation("C07:by-client-returns-dead-conn|stalled-peer|evictor="+ev, detail)
		}
		if tr.closes.Load() == closesBefore {
			// nobody closed the transport: the blocked write and the read loop can never return
			run.Violation("C07:evicted-conn-transport-not-closed|stalled-peer|evictor="+ev, detail)
			tr.Close() // release the goroutines of this round
		} else {
			run.Count("transport_closed_by_server", 1)
		}
		ok := true
		for _, ch := range []chan struct{}{loopDone, pushDone} {
			select {
			case <-ch:
			case <-time.After(10 * time.Second):
				ok = false
			}
		}
		if !ok {
			run.Count("watchdog_release", 1)
			w.dispose()
			continue
		}
		// the read loop ended and played the adapter cleanup; close what is left and compare counts
		if _, still := sm.GetConnection(id); still {
			run.Violation("C07:dead-conn-returned|lookup=GetConnection|stalled-peer|evictor="+ev, detail)
		}
		w.finish()
		run.Eval(1)
		run.Distinct(fmt.Sprintf("%s|cloud=%d", ev, rd%5))
		w.dispose()
	}
	run.Floor("evictions_with_blocked_write", int64(rounds*9/10))
	run.Floor("transport_closed_by_server", 1)
}
