//go:build verif && verif_c07

package session

import (
	"fmt"
	"testing"

	vk "tunnox-core/internal/verifkit"
)

// TestVerifC07RegistryReauthSequences: seeded operation sequences at the ClientRegistry API over a
// few connections and a few client ids, in which the SAME connection authenticates several times
// under different client ids (UpdateAuthExclusive without the handshake path's DropStaleIndex in
// front of it), connections are removed / unregistered and re-registered. After every operation,
// for every client id: a look-up returns nil or a connection that is still registered (same object
// under its connection id) and whose ClientID is the id that was looked up; a connection that was
// removed is returned by no look-up. Sequential, so the verdict is exact for what is explored.
func TestVerifC07RegistryReauthSequences(t *testing.T) {
	run := vk.Start(t, "C07", "registry-reauth-sequences")
	defer run.Finish()
	rounds := run.Pick(3000, 30000)
	run.Rule(fmt.Sprintf("%d seeded sequences of 6-24 operations {register, UpdateAuthExclusive(conn,id), Remove, Unregister} over 3 connections x 3 client ids at the ClientRegistry API (the same connection re-authenticates under other ids); after every operation every GetByClientID(id) is nil or a registered connection whose ClientID is id, and no removed connection is returned; floor: look-ups made after a re-authentication under a different id; distinct = (op kind, previous id of the connection, new id, holder state)", rounds))
	r := run.Rand("reauth")
	ids := []int64{70001, 70002, 70003}
	for rd := 0; rd < rounds && run.Violations() <= 20; rd++ {
		reg := NewClientRegistry(nil)
		conns := make([]*ControlConnection, 3)
		cur := make([]int64, 3) // id the connection last authenticated as (0: none)
		var trace []string
		n := 6 + r.Intn(19)
		for step := 0; step < n; step++ {
			i := r.Intn(3)
			switch k := r.Intn(10); {
			case conns[i] == nil || k == 0:
				if conns[i] != nil {
					continue
				}
				conns[i] = &ControlConnection{ConnID: fmt.Sprintf("c%d-%d-%d", rd, i, step)}
				cur[i] = 0
				_ = reg.Register(conns[i])
				trace = append(trace, fmt.Sprintf("register(c%d)", i))
			case k <= 6:
				id := ids[r.Intn(3)]
				prev := cur[i]
				displaced, err := reg.UpdateAuthExclusive(conns[i].ConnID, id, "")
				trace = append(trace, fmt.Sprintf("UpdateAuthExclusive(c%d,%d)", i, id))
				if err != nil {
					continue
				}
				cur[i] = id
				for j := range conns {
					if displaced != nil && conns[j] == displaced {
						conns[j], cur[j] = nil, 0
					}
				}
				if prev != 0 && prev != id {
					run.Count("lookups_after_reauth_under_other_id", 1)
				}
				run.Distinct(fmt.Sprintf("auth prev=%v new=%d displaced=%v", prev != 0 && prev != id, id-70000, displaced != nil))
			case k <= 8:
				reg.Remove(conns[i].ConnID)
				trace = append(trace, fmt.Sprintf("Remove(c%d)", i))
				conns[i], cur[i] = nil, 0
				run.Distinct("remove")
			default:
				reg.Unregister(conns[i].ConnID)
				trace = append(trace, fmt.Sprintf("Unregister(c%d)", i))
				conns[i], cur[i] = nil, 0
				run.Distinct("unregister")
			}
			for _, id := range ids {
				got := reg.GetByClientID(id)
				run.Eval(1)
				if got == nil {
					continue
				}
				if reg.GetByConnID(got.ConnID) != got {
					run.Violation("registry-reauth:lookup-returns-unregistered-connection", map[string]any{"round": rd, "client": id, "conn": got.ConnID, "trace": trace})
				} else if got.ClientID != id {
					run.Violation("registry-reauth:lookup-returns-connection-of-other-client", map[string]any{"round": rd, "client": id, "conn": got.ConnID, "conn_client": got.ClientID, "trace": trace})
				}
			}
		}
	}
	run.Floor("lookups_after_reauth_under_other_id", int64(rounds))
}
