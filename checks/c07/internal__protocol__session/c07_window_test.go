//go:build verif && verif_c07

package session

import (
	"fmt"
	"testing"
	"time"

	vk "tunnox-core/internal/verifkit"
)

// TestVerifC07RegistryHandshakeWindow puts an eviction of connection c1 exactly between
// "handshake response written" and "client-id index updated" of a handshake on c1: the
// transport's Write of the HandshakeResp is held back by a gate; while handleHandshake sits
// there, c1 is evicted (control-connection cap reached by other registrations / duplicate
// login from another connection / age + stale sweep); then the gate opens (the write
// succeeds: the bytes were on their way before the socket was closed) and the handshake
// runs to its end. Oracle: the usual invariants, first before the adapter cleanup of c1
// (the handshake handler has returned, the read loop has not yet noticed the closed
// transport), then after it, then counts back to baseline.
func TestVerifC07RegistryHandshakeWindow(t *testing.T) {
	run := vk.Start(t, "C07", "registry-handshake-window")
	defer run.Finish()
	// (no kick variant: KickOldControlConnection writes the kick command to the old stream before it
	// closes it and therefore waits behind the gated write — it has no caller in production code)
	variants := []string{"cap-eviction", "cap-eviction-rehandshake", "duplicate-login", "sweep"}
	rounds := run.Pick(200, 3000)
	run.Rule(fmt.Sprintf("%d rounds x variants %v x cloud-control double mode (round mod 5): c1 is accepted (and, per variant, registered / logged in as A), its next handshake (login as A) is started in a goroutine and parks in the gated write of the handshake response; the eviction is executed; the gate opens; the handshake returns; invariants before and after the adapter cleanup; distinct = variant x cloud mode x c1's initial state", rounds, variants))
	A, B := 0, 1
	for rd := 0; rd < rounds && run.Violations() <= 20; rd++ {
		v := variants[rd%len(variants)]
		capv := 0
		if v == "cap-eviction" || v == "cap-eviction-rehandshake" {
			capv = 2
		}
		w := c07NewWorld(run, 3, 2, capv, (rd/len(variants))%5, uint64(rd)*0x9E3779B97F4A7C15)
		run.Case("handshake-window-round", map[string]any{"round": rd, "variant": v})
		must := func(op c07Op) {
			if !w.step(op) {
				t.Fatalf("c07 window: %s: setup op %s disabled", v, op)
			}
		}
		must(c07Op{"accept", 0, -1})
		must(c07Op{"accept", 1, -1})
		must(c07Op{"accept", 2, -1})
		init := "accepted"
		switch v {
		case "cap-eviction":
			must(c07Op{"fail", 0, -1}) // c1 registered first = oldest
			must(c07Op{"login", 1, B})
			init = "registered"
		case "cap-eviction-rehandshake", "duplicate-login":
			must(c07Op{"login", 0, A})
			init = "current-for-A"
			if v == "cap-eviction-rehandshake" {
				must(c07Op{"login", 1, B})
			}
		case "sweep":
			if rd%2 == 0 {
				must(c07Op{"fail", 0, -1})
				init = "registered"
			} else {
				must(c07Op{"login", 0, B})
				init = "current-for-B"
			}
			must(c07Op{"age", 0, -1})
		}
		c1 := w.slot(0)
		g := &c07Gate{release: make(chan struct{})}
		g.armed.Store(true)
		c1.pipe.gate.Store(g)
		done := make(chan struct{})
		w.log("login(c0,A) started; response write gated")
		go func() {
			defer close(done)
			_ = w.handshake(c1, w.clients[A], "ok", "control")
		}()
		if !c07Until(func() bool { return g.inWrite.Load() >= 1 }) {
			run.Count("watchdog_gate", 1)
			close(g.release)
			<-done
			w.dispose()
			continue
		}
		// the eviction, while handleHandshake(c1) sits between response and index update
		w.conc = true // no bookkeeping reads of registry state while the handshake is in flight
		outcome, evDone, _ := c07RunParked(func() {
			switch v {
			case "cap-eviction", "cap-eviction-rehandshake":
				w.apply(c07Op{"fail", 2, -1})
			case "duplicate-login":
				w.apply(c07Op{"login", 1, A})
			case "sweep":
				w.apply(c07Op{"sweep", -1, -1})
			}
		}, func() string { return fmt.Sprint(g.inWrite.Load(), c1.srv.IsClosed()) })
		if outcome != "returned" {
			// the eviction waits for c1's write to finish (the gate models a slow write, not a dead
			// peer): open the gate and let both run to their end; judged at quiescence as usual
			run.Count("eviction_waited_for_gated_write", 1)
		}
		evicted := c1.srv.IsClosed()
		if evicted {
			run.Count("evicted_inside_window", 1)
		}
		close(g.release)
		select {
		case <-evDone:
		case <-time.After(20 * time.Second):
			run.Count("watchdog_eviction", 1)
			continue
		}
		w.conc = false
		select {
		case <-done:
		case <-time.After(20 * time.Second):
			run.Count("watchdog_handshake", 1)
			continue
		}
		g.armed.Store(false)
		w.log("login(c0,A) returned")
		op := c07Op{Kind: "handshake-window:" + v, Slot: -1, Cli: -1}
		w.check(op)
		if n := w.reap(); n > 0 {
			run.Count("evicted_conns_reaped", int64(n))
			w.check(c07Op{Kind: "reap-after-handshake-window:" + v, Slot: -1, Cli: -1})
		}
		w.finish()
		run.Eval(1)
		run.Distinct(fmt.Sprintf("%s|cloud=%d|%s|evicted=%v", v, (rd/len(variants))%5, init, evicted))
		if rd < len(variants) {
			run.Sample(w.tail())
		}
		w.dispose()
	}
	run.Floor("evicted_inside_window", int64(rounds*8/10))
}
