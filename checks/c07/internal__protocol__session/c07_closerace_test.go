//go:build verif && verif_c07

package session

import (
	"fmt"
	"runtime"
	"sync"
	"sync/atomic"
	"testing"
	"time"

	vk "tunnox-core/internal/verifkit"
)

// TestVerifC07RegistryCloseRace aims at one window: packets of a connection are being
// handled (first handshake on a not yet registered connection, further handshakes,
// heartbeats — all of which fetch the *types.Connection and use its Stream/RawConn)
// while another goroutine closes THAT SAME connection (CloseConnection as the stale
// sweep callback / an API caller does, the sweep itself on an aged connection, a kick).
// Both sides are released from a spin barrier; the closer waits a seeded number of
// spin iterations so that the close lands at varying points of the packet burst.
// Oracle: the process survives (a crash is attributed through the WAL), and the usual
// invariants hold at the barriers after the adapter cleanup.
func TestVerifC07RegistryCloseRace(t *testing.T) {
	run := vk.Start(t, "C07", "registry-close-race")
	defer run.Finish()
	const pairs = 4
	worlds := run.Pick(60, 600)
	perPair := 250
	run.Rule(fmt.Sprintf("%d worlds x %d packet/closer pairs x %d races: a fresh connection in state {accepted, registered, authenticated} receives a seeded burst of 2-5 packets (failed/control/tunnel handshakes, heartbeats) from its read-loop goroutine while a second goroutine, released from the same spin barrier and delayed by a seeded spin count, closes that same connection (CloseConnection / age+sweep / kick / disconnect of the client); cloud-control double mode = world mod 5; invariants at the end of every world after adapter cleanup; distinct = (initial state, closer kind, first packet kind)", worlds, pairs, perPair))
	burstKinds := []string{"fail", "login", "login", "tlogin", "hb", "hb", "hb"}
	closers := []string{"apiclose", "apiclose", "apiclose", "sweep", "kick"}
	for wd := 0; wd < worlds && run.Violations() <= 20; wd++ {
		w := c07NewWorld(run, pairs, 3, 0, wd%5, uint64(wd)*0x9E3779B97F4A7C15)
		w.conc = true
		run.Case("close-race-world", wd)
		var wg sync.WaitGroup
		var stuck atomic.Bool
		for p := 0; p < pairs; p++ {
			wg.Add(1)
			rg := run.Rand(fmt.Sprintf("w%d-p%d", wd, p))
			go func(p int) {
				defer wg.Done()
				for i := 0; i < perPair && !stuck.Load(); i++ {
					c := w.accept(p)
					if c == nil {
						continue
					}
					x := rg.Intn(3)
					init := rg.Intn(3)
					switch init {
					case 1:
						w.apply(c07Op{"fail", p, -1})
					case 2:
						w.apply(c07Op{"login", p, x})
					}
					n := 2 + rg.Intn(4)
					burst := make([]c07Op, n)
					for j := range burst {
						burst[j] = c07Op{burstKinds[rg.Intn(len(burstKinds))], p, rg.Intn(3)}
					}
					closer := closers[rg.Intn(len(closers))]
					delay := rg.Intn(1 + []int{0, 50, 400, 3000}[rg.Intn(4)])
					var start atomic.Int32
					done := make(chan struct{})
					go func() {
						defer close(done)
						start.Add(1)
						for k := 0; start.Load() < 2; k++ {
							if k&63 == 63 {
								runtime.Gosched()
							}
						}
						sink := 0
						for k := 0; k < delay; k++ {
							sink += k
						}
						_ = sink
						switch closer {
						case "apiclose":
							w.apply(c07Op{"apiclose", p, -1})
						case "sweep":
							w.apply(c07Op{"age", p, -1})
							w.apply(c07Op{"sweep", -1, -1})
						case "kick":
							w.apply(c07Op{"kick", -1, x})
						}
					}()
					for k := 0; start.Load() < 1; k++ {
						if k&63 == 63 {
							runtime.Gosched()
						}
					}
					start.Add(1)
					for _, o := range burst {
						w.apply(o)
					}
					select {
					case <-done:
					case <-time.After(30 * time.Second):
						run.Count("watchdog", 1)
						stuck.Store(true)
						return
					}
					run.Count("races", 1)
					if i < 40 {
						run.Distinct(fmt.Sprintf("%d|%s|%s", init, closer, burst[0].Kind))
					}
					if c.srv.IsClosed() {
						run.Count("closed_during_or_after_burst", 1)
					}
					w.adapterCleanup(c, "read loop ended")
				}
			}(p)
		}
		wg.Wait()
		if stuck.Load() {
			w.dispose()
			continue
		}
		w.conc = false
		bar := c07Op{Kind: "barrier", Slot: -1, Cli: -1}
		w.reap()
		w.check(bar)
		w.finish()
		run.Eval(1)
		run.Count("worlds_completed", 1)
		w.dispose()
	}
	run.Floor("worlds_completed", int64(worlds*9/10))
	run.Floor("races", int64(worlds*pairs*perPair*9/10))
	run.Floor("closed_during_or_after_burst", int64(worlds*pairs*perPair/3))
}
