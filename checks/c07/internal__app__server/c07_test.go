//go:build verif && verif_c07

package server

import (
	"fmt"
	"math/rand"
	"reflect"
	"sort"
	"strings"
	"sync"
	"sync/atomic"
	"testing"
	"time"

	"tunnox-core/internal/cloud/repos"
	"tunnox-core/internal/packet"
	"tunnox-core/internal/protocol/session"
	"tunnox-core/internal/security"
	"tunnox-core/internal/stream"
	vk "tunnox-core/internal/verifkit"
)

// C07 — handshake level. The mini-server (real ServerAuthHandler with
// challenge-response, real SessionManager, cloud control, connection-state store,
// background stale sweep) is driven with seeded random operation sequences. The
// harness holds the client secrets, so a live connection can authenticate again under
// another client id, a second connection can log in as a client that is already
// connected, and so on. The harness plays the adapter: when the server closed a
// connection's transport it calls CloseByPeer (CloseConnection + transport close).

// c07hCloud wraps the real cloud-control adapter and injects faults (storage behind cloud
// control unavailable) into the state calls made while connections close / time out / beat.
type c07hCloud struct {
	session.CloudControlAPI
	mode    int // 0 healthy, 1 every call fails, 2 seeded pattern
	pattern uint64
	calls   atomic.Int64
	run     *vk.Run
}

func (c *c07hCloud) fault(what string) error {
	n := c.calls.Add(1)
	if c.mode == 1 || (c.mode == 2 && (c.pattern>>(uint(n)%64))&1 == 1) {
		c.run.Count("cloud_faults_injected", 1)
		if what == "disconnect" {
			c.run.Count("cloud_faults_on_disconnect", 1)
		}
		return fmt.Errorf("c07: injected cloud-control storage fault (%s)", what)
	}
	return nil
}

func (c *c07hCloud) DisconnectClient(id int64) error {
	if err := c.fault("disconnect"); err != nil {
		return err
	}
	return c.CloudControlAPI.DisconnectClient(id)
}

func (c *c07hCloud) DisconnectClientIfMatch(id int64, nodeID, connID string) (bool, error) {
	if err := c.fault("disconnect"); err != nil {
		return false, err
	}
	return c.CloudControlAPI.DisconnectClientIfMatch(id, nodeID, connID)
}

func (c *c07hCloud) EnsureClientOnline(id int64, nodeID, connID, ip, proto, ver string) error {
	if err := c.fault("ensure-online"); err != nil {
		return err
	}
	return c.CloudControlAPI.EnsureClientOnline(id, nodeID, connID, ip, proto, ver)
}

// c07hPipe is the server end of a connection's transport with an injectable transient write
// failure (what a send timeout / momentary network error looks like to the server).
type c07hPipe struct {
	*vk.BufConn
	failWrites atomic.Bool
}

func (p *c07hPipe) Write(b []byte) (int, error) {
	if p.failWrites.Load() {
		return 0, fmt.Errorf("c07: injected transient write error")
	}
	return p.BufConn.Write(b)
}

// c07hConnect is miniNode.Connect with the transport wrapped in c07hPipe.
func c07hConnect(n *miniNode, remote string) (*miniClient, *c07hPipe, error) {
	sc, hc := vk.BufPipe(remote, "127.0.0.1:7000")
	p := &c07hPipe{BufConn: sc}
	stc, err := n.SM.AcceptConnection(p, p)
	if err != nil {
		sc.Close()
		hc.Close()
		return nil, nil, err
	}
	c := &miniClient{n: n, hc: hc, sc: sc, ConnID: stc.ID}
	c.sp = stream.NewStreamProcessor(hc, hc, n.ctx)
	return c, p, nil
}

type c07hConn struct {
	pipe     *c07hPipe
	provenAs atomic.Int64 // harness ground truth: the identity this connection last PROVED (valid challenge response / credentials issued on it); 0 = none
	slot     int
	c        *miniClient
	cleaned  atomic.Bool
	everReg  atomic.Bool
	ctlAs    atomic.Int64 // identity of the latest successful authentication if it was a control-type handshake, else 0
}

func (k *c07hConn) dead() (bool, string) {
	if k.cleaned.Load() {
		return true, "closed"
	}
	if k.c.ServerClosedTransport() {
		return true, "evicted"
	}
	return false, ""
}

type c07hWorld struct {
	run      *vk.Run
	n        *miniNode
	mu       sync.Mutex
	clients  []int64
	secret   map[int64]string
	slots    []*c07hConn
	all      map[string]*c07hConn
	trace    []string
	prevReg  map[string]bool
	reported map[string]bool
	base     session.ConnectionStats
}

func c07hNewWorld(t *testing.T, run *vk.Run, nslots, ctlCap, cloudMode int, pattern uint64) *c07hWorld {
	bf := &security.BruteForceConfig{MaxFailures: 1000000, TimeWindow: time.Hour, BanDuration: time.Hour, PermanentBanAt: 100000000, CleanupInterval: time.Hour}
	rl := &security.RateLimitConfig{Rate: 1000000, Burst: 1000000, TTL: time.Hour}
	sc := &session.SessionConfig{HeartbeatTimeout: time.Hour, CleanupInterval: 2 * time.Millisecond, MaxConnections: 0, MaxControlConnections: ctlCap}
	n := newMiniNode(t, miniOpts{BruteForce: bf, RateLimit: rl, Session: sc, NoCommands: true})
	w := &c07hWorld{run: run, n: n, secret: map[int64]string{}, slots: make([]*c07hConn, nslots), all: map[string]*c07hConn{}, prevReg: map[string]bool{}, reported: map[string]bool{}}
	for i := 0; i < 3; i++ {
		c := n.NewClient("")
		w.clients = append(w.clients, c.ClientID)
		w.secret[c.ClientID] = c.Secret
		c.CloseByPeer()
	}
	// the same credentials stored under ids far apart in the int64 range (ids are opaque to the
	// protocol): +2^32, +2^31, +2^62 — every id is a different client
	cr := repos.NewClientConfigRepository(n.Repo)
	for i, off := range []int64{1 << 32, 1 << 31, 1 << 62} {
		base := w.clients[i]
		cfg, err := cr.GetConfig(base)
		if err != nil || cfg == nil {
			t.Fatalf("c07: clone client config: %v", err)
		}
		cp := *cfg
		cp.ID = base + off
		if err := cr.CreateConfig(&cp); err != nil {
			t.Fatalf("c07: create cloned client config %d: %v", cp.ID, err)
		}
		w.clients = append(w.clients, cp.ID)
		w.secret[cp.ID] = w.secret[base]
	}
	if cloudMode != 0 {
		n.SM.SetCloudControl(&c07hCloud{CloudControlAPI: session.NewCloudControlAdapter(n.CC), mode: cloudMode, pattern: pattern, run: run})
	}
	w.base = n.SM.GetConnectionStats()
	return w
}

func (w *c07hWorld) log(s string) {
	w.mu.Lock()
	w.trace = append(w.trace, s)
	w.mu.Unlock()
}

func (w *c07hWorld) tail() []string {
	w.mu.Lock()
	defer w.mu.Unlock()
	t := w.trace
	if len(t) > 60 {
		t = t[len(t)-60:]
	}
	return append([]string(nil), t...)
}

func (w *c07hWorld) slot(i int) *c07hConn {
	w.mu.Lock()
	defer w.mu.Unlock()
	if i < 0 || i >= len(w.slots) {
		return nil
	}
	return w.slots[i]
}

func (w *c07hWorld) name(id int64) string {
	w.mu.Lock()
	defer w.mu.Unlock()
	for i, x := range w.clients {
		if x == id {
			return fmt.Sprintf("%c", 'A'+i)
		}
	}
	return fmt.Sprint(id)
}

func (w *c07hWorld) client(i int) int64 {
	w.mu.Lock()
	defer w.mu.Unlock()
	return w.clients[i%len(w.clients)]
}

func (w *c07hWorld) sec(id int64) string {
	w.mu.Lock()
	defer w.mu.Unlock()
	return w.secret[id]
}

func (w *c07hWorld) cleanup(k *c07hConn, why string) {
	k.c.CloseByPeer()
	k.cleaned.Store(true)
	w.mu.Lock()
	if w.slots[k.slot] == k {
		w.slots[k.slot] = nil
	}
	w.mu.Unlock()
	w.log("adapter-cleanup(" + k.c.ConnID + ") " + why)
}

func (w *c07hWorld) reap() int {
	n := 0
	for i := range w.slots {
		if k := w.slot(i); k != nil && k.c.ServerClosedTransport() {
			w.cleanup(k, "transport closed by server")
			n++
		}
	}
	return n
}

type c07hOp struct {
	Kind string
	Slot int
	Cli  int
}

// apply executes one operation; false = not applicable in this state. seq=true
// enables the bookkeeping that reads registry state (sequential runs only).
func (w *c07hWorld) apply(op c07hOp, seq bool) bool {
	sm := w.n.SM
	k := w.slot(op.Slot)
	if op.Kind == "connect" {
		if k != nil {
			return false
		}
		c, pipe, err := c07hConnect(w.n, fmt.Sprintf("10.7.1.%d:5000", op.Slot+1))
		if err != nil {
			w.run.Count("connect_failed", 1)
			return false
		}
		nk := &c07hConn{slot: op.Slot, c: c, pipe: pipe}
		w.mu.Lock()
		w.slots[op.Slot] = nk
		w.all[c.ConnID] = nk
		w.mu.Unlock()
		w.log(fmt.Sprintf("connect(c%d)=%s", op.Slot, c.ConnID))
		return true
	}
	x := w.client(op.Cli)
	if op.Kind == "kick" {
		newID := ""
		if k != nil && op.Slot >= 0 {
			newID = k.c.ConnID
		}
		if seq {
			cur := sm.GetControlConnectionByClientID(x)
			if cur == nil || cur.GetConnID() == newID {
				return false
			}
		}
		w.log(fmt.Sprintf("kick(%s,new=%s)", w.name(x), newID))
		sm.KickOldControlConnection(x, newID)
		w.run.Count("kick_calls", 1)
		return true
	}
	if k == nil {
		return false
	}
	c := k.c
	desc := fmt.Sprintf("%s(c%d,%s)", op.Kind, op.Slot, w.name(x))
	var reg *session.ControlConnection
	otherID := false // the connection is authenticated under an identity different from x
	if seq {
		reg = sm.GetControlConnection(c.ConnID)
		otherID = reg != nil && reg.Authenticated && reg.ClientID != x
		if reg != nil && reg.Authenticated && reg.ClientID != x && (op.Kind == "login" || op.Kind == "tlogin") {
			w.run.Count("reauth_under_other_id_attempts", 1)
		}
		if reg != nil && reg.Authenticated && op.Kind == "first" {
			w.run.Count("reauth_as_new_client_attempts", 1)
		}
		if reg != nil && reg.Authenticated && (op.Kind == "eof" || op.Kind == "disc" || op.Kind == "apiclose") {
			if cur := sm.GetControlConnectionByClientID(reg.ClientID); cur != nil && cur != reg {
				w.run.Count("older_removed_after_newer_took_index", 1)
			}
		}
		if op.Kind == "login" {
			if cur := sm.GetControlConnectionByClientID(x); cur != nil && cur.ConnID != c.ConnID {
				w.run.Count("duplicate_login_attempts", 1)
			}
		}
	}
	switch op.Kind {
	case "login", "tlogin":
		ct := "control"
		if op.Kind == "tlogin" {
			ct = "tunnel"
		}
		ok, _ := c.Login(x, w.sec(x), ct)
		w.log(fmt.Sprintf("%s ok=%v", desc, ok))
		if ok {
			if ct == "control" {
				k.ctlAs.Store(x)
				k.provenAs.Store(x)
			} else {
				k.ctlAs.Store(0)
				k.provenAs.Store(x)
			}
			w.run.Count("logins_ok", 1)
			if otherID {
				w.run.Count("reauth_under_other_id", 1)
			}
		}
	case "badlogin":
		r1, _ := c.Phase1(x, "control")
		if r1 != nil && r1.Challenge != "" {
			r2, _ := c.Phase2(x, HMACResp("wrong-"+w.sec(x), r1.Challenge), "control")
			if r2 != nil && r2.Success {
				w.run.Count("badlogin_accepted", 1)
			}
		}
		w.log(desc)
		w.run.Count("failed_handshakes", 1)
	case "p1only":
		if seq && otherID {
			if cur := sm.GetControlConnectionByClientID(x); cur != nil && cur.ConnID != c.ConnID {
				// a bare challenge request naming ANOTHER client that is online, on an authenticated connection
				w.run.Count("phase1_on_authenticated_conn_naming_online_client", 1)
			}
		}
		_, _ = c.Phase1(x, "control")
		w.log(desc)
	case "notifyfail":
		// configuration push (mapping change of an online client) whose write hits a transient error
		if !seq || reg == nil || !reg.Authenticated || sm.GetControlConnectionByClientID(reg.ClientID) != reg {
			return false
		}
		id := reg.ClientID
		w.log(fmt.Sprintf("notify-config-push(c%d,%s) with failing write", op.Slot, w.name(id)))
		k.pipe.failWrites.Store(true)
		sm.NotifyClientUpdate(id)
		k.pipe.failWrites.Store(false)
		w.run.Count("config_push_write_failures", 1)
	case "first":
		w.mu.Lock()
		many := len(w.clients) >= 11
		w.mu.Unlock()
		if many {
			return false
		}
		r, _ := c.FirstConnect()
		if r != nil && r.Success && r.ClientID != 0 {
			w.mu.Lock()
			w.clients = append(w.clients, r.ClientID)
			w.secret[r.ClientID] = r.SecretKey
			w.mu.Unlock()
			k.ctlAs.Store(r.ClientID)
			k.provenAs.Store(r.ClientID)
			w.run.Count("first_connect_ok", 1)
		}
		w.log(fmt.Sprintf("first(c%d)=%v", op.Slot, r != nil && r.Success))
	case "hb":
		_ = c.Send(&packet.TransferPacket{PacketType: packet.Heartbeat})
		c.DrainRaw()
		w.log(fmt.Sprintf("hb(c%d)", op.Slot))
		w.run.Count("heartbeats", 1)
	case "expire":
		// heartbeat timeout: push the last activity into the past and wait for the real
		// background sweep (2 ms ticker) to remove the connection
		if !seq || reg == nil {
			return false
		}
		reg.LastActiveAt = time.Now().Add(-3 * time.Hour)
		w.log(fmt.Sprintf("expire(c%d)", op.Slot))
		gone := false
		for i := 0; i < 3000; i++ {
			if sm.GetControlConnection(c.ConnID) == nil && c.ServerClosedTransport() {
				gone = true
				break
			}
			time.Sleep(time.Millisecond)
		}
		if gone {
			// the sweep itself closes the connection (its callback is CloseConnection, which drops the
			// session map entry before it closes the stream): once the transport is seen closed the
			// connection must be gone from GetConnection too, before any adapter cleanup is played
			kind := "unauthenticated"
			if reg.Authenticated {
				kind = "authenticated"
			}
			w.run.Count("swept_"+kind, 1)
			if _, ok := sm.GetConnection(c.ConnID); ok {
				w.run.Violation("C07:swept-conn-still-in-session-connmap|conn="+kind, map[string]any{"conn": c.ConnID, "trace": w.tail()})
			}
			w.run.Count("heartbeat_timeouts_swept", 1)
		} else {
			w.run.Count("watchdog_sweep", 1)
			reg.LastActiveAt = time.Now()
		}
	case "disc":
		_ = c.Send(&packet.TransferPacket{PacketType: packet.JsonCommand, CommandPacket: &packet.CommandPacket{CommandType: packet.Disconnect, CommandId: "d"}})
		w.log(fmt.Sprintf("disc(c%d)", op.Slot))
	case "eof":
		w.cleanup(k, "peer EOF")
	case "apiclose":
		_ = sm.CloseConnection(c.ConnID)
		w.log(fmt.Sprintf("apiclose(c%d)", op.Slot))
	default:
		panic("c07h: unknown op " + op.Kind)
	}
	return true
}

// viol records a violation once per (class, subject) and world (see the registry-level harness).
func (w *c07hWorld) viol(sig, opKind string, extra map[string]any) {
	key := strings.SplitN(sig, "|dead=", 2)[0] + fmt.Sprint(extra["conn"], extra["client_id"])
	if w.reported[key] {
		return
	}
	w.reported[key] = true
	d := map[string]any{"trace": w.tail(), "first_seen_after": opKind, "class": sig}
	for k, v := range extra {
		d[k] = v
	}
	if strings.Contains(sig, "concurrent-login") || strings.Contains(sig, "interface-lookup") {
		w.run.Violation(sig, d)
		return
	}
	if strings.Contains(sig, "dead") {
		w.run.Violation(strings.SplitN(sig, "|dead=", 2)[0], d)
		return
	}
	w.run.Violation(sig+"|op="+strings.TrimPrefix(opKind, "reap-after-"), d)
}

// check: the same invariants as at registry level, through the exported API.
func (w *c07hWorld) check(opKind string) {
	sm := w.n.SM
	reg := sm.GetClientRegistry()
	inList := map[string]*session.ControlConnection{}
	for _, k := range reg.List() {
		inList[k.ConnID] = k
	}
	inAuth := map[string]bool{}
	for _, k := range reg.ListAuthenticated() {
		inAuth[k.ConnID] = true
	}
	w.mu.Lock()
	all := make([]*c07hConn, 0, len(w.all))
	for _, k := range w.all {
		all = append(all, k)
	}
	ids := append([]int64(nil), w.clients...)
	w.mu.Unlock()
	for _, k := range all {
		id := k.c.ConnID
		dead, how := k.dead()
		if !dead {
			if inList[id] != nil {
				k.everReg.Store(true)
			} else if k.everReg.Load() && sm.GetTunnelConnectionByConnID(id) == nil {
				// it was registered, left the registry, and the server left its transport open
				w.viol("C07:left-registry-transport-open", opKind, map[string]any{"conn": id})
			}
			continue
		}
		if sm.GetControlConnection(id) != nil || inList[id] != nil {
			w.viol("C07:dead-conn-returned|lookup=GetControlConnection/List|dead="+how, opKind, map[string]any{"conn": id})
		} else if inAuth[id] {
			w.viol("C07:dead-conn-returned|lookup=ListAuthenticated|dead="+how, opKind, map[string]any{"conn": id})
		}
		if k.cleaned.Load() {
			if _, ok := sm.GetConnection(id); ok {
				w.viol("C07:dead-conn-returned|lookup=GetConnection|dead="+how, opKind, map[string]any{"conn": id})
			}
		}
	}
	// at most one control connection per client is current (at barriers: signature suffix concurrent-login; see registry level)
	{
		per := map[int64][]string{}
		for _, k := range all {
			rc := inList[k.c.ConnID]
			if d, _ := k.dead(); d || rc == nil {
				continue
			}
			if x := k.ctlAs.Load(); x != 0 && rc.Authenticated && rc.ClientID == x {
				per[x] = append(per[x], k.c.ConnID)
			}
		}
		for x, cs := range per {
			if len(cs) > 1 {
				sort.Strings(cs)
				sig := "C07:two-live-control-conns-for-client"
				if opKind == "barrier" {
					sig += "|concurrent-login"
				}
				w.viol(sig, opKind, map[string]any{"client_id": x, "client": w.name(x), "conns": cs, "by_client_returns": sm.GetControlConnectionByClientID(x).GetConnID()})
			}
		}
	}
	adapter := NewSessionManagerAdapter(sm)
	for _, x := range ids {
		k := sm.GetControlConnectionByClientID(x)
		// interface-returning accessors (used by the HTTP layer): for an absent client the result
		// must be a nil interface, otherwise it must be the connection the typed lookup returns
		ci := sm.GetControlConnectionInterface(x)
		phantom := false
		if ci != nil {
			if rv := reflect.ValueOf(ci); rv.Kind() == reflect.Ptr && rv.IsNil() {
				phantom = true
			} else if cc, ok := ci.(*session.ControlConnection); !ok || cc != k {
				w.viol("C07:interface-lookup-disagrees-with-typed-lookup", opKind, map[string]any{"client_id": x})
			}
		} else if k != nil {
			w.viol("C07:interface-lookup-disagrees-with-typed-lookup", opKind, map[string]any{"client_id": x})
		}
		acc := adapter.GetControlConnectionInterface(x)
		if phantom || (k == nil && acc != nil) {
			w.viol("C07:interface-lookup-returns-typed-nil-for-absent-client", opKind, map[string]any{"client_id": x, "client": w.name(x), "session_accessor_phantom": phantom, "http_adapter_accessor_non_nil": acc != nil})
		} else if k != nil && (acc == nil || acc.GetConnID() != k.ConnID) {
			w.viol("C07:interface-lookup-disagrees-with-typed-lookup", opKind, map[string]any{"client_id": x, "accessor": "http-adapter"})
		}
		if k == nil {
			w.run.Count("absent_client_lookups", 1)
			continue
		}
		w.mu.Lock()
		own := w.all[k.ConnID]
		w.mu.Unlock()
		extra := map[string]any{"client": w.name(x), "client_id": x, "returned_conn": k.ConnID, "returned_conn_client": w.name(k.GetClientID()), "returned_conn_auth": k.IsAuthenticated()}
		if own == nil {
			w.viol("C07:by-client-returns-unknown-conn", opKind, extra)
			continue
		}
		dead, how := own.dead()
		switch {
		case dead:
			w.viol("C07:by-client-returns-dead-conn|dead="+how, opKind, extra)
		case !k.IsAuthenticated():
			w.viol("C07:by-client-returns-unauthenticated-conn", opKind, extra)
		case k.GetClientID() != x:
			w.viol("C07:by-client-returns-conn-of-other-client", opKind, extra)
		case own.provenAs.Load() != x:
			// "belongs to that client" by the harness' ground truth, not by the server's own field
			extra["conn_proved_identity"] = w.name(own.provenAs.Load())
			w.viol("C07:by-client-returns-conn-that-never-proved-that-client", opKind, extra)
		case sm.GetControlConnection(k.ConnID) != k:
			w.viol("C07:by-client-returns-unregistered-conn", opKind, extra)
		}
	}
	for id := range w.prevReg {
		if inList[id] != nil {
			continue
		}
		w.mu.Lock()
		k := w.all[id]
		w.mu.Unlock()
		if k == nil {
			continue
		}
		if !k.c.ServerClosedTransport() && !k.cleaned.Load() {
			if sm.GetTunnelConnectionByConnID(id) == nil {
				w.viol("C07:left-registry-transport-open", opKind, map[string]any{"conn": id})
			}
		} else {
			w.run.Count("removed_with_transport_closed", 1)
		}
	}
	w.prevReg = map[string]bool{}
	for id := range inList {
		w.prevReg[id] = true
	}
}

func (w *c07hWorld) step(op c07hOp) bool {
	if !w.apply(op, true) {
		return false
	}
	w.check(op.Kind)
	if n := w.reap(); n > 0 {
		w.run.Count("evicted_conns_reaped", int64(n))
		w.run.Count("reaped_after_"+op.Kind, int64(n))
		w.check("reap-after-" + op.Kind)
	}
	return true
}

func (w *c07hWorld) finish() {
	for i := range w.slots {
		if k := w.slot(i); k != nil {
			w.cleanup(k, "final")
		}
	}
	w.check("final")
	st := w.n.SM.GetConnectionStats()
	if st != w.base || w.n.SM.GetClientRegistry().Count() != 0 || w.n.SM.GetActiveChannels() != 0 {
		w.run.Violation("C07:counts-not-back-to-baseline", map[string]any{"trace": w.tail(), "baseline": w.base, "now": st, "control_count": w.n.SM.GetClientRegistry().Count()})
	}
}

func (w *c07hWorld) close() { w.n.Close() }

var c07hKinds = []string{"connect", "connect", "login", "login", "login", "login", "tlogin", "badlogin", "p1only", "p1only", "notifyfail", "first", "hb", "hb", "expire", "kick", "disc", "eof", "apiclose"}

func TestVerifC07HandshakeRandom(t *testing.T) {
	run := vk.Start(t, "C07", "handshake-random")
	defer run.Finish()
	run.Rule("seeded random sequences of 50-200 applicable operations on the mini-server over 4 connection slots and 6 provisioned clients (3 generated ids plus the same credentials under ids +2^32, +2^31, +2^62; + up to 5 registered on the fly), control-connection cap none or 3, cloud-control state calls healthy / always failing / failing on a seeded pattern (injected at the SessionManager-cloud control boundary): connect, full challenge-response login as X (control / tunnel type; X may differ from the connection's current identity = re-authentication; X may be connected elsewhere = duplicate login), login with a wrong key, phase 1 only (also on an authenticated connection naming another online client), configuration push whose write fails, first-connect (new identity on a possibly authenticated connection), heartbeat, heartbeat timeout (LastActiveAt into the past, real background sweep), KickOldControlConnection, disconnect command, CloseConnection from outside, transport EOF; invariants after every operation and after the adapter cleanup; distinct = 3-grams of operation kinds")
	r := run.Rand("seq")
	nseq := run.Pick(200, 4000)
	for s := 0; s < nseq && run.Violations() <= 20; s++ {
		capv := 0
		if r.Intn(3) == 0 {
			capv = 3
		}
		w := c07hNewWorld(t, run, 4, capv, r.Intn(3), r.Uint64())
		n := 50 + r.Intn(151)
		run.Case("random-sequence", s)
		var grams []string
		for i, tries := 0, 0; i < n && tries < 20*n; tries++ {
			op := c07hOp{Kind: c07hKinds[r.Intn(len(c07hKinds))], Slot: r.Intn(4), Cli: r.Intn(6)}
			if op.Kind == "login" && r.Intn(4) == 0 {
				op.Cli = r.Intn(11) // also the clients registered on the fly
			}
			if op.Kind == "kick" && r.Intn(3) == 0 {
				op.Slot = -1
			}
			if !w.step(op) {
				continue
			}
			i++
			grams = append(grams, op.Kind)
			if len(grams) >= 3 {
				run.Distinct(strings.Join(grams[len(grams)-3:], ">"))
			}
		}
		w.finish()
		run.Eval(1)
		if s < 2 {
			run.Sample(w.tail())
		}
		w.close()
	}
	run.Floor("reauth_under_other_id", 20)
	run.Floor("first_connect_ok", 10)
	run.Floor("duplicate_login_attempts", 20)
	run.Floor("older_removed_after_newer_took_index", 1)
	run.Floor("heartbeat_timeouts_swept", 10)
	run.Floor("swept_unauthenticated", 5)
	run.Floor("evicted_conns_reaped", 50)
	run.Floor("failed_handshakes", 20)
	run.Floor("cloud_faults_on_disconnect", 50)
	run.Floor("phase1_on_authenticated_conn_naming_online_client", 20)
	run.Floor("config_push_write_failures", 50)
	run.Floor("absent_client_lookups", 100)
}

// TestVerifC07HandshakeConcurrent: 8 goroutines, one connection slot each, real
// handshakes; global operations (kick, CloseConnection of any slot) from every
// goroutine; invariants only at barriers after the adapter cleanup.
func TestVerifC07HandshakeConcurrent(t *testing.T) {
	run := vk.Start(t, "C07", "handshake-concurrent")
	defer run.Finish()
	const G = 8
	rounds := run.Pick(300, 6000)
	run.Rule(fmt.Sprintf("%d goroutines x 3 phases x 10 seeded random operations per round on the mini-server, 8 connection slots (one owner each), 3 clients: own slot: connect, login / tunnel-type login / wrong-key login / first-connect, heartbeat, disconnect command, transport EOF; global: KickOldControlConnection, CloseConnection of any slot; invariants at barriers after adapter cleanup; distinct = phase x (registered, authenticated) counts", G))
	own := []string{"connect", "connect", "login", "login", "login", "tlogin", "badlogin", "first", "hb", "disc", "eof"}
	for rd := 0; rd < rounds && run.Violations() <= 20; rd++ {
		capv := 0
		if rd%3 == 2 {
			capv = 5
		}
		w := c07hNewWorld(t, run, G, capv, rd%3, uint64(rd)*0x9E3779B97F4A7C15)
		run.Case("concurrent-round", rd)
		ok := true
		for ph := 0; ph < 3 && ok; ph++ {
			var wg sync.WaitGroup
			for g := 0; g < G; g++ {
				wg.Add(1)
				rg := run.Rand(fmt.Sprintf("r%d-p%d-g%d", rd, ph, g))
				go func(g int, rg *rand.Rand) {
					defer wg.Done()
					for i := 0; i < 10; i++ {
						if k := w.slot(g); k != nil && k.c.ServerClosedTransport() {
							w.cleanup(k, "read loop ended")
						}
						op := c07hOp{Kind: own[rg.Intn(len(own))], Slot: g, Cli: rg.Intn(6)}
						switch rg.Intn(6) {
						case 0:
							op.Kind = "kick"
							if rg.Intn(3) == 0 {
								op.Slot = -1
							}
						case 1:
							op = c07hOp{Kind: "apiclose", Slot: rg.Intn(G), Cli: 0}
						}
						w.apply(op, false)
					}
				}(g, rg)
			}
			done := make(chan struct{})
			go func() { wg.Wait(); close(done) }()
			select {
			case <-done:
			case <-time.After(30 * time.Second):
				run.Count("watchdog", 1)
				ok = false
				continue
			}
			// quiescent: the adapter cleanup of every closed transport, then the invariants
			w.prevReg = map[string]bool{}
			if n := w.reap(); n > 0 {
				run.Count("evicted_conns_reaped", int64(n))
			}
			w.check("barrier")
			run.Count("barriers", 1)
			reg := w.n.SM.GetClientRegistry()
			run.Distinct(fmt.Sprintf("%d|reg=%d auth=%d", ph, reg.Count(), len(reg.ListAuthenticated())))
		}
		if ok {
			w.finish()
			run.Eval(1)
			run.Count("rounds_completed", 1)
		}
		if rd < 1 {
			run.Sample(w.tail())
		}
		w.close()
	}
	run.Floor("rounds_completed", int64(rounds*9/10))
	run.Floor("logins_ok", 100)
	run.Floor("evicted_conns_reaped", 20)
}

// TestVerifC07HandshakeSimultaneousLogin is the minimal concurrent-login scenario: two
// connections answer their challenges for the SAME client at the same moment (released
// from a spin barrier). At quiescence (both handshakes returned, adapter cleanup played for
// every transport the server closed) at most one of them may still be a live registered
// control connection of that client.
func TestVerifC07HandshakeSimultaneousLogin(t *testing.T) {
	run := vk.Start(t, "C07", "handshake-simultaneous-login")
	defer run.Finish()
	rounds := run.Pick(400, 6000)
	run.Rule(fmt.Sprintf("%d rounds on the mini-server: connections c1,c2 both obtain a challenge for client A (sequentially), then both phase-2 responses (valid HMAC) are delivered from two goroutines released by a spin barrier, the second one after a seeded spin delay; a third of the rounds start with A already connected on c0; at quiescence: lookups and transports of c0,c1,c2; distinct = outcome shape", rounds))
	r := run.Rand("delay")
	var w *c07hWorld
	for rd := 0; rd < rounds && run.Violations() <= 20; rd++ {
		if rd%50 == 0 {
			if w != nil {
				w.finish()
				w.close()
			}
			w = c07hNewWorld(t, run, 3, 0, 0, 0)
		}
		run.Case("simultaneous-login-round", rd)
		a := w.clients[0]
		sec := w.sec(a)
		if rd%3 == 0 {
			w.apply(c07hOp{Kind: "connect", Slot: 0}, true)
			w.apply(c07hOp{Kind: "login", Slot: 0, Cli: 0}, true)
		}
		w.apply(c07hOp{Kind: "connect", Slot: 1}, true)
		w.apply(c07hOp{Kind: "connect", Slot: 2}, true)
		k1, k2 := w.slot(1), w.slot(2)
		if k1 == nil || k2 == nil {
			t.Fatalf("c07: simultaneous login: connect failed")
		}
		r1, _ := k1.c.Phase1(a, "control")
		r2, _ := k2.c.Phase1(a, "control")
		if r1 == nil || r2 == nil || r1.Challenge == "" || r2.Challenge == "" {
			t.Fatalf("c07: simultaneous login: no challenge")
		}
		delay := r.Intn(1 + []int{0, 200, 2000, 20000}[r.Intn(4)])
		var start atomic.Int32
		var ok1, ok2 bool
		var wg sync.WaitGroup
		wg.Add(2)
		go func() {
			defer wg.Done()
			start.Add(1)
			for start.Load() < 2 {
			}
			rr, _ := k1.c.Phase2(a, HMACResp(sec, r1.Challenge), "control")
			ok1 = rr != nil && rr.Success
		}()
		go func() {
			defer wg.Done()
			start.Add(1)
			for start.Load() < 2 {
			}
			x := 0
			for i := 0; i < delay; i++ {
				x += i
			}
			_ = x
			rr, _ := k2.c.Phase2(a, HMACResp(sec, r2.Challenge), "control")
			ok2 = rr != nil && rr.Success
		}()
		wg.Wait()
		if ok1 {
			k1.ctlAs.Store(a)
			k1.provenAs.Store(a)
		}
		if ok2 {
			k2.ctlAs.Store(a)
			k2.provenAs.Store(a)
		}
		run.Eval(1)
		// quiescence: adapter cleanup for every transport the server closed
		w.prevReg = map[string]bool{}
		w.reap()
		sm := w.n.SM
		live := 0
		var shape []string
		for _, k := range []*c07hConn{k1, k2} {
			rc := sm.GetControlConnection(k.c.ConnID)
			st := "gone"
			if rc != nil && !k.c.ServerClosedTransport() {
				st = fmt.Sprintf("registered,auth=%v,client=%s,transport-open", rc.Authenticated, w.name(rc.ClientID))
				if rc.Authenticated && rc.ClientID == a {
					live++
				}
			}
			shape = append(shape, st)
		}
		cur := sm.GetControlConnectionByClientID(a)
		idx := "nil"
		if cur != nil {
			idx = map[bool]string{true: "c1", false: "c2"}[cur.ConnID == k1.c.ConnID]
			if cur.ConnID != k1.c.ConnID && cur.ConnID != k2.c.ConnID {
				idx = "c0"
			}
		}
		run.Distinct(fmt.Sprintf("c1=%s c2=%s index=%s ok=%v/%v", shape[0], shape[1], idx, ok1, ok2))
		if ok1 && ok2 {
			run.Count("both_logins_succeeded", 1)
		}
		if live > 1 {
			run.Count("both_stay_registered", 1)
			listed, authd := 0, 0
			for _, e := range sm.GetClientRegistry().List() {
				if e.ClientID == a {
					listed++
				}
			}
			for _, e := range sm.GetClientRegistry().ListAuthenticated() {
				if e.ClientID == a {
					authd++
				}
			}
			run.Observe("witness", map[string]any{"round": rd, "spin_delay": delay, "c1": shape[0], "c2": shape[1], "GetControlConnectionByClientID": idx, "List_entries_for_A": listed, "ListAuthenticated_entries_for_A": authd, "transports_closed_by_server": []bool{k1.c.ServerClosedTransport(), k2.c.ServerClosedTransport()}})
		}
		w.check("barrier")
		// close the round's connections (peer EOF)
		for i := 0; i < 3; i++ {
			if k := w.slot(i); k != nil {
				w.cleanup(k, "round end")
			}
		}
	}
	if w != nil {
		w.finish()
		w.close()
	}
	run.Floor("both_logins_succeeded", int64(rounds/2))
}
