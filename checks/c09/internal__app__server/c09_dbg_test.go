//go:build verif && verif_c09

package server

import (
	"context"
	"fmt"
	"strings"
	"testing"
	"time"

	"tunnox-core/internal/cloud/models"
	vk "tunnox-core/internal/verifkit"
)

func TestVerifC09Dbg(t *testing.T) {
	vk.Quiet()
	for i := 0; i < 60; i++ {
		w, err := c09NewWorld(t, "memory")
		if err != nil {
			t.Fatal(err)
		}
		n := w.node
		src := n.NewClient("")
		tgt := n.NewClient("")
		mapping, _ := n.CC.CreatePortMapping(&models.PortMapping{ListenClientID: src.ClientID, TargetClientID: tgt.ClientID, Protocol: models.ProtocolTCP, SourcePort: 18080, TargetHost: "h", TargetPort: 1, SecretKey: "k", Status: models.MappingStatusActive})
		sc := n.MustConnect("")
		sc.Login(src.ClientID, src.Secret, "tunnel")
		tid := fmt.Sprintf("t%d", i)
		c09OpenTunnel(sc, mapping.ID, tid, mapping.SecretKey)
		n.Close()
		t0 := time.Now()
		ok := c09AwaitLifecycleEnd()
		t1 := time.Since(t0)
		st, err := w.other.LookupWaitingTunnel(context.Background(), tid)
		if err == nil {
			var dump []string
			for _, g := range vk.Goroutines() {
				if strings.Contains(g.Stack, "tunnox-core/internal/protocol") {
					dump = append(dump, g.Stack)
				}
			}
			t.Logf("case %d: STALE await=%v in %v st=%v\n%s", i, ok, t1, st.TunnelID, strings.Join(dump, "\n\n"))
			for k := 0; k < 10; k++ {
				time.Sleep(20 * time.Millisecond)
				_, e := w.other.LookupWaitingTunnel(context.Background(), tid)
				t.Logf("  +%dms err=%v lifecycle=%d", (k+1)*20, e, c09LifecycleRunning())
				if e != nil {
					break
				}
			}
		}
		w.cleanup()
	}
}
