//go:build verif && verif_c09

package server

import (
	"context"
	"encoding/json"
	"fmt"
	"math/rand"
	"os"
	"strings"
	"sync"
	"sync/atomic"
	"testing"
	"time"

	"github.com/alicebob/miniredis/v2"

	"tunnox-core/internal/cloud/models"
	"tunnox-core/internal/core/storage"
	"tunnox-core/internal/core/storage/memory"
	"tunnox-core/internal/packet"
	"tunnox-core/internal/protocol/session"
	vk "tunnox-core/internal/verifkit"
)

// C09 lifecycle half — on the mini-server (real SessionManager, auth/tunnel handlers,
// cloud control): a source client opens a tunnel on node A; while the bridge waits, a
// second node's RoutingTable over the same store must resolve the tunnel id to node A
// and to the mapping's data; after the bridge lifecycle has ended (target arrived and
// its transport closed / node context cancelled before any target) the id must not
// resolve any more. "Lifecycle has ended" is decided logically: no goroutine is inside
// SessionManager.runBridgeLifecycle any more (watchdog => inconclusive).

type c09World struct {
	name    string
	node    *miniNode
	other   *session.TunnelRoutingTable // node B's view of the same store
	cleanup func()
}

func c09NewWorld(t *testing.T, backend string, noNodeID bool) (*c09World, error) {
	ctx, cancel := context.WithCancel(context.Background())
	w := &c09World{name: backend}
	var closers []func()
	w.cleanup = func() {
		w.node.Close()
		for _, c := range closers {
			c()
		}
		cancel()
	}
	const ttl = 30 * time.Second // production value: expiry plays no role in this half
	switch backend {
	case "memory":
		st := storage.NewMemoryStorage(ctx)
		w.node = newMiniNode(t, miniOpts{NodeID: "node-a", Store: st, RoutingTTL: ttl})
		w.other = session.NewTunnelRoutingTable(st, ttl)
	case "hybrid-shared":
		mr, err := miniredis.Run()
		if err != nil {
			cancel()
			return nil, err
		}
		closers = append(closers, mr.Close)
		mk := func() (storage.Storage, error) {
			rs, err := storage.NewRedisStorage(ctx, &storage.RedisConfig{Addr: mr.Addr(), PoolSize: 4})
			if err != nil {
				return nil, err
			}
			closers = append([]func(){func() { rs.Close() }}, closers...)
			return storage.NewHybridStorageWithSharedCache(ctx, memory.New(ctx), rs, nil, nil), nil
		}
		sa, err := mk()
		if err != nil {
			cancel()
			mr.Close()
			return nil, err
		}
		sb, err := mk()
		if err != nil {
			cancel()
			mr.Close()
			return nil, err
		}
		w.node = newMiniNode(t, miniOpts{NodeID: "node-a", Store: sa, RoutingTTL: ttl})
		w.other = session.NewTunnelRoutingTable(sb, ttl)
	default:
		cancel()
		return nil, fmt.Errorf("unknown backend %s", backend)
	}
	if noNodeID {
		// a server without a configured node id (SetNodeID never called / empty id)
		w.node.SM.SetNodeID("")
	}
	return w, nil
}

func c09LifecycleRunning() int {
	n := 0
	for _, g := range vk.Goroutines() {
		// a goroutine that was created by `go s.runBridgeLifecycle(...)` but has not been
		// scheduled yet shows up as "startSourceBridge.gowrapN", not under its target's name
		if strings.Contains(g.Stack, ").runBridgeLifecycle") || strings.Contains(g.Stack, ").startSourceBridge.gowrap") {
			n++
		}
	}
	return n
}

// c09AwaitLifecycleEnd polls until no goroutine is inside runBridgeLifecycle (cap 15 s).
func c09AwaitLifecycleEnd() bool {
	for i := 0; i < 1500; i++ {
		if c09LifecycleRunning() == 0 {
			return true
		}
		time.Sleep(10 * time.Millisecond)
	}
	return false
}

// c09RoundTrip writes msg at one harness end and waits (cap 5 s) until exactly these
// bytes arrived at the other harness end.
func c09RoundTrip(from, to *miniClient, msg string) bool {
	if _, err := from.hc.Write([]byte(msg)); err != nil {
		return false
	}
	got := make([]byte, 0, len(msg))
	buf := make([]byte, 4096)
	deadline := time.Now().Add(5 * time.Second)
	for len(got) < len(msg) && time.Now().Before(deadline) {
		to.hc.SetReadDeadline(time.Now().Add(200 * time.Millisecond))
		n, err := to.hc.Read(buf)
		got = append(got, buf[:n]...)
		if err != nil && n == 0 {
			if te, ok := err.(interface{ Timeout() bool }); ok && te.Timeout() {
				continue
			}
			break
		}
	}
	to.hc.SetReadDeadline(time.Time{})
	return string(got) == msg
}

func c09OpenTunnel(c *miniClient, mappingID, tunnelID, secret string) (*packet.TunnelOpenAckResponse, error) {
	b, _ := json.Marshal(&packet.TunnelOpenRequest{MappingID: mappingID, TunnelID: tunnelID, SecretKey: secret})
	err := c.Send(&packet.TransferPacket{PacketType: packet.TunnelOpen, Payload: b})
	for i := 0; i < 4; i++ {
		p := c.Recv(2 * time.Second)
		if p == nil {
			break
		}
		if p.PacketType&0x3F == packet.TunnelOpenAck {
			var r packet.TunnelOpenAckResponse
			if jerr := json.Unmarshal(p.Payload, &r); jerr != nil {
				return nil, jerr
			}
			return &r, err
		}
	}
	return nil, err
}

var c09Hosts = []string{"10.1.2.3", "", "db.内部.example", "h ost", "😀.example", `q"uo\te`, "a\x00b", strings.Repeat("h", 4096)}
var c09LPorts = []int{3306, 0, 65535, -1, 80}

func TestVerifC09Lifecycle(t *testing.T) {
	vk.Quiet()
	run := vk.Start(t, "C09", "bridge-lifecycle")
	defer run.Finish()
	run.Rule("per case: backend x ending (target-closes | source-closes-after-target | node-cancelled-before-target | dup-race = 2-4 concurrent + 1 sequential duplicate source opens for one tunnel id, then node-cancelled) x node id (configured | unset) x tunnel-id/target-host/port shape; real TunnelOpen through SessionManager.HandlePacket; " +
		"lookups through a second RoutingTable (other node) on the same store; distinct = (backend, ending, host index, port index)")
	r := run.Rand("lifecycle")
	n := run.Pick(160, 1600)
	endings := []string{"target-closes", "source-closes", "node-cancelled", "dup-race"}
	backends := []string{"memory", "hybrid-shared"}
	for i := 0; i < n; i++ {
		if run.Violations() > 10 {
			break
		}
		backend := backends[i%len(backends)]
		ending := endings[(i/len(backends))%len(endings)]
		hi, pi := r.Intn(len(c09Hosts)), r.Intn(len(c09LPorts))
		tid := fmt.Sprintf("tun-%d-%d", i, r.Int63())
		if r.Intn(3) == 0 {
			tid = fmt.Sprintf("隧道 \"%d\\😀-%d", i, r.Int63())
		}
		nodeMode := "configured"
		if (i/(len(backends)*len(endings)))%2 == 1 {
			nodeMode = "unset"
		}
		sig := fmt.Sprintf("%s|%s|node_id=%s", backend, ending, nodeMode)
		detail := map[string]any{"case": i, "backend": backend, "ending": ending, "node_id": nodeMode, "tunnel_id": tid, "host_index": hi, "port": c09LPorts[pi]}
		run.Case(sig, detail)
		c09LifecycleCase(t, run, r, backend, ending, tid, c09Hosts[hi], c09LPorts[pi], detail)
		run.Eval(1)
		run.Distinct(fmt.Sprintf("%s|%s|%s|h%d|p%d", backend, ending, nodeMode, hi, pi))
	}
	// a watchdog or a broken setup makes the run inconclusive, never a violation
	var inconclusive int64
	for _, k := range []string{"watchdog_previous_lifecycle", "watchdog_lifecycle_end", "watchdog_roundtrip", "world_setup_failed",
		"mapping_setup_failed", "source_login_failed", "source_open_failed", "target_login_failed", "target_open_failed"} {
		inconclusive += run.Counter(k)
	}
	if inconclusive > 0 {
		run.Count("inconclusive_cases", inconclusive)
		run.Floor("all_cases_conclusive", 1) // never reached
	}
	for _, b := range backends {
		run.Floor("waiting_resolved_from_other_node|"+b, int64(n/4))
		for _, e := range endings {
			run.Floor("ended_not_resolving|"+b+"|"+e, int64(n/10))
		}
		run.Floor("duplicate_opens_survived|"+b, int64(n/10))
	}
	for _, e := range endings {
		run.Floor("ended_not_resolving|node_id_unset|"+e, int64(n/20))
	}
	// non-vacuity of the race: duplicate opens really reached startSourceBridge's own bridge-exists check
	run.Floor("race_loser_rejected_in_startSourceBridge", int64(n/40))
	{
	}
}

func c09LifecycleCase(t *testing.T, run *vk.Run, rng *rand.Rand, backend, ending, tid, host string, port int, detail map[string]any) {
	if !c09AwaitLifecycleEnd() {
		run.Count("watchdog_previous_lifecycle", 1)
		return
	}
	noNodeID := detail["node_id"] == "unset"
	w, err := c09NewWorld(t, backend, noNodeID)
	if err != nil {
		run.Count("world_setup_failed", 1)
		return
	}
	defer w.cleanup()
	ctx := context.Background()
	n := w.node
	src := n.NewClient("")
	tgt := n.NewClient("")
	mapping, err := n.CC.CreatePortMapping(&models.PortMapping{
		ListenClientID: src.ClientID, TargetClientID: tgt.ClientID, Protocol: models.ProtocolTCP,
		SourcePort: 18080, TargetHost: host, TargetPort: port, SecretKey: "mk-" + tid, Status: models.MappingStatusActive,
	})
	if err != nil || mapping == nil {
		run.Count("mapping_setup_failed", 1)
		detail["setup_error"] = fmt.Sprint(err)
		run.Observe("last_setup_error", detail)
		return
	}
	// before anything: the id must not resolve
	if st, err := w.other.LookupWaitingTunnel(ctx, tid); err == nil && st != nil {
		run.Violation("C09:lifecycle|phantom-before-open|backend="+backend, detail)
		return
	}
	// checkWaiting: while the source waits, the other node's table must resolve the id to
	// node-a and to exactly the mapping's data (and so must node-a's own table).
	checkWaiting := func(phase string) bool {
		for _, view := range []struct {
			name string
			rt   *session.TunnelRoutingTable
		}{{"other-node", w.other}, {"own-node", n.Routing}} {
			st, lerr := view.rt.LookupWaitingTunnel(ctx, tid)
			if lerr != nil || st == nil {
				run.Violation("C09:lifecycle|lost-while-waiting|backend="+backend+"|phase="+phase, map[string]any{"case": detail, "view": view.name, "error": fmt.Sprint(lerr)})
				return false
			}
			var diff []string
			if st.TunnelID != tid {
				diff = append(diff, "TunnelID")
			}
			if st.MappingID != mapping.ID {
				diff = append(diff, "MappingID")
			}
			// without a configured node id there is no "correct source node" to compare with
			if !noNodeID && st.SourceNodeID != "node-a" {
				diff = append(diff, "SourceNodeID")
			}
			if st.SourceClientID != src.ClientID {
				diff = append(diff, "SourceClientID")
			}
			if st.TargetClientID != tgt.ClientID {
				diff = append(diff, "TargetClientID")
			}
			if st.TargetHost != host {
				diff = append(diff, "TargetHost")
			}
			if st.TargetPort != port {
				diff = append(diff, "TargetPort")
			}
			if len(diff) > 0 {
				for _, f := range diff {
					run.Violation("C09:lifecycle|field-mismatch|backend="+backend+"|field="+f, map[string]any{"case": detail, "phase": phase, "view": view.name, "got": fmt.Sprintf("%+v", *st),
						"want": fmt.Sprintf("mapping=%s src=%d tgt=%d host=%q port=%d node=node-a", mapping.ID, src.ClientID, tgt.ClientID, host, port)})
				}
				return false
			}
		}
		return true
	}
	sourceConn := func() *miniClient {
		c := n.MustConnect("")
		if ok, err := c.Login(src.ClientID, src.Secret, "tunnel"); !ok {
			run.Count("source_login_failed", 1)
			detail["setup_error"] = fmt.Sprint(err)
			run.Observe("last_setup_error", detail)
			return nil
		}
		return c
	}
	var sc *miniClient
	if ending == "dup-race" {
		// K source-side opens for ONE tunnel id from the same listen client on K
		// connections, released together (spin barrier): retransmit / replay race.
		k := 2 + rng.Intn(3)
		detail["racers"] = k
		conns := make([]*miniClient, k)
		for i := range conns {
			if conns[i] = sourceConn(); conns[i] == nil {
				return
			}
		}
		payload, _ := json.Marshal(&packet.TunnelOpenRequest{MappingID: mapping.ID, TunnelID: tid, SecretKey: mapping.SecretKey})
		errs := make([]error, k)
		var arrived atomic.Int32
		var wg sync.WaitGroup
		for i := range conns {
			wg.Add(1)
			go func(i int) {
				defer wg.Done()
				arrived.Add(1)
				for spins := 0; arrived.Load() < int32(k) && spins < 1<<26; spins++ {
				}
				errs[i] = conns[i].Send(&packet.TransferPacket{PacketType: packet.TunnelOpen, Payload: append([]byte(nil), payload...)})
			}(i)
		}
		wg.Wait()
		for _, e := range errs {
			if e != nil && strings.Contains(e.Error(), "already exists") {
				run.Count("race_loser_rejected_in_startSourceBridge", 1)
			}
		}
		if n.SM.GetTunnelBridgeByMappingID(mapping.ID, 0) == nil {
			run.Count("race_no_waiting_bridge", 1) // nobody is waiting: nothing to judge
			return
		}
		run.Count("race_cases_with_waiting_bridge", 1)
		if !checkWaiting("after-concurrent-source-opens") {
			return
		}
		// a sequential duplicate open on yet another connection (bridge already published)
		dup := sourceConn()
		if dup == nil {
			return
		}
		_, _ = c09OpenTunnel(dup, mapping.ID, tid, mapping.SecretKey)
		if n.SM.GetTunnelBridgeByMappingID(mapping.ID, 0) == nil {
			run.Count("race_no_waiting_bridge", 1)
			return
		}
		if !checkWaiting("after-sequential-duplicate-open") {
			return
		}
		run.Count("duplicate_opens_survived|"+backend, 1)
	} else {
		if sc = sourceConn(); sc == nil {
			return
		}
		ack, oerr := c09OpenTunnel(sc, mapping.ID, tid, mapping.SecretKey)
		if ack == nil || !ack.Success {
			run.Count("source_open_failed", 1)
			detail["setup_error"] = fmt.Sprintf("ack=%+v err=%v", ack, oerr)
			run.Observe("last_setup_error", detail)
			return
		}
		// The source bridge is waiting (bridge + routing record are created synchronously
		// inside HandlePacket before it returned).
		if !checkWaiting("after-source-open") {
			return
		}
	}
	run.Count("waiting_resolved_from_other_node|"+backend, 1)

	switch ending {
	case "target-closes", "source-closes":
		tc := n.MustConnect("")
		if ok, err := tc.Login(tgt.ClientID, tgt.Secret, "tunnel"); !ok {
			run.Count("target_login_failed", 1)
			detail["setup_error"] = fmt.Sprint(err)
			run.Observe("last_setup_error", detail)
			return
		}
		ack, oerr := c09OpenTunnel(tc, mapping.ID, tid, mapping.SecretKey)
		if ack == nil || !ack.Success {
			run.Count("target_open_failed", 1)
			detail["setup_error"] = fmt.Sprintf("ack=%+v err=%v", ack, oerr)
			run.Observe("last_setup_error", detail)
			return
		}
		run.Count("target_attached", 1)
		// The tunnel is served: prove that both forwarding directions are running by a
		// byte round trip (this also keeps the harness out of a start-up window of
		// Bridge.Start that belongs to other properties), then end it from one side.
		// VERIF_C09_ABRUPT=1 skips the round trip (reproduces the Bridge.Start nil-forwarder crash).
		if os.Getenv("VERIF_C09_ABRUPT") == "" {
			if !c09RoundTrip(sc, tc, "ping-"+tid) || !c09RoundTrip(tc, sc, "pong-"+tid) {
				run.Count("watchdog_roundtrip", 1)
				return
			}
			run.Count("served_roundtrip", 1)
		}
		if ending == "target-closes" {
			tc.hc.Close()
		} else {
			sc.hc.Close()
		}
	case "node-cancelled", "dup-race":
		n.Close() // cancels the node context (stores stay open): the bridge is cancelled before any target arrived
	}
	if !c09AwaitLifecycleEnd() {
		run.Count("watchdog_lifecycle_end", 1)
		return
	}
	run.Count("lifecycle_ended", 1)
	if st, err := w.other.LookupWaitingTunnel(ctx, tid); err == nil && st != nil {
		// evidence only (does not change the verdict): does the record go away a little later?
		time.Sleep(300 * time.Millisecond)
		_, err2 := w.other.LookupWaitingTunnel(ctx, tid)
		run.Violation("C09:lifecycle|stale-after-bridge-end|backend="+backend+"|ending="+ending+"|node_id="+fmt.Sprint(detail["node_id"]), map[string]any{"case": detail, "got": fmt.Sprintf("%+v", *st),
			"still_resolves_300ms_later": err2 == nil, "lifecycle_goroutines_now": c09LifecycleRunning(), "frames": vk.FrameSummary(vk.Goroutines())})
		return
	}
	run.Count("ended_not_resolving|"+backend+"|"+ending, 1)
	if noNodeID {
		run.Count("ended_not_resolving|node_id_unset|"+ending, 1)
	}
}
