//go:build verif && verif_c09

package server

import (
	"context"
	"fmt"
	"net"
	"os"
	"strings"
	"testing"
	"time"

	"github.com/alicebob/miniredis/v2"

	"tunnox-core/internal/cloud/models"
	coreerrors "tunnox-core/internal/core/errors"
	"tunnox-core/internal/core/storage"
	"tunnox-core/internal/protocol/session"
	"tunnox-core/internal/stream"
	vk "tunnox-core/internal/verifkit"
)

// C09, failed cross-node attach — two (three) mini-server nodes on one shared store:
// the source opens its tunnel on node A (bridge waiting); a target connection arrives
// at node B, B resolves the id to node A (real handleTunnelOpen -> cross_node_session
// path with a real TunnelConnectionManager) but cannot reach A (no / dead / dropping
// address for A). The tunnel has not been served, has not ended and has not expired:
// the id must still resolve from every node to node A with the registered data, also
// after a second failed attempt; after A's lifecycle ended it must not resolve.

type c09XWorld struct {
	nodes   []*miniNode // nodes[0] = node-a (source side)
	cleanup func()
}

func c09NewXWorld(t *testing.T, backend string, nNodes int) (*c09XWorld, error) {
	ctx, cancel := context.WithCancel(context.Background())
	w := &c09XWorld{}
	var closers []func()
	w.cleanup = func() {
		for _, n := range w.nodes {
			n.Close()
		}
		for _, c := range closers {
			c()
		}
		cancel()
	}
	ids := []string{"node-a", "node-b", "node-c"}
	var mem storage.Storage
	var mr *miniredis.Miniredis
	switch backend {
	case "memory":
		mem = storage.NewMemoryStorage(ctx)
	case "redis":
		var err error
		if mr, err = miniredis.Run(); err != nil {
			cancel()
			return nil, err
		}
		closers = append(closers, mr.Close)
	default:
		cancel()
		return nil, fmt.Errorf("unknown backend %s", backend)
	}
	for i := 0; i < nNodes; i++ {
		st := mem
		if mr != nil {
			rs, err := storage.NewRedisStorage(ctx, &storage.RedisConfig{Addr: mr.Addr(), PoolSize: 4})
			if err != nil {
				w.cleanup()
				return nil, err
			}
			closers = append([]func(){func() { rs.Close() }}, closers...)
			st = rs
		}
		n := newMiniNode(t, miniOpts{NodeID: ids[i], Store: st, RoutingTTL: 30 * time.Second, NoCommands: i > 0})
		mgr := session.NewTunnelConnectionManager(n.Routing.GetNodeAddress, session.TunnelConnectionManagerConfig{DialTimeout: 2 * time.Second, IdleTimeout: time.Minute})
		n.SM.SetTunnelConnectionManager(mgr)
		closers = append(closers, mgr.Close)
		w.nodes = append(w.nodes, n)
	}
	return w, nil
}

// c09DeadAddr returns a loopback address nobody listens on (connection refused).
func c09DeadAddr() (string, error) {
	l, err := net.Listen("tcp", "127.0.0.1:0")
	if err != nil {
		return "", err
	}
	a := l.Addr().String()
	l.Close()
	return a, nil
}

// c09DroppingListener accepts connections and resets them at once.
func c09DroppingListener() (string, func(), error) {
	l, err := net.Listen("tcp", "127.0.0.1:0")
	if err != nil {
		return "", nil, err
	}
	go func() {
		for {
			c, err := l.Accept()
			if err != nil {
				return
			}
			if tc, ok := c.(*net.TCPConn); ok {
				tc.SetLinger(0)
			}
			c.Close()
		}
	}()
	return l.Addr().String(), func() { l.Close() }, nil
}

func TestVerifC09CrossNodeFailedForward(t *testing.T) {
	vk.Quiet()
	run := vk.Start(t, "C09", "crossnode-failed-forward")
	defer run.Finish()
	run.Rule("per case: store (memory | redis client per node on miniredis) x how node A is unreachable from the attaching node (no address registered | dead address: connection refused | listener that resets every connection) x 2-3 nodes x 1-2 failed attach attempts (second one from another node when there are 3); " +
		"real TunnelOpen on node A (source) and on node B/C (target, through SessionManager.HandlePacket -> handleCrossNodeTargetConnection -> forwardToSourceNode with a real TunnelConnectionManager); distinct = (store, unreachability, nodes, attempts)")
	r := run.Rand("xnode")
	n := run.Pick(48, 600)
	modes := []string{"no-address", "dead-address", "dropping-listener"}
	backends := []string{"memory", "redis"}
	for i := 0; i < n && run.Violations() < 10; i++ {
		backend := backends[i%2]
		mode := modes[(i/2)%len(modes)]
		nNodes := 2 + (i/6)%2
		attempts := 1 + (i/12)%2
		tid := fmt.Sprintf("tcp-tunnel-%d-%d", 1700000000000000000+r.Int63n(1<<40), 10000+i)
		if r.Intn(4) == 0 {
			tid = fmt.Sprintf("隧道/%d:%d", i, r.Int63())
		}
		hi, pi := r.Intn(len(c09Hosts)), r.Intn(len(c09LPorts))
		detail := map[string]any{"case": i, "store": backend, "unreachable": mode, "nodes": nNodes, "attempts": attempts, "tunnel_id": tid, "host_index": hi, "port": c09LPorts[pi]}
		run.Case(backend+"|"+mode, detail)
		c09XCase(t, run, backend, mode, nNodes, attempts, tid, c09Hosts[hi], c09LPorts[pi], detail)
		run.Eval(1)
		run.Distinct(fmt.Sprintf("%s|%s|n%d|a%d", backend, mode, nNodes, attempts))
	}
	var inconclusive int64
	for _, k := range []string{"x_world_setup_failed", "x_setup_failed", "x_watchdog_lifecycle"} {
		inconclusive += run.Counter(k)
	}
	if inconclusive > 0 {
		run.Count("inconclusive_cases", inconclusive)
		run.Floor("all_cases_conclusive", 1)
	}
	for _, b := range backends {
		run.Floor("still_routable_after_failed_attach|"+b, int64(n/4))
		run.Floor("ended_not_resolving|"+b, int64(n/4))
	}
	for _, m := range []string{"no-address", "dead-address"} {
		// the window: the attaching node really resolved the record and really failed to reach node A
		run.Floor("attach_failed_after_resolving|"+m, int64(n/8))
	}
}

func c09XCase(t *testing.T, run *vk.Run, backend, mode string, nNodes, attempts int, tid, host string, port int, detail map[string]any) {
	if !c09AwaitLifecycleEnd() {
		run.Count("x_watchdog_lifecycle", 1)
		return
	}
	w, err := c09NewXWorld(t, backend, nNodes)
	if err != nil {
		run.Count("x_world_setup_failed", 1)
		run.Observe("last_x_setup_error", fmt.Sprint(err))
		return
	}
	defer w.cleanup()
	ctx := context.Background()
	a := w.nodes[0]
	setupFail := func(what string, err any) {
		run.Count("x_setup_failed", 1)
		detail["setup_error"] = fmt.Sprintf("%s: %v", what, err)
		run.Observe("last_x_setup_error", detail)
	}
	src := a.NewClient("")
	tgt := a.NewClient("")
	mapping, err := a.CC.CreatePortMapping(&models.PortMapping{
		ListenClientID: src.ClientID, TargetClientID: tgt.ClientID, Protocol: models.ProtocolTCP,
		SourcePort: 18080, TargetHost: host, TargetPort: port, SecretKey: "mk-" + tid, Status: models.MappingStatusActive,
	})
	if err != nil || mapping == nil {
		setupFail("mapping", err)
		return
	}
	switch mode {
	case "no-address":
	case "dead-address":
		addr, err := c09DeadAddr()
		if err != nil {
			setupFail("dead addr", err)
			return
		}
		if err := a.Routing.RegisterNodeAddress("node-a", addr); err != nil {
			setupFail("register node address", err)
			return
		}
	case "dropping-listener":
		addr, stop, err := c09DroppingListener()
		if err != nil {
			setupFail("listener", err)
			return
		}
		defer stop()
		if err := a.Routing.RegisterNodeAddress("node-a", addr); err != nil {
			setupFail("register node address", err)
			return
		}
	}
	sc := a.MustConnect("")
	if ok, err := sc.Login(src.ClientID, src.Secret, "tunnel"); !ok {
		setupFail("source login", err)
		return
	}
	ack, oerr := c09OpenTunnel(sc, mapping.ID, tid, mapping.SecretKey)
	if ack == nil || !ack.Success {
		setupFail("source open", fmt.Sprintf("ack=%+v err=%v", ack, oerr))
		return
	}
	// every node must resolve the waiting tunnel to node-a with the mapping's data
	checkAll := func(phase string) bool {
		for _, nd := range w.nodes {
			st, lerr := nd.Routing.LookupWaitingTunnel(ctx, tid)
			if lerr != nil || st == nil {
				run.Violation("C09:xnode|lost-while-waiting|store="+backend+"|phase="+phase, map[string]any{"case": detail, "lookup_from": nd.NodeID, "error": fmt.Sprint(lerr)})
				return false
			}
			if st.TunnelID != tid || st.MappingID != mapping.ID || st.SourceNodeID != "node-a" || st.SourceClientID != src.ClientID ||
				st.TargetClientID != tgt.ClientID || st.TargetHost != host || st.TargetPort != port {
				run.Violation("C09:xnode|field-mismatch|store="+backend+"|phase="+phase, map[string]any{"case": detail, "lookup_from": nd.NodeID, "got": fmt.Sprintf("%+v", *st),
					"want": fmt.Sprintf("mapping=%s src=%d tgt=%d host=%q port=%d node=node-a", mapping.ID, src.ClientID, tgt.ClientID, host, port)})
				return false
			}
		}
		return true
	}
	if !checkAll("after-source-open") {
		return
	}
	for k := 0; k < attempts; k++ {
		nb := w.nodes[1+k%(len(w.nodes)-1)]
		tc := nb.MustConnect("")
		if ok, err := tc.Login(tgt.ClientID, tgt.Secret, "tunnel"); !ok {
			setupFail("target login on "+nb.NodeID, err)
			return
		}
		_, aerr := c09OpenTunnel(tc, mapping.ID, tid, mapping.SecretKey)
		// whether the attach "failed" is an observation (window counter), not a verdict:
		// the source on node-a has not been given a target either way (nothing real listens for A)
		// (NETWORK_ERROR is what forwardToSourceNode returns after it resolved the record and
		// could not connect / write to the source node; TUNNEL_MODE_SWITCH = it believes it forwarded)
		switch {
		case coreerrors.IsCode(aerr, coreerrors.CodeNetworkError):
			run.Count("attach_failed_after_resolving|"+mode, 1)
		case coreerrors.IsCode(aerr, coreerrors.CodeTunnelModeSwitch):
			run.Count("attach_forward_believed_ok|"+mode, 1)
		default:
			run.Count("attach_other_outcome|"+mode, 1)
			run.Observe("last_other_attach_outcome", fmt.Sprint(aerr))
		}
		if a.SM.GetTunnelBridgeByMappingID(mapping.ID, 0) == nil {
			run.Count("x_source_bridge_gone", 1) // nobody waits any more: nothing to judge
			return
		}
		if !checkAll(fmt.Sprintf("after-failed-attach-%d", k+1)) {
			return
		}
	}
	run.Count("still_routable_after_failed_attach|"+backend, 1)
	// end the tunnel on node-a: afterwards no node may resolve it
	a.Close()
	if !c09AwaitLifecycleEnd() {
		run.Count("x_watchdog_lifecycle", 1)
		return
	}
	for _, nd := range w.nodes[1:] {
		if st, err := nd.Routing.LookupWaitingTunnel(ctx, tid); err == nil && st != nil {
			run.Violation("C09:xnode|stale-after-bridge-end|store="+backend, map[string]any{"case": detail, "lookup_from": nd.NodeID, "got": fmt.Sprintf("%+v", *st)})
			return
		}
	}
	run.Count("ended_not_resolving|"+backend, 1)
}

// ---------------------------------------------------------------- late target after a source re-attach
//
// The bridge's wait for its target and the routing record are both 30 s in the
// production wiring and neither has a knob, so this scenario needs ~33 s of real time:
// it runs in the thorough tier only (or with VERIF_C09_LATE=1 in any tier).
// Source opens T on node-a; later the same listen client re-attaches to the waiting
// bridge on another connection (real TunnelOpen -> handleExistingBridge ->
// SetSourceConnection, confirmed through the bridge accessor); a control tunnel T2 is
// opened at the same time and never re-attached. After 30 s the tunnels are sampled:
//   source still waiting (bridge published, no target, a goroutine parked in
//   Bridge.Start's wait) => every node must resolve the id;  bridge gone => must not.
// "Still waiting but unroutable" is reported only if it holds at three samples 400 ms
// apart (a wait that merely has not been torn down yet is not a violation).

type c09LateTunnel struct {
	w          *c09XWorld
	store      string
	mapping    *models.PortMapping
	tid        string
	reattachAt time.Duration // 0 = control, never re-attached
	reattached bool
	src, tgt   *miniClient
	opened     time.Time
}

// c09IDConn is a server-side transport end that carries the authenticated client id,
// like protocol adapters whose connection object knows its client.
type c09IDConn struct {
	*vk.BufConn
	clientID int64
}

func (c *c09IDConn) GetClientID() int64 { return c.clientID }

func c09ConnectWithIdentity(n *miniNode, clientID int64) (*miniClient, error) {
	k := miniAddrSeq.Add(1)
	remote := fmt.Sprintf("10.%d.%d.%d:41000", (k>>16)&255, (k>>8)&255, k&255)
	sc, hc := vk.BufPipe(remote, "127.0.0.1:7000")
	idc := &c09IDConn{BufConn: sc, clientID: clientID}
	stc, err := n.SM.AcceptConnection(idc, idc)
	if err != nil {
		sc.Close()
		hc.Close()
		return nil, err
	}
	c := &miniClient{n: n, hc: hc, sc: sc, ConnID: stc.ID}
	c.sp = stream.NewStreamProcessor(hc, hc, n.ctx)
	n.mu.Lock()
	n.clients = append(n.clients, c)
	n.mu.Unlock()
	return c, nil
}

func c09ParkedInBridgeStart() int {
	n := 0
	for _, g := range vk.Goroutines() {
		if strings.HasPrefix(g.State, "select") && strings.Contains(g.Stack, "tunnel.(*Bridge).Start") {
			n++
		}
	}
	return n
}

func (lt *c09LateTunnel) sample(ctx context.Context) (waiting, resolved bool, info string) {
	a := lt.w.nodes[0]
	br := a.SM.GetTunnelBridgeByMappingID(lt.mapping.ID, 0)
	waiting = br != nil && br.GetTargetConnectionID() == ""
	resolved = true
	for _, nd := range lt.w.nodes {
		st, err := nd.Routing.LookupWaitingTunnel(ctx, lt.tid)
		if err != nil || st == nil {
			resolved = false
			info += fmt.Sprintf("%s:%v ", nd.NodeID, err)
		} else if st.SourceNodeID != "node-a" || st.MappingID != lt.mapping.ID {
			info += fmt.Sprintf("%s:wrong-record(%s,%s) ", nd.NodeID, st.SourceNodeID, st.MappingID)
		}
	}
	return
}

func TestVerifC09LateTargetAfterReattach(t *testing.T) {
	vk.Quiet()
	run := vk.Start(t, "C09", "late-target-after-reattach")
	defer run.Finish()
	run.Rule("thorough tier only (~33 s real time; Bridge wait and routing TTL are fixed at 30 s): worlds = store (memory | redis per node) x re-attach time (5 s | 15 s | 25 s after the open); per world tunnel T (source re-attaches on a second connection) and control T2 (never re-attached); " +
		"sampled at +20 s (must resolve) and three times after +31.5 s (still waiting => must resolve, bridge gone => must not); distinct = (store, re-attach time, re-attached?)")
	if !run.Thorough() && os.Getenv("VERIF_C09_LATE") == "" {
		run.Observe("skipped", "needs ~33 s of real time: thorough tier only (set VERIF_C09_LATE=1 to force)")
		return
	}
	if !c09AwaitLifecycleEnd() {
		run.Count("late_watchdog", 1)
		run.Floor("all_cases_conclusive", 1)
		return
	}
	ctx := context.Background()
	var tunnels []*c09LateTunnel
	var worlds []*c09XWorld
	defer func() {
		for _, w := range worlds {
			w.cleanup()
		}
		c09AwaitLifecycleEnd()
	}()
	k := 0
	for _, store := range []string{"memory", "redis"} {
		for _, at := range []time.Duration{5 * time.Second, 15 * time.Second, 25 * time.Second} {
			w, err := c09NewXWorld(t, store, 2)
			if err != nil {
				run.Count("late_setup_failed", 1)
				continue
			}
			worlds = append(worlds, w)
			a := w.nodes[0]
			src, tgt := a.NewClient(""), a.NewClient("")
			for _, reAt := range []time.Duration{at, 0} {
				k++
				m, err := a.CC.CreatePortMapping(&models.PortMapping{ListenClientID: src.ClientID, TargetClientID: tgt.ClientID, Protocol: models.ProtocolTCP,
					SourcePort: 18080 + k, TargetHost: "10.1.2.3", TargetPort: 5432, SecretKey: fmt.Sprintf("mk-late-%d", k), Status: models.MappingStatusActive})
				if err != nil || m == nil {
					run.Count("late_setup_failed", 1)
					continue
				}
				lt := &c09LateTunnel{w: w, store: store, mapping: m, tid: fmt.Sprintf("tcp-tunnel-%d-%d", 1700000000000000000+int64(k), 18080+k), reattachAt: reAt, src: src, tgt: tgt}
				sc := a.MustConnect("")
				if ok, _ := sc.Login(src.ClientID, src.Secret, "tunnel"); !ok {
					run.Count("late_setup_failed", 1)
					continue
				}
				lt.opened = time.Now()
				if ack, _ := c09OpenTunnel(sc, m.ID, lt.tid, m.SecretKey); ack == nil || !ack.Success {
					run.Count("late_setup_failed", 1)
					continue
				}
				if waiting, resolved, info := lt.sample(ctx); !waiting || !resolved {
					run.Violation("C09:late|lost-while-waiting|store="+store+"|phase=after-open", map[string]any{"tunnel": lt.tid, "waiting": waiting, "info": info})
					continue
				}
				tunnels = append(tunnels, lt)
			}
		}
	}
	if len(tunnels) == 0 {
		run.Floor("all_cases_conclusive", 1)
		return
	}
	first, last := tunnels[0].opened, tunnels[len(tunnels)-1].opened
	sleepUntil := func(ref time.Time, d time.Duration) { time.Sleep(time.Until(ref.Add(d))) }
	reattach := func(at time.Duration) {
		for _, lt := range tunnels {
			if lt.reattachAt != at {
				continue
			}
			a := lt.w.nodes[0]
			before := a.SM.GetTunnelBridgeByMappingID(lt.mapping.ID, 0)
			if before == nil {
				run.Count("late_bridge_gone_before_reattach", 1)
				continue
			}
			oldSrc := before.GetSourceConnectionID()
			// the re-attaching connection arrives on a transport that knows its client id
			// (what session.extractClientID asks the stream's reader for)
			rc, cerr := c09ConnectWithIdentity(a, lt.src.ClientID)
			if cerr != nil {
				run.Count("late_setup_failed", 1)
				continue
			}
			if ok, _ := rc.Login(lt.src.ClientID, lt.src.Secret, "tunnel"); !ok {
				run.Count("late_setup_failed", 1)
				continue
			}
			_, _ = c09OpenTunnel(rc, lt.mapping.ID, lt.tid, lt.mapping.SecretKey)
			after := a.SM.GetTunnelBridgeByMappingID(lt.mapping.ID, 0)
			if after != nil && after.GetSourceConnectionID() != oldSrc && after.GetTargetConnectionID() == "" {
				lt.reattached = true
				run.Count("source_reattached_to_waiting_bridge|"+lt.store, 1)
			} else {
				run.Count("late_reattach_not_effective", 1)
			}
		}
	}
	mustResolve := func(phase string) {
		for _, lt := range tunnels {
			waiting, resolved, info := lt.sample(ctx)
			if waiting && time.Since(lt.opened) < 29*time.Second {
				if !resolved {
					run.Violation("C09:late|lost-while-waiting|store="+lt.store+"|phase="+phase, map[string]any{"tunnel": lt.tid, "info": info, "reattached": lt.reattached})
				} else {
					run.Count("routable_while_waiting|"+phase, 1)
				}
			}
		}
	}
	sleepUntil(last, 5*time.Second)
	reattach(5 * time.Second)
	mustResolve("after-reattach-5s")
	sleepUntil(last, 15*time.Second)
	reattach(15 * time.Second)
	mustResolve("after-reattach-15s")
	sleepUntil(first, 20*time.Second)
	mustResolve("at-20s")
	sleepUntil(last, 25*time.Second)
	reattach(25 * time.Second)
	mustResolve("after-reattach-25s")

	// past the first 30 s of every tunnel
	sleepUntil(last, 31500*time.Millisecond)
	type verdict struct{ lostWhileWaiting, staleAfterEnd int }
	v := make([]verdict, len(tunnels))
	var lastInfo = make([]string, len(tunnels))
	const samples = 3
	for s := 0; s < samples; s++ {
		parked := c09ParkedInBridgeStart()
		for i, lt := range tunnels {
			waiting, resolved, info := lt.sample(ctx)
			lastInfo[i] = info
			switch {
			case waiting && !resolved && parked > 0:
				v[i].lostWhileWaiting++
			case !waiting && resolved:
				v[i].staleAfterEnd++
			case waiting && resolved:
				run.Count("late_sample|still_waiting_and_routable", 1)
			default:
				run.Count("late_sample|ended_and_unroutable", 1)
			}
		}
		if s < samples-1 {
			time.Sleep(400 * time.Millisecond)
		}
	}
	for i, lt := range tunnels {
		re := fmt.Sprintf("reattached=%v", lt.reattached)
		run.Eval(1)
		run.Distinct(fmt.Sprintf("%s|reattach_at=%v|%s", lt.store, lt.reattachAt, re))
		run.Count("sampled_after_30s|"+re, 1)
		detail := map[string]any{"tunnel": lt.tid, "store": lt.store, "reattach_at_s": lt.reattachAt.Seconds(), "reattached": lt.reattached,
			"age_s": time.Since(lt.opened).Seconds(), "lookups": lastInfo[i]}
		switch {
		case v[i].lostWhileWaiting == samples:
			run.Violation("C09:late|source-still-waiting-but-unroutable|store="+lt.store+"|"+re, detail)
		case v[i].staleAfterEnd == samples:
			run.Violation("C09:late|stale-after-bridge-end|store="+lt.store+"|"+re, detail)
		default:
			run.Count("late_consistent|"+re, 1)
		}
	}
	nw := int64(len(worlds))
	run.Floor("sampled_after_30s|reattached=true", nw)
	run.Floor("sampled_after_30s|reattached=false", nw)
	run.Floor("source_reattached_to_waiting_bridge|memory", 3)
	run.Floor("source_reattached_to_waiting_bridge|redis", 3)
	run.Floor("routable_while_waiting|at-20s", 2*nw)
	if run.Counter("late_setup_failed")+run.Counter("late_reattach_not_effective")+run.Counter("late_bridge_gone_before_reattach") > 0 {
		run.Floor("all_cases_conclusive", 1)
	}
}

// ---------------------------------------------------------------- retried tunnel id through the same forwarding node
//
// Three nodes on one store. The cross-node endpoints of the source nodes are harness
// listeners that decode the TargetReady frame a forwarding node sends (so "node B routed
// the target to source node X" is observed AT node X's endpoint).
//  1. source opens T on node-a (waiting); a target arrives at node-b: B resolves T and
//     forwards to node-a's endpoint; that attempt then ends (endpoint and target close,
//     B has marked T closed — observed through SessionManager.IsTunnelClosed).
//  2. node-a goes away (its lifecycle ends, record removed); the source retries the SAME
//     tunnel id on node-c: a new bridge waits there, every node resolves T to node-c.
//  3. a target arrives at node-b again: it must be routed to node-c (TargetReady for T
//     from node-b reaches node-c's endpoint).

type c09Ready struct {
	tunnelID, fromNode string
	err                error
}

type c09Endpoint struct {
	addr   string
	frames chan c09Ready
	stop   func()
}

func c09NewEndpoint() (*c09Endpoint, error) {
	l, err := net.Listen("tcp", "127.0.0.1:0")
	if err != nil {
		return nil, err
	}
	ep := &c09Endpoint{addr: l.Addr().String(), frames: make(chan c09Ready, 16), stop: func() { l.Close() }}
	go func() {
		for {
			c, err := l.Accept()
			if err != nil {
				return
			}
			go func(c net.Conn) {
				defer c.Close() // the attempt ends right after the frame was read
				tc, ok := c.(*net.TCPConn)
				if !ok {
					return
				}
				tc.SetReadDeadline(time.Now().Add(10 * time.Second))
				_, ft, data, err := session.ReadFrame(tc)
				if err != nil {
					ep.frames <- c09Ready{err: err}
					return
				}
				if ft != session.FrameTypeTargetReady {
					ep.frames <- c09Ready{err: fmt.Errorf("frame type 0x%02x", ft)}
					return
				}
				id, node, derr := session.DecodeTargetReadyMessage(data)
				ep.frames <- c09Ready{tunnelID: id, fromNode: node, err: derr}
			}(c)
		}
	}()
	return ep, nil
}

// await returns the next frame (nil on the 5 s watchdog).
func (ep *c09Endpoint) await() *c09Ready {
	select {
	case r := <-ep.frames:
		return &r
	case <-time.After(5 * time.Second):
		return nil
	}
}

func TestVerifC09RetryThroughSameForwarder(t *testing.T) {
	vk.Quiet()
	run := vk.Start(t, "C09", "retry-through-same-forwarder")
	defer run.Finish()
	run.Rule("per case: store (memory | redis per node) x tunnel-id form; nodes a,b,c; source waits on a, target via b is forwarded to a's endpoint and that attempt ends (b marked the tunnel closed); a goes away; " +
		"the source retries the same tunnel id on c; a target via b must be routed to c (TargetReady from node-b observed at c's endpoint), and every node's RoutingTable resolves the id to node-c; distinct = (store, id form, second target's client connection kind)")
	r := run.Rand("retry")
	n := run.Pick(24, 300)
	for i := 0; i < n && run.Violations() < 8; i++ {
		store := []string{"memory", "redis"}[i%2]
		tid := fmt.Sprintf("tcp-tunnel-%d-%d", 1700000000000000000+r.Int63n(1<<40), 20000+i)
		form := "ascii"
		if i%4 >= 2 {
			tid = fmt.Sprintf("重试/%d:%d", i, r.Int63())
			form = "unicode"
		}
		detail := map[string]any{"case": i, "store": store, "tunnel_id": tid}
		run.Case(store+"|"+form, detail)
		c09RetryCase(t, run, store, tid, detail)
		run.Eval(1)
		run.Distinct(store + "|" + form)
	}
	var inconclusive int64
	for _, k := range []string{"r_world_setup_failed", "r_setup_failed", "r_watchdog"} {
		inconclusive += run.Counter(k)
	}
	if inconclusive > 0 {
		run.Count("inconclusive_cases", inconclusive)
		run.Floor("all_cases_conclusive", 1)
	}
	for _, s := range []string{"memory", "redis"} {
		run.Floor("first_attempt_forwarded_and_ended|"+s, int64(n/3)) // window: b has a closed-memo for the id
		run.Floor("retry_routed_through_same_forwarder|"+s, int64(n/3))
	}
}

func c09RetryCase(t *testing.T, run *vk.Run, store, tid string, detail map[string]any) {
	if !c09AwaitLifecycleEnd() {
		run.Count("r_watchdog", 1)
		return
	}
	w, err := c09NewXWorld(t, store, 3)
	if err != nil {
		run.Count("r_world_setup_failed", 1)
		return
	}
	defer w.cleanup()
	ctx := context.Background()
	a, b, c := w.nodes[0], w.nodes[1], w.nodes[2]
	fail := func(what string, err any) {
		run.Count("r_setup_failed", 1)
		detail["setup_error"] = fmt.Sprintf("%s: %v", what, err)
		run.Observe("last_r_setup_error", detail)
	}
	epA, err := c09NewEndpoint()
	if err != nil {
		fail("endpoint", err)
		return
	}
	defer epA.stop()
	epC, err := c09NewEndpoint()
	if err != nil {
		fail("endpoint", err)
		return
	}
	defer epC.stop()
	if err := a.Routing.RegisterNodeAddress("node-a", epA.addr); err != nil {
		fail("register addr", err)
		return
	}
	if err := c.Routing.RegisterNodeAddress("node-c", epC.addr); err != nil {
		fail("register addr", err)
		return
	}
	src, tgt := a.NewClient(""), a.NewClient("")
	mapping, err := a.CC.CreatePortMapping(&models.PortMapping{ListenClientID: src.ClientID, TargetClientID: tgt.ClientID, Protocol: models.ProtocolTCP,
		SourcePort: 18080, TargetHost: "10.9.8.7", TargetPort: 443, SecretKey: "mk-" + tid, Status: models.MappingStatusActive})
	if err != nil || mapping == nil {
		fail("mapping", err)
		return
	}
	open := func(n *miniNode, cl *miniClient, what string) (*miniClient, error) {
		cn := n.MustConnect("")
		if ok, err := cn.Login(cl.ClientID, cl.Secret, "tunnel"); !ok {
			fail(what+" login", err)
			return nil, fmt.Errorf("login")
		}
		_, oerr := c09OpenTunnel(cn, mapping.ID, tid, mapping.SecretKey)
		return cn, oerr
	}
	resolvesTo := func(node string, phase string) bool {
		for _, nd := range []*miniNode{b, c} {
			st, lerr := nd.Routing.LookupWaitingTunnel(ctx, tid)
			if lerr != nil || st == nil {
				run.Violation("C09:retry|lost-while-waiting|store="+store+"|phase="+phase, map[string]any{"case": detail, "lookup_from": nd.NodeID, "error": fmt.Sprint(lerr)})
				return false
			}
			if st.SourceNodeID != node || st.MappingID != mapping.ID || st.TargetClientID != tgt.ClientID {
				run.Violation("C09:retry|wrong-record|store="+store+"|phase="+phase, map[string]any{"case": detail, "lookup_from": nd.NodeID, "got": fmt.Sprintf("%+v", *st), "want_node": node})
				return false
			}
		}
		return true
	}
	// 1. first attempt: source on a, target via b, forwarded to a's endpoint, then it ends
	if _, err := open(a, src, "source@a"); a.SM.GetTunnelBridgeByMappingID(mapping.ID, 0) == nil {
		fail("source open on a", err)
		return
	}
	if !resolvesTo("node-a", "first-attempt") {
		return
	}
	t1, aerr := open(b, tgt, "target@b#1")
	if t1 == nil {
		return
	}
	if !coreerrors.IsCode(aerr, coreerrors.CodeTunnelModeSwitch) {
		// the plain first attempt was not forwarded: not the scenario of this monitor
		// (TestVerifC09CrossNodeFailedForward covers failing attempts)
		fail("first attempt not forwarded", aerr)
		return
	}
	if fr := epA.await(); fr == nil || fr.err != nil || fr.tunnelID != tid || fr.fromNode != "node-b" {
		fail("first TargetReady at a's endpoint", fmt.Sprintf("%+v", fr))
		return
	}
	t1.hc.Close() // the target side of the first attempt goes away too
	marked := false
	for k := 0; k < 500; k++ {
		if b.SM.IsTunnelClosed(tid) {
			marked = true
			break
		}
		time.Sleep(10 * time.Millisecond)
	}
	if !marked {
		run.Count("r_watchdog", 1)
		return
	}
	run.Count("first_attempt_forwarded_and_ended|"+store, 1)
	// 2. node-a goes away; the source retries the same tunnel id on node-c
	a.Close()
	if !c09AwaitLifecycleEnd() {
		run.Count("r_watchdog", 1)
		return
	}
	if st, err := b.Routing.LookupWaitingTunnel(ctx, tid); err == nil && st != nil {
		run.Violation("C09:retry|stale-after-bridge-end|store="+store, map[string]any{"case": detail, "got": fmt.Sprintf("%+v", *st)})
		return
	}
	if _, err := open(c, src, "source@c"); c.SM.GetTunnelBridgeByMappingID(mapping.ID, 0) == nil {
		fail("source retry on c", err)
		return
	}
	if !resolvesTo("node-c", "after-retry") {
		return
	}
	// 3. a target arrives at node-b again: must be routed to node-c, where the source waits
	t2, aerr2 := open(b, tgt, "target@b#2")
	if t2 == nil {
		return
	}
	var got *c09Ready
	if coreerrors.IsCode(aerr2, coreerrors.CodeTunnelModeSwitch) {
		got = epC.await()
	} else {
		select { // not forwarded according to b: look without waiting
		case fr := <-epC.frames:
			got = &fr
		default:
		}
	}
	if c.SM.GetTunnelBridgeByMappingID(mapping.ID, 0) == nil {
		run.Count("r_source_gone_on_c", 1)
		return
	}
	if got != nil && got.err == nil && got.tunnelID == tid && got.fromNode == "node-b" {
		run.Count("retry_routed_through_same_forwarder|"+store, 1)
	} else {
		run.Violation("C09:retry|target-not-routed-to-waiting-source|store="+store+"|via=node-b", map[string]any{"case": detail,
			"forwarder_answer": fmt.Sprint(aerr2), "frame_at_node_c": fmt.Sprintf("%+v", got),
			"note": "the source is waiting on node-c and every RoutingTable resolves the id to node-c, but node-b did not route the target connection there"})
		return
	}
	resolvesTo("node-c", "after-second-attempt")
}

// ---------------------------------------------------------------- source node re-registers its cross-node address
//
// Node-b forwards tunnel T1 to source node-a (TargetReady observed at a's endpoint
// OLD). Node-a then re-registers a different address NEW while OLD still accepts
// connections (old process draining). The next waiting tunnel T2 on node-a, attached via
// node-b, must be routed to node-a's CURRENT address: TargetReady(T2, node-b) at NEW,
// nothing for T2 at OLD. GetNodeAddress must return NEW from every node.

func TestVerifC09NodeAddressChange(t *testing.T) {
	vk.Quiet()
	run := vk.Start(t, "C09", "node-address-change")
	defer run.Finish()
	run.Rule("per case: store (memory | redis per node) x number of forwards before the address change (1-3) x old endpoint (still listening | closed); source tunnels wait on node-a, targets attach via node-b; " +
		"after node-a re-registered its address the next tunnel must be forwarded to the current address; distinct = (store, forwards before, old endpoint state)")
	n := run.Pick(24, 300)
	for i := 0; i < n && run.Violations() < 8; i++ {
		store := []string{"memory", "redis"}[i%2]
		before := 1 + (i/2)%3
		oldOpen := (i/6)%2 == 0
		detail := map[string]any{"case": i, "store": store, "forwards_before_change": before, "old_endpoint_still_listening": oldOpen}
		run.Case(fmt.Sprintf("%s|before=%d|old_open=%v", store, before, oldOpen), detail)
		c09AddrChangeCase(t, run, store, before, oldOpen, i, detail)
		run.Eval(1)
		run.Distinct(fmt.Sprintf("%s|before=%d|old_open=%v", store, before, oldOpen))
	}
	var inconclusive int64
	for _, k := range []string{"ac_world_setup_failed", "ac_setup_failed", "ac_watchdog"} {
		inconclusive += run.Counter(k)
	}
	if inconclusive > 0 {
		run.Count("inconclusive_cases", inconclusive)
		run.Floor("all_cases_conclusive", 1)
	}
	for _, s := range []string{"memory", "redis"} {
		run.Floor("forwarded_to_old_address_before_change|"+s, int64(n/3)) // window: forwarder has used the old address
		run.Floor("forwarded_to_current_address_after_change|"+s, int64(n/3))
	}
	run.Floor("after_change_old_still_listening", int64(n/4))
}

func c09AddrChangeCase(t *testing.T, run *vk.Run, store string, before int, oldOpen bool, idx int, detail map[string]any) {
	if !c09AwaitLifecycleEnd() {
		run.Count("ac_watchdog", 1)
		return
	}
	w, err := c09NewXWorld(t, store, 2)
	if err != nil {
		run.Count("ac_world_setup_failed", 1)
		return
	}
	defer w.cleanup()
	a, b := w.nodes[0], w.nodes[1]
	fail := func(what string, err any) {
		run.Count("ac_setup_failed", 1)
		detail["setup_error"] = fmt.Sprintf("%s: %v", what, err)
		run.Observe("last_ac_setup_error", detail)
	}
	epOld, err := c09NewEndpoint()
	if err != nil {
		fail("endpoint", err)
		return
	}
	defer epOld.stop()
	epNew, err := c09NewEndpoint()
	if err != nil {
		fail("endpoint", err)
		return
	}
	defer epNew.stop()
	if err := a.Routing.RegisterNodeAddress("node-a", epOld.addr); err != nil {
		fail("register addr", err)
		return
	}
	src, tgt := a.NewClient(""), a.NewClient("")
	// one tunnel = own mapping + own id; source waits on a, target attaches via b
	attach := func(k int) (tid string, aerr error, ok bool) {
		m, err := a.CC.CreatePortMapping(&models.PortMapping{ListenClientID: src.ClientID, TargetClientID: tgt.ClientID, Protocol: models.ProtocolTCP,
			SourcePort: 19000 + k, TargetHost: "10.9.8.7", TargetPort: 443, SecretKey: fmt.Sprintf("mk-ac-%d-%d", idx, k), Status: models.MappingStatusActive})
		if err != nil || m == nil {
			fail("mapping", err)
			return "", nil, false
		}
		tid = fmt.Sprintf("tcp-tunnel-%d-%d", 1700000000000000000+int64(idx)*100+int64(k), 19000+k)
		sc := a.MustConnect("")
		if lok, err := sc.Login(src.ClientID, src.Secret, "tunnel"); !lok {
			fail("source login", err)
			return "", nil, false
		}
		if ack, oerr := c09OpenTunnel(sc, m.ID, tid, m.SecretKey); ack == nil || !ack.Success || a.SM.GetTunnelBridgeByMappingID(m.ID, 0) == nil {
			fail("source open", oerr)
			return "", nil, false
		}
		if st, lerr := b.Routing.LookupWaitingTunnel(context.Background(), tid); lerr != nil || st == nil || st.SourceNodeID != "node-a" {
			run.Violation("C09:addr|lost-while-waiting|store="+store, map[string]any{"case": detail, "tunnel": tid, "error": fmt.Sprint(lerr)})
			return "", nil, false
		}
		tc := b.MustConnect("")
		if lok, err := tc.Login(tgt.ClientID, tgt.Secret, "tunnel"); !lok {
			fail("target login", err)
			return "", nil, false
		}
		_, aerr = c09OpenTunnel(tc, m.ID, tid, m.SecretKey)
		return tid, aerr, true
	}
	for k := 0; k < before; k++ {
		tid, aerr, ok := attach(k)
		if !ok {
			return
		}
		fr := epOld.await()
		if !coreerrors.IsCode(aerr, coreerrors.CodeTunnelModeSwitch) || fr == nil || fr.err != nil || fr.tunnelID != tid || fr.fromNode != "node-b" {
			fail("forward before the address change", fmt.Sprintf("err=%v frame=%+v", aerr, fr))
			return
		}
	}
	run.Count("forwarded_to_old_address_before_change|"+store, 1)
	// node-a re-registers its address (restart on another address / id re-allocated)
	if !oldOpen {
		epOld.stop()
	}
	if err := a.Routing.RegisterNodeAddress("node-a", epNew.addr); err != nil {
		fail("re-register addr", err)
		return
	}
	for _, nd := range w.nodes {
		if got, err := nd.Routing.GetNodeAddress("node-a"); err != nil || got != epNew.addr {
			run.Violation("C09:addr|stale-node-address-in-routing-table|store="+store, map[string]any{"case": detail, "from": nd.NodeID, "got": got, "error": fmt.Sprint(err), "want": epNew.addr})
			return
		}
	}
	tid, aerr, ok := attach(before)
	if !ok {
		return
	}
	var atNew, atOld *c09Ready
	if coreerrors.IsCode(aerr, coreerrors.CodeTunnelModeSwitch) {
		// b says it forwarded: the frame is at one of the two endpoints
		select {
		case fr := <-epNew.frames:
			atNew = &fr
		case fr := <-epOld.frames:
			atOld = &fr
		case <-time.After(5 * time.Second):
			run.Count("ac_watchdog", 1)
			return
		}
	}
	if oldOpen {
		run.Count("after_change_old_still_listening", 1)
	}
	switch {
	case atNew != nil && atNew.err == nil && atNew.tunnelID == tid && atNew.fromNode == "node-b":
		run.Count("forwarded_to_current_address_after_change|"+store, 1)
	case atOld != nil:
		run.Violation("C09:addr|routed-to-stale-node-address|store="+store, map[string]any{"case": detail, "tunnel": tid, "frame_at_old_address": fmt.Sprintf("%+v", *atOld),
			"old": epOld.addr, "current": epNew.addr, "note": "node-a re-registered its address before this tunnel was attached"})
	default:
		run.Violation("C09:addr|not-routed-to-current-node-address|store="+store+fmt.Sprintf("|old_listening=%v", oldOpen), map[string]any{"case": detail, "tunnel": tid,
			"forwarder_answer": fmt.Sprint(aerr), "frame_at_new": fmt.Sprintf("%+v", atNew), "old": epOld.addr, "current": epNew.addr})
	}
}
