//go:build verif && verif_c09

package server

import (
	"context"
	"fmt"
	"net"
	"testing"
	"time"

	"github.com/alicebob/miniredis/v2"

	"tunnox-core/internal/cloud/models"
	coreerrors "tunnox-core/internal/core/errors"
	"tunnox-core/internal/core/storage"
	"tunnox-core/internal/protocol/session"
	vk "tunnox-core/internal/verifkit"
)

// C09, failed cross-node attach — two (three) mini-server nodes on one shared store:
// the source opens its tunnel on node A (bridge waiting); a target connection arrives
// at node B, B resolves the id to node A (real handleTunnelOpen -> cross_node_session
// path with a real TunnelConnectionManager) but cannot reach A (no / dead / dropping
// address for A). The tunnel has not been served, has not ended and has not expired:
// the id must still resolve from every node to node A with the registered data, also
// after a second failed attempt; after A's lifecycle ended it must not resolve.

type c09XWorld struct {
	nodes   []*miniNode // nodes[0] = node-a (source side)
	cleanup func()
}

func c09NewXWorld(t *testing.T, backend string, nNodes int) (*c09XWorld, error) {
	ctx, cancel := context.WithCancel(context.Background())
	w := &c09XWorld{}
	var closers []func()
	w.cleanup = func() {
		for _, n := range w.nodes {
			n.Close()
		}
		for _, c := range closers {
			c()
		}
		cancel()
	}
	ids := []string{"node-a", "node-b", "node-c"}
	var mem storage.Storage
	var mr *miniredis.Miniredis
	switch backend {
	case "memory":
		mem = storage.NewMemoryStorage(ctx)
	case "redis":
		var err error
		if mr, err = miniredis.Run(); err != nil {
			cancel()
			return nil, err
		}
		closers = append(closers, mr.Close)
	default:
		cancel()
		return nil, fmt.Errorf("unknown backend %s", backend)
	}
	for i := 0; i < nNodes; i++ {
		st := mem
		if mr != nil {
			rs, err := storage.NewRedisStorage(ctx, &storage.RedisConfig{Addr: mr.Addr(), PoolSize: 4})
			if err != nil {
				w.cleanup()
				return nil, err
			}
			closers = append([]func(){func() { rs.Close() }}, closers...)
			st = rs
		}
		n := newMiniNode(t, miniOpts{NodeID: ids[i], Store: st, RoutingTTL: 30 * time.Second, NoCommands: i > 0})
		mgr := session.NewTunnelConnectionManager(n.Routing.GetNodeAddress, session.TunnelConnectionManagerConfig{DialTimeout: 2 * time.Second, IdleTimeout: time.Minute})
		n.SM.SetTunnelConnectionManager(mgr)
		closers = append(closers, mgr.Close)
		w.nodes = append(w.nodes, n)
	}
	return w, nil
}

// c09DeadAddr returns a loopback address nobody listens on (connection refused).
func c09DeadAddr() (string, error) {
	l, err := net.Listen("tcp", "127.0.0.1:0")
	if err != nil {
		return "", err
	}
	a := l.Addr().String()
	l.Close()
	return a, nil
}

// c09DroppingListener accepts connections and resets them at once.
func c09DroppingListener() (string, func(), error) {
	l, err := net.Listen("tcp", "127.0.0.1:0")
	if err != nil {
		return "", nil, err
	}
	go func() {
		for {
			c, err := l.Accept()
			if err != nil {
				return
			}
			if tc, ok := c.(*net.TCPConn); ok {
				tc.SetLinger(0)
			}
			c.Close()
		}
	}()
	return l.Addr().String(), func() { l.Close() }, nil
}

func TestVerifC09CrossNodeFailedForward(t *testing.T) {
	vk.Quiet()
	run := vk.Start(t, "C09", "crossnode-failed-forward")
	defer run.Finish()
	run.Rule("per case: store (memory | redis client per node on miniredis) x how node A is unreachable from the attaching node (no address registered | dead address: connection refused | listener that resets every connection) x 2-3 nodes x 1-2 failed attach attempts (second one from another node when there are 3); " +
		"real TunnelOpen on node A (source) and on node B/C (target, through SessionManager.HandlePacket -> handleCrossNodeTargetConnection -> forwardToSourceNode with a real TunnelConnectionManager); distinct = (store, unreachability, nodes, attempts)")
	r := run.Rand("xnode")
	n := run.Pick(48, 600)
	modes := []string{"no-address", "dead-address", "dropping-listener"}
	backends := []string{"memory", "redis"}
	for i := 0; i < n && run.Violations() < 10; i++ {
		backend := backends[i%2]
		mode := modes[(i/2)%len(modes)]
		nNodes := 2 + (i/6)%2
		attempts := 1 + (i/12)%2
		tid := fmt.Sprintf("tcp-tunnel-%d-%d", 1700000000000000000+r.Int63n(1<<40), 10000+i)
		if r.Intn(4) == 0 {
			tid = fmt.Sprintf("隧道/%d:%d", i, r.Int63())
		}
		hi, pi := r.Intn(len(c09Hosts)), r.Intn(len(c09LPorts))
		detail := map[string]any{"case": i, "store": backend, "unreachable": mode, "nodes": nNodes, "attempts": attempts, "tunnel_id": tid, "host_index": hi, "port": c09LPorts[pi]}
		run.Case(backend+"|"+mode, detail)
		c09XCase(t, run, backend, mode, nNodes, attempts, tid, c09Hosts[hi], c09LPorts[pi], detail)
		run.Eval(1)
		run.Distinct(fmt.Sprintf("%s|%s|n%d|a%d", backend, mode, nNodes, attempts))
	}
	var inconclusive int64
	for _, k := range []string{"x_world_setup_failed", "x_setup_failed", "x_watchdog_lifecycle"} {
		inconclusive += run.Counter(k)
	}
	if inconclusive > 0 {
		run.Count("inconclusive_cases", inconclusive)
		run.Floor("all_cases_conclusive", 1)
	}
	for _, b := range backends {
		run.Floor("still_routable_after_failed_attach|"+b, int64(n/4))
		run.Floor("ended_not_resolving|"+b, int64(n/4))
	}
	for _, m := range []string{"no-address", "dead-address"} {
		// the window: the attaching node really resolved the record and really failed to reach node A
		run.Floor("attach_failed_after_resolving|"+m, int64(n/8))
	}
}

func c09XCase(t *testing.T, run *vk.Run, backend, mode string, nNodes, attempts int, tid, host string, port int, detail map[string]any) {
	if !c09AwaitLifecycleEnd() {
		run.Count("x_watchdog_lifecycle", 1)
		return
	}
	w, err := c09NewXWorld(t, backend, nNodes)
	if err != nil {
		run.Count("x_world_setup_failed", 1)
		run.Observe("last_x_setup_error", fmt.Sprint(err))
		return
	}
	defer w.cleanup()
	ctx := context.Background()
	a := w.nodes[0]
	setupFail := func(what string, err any) {
		run.Count("x_setup_failed", 1)
		detail["setup_error"] = fmt.Sprintf("%s: %v", what, err)
		run.Observe("last_x_setup_error", detail)
	}
	src := a.NewClient("")
	tgt := a.NewClient("")
	mapping, err := a.CC.CreatePortMapping(&models.PortMapping{
		ListenClientID: src.ClientID, TargetClientID: tgt.ClientID, Protocol: models.ProtocolTCP,
		SourcePort: 18080, TargetHost: host, TargetPort: port, SecretKey: "mk-" + tid, Status: models.MappingStatusActive,
	})
	if err != nil || mapping == nil {
		setupFail("mapping", err)
		return
	}
	switch mode {
	case "no-address":
	case "dead-address":
		addr, err := c09DeadAddr()
		if err != nil {
			setupFail("dead addr", err)
			return
		}
		if err := a.Routing.RegisterNodeAddress("node-a", addr); err != nil {
			setupFail("register node address", err)
			return
		}
	case "dropping-listener":
		addr, stop, err := c09DroppingListener()
		if err != nil {
			setupFail("listener", err)
			return
		}
		defer stop()
		if err := a.Routing.RegisterNodeAddress("node-a", addr); err != nil {
			setupFail("register node address", err)
			return
		}
	}
	sc := a.MustConnect("")
	if ok, err := sc.Login(src.ClientID, src.Secret, "tunnel"); !ok {
		setupFail("source login", err)
		return
	}
	ack, oerr := c09OpenTunnel(sc, mapping.ID, tid, mapping.SecretKey)
	if ack == nil || !ack.Success {
		setupFail("source open", fmt.Sprintf("ack=%+v err=%v", ack, oerr))
		return
	}
	// every node must resolve the waiting tunnel to node-a with the mapping's data
	checkAll := func(phase string) bool {
		for _, nd := range w.nodes {
			st, lerr := nd.Routing.LookupWaitingTunnel(ctx, tid)
			if lerr != nil || st == nil {
				run.Violation("C09:xnode|lost-while-waiting|store="+backend+"|phase="+phase, map[string]any{"case": detail, "lookup_from": nd.NodeID, "error": fmt.Sprint(lerr)})
				return false
			}
			if st.TunnelID != tid || st.MappingID != mapping.ID || st.SourceNodeID != "node-a" || st.SourceClientID != src.ClientID ||
				st.TargetClientID != tgt.ClientID || st.TargetHost != host || st.TargetPort != port {
				run.Violation("C09:xnode|field-mismatch|store="+backend+"|phase="+phase, map[string]any{"case": detail, "lookup_from": nd.NodeID, "got": fmt.Sprintf("%+v", *st),
					"want": fmt.Sprintf("mapping=%s src=%d tgt=%d host=%q port=%d node=node-a", mapping.ID, src.ClientID, tgt.ClientID, host, port)})
				return false
			}
		}
		return true
	}
	if !checkAll("after-source-open") {
		return
	}
	for k := 0; k < attempts; k++ {
		nb := w.nodes[1+k%(len(w.nodes)-1)]
		tc := nb.MustConnect("")
		if ok, err := tc.Login(tgt.ClientID, tgt.Secret, "tunnel"); !ok {
			setupFail("target login on "+nb.NodeID, err)
			return
		}
		_, aerr := c09OpenTunnel(tc, mapping.ID, tid, mapping.SecretKey)
		// whether the attach "failed" is an observation (window counter), not a verdict:
		// the source on node-a has not been given a target either way (nothing real listens for A)
		// (NETWORK_ERROR is what forwardToSourceNode returns after it resolved the record and
		// could not connect / write to the source node; TUNNEL_MODE_SWITCH = it believes it forwarded)
		switch {
		case coreerrors.IsCode(aerr, coreerrors.CodeNetworkError):
			run.Count("attach_failed_after_resolving|"+mode, 1)
		case coreerrors.IsCode(aerr, coreerrors.CodeTunnelModeSwitch):
			run.Count("attach_forward_believed_ok|"+mode, 1)
		default:
			run.Count("attach_other_outcome|"+mode, 1)
			run.Observe("last_other_attach_outcome", fmt.Sprint(aerr))
		}
		if a.SM.GetTunnelBridgeByMappingID(mapping.ID, 0) == nil {
			run.Count("x_source_bridge_gone", 1) // nobody waits any more: nothing to judge
			return
		}
		if !checkAll(fmt.Sprintf("after-failed-attach-%d", k+1)) {
			return
		}
	}
	run.Count("still_routable_after_failed_attach|"+backend, 1)
	// end the tunnel on node-a: afterwards no node may resolve it
	a.Close()
	if !c09AwaitLifecycleEnd() {
		run.Count("x_watchdog_lifecycle", 1)
		return
	}
	for _, nd := range w.nodes[1:] {
		if st, err := nd.Routing.LookupWaitingTunnel(ctx, tid); err == nil && st != nil {
			run.Violation("C09:xnode|stale-after-bridge-end|store="+backend, map[string]any{"case": detail, "lookup_from": nd.NodeID, "got": fmt.Sprintf("%+v", *st)})
			return
		}
	}
	run.Count("ended_not_resolving|"+backend, 1)
}
