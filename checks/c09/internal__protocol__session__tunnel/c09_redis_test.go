//go:build verif && verif_c09

package tunnel

import (
	"context"
	"fmt"
	"net"
	"sync/atomic"
	"testing"
	"time"

	"github.com/alicebob/miniredis/v2"
	goredis "github.com/redis/go-redis/v9"

	"tunnox-core/internal/core/storage"
	"tunnox-core/internal/core/storage/memory"
	vk "tunnox-core/internal/verifkit"
)

// Two Redis-specific halves of C09 (Redis client code and the tiered store whose shared
// keys live in Redis, both over miniredis):
//
//  TestVerifC09FractionalTTL  waiting periods that are not whole seconds, on the
//      miniredis virtual clock (no real waiting): lookups in the last fraction of the
//      period must still resolve from every node.
//  TestVerifC09InflightRead   one GET reply on a node is held back (go-redis hook);
//      meanwhile the tunnel is removed / replayed on another node; a second lookup that
//      STARTS after that completed is judged by the model state at its call time.

type c09RNode struct {
	rt    *RoutingTable
	redis *storage.RedisStorage
}

// c09RedisNodes builds n nodes on one miniredis; tiered => hybrid(memory, shared redis).
func c09RedisNodes(ctx context.Context, mr *miniredis.Miniredis, tiered bool, n int, ttl time.Duration) ([]c09RNode, func(), error) {
	var closers []func()
	closeAll := func() {
		for _, c := range closers {
			c()
		}
	}
	var out []c09RNode
	for i := 0; i < n; i++ {
		rs, err := storage.NewRedisStorage(ctx, &storage.RedisConfig{Addr: mr.Addr(), PoolSize: 3})
		if err != nil {
			closeAll()
			return nil, nil, err
		}
		closers = append(closers, func() { rs.Close() })
		var st storage.Storage = rs
		if tiered {
			st = storage.NewHybridStorageWithSharedCache(ctx, memory.New(ctx), rs, nil, nil)
		}
		out = append(out, c09RNode{rt: NewRoutingTable(st, ttl), redis: rs})
	}
	return out, closeAll, nil
}

func c09BackendName(tiered bool) string {
	if tiered {
		return "hybrid-shared"
	}
	return "redis"
}

// ---------------------------------------------------------------- fractional waiting periods

func TestVerifC09FractionalTTL(t *testing.T) {
	vk.Quiet()
	run := vk.Start(t, "C09", "fractional-ttl")
	defer run.Finish()
	run.Rule("waiting period = w + f seconds (w in 0..4, f in {.1,.25,.5,.75,.9} or 0 as control); register on node 0; the miniredis clock is advanced in 1-4 steps (virtual time, no real waiting) " +
		"and after each step every node looks the id up; verdict only when (virtual + real elapsed) is certainly before the deadline: must resolve with equal fields; distinct = (backend, w, f, steps)")
	r := run.Rand("fractional")
	n := run.Pick(120, 2000)
	fracs := []time.Duration{100 * time.Millisecond, 250 * time.Millisecond, 500 * time.Millisecond, 750 * time.Millisecond, 900 * time.Millisecond, 0}
	const margin = 40 * time.Millisecond // distance kept from the deadline on the virtual clock
	for i := 0; i < n && run.Violations() < 12; i++ {
		tiered := i%2 == 1
		bname := c09BackendName(tiered)
		w := time.Duration((i/2)%5) * time.Second
		f := fracs[(i/10)%len(fracs)]
		if w == 0 && f == 0 {
			f = 500 * time.Millisecond
		}
		ttl := w + f
		steps := 1 + r.Intn(4)
		detail := map[string]any{"case": i, "backend": bname, "ttl_ms": ttl.Milliseconds(), "steps": steps}
		run.Case(fmt.Sprintf("%s|ttl=%v", bname, ttl), detail)
		func() {
			mr, err := miniredis.Run()
			if err != nil {
				run.Count("env_setup_failed", 1)
				return
			}
			defer mr.Close()
			ctx, cancel := context.WithCancel(context.Background())
			defer cancel()
			nodes, closeAll, err := c09RedisNodes(ctx, mr, tiered, 2+r.Intn(2), ttl)
			if err != nil {
				run.Count("env_setup_failed", 1)
				return
			}
			defer closeAll()
			rec, _ := c09GenRecord(r, r.Intn(len(c09Shapes)-2), fmt.Sprintf("frac-%d-%d", i, r.Int63()), "node-0")
			st := *rec
			call := time.Now()
			if err := nodes[0].rt.RegisterWaitingTunnel(ctx, &st); err != nil {
				run.Violation("C09:frac|register-error|backend="+bname, map[string]any{"case": detail, "error": err.Error()})
				return
			}
			// virtual instants at which to look: the last one lies inside the final fraction
			// of the period (past the last whole second), `margin` before the deadline at most
			var virt time.Duration
			lastTarget := ttl - margin - time.Duration(r.Int63n(int64(f/2+1)))
			if f == 0 {
				lastTarget = ttl - margin - time.Duration(r.Int63n(int64(400*time.Millisecond)))
			}
			var trace []string
			for s := 1; s <= steps; s++ {
				target := lastTarget * time.Duration(s) / time.Duration(steps)
				mr.FastForward(target - virt)
				virt = target
				for ni, nd := range nodes {
					got, lerr := nd.rt.LookupWaitingTunnel(ctx, st.TunnelID)
					ret := time.Now()
					trace = append(trace, fmt.Sprintf("virt=%v node=%d resolved=%v", virt, ni, lerr == nil))
					certain := virt+ret.Sub(call)+c09Eps < ttl
					if !certain {
						run.Count("lookup_uncertain_tolerated", 1)
						continue
					}
					if lerr != nil || got == nil {
						inLast := "whole-seconds-part"
						if virt > w && f > 0 {
							inLast = "last-fraction"
						}
						run.Violation("C09:frac|lost-while-waiting|backend="+bname+"|at="+inLast, map[string]any{"case": detail, "error": fmt.Sprint(lerr),
							"virtual_elapsed_ms": virt.Milliseconds(), "real_elapsed_ms": ret.Sub(call).Milliseconds(), "trace": trace})
						return
					}
					if diff := c09FieldDiff(got, &st); len(diff) > 0 {
						run.Violation("C09:frac|field-mismatch|backend="+bname+"|field="+diff[0], map[string]any{"case": detail, "got": c09Brief(got), "want": c09Brief(&st)})
						return
					}
					run.Count("hit_certain|"+bname, 1)
					if f > 0 && virt > w {
						run.Count("hit_in_last_fraction|"+bname, 1)
					}
				}
			}
			// past the period on the virtual clock (real clock is not): either answer is fine
			mr.FastForward(ttl - virt + 10*time.Millisecond)
			if _, lerr := nodes[len(nodes)-1].rt.LookupWaitingTunnel(ctx, st.TunnelID); lerr != nil {
				run.Count("gone_after_virtual_deadline|"+bname, 1)
			}
		}()
		run.Eval(1)
		run.Distinct(fmt.Sprintf("%s|w=%v|f=%v|steps=%d", bname, w, f, steps))
	}
	for _, b := range []string{"redis", "hybrid-shared"} {
		run.Floor("hit_in_last_fraction|"+b, int64(n/4))
		run.Floor("hit_certain|"+b, int64(n/2))
	}
	if run.Counter("env_setup_failed") > 0 {
		run.Floor("env_setup_ok", 1)
	}
}

// ---------------------------------------------------------------- in-flight read vs. remove / replay

// c09SlowGet holds back the reply of exactly one GET: the command has been executed by
// the server (the reply content is fixed) but reaches the caller only after release.
type c09SlowGet struct {
	armed   atomic.Bool
	reached chan struct{}
	release chan struct{}
}

func (h *c09SlowGet) DialHook(next goredis.DialHook) goredis.DialHook {
	return func(ctx context.Context, network, addr string) (net.Conn, error) { return next(ctx, network, addr) }
}
func (h *c09SlowGet) ProcessHook(next goredis.ProcessHook) goredis.ProcessHook {
	return func(ctx context.Context, cmd goredis.Cmder) error {
		err := next(ctx, cmd)
		if cmd.Name() == "get" && h.armed.CompareAndSwap(true, false) {
			close(h.reached)
			<-h.release
		}
		return err
	}
}
func (h *c09SlowGet) ProcessPipelineHook(next goredis.ProcessPipelineHook) goredis.ProcessPipelineHook {
	return next
}

type c09LookupRes struct {
	st  *WaitingState
	err error
}

func TestVerifC09InflightRead(t *testing.T) {
	vk.Quiet()
	run := vk.Start(t, "C09", "inflight-read")
	defer run.Finish()
	run.Rule("nodes A,B,C with own Redis clients on one miniredis (redis / tiered); A registers; lookup1 on B has executed its GET but the reply is held back by a go-redis hook; " +
		"then (remove on A | remove on A + register other data on C | overwrite-register on C | nothing) completes; lookup2 on B starts strictly afterwards and is judged by the model state at its call; " +
		"distinct = (backend, action, value shape)")
	r := run.Rand("inflight")
	n := run.Pick(160, 2000)
	actions := []string{"remove", "remove+register-elsewhere", "overwrite-elsewhere", "none"}
	for i := 0; i < n && run.Violations() < 12; i++ {
		tiered := i%2 == 1
		bname := c09BackendName(tiered)
		action := actions[(i/2)%len(actions)]
		shape := r.Intn(len(c09Shapes) - 2) // no 64 KiB values here
		detail := map[string]any{"case": i, "backend": bname, "action": action, "shape": c09Shapes[shape].name}
		run.Case(bname+"|"+action, detail)
		func() {
			mr, err := miniredis.Run()
			if err != nil {
				run.Count("env_setup_failed", 1)
				return
			}
			defer mr.Close()
			ctx, cancel := context.WithCancel(context.Background())
			defer cancel()
			nodes, closeAll, err := c09RedisNodes(ctx, mr, tiered, 3, 30*time.Second)
			if err != nil {
				run.Count("env_setup_failed", 1)
				return
			}
			defer closeAll()
			a, b, c := nodes[0], nodes[1], nodes[2]
			tid := fmt.Sprintf("inflight-%d-%d", i, r.Int63())
			recA, _ := c09GenRecord(r, shape, tid, "node-A")
			recC, _ := c09GenRecord(r, shape, tid, "node-C")
			stA, stC := *recA, *recC
			if err := a.rt.RegisterWaitingTunnel(ctx, &stA); err != nil {
				run.Violation("C09:inflight|register-error|backend="+bname, map[string]any{"case": detail, "error": err.Error()})
				return
			}
			hook := &c09SlowGet{reached: make(chan struct{}), release: make(chan struct{})}
			b.redis.Client().AddHook(hook)
			released := false
			release := func() {
				if !released {
					released = true
					close(hook.release)
				}
			}
			defer release()
			hook.armed.Store(true)
			first := make(chan c09LookupRes, 1)
			go func() {
				s, err := b.rt.LookupWaitingTunnel(ctx, tid)
				first <- c09LookupRes{s, err}
			}()
			select {
			case <-hook.reached:
			case <-time.After(10 * time.Second):
				run.Count("watchdog_first_lookup", 1)
				return
			}
			// the slow reply is in flight; now the world changes and the change COMPLETES
			var want *WaitingState // model state after the action: nil = must not resolve
			switch action {
			case "remove":
				_ = a.rt.RemoveWaitingTunnel(ctx, tid)
			case "remove+register-elsewhere":
				_ = a.rt.RemoveWaitingTunnel(ctx, tid)
				if err := c.rt.RegisterWaitingTunnel(ctx, &stC); err != nil {
					run.Violation("C09:inflight|register-error|backend="+bname, map[string]any{"case": detail, "error": err.Error()})
					return
				}
				want = &stC
			case "overwrite-elsewhere":
				if err := c.rt.RegisterWaitingTunnel(ctx, &stC); err != nil {
					run.Violation("C09:inflight|register-error|backend="+bname, map[string]any{"case": detail, "error": err.Error()})
					return
				}
				want = &stC
			case "none":
				want = &stA
			}
			// lookup2 on the same node starts strictly after the action returned
			second := make(chan c09LookupRes, 1)
			go func() {
				s, err := b.rt.LookupWaitingTunnel(ctx, tid)
				second <- c09LookupRes{s, err}
			}()
			var res c09LookupRes
			gotSecond := false
			// Correct code answers lookup2 without the held reply. The bounded wait below only
			// decides WHEN the reply is released (a lookup2 that piggybacks on lookup1 can
			// return only afterwards); the verdict is on lookup2's answer, not on timing.
			select {
			case res = <-second:
				gotSecond = true
				run.Count("second_lookup_answered_while_reply_held", 1)
			case <-time.After(150 * time.Millisecond):
				run.Count("second_lookup_waited_for_release", 1)
			}
			release()
			if !gotSecond {
				select {
				case res = <-second:
				case <-time.After(10 * time.Second):
					run.Count("watchdog_second_lookup", 1)
					return
				}
			}
			select {
			case fr := <-first:
				// lookup1 overlapped the action: the old or the new state are both fine, nothing else
				if fr.err == nil && fr.st != nil && len(c09FieldDiff(fr.st, &stA)) > 0 && (want == nil || len(c09FieldDiff(fr.st, want)) > 0) {
					run.Violation("C09:inflight|first-lookup-neither-old-nor-new|backend="+bname, map[string]any{"case": detail, "got": c09Brief(fr.st)})
				}
			case <-time.After(10 * time.Second):
				run.Count("watchdog_first_lookup", 1)
				return
			}
			run.Count("window|reply_held_across_action|"+bname, 1)
			resolved := res.err == nil && res.st != nil
			switch {
			case want == nil && resolved:
				run.Violation("C09:inflight|stale-after-remove|backend="+bname, map[string]any{"case": detail, "got": c09Brief(res.st),
					"note": "lookup2 was called after RemoveWaitingTunnel had returned"})
			case want == nil:
				run.Count("second_lookup_correct|"+bname+"|"+action, 1)
			case !resolved:
				run.Violation("C09:inflight|lost-while-waiting|backend="+bname+"|action="+action, map[string]any{"case": detail, "error": fmt.Sprint(res.err), "want": c09Brief(want)})
			default:
				if diff := c09FieldDiff(res.st, want); len(diff) > 0 {
					run.Violation("C09:inflight|stale-record|backend="+bname+"|action="+action+"|field="+diff[0], map[string]any{"case": detail,
						"got": c09Brief(res.st), "want": c09Brief(want), "differing_fields": diff, "note": "lookup2 was called after the register on node C had returned"})
				} else {
					run.Count("second_lookup_correct|"+bname+"|"+action, 1)
				}
			}
		}()
		run.Eval(1)
		run.Distinct(fmt.Sprintf("%s|%s|%s", bname, action, c09Shapes[shape].name))
	}
	for _, b := range []string{"redis", "hybrid-shared"} {
		run.Floor("window|reply_held_across_action|"+b, int64(n/3))
		for _, a := range actions {
			run.Floor("second_lookup_correct|"+b+"|"+a, int64(n/10))
		}
	}
	if run.Counter("env_setup_failed")+run.Counter("watchdog_first_lookup")+run.Counter("watchdog_second_lookup") > 0 {
		run.Floor("all_cases_conclusive", 1)
	}
}
