//go:build verif && verif_c09

package tunnel

import (
	"context"
	"fmt"
	"math"
	"math/rand"
	"strings"
	"sync"
	"testing"
	"time"

	"github.com/alicebob/miniredis/v2"

	"tunnox-core/internal/core/storage"
	"tunnox-core/internal/core/storage/memory"
	vk "tunnox-core/internal/verifkit"
)

// C09 — a waiting tunnel is routable from any node until served or expired.
//
// Every history (register / lookup / remove / wait / re-register / node-address
// ops over 1–5 tunnel ids and 2–3 RoutingTable instances = "nodes") is executed in
// lockstep on six backend configurations built from the real storage code:
//
//	memory            one memory.Storage shared by the nodes
//	redis             one redis.Storage client PER NODE on one miniredis, miniredis clock
//	                  advanced by exactly the time the harness really slept
//	redis-frozen      same, miniredis clock NEVER advanced (the store's own TTL is
//	                  "coarser than the waiting period": only RoutingTable's explicit
//	                  ExpiresAt check can make the id stop resolving)
//	hybrid-mem        one hybrid.Storage over one memory.Storage
//	hybrid-shared     one hybrid.Storage PER NODE (own local memory cache) + per-node
//	                  redis client on one shared miniredis, clock advanced
//	hybrid-shared-frozen  same, miniredis clock never advanced
//
// Oracle: a sequential model (tid -> last registered record, call/return instants of
// that register). Lookup verdicts follow the interval rule (DESIGN §2.3): a lookup
// that returned before regCall+ttl-eps is certainly before the deadline and must
// resolve to exactly the registered record; one that was called after
// regReturn+ttl+eps is certainly after and must not resolve; anything else accepts
// both answers (but a resolved record must still be field-equal). No record in the
// model (never registered / removed) => must not resolve. All backends are judged
// against the same model, i.e. the answer sequences are compared differentially.

const (
	c09TTL = 60 * time.Millisecond
	// slack for wall-vs-monotonic slewing: ExpiresAt loses its monotonic reading in
	// the JSON backends, so RoutingTable compares wall clocks there.
	c09Eps = 2 * time.Millisecond
)

// ---------------------------------------------------------------- value shapes

type c09Shape struct {
	name string
	gen  func(r *rand.Rand) string
}

func c09Rep(s string, n int) string {
	var b strings.Builder
	for b.Len() < n {
		b.WriteString(s)
	}
	return b.String()
}

var c09Shapes = []c09Shape{
	{"ascii", func(r *rand.Rand) string { return fmt.Sprintf("tun-%06d", r.Intn(1000000)) }},
	{"empty", func(r *rand.Rand) string { return "" }},
	{"unicode", func(r *rand.Rand) string { return fmt.Sprintf("隧道-ünï-ك-%d", r.Intn(1000)) }},
	{"u2028", func(r *rand.Rand) string { return fmt.Sprintf("a\u2028b\u2029c\u0085d\ufeff%d", r.Intn(1000)) }},
	{"emoji", func(r *rand.Rand) string { return fmt.Sprintf("😀👩‍👩‍👧‍👦🏳️‍🌈-%d", r.Intn(1000)) }},
	{"quotes", func(r *rand.Rand) string { return fmt.Sprintf(`"q\"\\ \' \/ A %d`, r.Intn(1000)) + "\\" }},
	{"control", func(r *rand.Rand) string { return fmt.Sprintf("l1\nl2\r\n\tt\x01\x1f\x7f %d", r.Intn(1000)) }},
	{"nul", func(r *rand.Rand) string { return fmt.Sprintf("a\x00b\x00%d\x00", r.Intn(1000)) }},
	{"jsonish", func(r *rand.Rand) string {
		return fmt.Sprintf(`{"tunnel_id":"evil","target_port":%d,"expires_at":"2999-01-01T00:00:00Z"}`, r.Intn(1000))
	}},
	{"keyish", func(r *rand.Rand) string { return fmt.Sprintf("tunnox:tunnel_waiting:x:addr*?[%d]", r.Intn(1000)) }},
	{"html", func(r *rand.Rand) string { return fmt.Sprintf("<script>&amp;'%d'</script>", r.Intn(1000)) }},
	{"space", func(r *rand.Rand) string { return fmt.Sprintf("  lead trail %d  　 ", r.Intn(1000)) }},
	{"big64k", func(r *rand.Rand) string {
		return c09Rep(fmt.Sprintf("%dabcdefghij", r.Intn(1000)), 64*1024)
	}},
	{"big64k-uni", func(r *rand.Rand) string {
		return c09Rep(fmt.Sprintf("%d界 😀\"\\", r.Intn(1000)), 64*1024)
	}},
}

// c09Families: sets of DISTINCT tunnel ids that become equal under some plausible
// normalisation of the id (case folding, trimming, separator/punctuation/non-ASCII
// replacement, padding, truncation to N characters, unicode normal forms, escaping).
// The routing table must keep them apart: ids are opaque exact strings.
var c09Families = []struct {
	name string
	gen  func(r *rand.Rand) []string
}{
	{"case", func(r *rand.Rand) []string {
		b := fmt.Sprintf("Tun-AbC-%x", r.Intn(1<<20))
		return []string{b, strings.ToLower(b), strings.ToUpper(b), strings.Title(strings.ToLower(b)), "t" + b[1:]}
	}},
	{"trim-pad", func(r *rand.Rand) []string {
		b := fmt.Sprintf("tun%d", r.Intn(100000))
		return []string{b, " " + b, b + " ", b + "\n", "\t" + b, b + "\x00", b + "\r\n", "  " + b + "  ", "0" + b, b + "\u00a0", "\ufeff" + b}
	}},
	{"separator", func(r *rand.Rand) []string {
		a, c := fmt.Sprintf("srv%d", r.Intn(1000)), fmt.Sprintf("t%d", r.Intn(1000))
		var out []string
		for _, sep := range []string{":", "/", "_", " ", "|", "*", "?", "\\", "\t", "#", "@", "+", "%", "=", ",", ";", "é", "世", "\u2028", "😀"} {
			out = append(out, a+sep+c)
		}
		return out
	}},
	{"non-ascii", func(r *rand.Rand) []string {
		k := r.Intn(1000)
		return []string{fmt.Sprintf("隧道%d", k), fmt.Sprintf("通道%d", k), fmt.Sprintf("??%d", k), fmt.Sprintf("__%d", k), fmt.Sprintf("トン%d", k), fmt.Sprintf("éé%d", k), fmt.Sprintf("  %d", k), fmt.Sprintf("**%d", k)}
	}},
	{"numeric-pad", func(r *rand.Rand) []string {
		k := 1 + r.Intn(9999)
		return []string{fmt.Sprint(k), fmt.Sprintf("0%d", k), fmt.Sprintf("00%d", k), fmt.Sprintf("%08d", k), fmt.Sprintf("+%d", k), fmt.Sprintf("%d.0", k), fmt.Sprintf("%d ", k), fmt.Sprintf("0x%x", k)}
	}},
	{"truncate", func(r *rand.Rand) []string {
		n := []int{8, 16, 32, 64, 128, 255}[r.Intn(6)]
		pre := c09Rep(fmt.Sprintf("p%x-", r.Intn(1<<16)), n)[:n]
		return []string{pre, pre + "A", pre + "B", pre + "AA", pre + "-0001", pre + "-0002", pre[:n-1], pre + pre}
	}},
	{"unicode-forms", func(r *rand.Rand) []string {
		k := r.Intn(1000)
		return []string{fmt.Sprintf("caf\u00e9-%d", k), fmt.Sprintf("cafe\u0301-%d", k), fmt.Sprintf("cafe-%d", k), fmt.Sprintf("ｃａｆｅ-%d", k), fmt.Sprintf("CAF\u00c9-%d", k),
			fmt.Sprintf("stra\u00dfe-%d", k), fmt.Sprintf("strasse-%d", k), fmt.Sprintf("\u0130d-%d", k), fmt.Sprintf("id-%d", k), fmt.Sprintf("\u0131d-%d", k)}
	}},
	{"escaping", func(r *rand.Rand) []string {
		k := r.Intn(1000)
		return []string{fmt.Sprintf("a b-%d", k), fmt.Sprintf("a%%20b-%d", k), fmt.Sprintf("a+b-%d", k), fmt.Sprintf("a\\u0020b-%d", k), fmt.Sprintf("a&#32;b-%d", k), fmt.Sprintf("\"a b-%d\"", k), fmt.Sprintf("a\\ b-%d", k), fmt.Sprintf("a_b-%d", k)}
	}},
}

var c09ClientIDs = []int64{0, 1, -1, math.MaxInt64, math.MinInt64, 1<<53 + 1, -(1<<53 + 1), 10000001, 99999999}
var c09Ports = []int{0, 65535, -1, 80, 1, 65536, math.MaxInt32, math.MinInt32}

func c09ShapeIndex(name string) int {
	for i, s := range c09Shapes {
		if s.name == name {
			return i
		}
	}
	return 0
}

// c09Str draws a string: with probability 1/2 from the history's primary shape,
// otherwise from any shape.
func c09Str(r *rand.Rand, primary int) (string, string) {
	i := primary
	if r.Intn(2) == 0 {
		i = r.Intn(len(c09Shapes))
	}
	return c09Shapes[i].gen(r), c09Shapes[i].name
}

// ---------------------------------------------------------------- backends

type c09Backend struct {
	name   string
	nodes  []*RoutingTable
	mr     *miniredis.Miniredis
	frozen bool
}

type c09Env struct {
	backends []*c09Backend
	cancel   context.CancelFunc
	closers  []func()
}

func (e *c09Env) Close() {
	for _, c := range e.closers {
		c()
	}
	e.cancel()
	for _, b := range e.backends {
		if b.mr != nil {
			b.mr.Close()
		}
	}
}

var c09BackendNames = []string{"memory", "redis", "redis-frozen", "hybrid-mem", "hybrid-shared", "hybrid-shared-frozen"}

func c09NewEnv(nNodes int, ttl time.Duration) (*c09Env, error) {
	ctx, cancel := context.WithCancel(context.Background())
	env := &c09Env{cancel: cancel}
	fail := func(err error) (*c09Env, error) {
		env.Close()
		return nil, err
	}
	newRedis := func(mr *miniredis.Miniredis) (*storage.RedisStorage, error) {
		rs, err := storage.NewRedisStorage(ctx, &storage.RedisConfig{Addr: mr.Addr(), PoolSize: 2})
		if err != nil {
			return nil, err
		}
		env.closers = append(env.closers, func() { rs.Close() })
		return rs, nil
	}
	for _, name := range c09BackendNames {
		b := &c09Backend{name: name, frozen: strings.HasSuffix(name, "frozen")}
		env.backends = append(env.backends, b)
		switch name {
		case "memory":
			st := storage.NewMemoryStorage(ctx)
			for i := 0; i < nNodes; i++ {
				b.nodes = append(b.nodes, NewRoutingTable(st, ttl))
			}
		case "hybrid-mem":
			st := storage.NewHybridStorage(ctx, memory.New(ctx), nil, nil)
			for i := 0; i < nNodes; i++ {
				b.nodes = append(b.nodes, NewRoutingTable(st, ttl))
			}
		case "redis", "redis-frozen":
			mr, err := miniredis.Run()
			if err != nil {
				return fail(err)
			}
			b.mr = mr
			for i := 0; i < nNodes; i++ {
				rs, err := newRedis(mr)
				if err != nil {
					return fail(err)
				}
				b.nodes = append(b.nodes, NewRoutingTable(rs, ttl))
			}
		case "hybrid-shared", "hybrid-shared-frozen":
			mr, err := miniredis.Run()
			if err != nil {
				return fail(err)
			}
			b.mr = mr
			for i := 0; i < nNodes; i++ {
				rs, err := newRedis(mr)
				if err != nil {
					return fail(err)
				}
				st := storage.NewHybridStorageWithSharedCache(ctx, memory.New(ctx), rs, nil, nil)
				b.nodes = append(b.nodes, NewRoutingTable(st, ttl))
			}
		}
	}
	return env, nil
}

// sleep really sleeps d and mirrors the measured elapsed time into the non-frozen
// miniredis clocks (never more than really elapsed: a key can never expire early).
func (e *c09Env) sleep(d time.Duration) {
	t0 := time.Now()
	time.Sleep(d)
	el := time.Since(t0)
	for _, b := range e.backends {
		if b.mr != nil && !b.frozen {
			b.mr.FastForward(el)
		}
	}
}

// ---------------------------------------------------------------- histories

type c09Op struct {
	Kind   string `json:"k"` // reg lookup remove wait-short wait-past reg-addr get-addr
	Node   int    `json:"n"`
	Tid    int    `json:"t"` // index into tids / nodeIDs
	rec    *WaitingState
	shapes map[string]string
	addr   string
}

type c09History struct {
	Index    int
	Primary  string
	NNodes   int
	tids     []string
	tidShape []string
	nodeIDs  []string
	ops      []c09Op
	Family   string // non-empty: the tunnel ids are one family of ids that collide under a plausible normalisation
}

func (h *c09History) kinds() string {
	var b strings.Builder
	for _, o := range h.ops {
		switch o.Kind {
		case "reg":
			b.WriteByte('R')
		case "lookup":
			b.WriteByte('L')
		case "remove":
			b.WriteByte('D')
		case "rereg":
			b.WriteByte('I')
		case "wait-half":
			b.WriteByte('h')
		case "wait-short":
			b.WriteByte('w')
		case "wait-past":
			b.WriteByte('W')
		case "reg-addr":
			b.WriteByte('A')
		case "get-addr":
			b.WriteByte('G')
		}
	}
	return b.String()
}

func c09Clip(s string) string {
	if len(s) > 48 {
		return fmt.Sprintf("%q…(len %d)", s[:48], len(s))
	}
	return fmt.Sprintf("%q", s)
}

func (h *c09History) describe() map[string]any {
	var tids []string
	for _, t := range h.tids {
		tids = append(tids, c09Clip(t))
	}
	var ops []string
	for _, o := range h.ops {
		s := fmt.Sprintf("%s n%d t%d", o.Kind, o.Node, o.Tid)
		if o.rec != nil {
			s += fmt.Sprintf(" {map=%s key=%s srcNode=%s src=%d tgt=%d host=%s port=%d}", c09Clip(o.rec.MappingID), c09Clip(o.rec.SecretKey),
				c09Clip(o.rec.SourceNodeID), o.rec.SourceClientID, o.rec.TargetClientID, c09Clip(o.rec.TargetHost), o.rec.TargetPort)
		}
		if o.Kind == "reg-addr" {
			s += " addr=" + c09Clip(o.addr)
		}
		ops = append(ops, s)
	}
	return map[string]any{"history": h.Index, "primary_shape": h.Primary, "id_family": h.Family, "nodes": h.NNodes, "tids": tids, "ops": ops}
}

func c09GenRecord(r *rand.Rand, primary int, tid, nodeID string) (*WaitingState, map[string]string) {
	sh := map[string]string{}
	rec := &WaitingState{TunnelID: tid, SourceNodeID: nodeID}
	rec.MappingID, sh["MappingID"] = c09Str(r, primary)
	rec.SecretKey, sh["SecretKey"] = c09Str(r, primary)
	rec.TargetHost, sh["TargetHost"] = c09Str(r, primary)
	rec.SourceClientID = c09ClientIDs[r.Intn(len(c09ClientIDs))]
	rec.TargetClientID = c09ClientIDs[r.Intn(len(c09ClientIDs))]
	rec.TargetPort = c09Ports[r.Intn(len(c09Ports))]
	if r.Intn(4) == 0 {
		rec.SourceClientID = r.Int63()
		rec.TargetPort = r.Intn(65536)
	}
	return rec, sh
}

// c09GenHistory: history i has primary shape i mod |shapes|; the first |shapes|
// histories follow a fixed template that exercises every clause once (store, read
// back from every node, remove, expire, re-register); the rest are random.
func c09GenHistory(r *rand.Rand, idx int) *c09History {
	primary := idx % len(c09Shapes)
	h := &c09History{Index: idx, Primary: c09Shapes[primary].name, NNodes: 2 + r.Intn(2)}
	// node ids: hostile strings too (they are key material for the address records)
	for i := 0; i < h.NNodes; i++ {
		id := fmt.Sprintf("node-%d", i)
		if r.Intn(3) == 0 {
			s, _ := c09Str(r, primary)
			if len(s) > 300 {
				s = s[:300]
				s = strings.ToValidUTF8(s, "")
			}
			id = fmt.Sprintf("%d|%s", i, s)
		}
		h.nodeIDs = append(h.nodeIDs, id)
	}
	nt := 1 + r.Intn(5)
	seen := map[string]bool{}
	addTid := func(s, shape string) {
		if seen[s] {
			return
		}
		seen[s] = true
		h.tids = append(h.tids, s)
		h.tidShape = append(h.tidShape, shape)
	}
	isFamily := idx >= len(c09Shapes) && idx%3 == 1
	if isFamily {
		fam := c09Families[(idx/3)%len(c09Families)]
		h.Family = fam.name
		members := fam.gen(r)
		r.Shuffle(len(members), func(i, j int) { members[i], members[j] = members[j], members[i] })
		nt = 3 + r.Intn(3)
		for _, m := range members {
			if len(h.tids) < nt && m != "" {
				addTid(m, "family:"+fam.name)
			}
		}
		nt = len(h.tids)
	} else {
		addTid(c09Shapes[primary].gen(r), c09Shapes[primary].name)
	}
	for len(h.tids) < nt {
		switch r.Intn(5) {
		case 0: // near-collision with an existing id
			base := h.tids[r.Intn(len(h.tids))]
			variants := []string{base + " ", base + "\x00", strings.ToUpper(base), base + ":addr", "x" + base, base + base}
			if len(base) > 1 {
				variants = append(variants, strings.ToValidUTF8(base[:len(base)-1], ""))
			}
			addTid(variants[r.Intn(len(variants))], "near")
		default:
			s, sn := c09Str(r, primary)
			addTid(s, sn)
		}
		if len(seen) > 20 {
			break
		}
	}
	lastReg := map[int]c09Op{}
	reg := func(node, t int) c09Op {
		rec, sh := c09GenRecord(r, primary, h.tids[t], h.nodeIDs[node])
		sh["TunnelID"] = h.tidShape[t]
		o := c09Op{Kind: "reg", Node: node, Tid: t, rec: rec, shapes: sh}
		lastReg[t] = o
		return o
	}
	op := func(k string, node, t int) c09Op { return c09Op{Kind: k, Node: node, Tid: t} }
	// rereg: the same node registers the IDENTICAL record again (retransmit / re-attach):
	// the waiting period starts anew
	rereg := func(node, t int) c09Op {
		o, ok := lastReg[t]
		if !ok {
			return reg(node, t)
		}
		o.Kind = "rereg"
		return o
	}
	// reregSeq: register, let 3/4 of the TTL pass, register the identical record again,
	// let another 1/2 TTL pass (now past the first deadline, well before the second), look up
	reregSeq := func(node, t int) []c09Op {
		return []c09Op{reg(node, t), op("wait-short", 0, 0), op("wait-short", 0, 0), op("wait-short", 0, 0), rereg(node, t),
			op("wait-half", 0, 0), op("lookup", (node+1)%h.NNodes, t), op("lookup", node, t)}
	}
	regAddr := func(node, which int) c09Op {
		a, _ := c09Str(r, primary)
		if r.Intn(2) == 0 {
			a = fmt.Sprintf("10.0.%d.%d:%d", r.Intn(256), r.Intn(256), r.Intn(65536))
		}
		return c09Op{Kind: "reg-addr", Node: node, Tid: which, addr: a}
	}
	if idx < len(c09Shapes) {
		// template
		h.ops = append(h.ops, op("lookup", 0, 0), op("get-addr", 1, 0), regAddr(0, 0), reg(0, 0))
		for n := 0; n < h.NNodes; n++ {
			h.ops = append(h.ops, op("lookup", n, 0), op("get-addr", n, 0))
		}
		h.ops = append(h.ops, op("remove", h.NNodes-1, 0), op("lookup", 0, 0), op("lookup", 1, 0))
		h.ops = append(h.ops, reg(1, 0), op("lookup", 0, 0), op("wait-past", 0, 0))
		for n := 0; n < h.NNodes; n++ {
			h.ops = append(h.ops, op("lookup", n, 0))
		}
		h.ops = append(h.ops, reg(0, 0), op("lookup", 1, 0), reg(1, 0), op("lookup", 0, 0), op("wait-short", 0, 0), op("lookup", 1, 0))
		for t := 1; t < len(h.tids); t++ {
			h.ops = append(h.ops, reg(t%h.NNodes, t), op("lookup", (t+1)%h.NNodes, t), op("lookup", 0, 0))
		}
		h.ops = append(h.ops, reregSeq(0, len(h.tids)-1)...)
		return h
	}
	if isFamily {
		// all members wait at the same time; each must resolve to its own record from every
		// node; removing one must leave the others routable
		for t := range h.tids {
			h.ops = append(h.ops, reg(t%h.NNodes, t))
		}
		for t := range h.tids {
			h.ops = append(h.ops, op("lookup", (t+1)%h.NNodes, t))
		}
		victim := r.Intn(len(h.tids))
		h.ops = append(h.ops, op("remove", r.Intn(h.NNodes), victim))
		for t := range h.tids {
			h.ops = append(h.ops, op("lookup", r.Intn(h.NNodes), t))
		}
		h.ops = append(h.ops, reg(r.Intn(h.NNodes), victim))
		for t := range h.tids {
			h.ops = append(h.ops, op("lookup", r.Intn(h.NNodes), t))
		}
	}
	n := 8 + r.Intn(22)
	pastLeft := 2
	seqLeft := 1
	for i := 0; i < n; i++ {
		node := r.Intn(h.NNodes)
		t := r.Intn(len(h.tids))
		switch x := r.Intn(100); {
		case x < 28:
			h.ops = append(h.ops, reg(node, t))
		case x < 58:
			h.ops = append(h.ops, op("lookup", node, t))
		case x < 61:
			h.ops = append(h.ops, rereg(node, t))
		case x < 65:
			if seqLeft > 0 {
				seqLeft--
				h.ops = append(h.ops, reregSeq(node, t)...)
			}
		case x < 77:
			h.ops = append(h.ops, op("remove", node, t))
		case x < 82:
			h.ops = append(h.ops, op("wait-short", 0, 0))
		case x < 88:
			if pastLeft > 0 {
				pastLeft--
				h.ops = append(h.ops, op("wait-past", 0, 0))
				// look at everything right after the deadline passed
				for tt := range h.tids {
					h.ops = append(h.ops, op("lookup", r.Intn(h.NNodes), tt))
				}
			}
		case x < 94:
			h.ops = append(h.ops, regAddr(node, r.Intn(h.NNodes)))
		default:
			h.ops = append(h.ops, op("get-addr", node, r.Intn(h.NNodes)))
		}
	}
	return h
}

// ---------------------------------------------------------------- model + oracle

type c09ModelRec struct {
	want    WaitingState // copy taken after Register returned (includes CreatedAt/ExpiresAt it set)
	shapes  map[string]string
	regCall time.Time
	regRet  time.Time
	prevRet time.Time // return instant of the register this one superseded (identical re-register), if any
}

type c09Model struct {
	recs    map[string]*c09ModelRec // by tunnel id
	removed map[string]bool         // tid was removed after its last register
	addrs   map[string]string
}

func c09FieldDiff(got, want *WaitingState) []string {
	var d []string
	if got.TunnelID != want.TunnelID {
		d = append(d, "TunnelID")
	}
	if got.MappingID != want.MappingID {
		d = append(d, "MappingID")
	}
	if got.SecretKey != want.SecretKey {
		d = append(d, "SecretKey")
	}
	if got.SourceNodeID != want.SourceNodeID {
		d = append(d, "SourceNodeID")
	}
	if got.SourceClientID != want.SourceClientID {
		d = append(d, "SourceClientID")
	}
	if got.TargetClientID != want.TargetClientID {
		d = append(d, "TargetClientID")
	}
	if got.TargetHost != want.TargetHost {
		d = append(d, "TargetHost")
	}
	if got.TargetPort != want.TargetPort {
		d = append(d, "TargetPort")
	}
	if !got.CreatedAt.Equal(want.CreatedAt) {
		d = append(d, "CreatedAt")
	}
	if !got.ExpiresAt.Equal(want.ExpiresAt) {
		d = append(d, "ExpiresAt")
	}
	return d
}

func c09Brief(s *WaitingState) map[string]any {
	if s == nil {
		return nil
	}
	return map[string]any{"tunnel_id": c09Clip(s.TunnelID), "mapping_id": c09Clip(s.MappingID), "secret_key": c09Clip(s.SecretKey),
		"source_node_id": c09Clip(s.SourceNodeID), "source_client_id": s.SourceClientID, "target_client_id": s.TargetClientID,
		"target_host": c09Clip(s.TargetHost), "target_port": s.TargetPort,
		"created_at": s.CreatedAt.Format(time.RFC3339Nano), "expires_at": s.ExpiresAt.Format(time.RFC3339Nano)}
}

// c09RunHistory executes h on every backend of a fresh environment.
func c09RunHistory(run *vk.Run, h *c09History, ttl time.Duration) {
	env, err := c09NewEnv(h.NNodes, ttl)
	if err != nil {
		run.Count("env_setup_failed", 1)
		return
	}
	defer env.Close()
	models := make([]*c09Model, len(env.backends))
	for i := range models {
		models[i] = &c09Model{recs: map[string]*c09ModelRec{}, removed: map[string]bool{}, addrs: map[string]string{}}
	}
	t0 := time.Now()
	clockOK := func() bool {
		now := time.Now()
		drift := now.Round(0).Sub(t0.Round(0)) - now.Sub(t0)
		if drift < 0 {
			drift = -drift
		}
		return drift < time.Millisecond
	}
	ctx := context.Background()
	viol := func(sig string, b *c09Backend, opIdx int, extra map[string]any) {
		d := h.describe()
		d["backend"] = b.name
		d["op_index"] = opIdx
		for k, v := range extra {
			d[k] = v
		}
		run.Violation(sig, d)
	}
	for oi, op := range h.ops {
		if run.Violations() > 20 {
			return
		}
		switch op.Kind {
		case "wait-short":
			env.sleep(ttl / 4)
			continue
		case "wait-half":
			env.sleep(ttl / 2)
			continue
		case "wait-past":
			// sleep until every registered record of every backend is certainly past its deadline
			var latest time.Time
			for _, m := range models {
				for _, rec := range m.recs {
					if rec.regRet.After(latest) {
						latest = rec.regRet
					}
				}
			}
			d := ttl/2 + c09Eps
			if !latest.IsZero() {
				if need := time.Until(latest.Add(ttl + 2*c09Eps + time.Millisecond)); need > d {
					d = need
				}
			}
			env.sleep(d)
			continue
		}
		answers := make([]int, 0, len(env.backends)) // lookup answers per backend: 1 resolved, 0 not
		for bi, b := range env.backends {
			m := models[bi]
			rt := b.nodes[op.Node]
			switch op.Kind {
			case "reg", "rereg":
				tid := h.tids[op.Tid]
				st := *op.rec // fresh copy per backend: Register writes the timestamps into it
				var rerr error
				call := time.Now()
				if run.Guard("C09:register|backend="+b.name, h.describe(), func() { rerr = rt.RegisterWaitingTunnel(ctx, &st) }) {
					continue
				}
				ret := time.Now()
				run.Count("op_register", 1)
				if tid == "" {
					// the table refuses an empty id; it must then not resolve either
					if rerr == nil {
						m.recs[tid] = &c09ModelRec{want: st, shapes: op.shapes, regCall: call, regRet: ret}
						delete(m.removed, tid)
					} else {
						run.Count("register_empty_id_rejected", 1)
					}
					continue
				}
				if rerr != nil {
					viol("C09:register-error|backend="+b.name, b, oi, map[string]any{"error": rerr.Error(), "tid_shape": h.tidShape[op.Tid]})
					continue
				}
				// the deadline of a tunnel is that of its LATEST successful register
				nrec := &c09ModelRec{want: st, shapes: op.shapes, regCall: call, regRet: ret}
				if prev := m.recs[tid]; prev != nil && op.Kind == "rereg" {
					nrec.prevRet = prev.regRet
					run.Count("op_reregister_identical_over_live_model_record", 1)
				}
				m.recs[tid] = nrec
				delete(m.removed, tid)
			case "remove":
				tid := h.tids[op.Tid]
				var rerr error
				if run.Guard("C09:remove|backend="+b.name, h.describe(), func() { rerr = rt.RemoveWaitingTunnel(ctx, tid) }) {
					continue
				}
				run.Count("op_remove", 1)
				if tid == "" {
					continue
				}
				if rerr != nil {
					viol("C09:remove-error|backend="+b.name, b, oi, map[string]any{"error": rerr.Error()})
					continue
				}
				if _, ok := m.recs[tid]; ok {
					m.removed[tid] = true
				}
				delete(m.recs, tid)
			case "lookup":
				tid := h.tids[op.Tid]
				var got *WaitingState
				var lerr error
				call := time.Now()
				if run.Guard("C09:lookup|backend="+b.name, h.describe(), func() { got, lerr = rt.LookupWaitingTunnel(ctx, tid) }) {
					continue
				}
				ret := time.Now()
				run.Count("op_lookup", 1)
				resolved := lerr == nil && got != nil
				if resolved {
					answers = append(answers, 1)
				} else {
					answers = append(answers, 0)
				}
				if lerr == nil && got == nil {
					viol("C09:lookup-nil-nil|backend="+b.name, b, oi, nil)
					continue
				}
				rec := m.recs[tid]
				if rec == nil {
					if resolved {
						kind := "phantom"
						if m.removed[tid] {
							kind = "stale-after-remove"
						}
						viol("C09:"+kind+"|backend="+b.name, b, oi, map[string]any{"got": c09Brief(got)})
					} else if m.removed[tid] {
						run.Count("removal_observed|"+b.name, 1)
					} else {
						run.Count("unregistered_observed|"+b.name, 1)
					}
					continue
				}
				before := ret.Add(c09Eps).Before(rec.regCall.Add(ttl))
				after := call.After(rec.regRet.Add(ttl + c09Eps))
				if !clockOK() {
					before, after = false, false
					run.Count("clock_step_tolerated", 1)
				}
				switch {
				case after:
					if resolved {
						viol("C09:stale-after-expiry|backend="+b.name, b, oi, map[string]any{
							"got": c09Brief(got), "registered_return_to_lookup_call_ms": call.Sub(rec.regRet).Milliseconds(), "ttl_ms": ttl.Milliseconds()})
					} else {
						run.Count("expiry_observed|"+b.name, 1)
					}
					continue
				case before:
					if !resolved {
						viol("C09:lost-while-waiting|backend="+b.name, b, oi, map[string]any{
							"tid_shape": h.tidShape[op.Tid], "error": lerr.Error(), "want": c09Brief(&rec.want), "register_call_to_lookup_return_ms": ret.Sub(rec.regCall).Milliseconds()})
						continue
					}
					run.Count("hit_certain|"+b.name, 1)
					if h.Family != "" && len(m.recs) >= 2 {
						run.Count("hit_own_record_while_colliding_family_waits|"+b.name, 1)
						if len(m.removed) > 0 {
							run.Count("hit_after_family_sibling_removed|"+b.name, 1)
						}
					}
					if !rec.prevRet.IsZero() && call.After(rec.prevRet.Add(ttl+c09Eps)) {
						// resolved although the deadline of the superseded (identical) register has certainly passed
						run.Count("hit_past_superseded_deadline|"+b.name, 1)
					}
					if op.Node != c09NodeIndex(h, rec.want.SourceNodeID) {
						run.Count("hit_from_other_node|"+b.name, 1)
					}
				default:
					run.Count("lookup_uncertain_tolerated", 1)
					if !resolved {
						continue
					}
				}
				// resolved (certainly-before or tolerated): must be exactly what was registered
				if got.TunnelID != tid {
					// one signature for "the id resolved to ANOTHER tunnel's record" (key collision)
					viol("C09:resolved-to-other-tunnel|backend="+b.name, b, oi, map[string]any{
						"looked_up": c09Clip(tid), "got": c09Brief(got), "want": c09Brief(&rec.want), "id_family": h.Family})
					continue
				}
				if diff := c09FieldDiff(got, &rec.want); len(diff) > 0 {
					for _, f := range diff {
						shape := rec.shapes[f]
						if shape == "" {
							shape = "-"
						}
						viol("C09:field-mismatch|backend="+b.name+"|field="+f+"|shape="+shape, b, oi, map[string]any{
							"got": c09Brief(got), "want": c09Brief(&rec.want)})
					}
					continue
				}
				for f, shape := range rec.shapes {
					_ = f
					run.Count("shape_ok|"+shape+"|"+b.name, 1)
				}
			case "reg-addr":
				nodeID := h.nodeIDs[op.Tid]
				var rerr error
				if run.Guard("C09:reg-addr|backend="+b.name, h.describe(), func() { rerr = rt.RegisterNodeAddress(nodeID, op.addr) }) {
					continue
				}
				run.Count("op_reg_addr", 1)
				if rerr != nil {
					viol("C09:reg-addr-error|backend="+b.name, b, oi, map[string]any{"error": rerr.Error()})
					continue
				}
				m.addrs[nodeID] = op.addr
			case "get-addr":
				nodeID := h.nodeIDs[op.Tid]
				var got string
				var gerr error
				if run.Guard("C09:get-addr|backend="+b.name, h.describe(), func() { got, gerr = rt.GetNodeAddress(nodeID) }) {
					continue
				}
				run.Count("op_get_addr", 1)
				want, ok := m.addrs[nodeID]
				switch {
				case !ok:
					if gerr == nil {
						viol("C09:addr-phantom|backend="+b.name, b, oi, map[string]any{"got": c09Clip(got)})
					}
				case want == "":
					// an empty address is no address: error or "" are both fine, anything else is wrong
					if gerr == nil && got != "" {
						viol("C09:addr-mismatch|backend="+b.name, b, oi, map[string]any{"got": c09Clip(got), "want": "\"\""})
					}
				case gerr != nil:
					viol("C09:addr-lost|backend="+b.name, b, oi, map[string]any{"error": gerr.Error(), "want": c09Clip(want)})
				case got != want:
					viol("C09:addr-mismatch|backend="+b.name, b, oi, map[string]any{"got": c09Clip(got), "want": c09Clip(want)})
				default:
					run.Count("addr_ok|"+b.name, 1)
				}
			}
		}
		if op.Kind == "lookup" && len(answers) == len(env.backends) {
			if c09AllSame(answers) {
				run.Count("differential_lookups_all_backends_agree", 1)
			} else {
				// only possible inside the tolerated band (or together with a violation above)
				run.Count("differential_lookups_disagree", 1)
			}
		}
	}
}

func c09AllSame(a []int) bool {
	for _, v := range a {
		if v != a[0] {
			return false
		}
	}
	return true
}

func c09NodeIndex(h *c09History, nodeID string) int {
	for i, id := range h.nodeIDs {
		if id == nodeID {
			return i
		}
	}
	return -1
}

func TestVerifC09Histories(t *testing.T) {
	vk.Quiet()
	run := vk.Start(t, "C09", "routing-histories")
	defer run.Finish()
	run.Rule("seeded histories of register/lookup/remove/wait/re-register (new data, and the IDENTICAL record again part-way through the TTL)/node-address ops over 1-5 tunnel ids (hostile strings, near-colliding ids) and 2-3 RoutingTable nodes; every third history draws its ids from one family of distinct ids that collide under a plausible normalisation (case, trim/pad, separators, non-ASCII, numeric padding, truncation at 8..255 chars, unicode forms, escaping) with all members waiting at once; " +
		"executed in lockstep on 6 backend configurations (memory, redis/miniredis clock mirrored, redis/miniredis clock frozen, hybrid(memory), hybrid(memory+shared miniredis) mirrored and frozen); " +
		"history i uses value shape i mod |shapes| as primary shape, the first |shapes| histories follow a fixed template; distinct = (backend, primary shape, op-kind sequence)")
	n := run.Pick(400, 5000)
	gen := run.Rand("histories")
	hs := make([]*c09History, n)
	for i := range hs {
		hs[i] = c09GenHistory(gen, i)
	}
	for i := 0; i < 3 && i < len(hs); i++ {
		run.Sample(hs[len(c09Shapes)+i].describe())
	}
	const workers = 4
	var wg sync.WaitGroup
	ch := make(chan *c09History)
	for w := 0; w < workers; w++ {
		wg.Add(1)
		go func() {
			defer wg.Done()
			for h := range ch {
				run.Case(fmt.Sprintf("history-%d", h.Index), h.describe())
				c09RunHistory(run, h, c09TTL)
				run.Eval(1)
				k := h.kinds()
				for _, b := range c09BackendNames {
					run.Distinct(b + "|" + h.Primary + "|" + k)
				}
			}
		}()
	}
	for _, h := range hs {
		if run.Violations() > 20 {
			break
		}
		ch <- h
	}
	close(ch)
	wg.Wait()

	for _, b := range c09BackendNames {
		run.Floor("hit_certain|"+b, int64(n))
		run.Floor("hit_from_other_node|"+b, int64(n/3))
		run.Floor("expiry_observed|"+b, int64(n/3))
		run.Floor("removal_observed|"+b, int64(n/3))
		run.Floor("hit_own_record_while_colliding_family_waits|"+b, int64(n))
		run.Floor("hit_after_family_sibling_removed|"+b, int64(n/4))
		run.Floor("hit_past_superseded_deadline|"+b, int64(n/10))
		run.Floor("addr_ok|"+b, int64(n/5))
		for _, s := range c09Shapes {
			run.Floor("shape_ok|"+s.name+"|"+b, 1)
		}
	}
	if run.Counter("env_setup_failed") > int64(n/20) {
		run.Floor("env_setup_ok_enough", 1) // never reached: inconclusive
	}
}
