//go:build verif && verif_c16

package tunnel

import (
	"context"
	"fmt"
	"net"
	"testing"
	"time"

	"tunnox-core/internal/stream"
	vk "tunnox-core/internal/verifkit"
)

// C16 (server bridge, close while starting) — Bridge.Close called by K goroutines at the
// moment Bridge.Start launches its copy loops (the session closes a tunnel that has just
// been paired). Start must return, nothing may panic, nothing may be left running.
//
// Runs in its own process: a panic inside one of the goroutines Start() launches cannot
// be recovered by the harness, it terminates the test binary; the runner then attributes
// the crash to the case logged last (run.Case) and reports it as a violation.
func TestVerifC16BridgeStartRace(t *testing.T) {
	vk.Quiet()
	run := vk.Start(t, "C16", "bridge-start-race")
	defer run.Finish()
	run.Rule("trial = real Bridge with target already attached; Start() and K in {1,2,4,12} Close() callers released together from a spin barrier with seeded spins (Start first / Close first / interleaved); distinct = (K, who entered first, overlap observed)")
	r := run.Rand("trials")
	n := run.Pick(3000, 30000)
	ks := []int{1, 2, 4, 12}
	run.Floor("overlap_runs", 100)
	run.Floor("start_returned", 100)
	scope := []string{"tunnox-core/internal/protocol/session/tunnel", "tunnox-core/internal/stream"}
	batch := 250
	for done := 0; done < n && run.Violations() < 20 && run.Counter("leak_violations") < 3 && run.Counter("watchdog") < 3; done += batch {
		snap := vk.SnapshotGoroutines()
		type rec struct {
			tc   *c16TunnelConn
			br   *Bridge
			desc map[string]any
		}
		var recs []rec
		var cleanup []func()
		for b := 0; b < batch && done+b < n && run.Counter("leak_violations") < 3 && run.Counter("watchdog") < 3; b++ {
			k := ks[r.Intn(len(ks))]
			spins := make([]int, k+1)
			for i := range spins {
				switch r.Intn(3) {
				case 0:
					spins[i] = r.Intn(300)
				case 1:
					spins[i] = r.Intn(5000)
				}
			}
			desc := map[string]any{"trial": done + b, "K": k, "spins": spins}
			run.Case("C16:bridge|close-during-start", desc)
			run.Eval(1)
			pctx, cancel := context.WithCancel(context.Background())
			srcFar, srcNear := net.Pipe()
			tgtFar, tgtNear := net.Pipe()
			br := NewBridge(pctx, &BridgeConfig{TunnelID: fmt.Sprintf("c16s-%d", done+b), MappingID: "c16-map", ClientID: 7,
				SourceConn: srcNear, SourceStream: stream.NewStreamProcessor(srcNear, srcNear, pctx), CloudControl: &c16Cloud{}})
			tc := &c16TunnelConn{conn: tgtNear, st: stream.NewStreamProcessor(tgtNear, tgtNear, pctx)}
			br.SetTargetConnection(tc)
			fns := make([]func(), 0, k+1)
			for i := 0; i < k; i++ {
				fns = append(fns, func() { _ = br.Close() })
			}
			started := make(chan struct{})
			fns = append(fns, func() { defer close(started); _ = br.Start() })
			var parked []string
			maxIn, ok, hung := c16RunRaceHang(fns, k, spins, func() bool { // returns when Start() has returned too
				fp, stable := c16ParkedFingerprint(snap, scope)
				parked = fp
				return stable
			})
			cleanup = append(cleanup, func() { srcFar.Close(); tgtFar.Close(); cancel() })
			if hung {
				// every Close has returned, Start() has not, and the bridge's goroutines sit in
				// the same frames in three dumps 100 ms apart while the harness feeds nothing
				run.Violation("C16:bridge|close-during-start|start-does-not-return-after-close", map[string]any{"case": desc, "parked": parked})
				run.Count("leak_violations", 1)
				srcFar.Close()
				tgtFar.Close()
				cancel()
				snap = vk.SnapshotGoroutines()
				continue
			}
			if !ok {
				run.Count("watchdog", 1)
				continue
			}
			run.Count("start_returned", 1)
			run.Max("max_concurrent_closers", int64(maxIn))
			if maxIn >= 2 {
				run.Count("overlap_runs", 1)
			}
			run.Distinct(fmt.Sprintf("K=%d|overlap=%v|startspin=%d", k, maxIn >= 2, spins[k]/1000))
			recs = append(recs, rec{tc, br, desc})
		}
		for _, f := range cleanup {
			f()
		}
		if l := snap.Leaked(scope, nil, 2*time.Second); len(l) > 0 {
			sum := vk.FrameSummary(l)
			run.Violation("C16:bridge|close-during-start|goroutine-left|"+c16LeakFn(l[0]), map[string]any{"batch_start": done, "leaked": len(l), "frames": sum, "stack": l[0].Stack})
			run.Count("leak_violations", 1) // after 3 the test stops: every further trial would wait the full poll interval
		}
		run.Count("leak_checks", 1)
		for _, rc := range recs {
			if got := rc.tc.closes.Load(); got != 1 {
				run.Violation(fmt.Sprintf("C16:bridge|close-during-start|target-conn-close-runs=%d", got), map[string]any{"case": rc.desc})
			}
			if !rc.br.IsClosed() {
				run.Violation("C16:bridge|close-during-start|not-closed-after-close", map[string]any{"case": rc.desc})
			}
		}
	}
}
