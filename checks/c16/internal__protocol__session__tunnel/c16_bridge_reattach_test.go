//go:build verif && verif_c16

package tunnel

import (
	"context"
	"fmt"
	"net"
	"runtime"
	"sync/atomic"
	"testing"
	"time"

	"tunnox-core/internal/stream"
	vk "tunnox-core/internal/verifkit"
)

// C16 (server bridge, source re-attached while forwarding) — the source side reconnects:
// SetSourceConnection hands the running bridge a NEW source connection. Transports are
// either TCP-like (GetNetConn() != nil) or stream-only (GetNetConn() == nil: WebSocket /
// long-polling style, only a PackageStreamer). Then the bridge is closed by K goroutines.
// After the last Close has returned every connection ever handed to the bridge is closed
// (transport Close counter >= 1), Start has returned, nothing is left running.

type c16Transport struct {
	c      net.Conn
	closes atomic.Int32
}

func (t *c16Transport) Read(p []byte) (int, error)  { return t.c.Read(p) }
func (t *c16Transport) Write(p []byte) (int, error) { return t.c.Write(p) }
func (t *c16Transport) Close() error                { t.closes.Add(1); return t.c.Close() }

// c16SrcConn: a TunnelConnectionInterface whose Close closes its stream (and net.Conn, if any)
type c16SrcConn struct {
	id   string
	nc   net.Conn // nil for stream-only transports
	st   stream.PackageStreamer
	done atomic.Int32
}

func (c *c16SrcConn) GetConnectionID() string           { return c.id }
func (c *c16SrcConn) GetClientID() int64                { return 7 }
func (c *c16SrcConn) GetMappingID() string              { return "c16-map" }
func (c *c16SrcConn) GetTunnelID() string               { return "c16-tun" }
func (c *c16SrcConn) GetStream() stream.PackageStreamer { return c.st }
func (c *c16SrcConn) GetNetConn() net.Conn              { return c.nc }
func (c *c16SrcConn) IsClosed() bool                    { return c.done.Load() > 0 }
func (c *c16SrcConn) Close() error {
	c.done.Add(1)
	if c.st != nil {
		c.st.Close()
	}
	if c.nc != nil {
		return c.nc.Close()
	}
	return nil
}

func TestVerifC16BridgeSourceReattach(t *testing.T) {
	vk.Quiet()
	run := vk.Start(t, "C16", "bridge-source-reattach")
	defer run.Finish()
	run.Rule("trial = real running Bridge x source transports (old,new) each stream-only or TCP-like x 1-2 re-attachments via SetSourceConnection while forwarding x K in {1,2,4} Close callers; distinct = (old kind,new kind,reattachments,K)")
	r := run.Rand("trials")
	n := run.Pick(200, 2000)
	run.Floor("stream_only_source_replaced_while_forwarding", 50)
	run.Floor("bridges_judged", 100)
	scope := []string{"tunnox-core/internal/protocol/session/tunnel", "tunnox-core/internal/stream"}
	snap := vk.SnapshotGoroutines()
	for trial := 0; trial < n && run.Violations() < 20 && run.Counter("leak_violations") < 3 && run.Counter("conns_left_open") < 10; trial++ {
		k := []int{1, 2, 4}[r.Intn(3)]
		re := 1 + r.Intn(2)
		kinds := make([]bool, re+1) // true = stream-only
		for i := range kinds {
			kinds[i] = r.Intn(3) != 0
		}
		spins := make([]int, k)
		for i := range spins {
			if r.Intn(2) == 0 {
				spins[i] = r.Intn(400)
			}
		}
		desc := map[string]any{"trial": trial, "K": k, "reattachments": re, "source_stream_only": kinds, "spins": spins}
		run.Case("C16:bridge|source-reattach", desc)
		run.Eval(1)
		pctx, cancel := context.WithCancel(context.Background())
		type handed struct {
			what string
			tr   *c16Transport
			far  net.Conn
		}
		var all []handed
		mkSrc := func(i int) *c16SrcConn {
			near, far := net.Pipe()
			tr := &c16Transport{c: near}
			sc := &c16SrcConn{id: fmt.Sprintf("src-%d", i), st: stream.NewStreamProcessor(tr, tr, pctx)}
			if !kinds[i] {
				sc.nc = &c16CountConn{Conn: near}
			}
			all = append(all, handed{fmt.Sprintf("source#%d|stream-only=%v", i, kinds[i]), tr, far})
			return sc
		}
		src0 := mkSrc(0)
		br := NewBridge(pctx, &BridgeConfig{TunnelID: fmt.Sprintf("c16ra-%d", trial), MappingID: "c16-map", ClientID: 7, SourceTunnelConn: src0, CloudControl: &c16Cloud{}})
		tgtNear, tgtFar := net.Pipe()
		ttr := &c16Transport{c: tgtNear}
		all = append(all, handed{"target", ttr, tgtFar})
		br.SetTargetConnection(&c16SrcConn{id: "tgt", st: stream.NewStreamProcessor(ttr, ttr, pctx)})
		startDone := make(chan struct{})
		go func() { defer close(startDone); _ = br.Start() }()
		// forwarding is running once a probe byte from the first source reached the target
		var got atomic.Int64
		go func() {
			buf := make([]byte, 4096)
			for {
				nn, err := tgtFar.Read(buf)
				got.Add(int64(nn))
				if err != nil {
					return
				}
			}
		}()
		ok := true
		var sent int64
		probe := func(far net.Conn) {
			sent++
			want := sent
			go far.Write([]byte{1})
			dl := time.Now().Add(3 * time.Second)
			for got.Load() < want {
				runtime.Gosched()
				if time.Now().After(dl) {
					// not a verdict: the bridge is closed and judged all the same
					run.Count("probe_not_forwarded", 1)
					sent = got.Load()
					return
				}
			}
		}
		probe(all[0].far)
		for i := 1; i <= re && ok; i++ {
			if kinds[i-1] && kinds[i] {
				run.Count("stream_only_source_replaced_while_forwarding", 1)
			}
			ns := mkSrc(i)
			br.SetSourceConnection(ns)
			if r.Intn(2) == 0 {
				probe(all[len(all)-1].far) // the new source carries traffic too
			}
		}
		if ok {
			fns := make([]func(), k)
			for i := range fns {
				fns[i] = func() { _ = br.Close() }
			}
			_, ok = c16RunRace(fns, k, spins)
		}
		if !ok {
			run.Count("watchdog", 1)
			for _, h := range all {
				h.far.Close()
				h.tr.c.Close()
			}
			cancel()
			snap = vk.SnapshotGoroutines()
			continue
		}
		run.Count("bridges_judged", 1)
		run.Distinct(fmt.Sprintf("kinds=%v|K=%d", kinds, k))
		// ---- oracle: when the last Close has returned --------------------------------------
		open := []string{}
		for _, h := range all {
			if h.tr.closes.Load() == 0 {
				open = append(open, h.what)
			}
		}
		if len(open) > 0 {
			run.Count("conns_left_open", 1)
			first := open[0]
			if i := indexByte(first, '#'); i > 0 {
				first = first[:i] + first[i+2:] // drop the ordinal
			}
			run.Violation("C16:bridge|source-reattach|conn-left-open-after-last-close|"+first, map[string]any{"case": desc, "never_closed": open})
		}
		for _, h := range all { // unblock whatever is pending
			h.far.Close()
			h.tr.c.Close()
		}
		cancel()
		select {
		case <-startDone:
		case <-time.After(20 * time.Second):
			run.Count("watchdog", 1)
			snap = vk.SnapshotGoroutines()
			continue
		}
		if l := snap.Leaked(scope, nil, 2*time.Second); len(l) > 0 {
			run.Violation("C16:bridge|source-reattach|goroutine-left|"+c16LeakFn(l[0]), map[string]any{"case": desc, "frames": vk.FrameSummary(l), "stack": l[0].Stack})
			run.Count("leak_violations", 1)
			snap = vk.SnapshotGoroutines()
		}
	}
}

func indexByte(s string, b byte) int {
	for i := 0; i < len(s); i++ {
		if s[i] == b {
			return i
		}
	}
	return -1
}
