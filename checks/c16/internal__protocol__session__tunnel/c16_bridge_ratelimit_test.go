//go:build verif && verif_c16

package tunnel

import (
	"context"
	"fmt"
	"net"
	"runtime"
	"sort"
	"strings"
	"sync/atomic"
	"testing"
	"time"

	"tunnox-core/internal/stream"
	vk "tunnox-core/internal/verifkit"
)

// C16 (server bridge, bandwidth-limited) — a bridge with BandwidthLimit > 0 is closed while
// a chunk that is larger than the limiter's burst is waiting for tokens inside the copy
// loop. Close (and parent-context cancellation) must interrupt that wait: Start returns
// and nothing of the bridge is left running — in particular no goroutine that sleeps on a
// timer inside the bridge's copy path after Close has returned.
//
// The "waiting for tokens" window is established logically: the peer's single Write of the
// chunk has returned (the bridge has read it) while the other far end has received at most
// the burst.

func TestVerifC16BridgeRateLimited(t *testing.T) {
	vk.Quiet()
	run := vk.Start(t, "C16", "bridge-rate-limited")
	defer run.Finish()
	run.Rule("trial = real Bridge with BandwidthLimit in {2000,5000,8000} B/s (burst = 2x) x one chunk of 3-8x the burst in either direction x K in {1,2,4} Close callers (+ parent cancel) released while the chunk waits for tokens; distinct = (limit, direction, K, cancel)")
	r := run.Rand("trials")
	n := run.Pick(60, 600)
	run.Floor("closed_while_chunk_waited_for_tokens", 30)
	scope := []string{"tunnox-core/internal/protocol/session/tunnel", "tunnox-core/internal/stream"}
	snap := vk.SnapshotGoroutines()
	for trial := 0; trial < n && run.Violations() < 20 && run.Counter("leak_violations") < 3 && run.Counter("watchdog") < 3; trial++ {
		limit := []int64{2000, 5000, 8000}[r.Intn(3)]
		burst := int(2 * limit)
		chunk := burst * (3 + r.Intn(6))
		if chunk > 32*1024 {
			chunk = 32 * 1024 // one Read of the copy loop (32 KB buffer)
		}
		s2t := r.Intn(2) == 0
		k := []int{1, 2, 4}[r.Intn(3)]
		withCancel := r.Intn(3) == 0
		spins := make([]int, k+1)
		for i := range spins {
			if r.Intn(2) == 0 {
				spins[i] = r.Intn(500)
			}
		}
		desc := map[string]any{"trial": trial, "bandwidth_limit": limit, "burst": burst, "chunk": chunk, "source_to_target": s2t, "K": k, "parent_cancel": withCancel, "spins": spins}
		run.Case("C16:bridge|rate-limited-close", desc)
		run.Eval(1)
		pctx, cancel := context.WithCancel(context.Background())
		srcFar, srcNear := net.Pipe()
		tgtFar, tgtNear := net.Pipe()
		br := NewBridge(pctx, &BridgeConfig{TunnelID: fmt.Sprintf("c16rl-%d", trial), MappingID: "c16-map", ClientID: 7,
			SourceConn: srcNear, SourceStream: stream.NewStreamProcessor(srcNear, srcNear, pctx), BandwidthLimit: limit, CloudControl: &c16Cloud{}})
		tc := &c16TunnelConn{conn: tgtNear, st: stream.NewStreamProcessor(tgtNear, tgtNear, pctx)}
		br.SetTargetConnection(tc)
		startDone := make(chan struct{})
		go func() { defer close(startDone); _ = br.Start() }()
		in, out := srcFar, tgtFar
		if !s2t {
			in, out = tgtFar, srcFar
		}
		var got atomic.Int64
		var written atomic.Bool
		go func() {
			buf := make([]byte, 64*1024)
			for {
				nn, err := out.Read(buf)
				got.Add(int64(nn))
				if err != nil {
					return
				}
			}
		}()
		go func() { in.Write(make([]byte, chunk)); written.Store(true) }()
		// window: the bridge has taken the whole chunk, the other side has seen at most the burst
		dl := time.Now().Add(10 * time.Second)
		for !written.Load() && time.Now().Before(dl) {
			runtime.Gosched()
		}
		inWindow := written.Load() && got.Load() < int64(chunk)
		fns := make([]func(), 0, k+1)
		for i := 0; i < k; i++ {
			fns = append(fns, func() { _ = br.Close() })
		}
		if withCancel {
			fns = append(fns, cancel)
		}
		_, ok := c16RunRace(fns, k, spins)
		if inWindow && got.Load() < int64(chunk) {
			run.Count("closed_while_chunk_waited_for_tokens", 1)
		}
		srcFar.Close()
		tgtFar.Close()
		cancel()
		if !ok {
			run.Count("watchdog", 1)
			continue
		}
		run.Distinct(fmt.Sprintf("limit=%d|s2t=%v|K=%d|cancel=%v|window=%v", limit, s2t, k, withCancel, inWindow))
		// Start must return now; if it has not after a short grace, decide logically
		select {
		case <-startDone:
		case <-time.After(time.Second):
			if sl := c16SleepingInBridge(snap); len(sl) > 0 {
				run.Violation("C16:bridge|rate-limited|goroutine-sleeping-in-copy-path-after-close", map[string]any{"case": desc, "goroutines": sl})
				run.Count("leak_violations", 1)
				snap = vk.SnapshotGoroutines() // abandon them (they wake up by themselves later)
				continue
			}
			select {
			case <-startDone:
			case <-time.After(20 * time.Second):
				run.Count("watchdog", 1)
				snap = vk.SnapshotGoroutines()
				continue
			}
		}
		if l := snap.Leaked(scope, nil, 2*time.Second); len(l) > 0 {
			run.Violation("C16:bridge|rate-limited|goroutine-left|"+c16LeakFn(l[0]), map[string]any{"case": desc, "frames": vk.FrameSummary(l), "stack": l[0].Stack})
			run.Count("leak_violations", 1)
			snap = vk.SnapshotGoroutines()
		}
		if got := tc.closes.Load(); got != 1 {
			run.Violation(fmt.Sprintf("C16:bridge|rate-limited|target-conn-close-runs=%d", got), map[string]any{"case": desc})
		}
	}
}

// c16SleepingInBridge: goroutines created since snap that are in state "sleep" (parked on a
// timer of their own) with a Bridge method on their stack, the same ones in three dumps
// 100 ms apart. After Close has returned such a goroutine is "a goroutine or timer started
// by the component that remains"; nothing but its own timer will ever wake it.
func c16SleepingInBridge(snap vk.LeakSnapshot) []string {
	var prev []string
	var stacks []string
	for round := 0; round < 3; round++ {
		if round > 0 {
			time.Sleep(100 * time.Millisecond)
		}
		var cur []string
		stacks = stacks[:0]
		for _, g := range vk.Goroutines() {
			if _, old := snap[g.ID]; old {
				continue
			}
			if strings.HasPrefix(g.State, "sleep") && strings.Contains(g.Stack, "session/tunnel.(*Bridge).") {
				cur = append(cur, g.ID)
				st := g.Stack
				if len(st) > 1200 {
					st = st[:1200]
				}
				stacks = append(stacks, st)
			}
		}
		sort.Strings(cur)
		if len(cur) == 0 || (round > 0 && strings.Join(cur, ",") != strings.Join(prev, ",")) {
			return nil
		}
		prev = cur
	}
	return stacks
}
